/-
Driver for C07. One case = three requests (clean warm-up, the request under test with a fault
injected at ONE plugin, a following request) against a real Adaptation with `n` plugins
`a`,`b`,`c` (indices 10,20,30), written by harness/c07.

`agree`: the per-plugin outcome the fault produces (for corrupted bytes: the outcome class the
harness observed) is fed to the model (`Dispatch.request`, twice); invocation logs, replies,
error class and who is still invoked afterwards must be what the model computes.
`spec`: the property evaluated on the observation itself: no crash, no hang, wall time within
n × timeout + slack, a transport fault never fails the request, the other plugins'
contributions are intact, the failed plugin is not invoked again, a handler error fails the
request with that error, invokes nobody later and returns nothing.
-/
import Driver.Common
import Driver.C06
import NriModel.Dispatch
open Lean Drv Nri Nri.Events Nri.Dispatch
open Drv.C06 (PSpec Inv Res decInv decRes contrib showItems merger mkPlugin hasReply lenClass)

namespace Drv.C07

def hasSub (s t : String) : Bool := (s.splitOn t).length > 1

/-- what the error a request fails with must show when the handler of plugin `me` returned the
    error value `as` for request `rid`: (status code name, description) -/
def herrShows (as me rid : String) (ev : Nat) : String × String :=
  let veto := s!"veto:{me}:{rid}:{ev}"
  match as with
  | "ctx-deadline" => ("DeadlineExceeded", "context deadline exceeded")
  | "ctx-canceled" => ("Canceled", "context canceled")
  | "st-deadline" => ("DeadlineExceeded", veto)
  | "st-unavailable" => ("Unavailable", veto)
  | "st-exhausted" => ("ResourceExhausted", veto)
  | "st-canceled" => ("Canceled", veto)
  | "ttrpc-closed" => ("Unknown", "ttrpc: closed")
  | "ttrpc-server-closed" => ("Unknown", "ttrpc: server closed")
  | "ttrpc-protocol" => ("Unknown", "protocol error")
  | "unexpected-eof" => ("FailedPrecondition", "unexpected EOF")
  | "eof" => ("OutOfRange", "EOF")
  | "proto-text" => ("Unknown", "proto: cannot parse invalid wire-format data (" ++ veto ++ ")")
  | _ => ("Unknown", veto)

/-- the request failed with exactly the handler's error -/
def carriesHandlerErr (r : Res) (as me rid : String) (ev : Nat) : Bool :=
  let (code, desc) := herrShows as me rid ev
  r.err == "veto" && hasSub r.errtext ("code = " ++ code ++ " desc = " ++ desc)

structure RObs where
  res : Res
  log : List Inv
  wall : Nat

def decRObs (j : Json) : Except String RObs := do
  pure { res := ← decRes (← getObj j "res"), log := ← (← getArr j "log").mapM decInv, wall := getNatD j "wall_ms" }

def pname (i : Nat) : String := ["a", "b", "c", "d", "e"].getD i "?"
def pidx (i : Nat) : String := toString (10 * (i + 1))

def specs (n : Nat) : List PSpec :=
  (List.range n).map fun i => { id := i, idx := pidx i, name := pname i, mask := 0, veto := 0, clash := 0, raw := false }

inductive Class | ok | dropped | err
  deriving DecidableEq, Repr

def Class.str : Class → String
  | .ok => "ok" | .dropped => "dropped" | .err => "error"

/-- model call of the faulty plugin for an outcome class -/
def faultyCall (s : PSpec) (ev : Nat) (rid : String) (c : Class) (reached : Bool) (T : Nat) (late : Bool) :
    Call C06.Items :=
  match c with
  | .ok => { out := .ok (contrib s ev rid), reached := true, cost := 0 }
  | .err => { out := .handlerErr (S s.name), reached := reached, cost := 0 }
  | .dropped =>
    if late then { out := .ok (contrib s ev rid), reached := reached, cost := T + 1 }   -- answers after the deadline
    else { out := .fatal .closed, reached := reached, cost := 0 }

structure Expect where
  handled : List String
  err : String
  items : List String
  isNil : Bool
  after : List Plugin

def runModel (sp : List PSpec) (ps : List Plugin) (ev : Nat) (rid : String) (faulty : Nat)
    (fc : Call C06.Items) (T : Nat) : Expect :=
  let pcs := ps.map fun p =>
    if p.id == faulty then (p, fc)
    else (p, ({ out := .ok (contrib (C06.specOf sp p.id) ev rid), reached := true, cost := 0 } : Call C06.Items))
  let (res, tr, after) := request merger T ev pcs
  let handled := tr.handled.map (U ·.name)
  match res with
  | .ok items => { handled, err := "", items, isNil := !hasReply ev, after }
  | .error _ => { handled, err := "error", items := [], isNil := true, after }

def cmp (what : String) (e : Expect) (o : RObs) (skipItems : Bool := false) : Option String :=
  let names := o.log.map (·.p)
  let oerr := if o.res.err == "" then "" else "error"
  if e.handled != names then some s!"{what}: invocations: model {e.handled} impl {names}"
  else if e.err != oerr then some s!"{what}: model '{e.err}' impl '{o.res.err}' ({o.res.errtext})"
  else if !skipItems && e.items != o.res.items then some s!"{what}: reply: model {e.items} impl {o.res.items}"
  else if e.isNil != o.res.isNil then some s!"{what}: reply nil: model {e.isNil} impl {o.res.isNil}"
  else none

def judgeFault (inp obs : Json) : Except String Verdict := do
  let ev ← getNat inp "ev"
  let pos ← getNat inp "pos"
  let n := if getNatD inp "n" == 0 then 3 else getNatD inp "n"
  let f ← getObj inp "fault"
  let kind ← getStr f "kind"
  let dir := getStrD f "dir"
  let as := getStrD f "as"
  let off := getNatD f "off"
  let T := getNatD inp "timeout_ms"
  let slack := getNatD inp "slack_ms"
  let fail := getStrD obs "fail"
  let tag := if dir == "" then (if as == "" then kind else kind ++ ":" ++ as) else kind ++ ":" ++ dir
  let cov0 := ["fault:" ++ tag, s!"pos:{pos}", s!"ev:{ev}", if getBoolD inp "raw" then "plugin:raw" else "plugin:stub"]
  if fail == "crashed" || fail == "blocked" then
    return { agree := false, spec := false, sig := s!"C07:{fail}:{tag}", cover := fail :: cov0, nontrivial := true,
             why := s!"fault {tag} at offset {off}, plugin {pos}, event {ev}: the runtime process {fail}: {getStrD obs "panic"}" }
  if fail != "" then
    return { agree := false, spec := true, why := s!"harness: {fail}", cover := "harness-fail" :: cov0 }
  let warm ← decRObs (← getObj obs "warm")
  let flt ← decRObs (← getObj obs "fault")
  let nxt ← decRObs (← getObj obs "next")
  let fired := getBoolD obs "fired"
  let r2p := getNatD obs "r2p"
  let sp := specs n
  let me := pname pos
  let healthy := sp.filter (·.id != pos)
  let meSpec := C06.specOf sp pos
  let itemsOf (l : List PSpec) (rid : String) := showItems (l.flatMap fun p => contrib p ev rid)
  let names (o : RObs) := o.log.map (·.p)
  let where_ := s!"fault {tag}" ++ (if dir == "" then "" else s!" at offset {off}") ++ s!", plugin {me} of {n}, event {ev}"
  -- precondition: the clean exchange is clean (otherwise the case says nothing)
  if names warm != sp.map (·.name) || warm.res.err != "" || warm.res.items != itemsOf sp "warm." then
    return { agree := false, spec := true, cover := "warmup-failed" :: cov0,
             why := s!"{where_}: warm-up request not clean: {names warm} {warm.res.err} {warm.res.items}" }
  -- ---- outcome class of the faulty plugin's call, as observed
  let contributed (o : RObs) (rid : String) : Bool :=
    (contrib meSpec ev rid).all fun (k, v) => o.res.items.contains (k ++ "=" ++ v)
  let hasContrib := !(contrib meSpec ev "x").isEmpty
  let obsClass (o : RObs) (rid : String) (dropNext : Bool) : Class :=
    if o.res.err != "" then .err       -- the other plugins are healthy: only this one can fail it
    else if hasContrib then (if contributed o rid then .ok else .dropped)
    else (if dropNext then .dropped else .ok)
  let inNext := (names nxt).contains me
  -- ---- what the fault kind determines
  let transport := (kind == "cut" && fired) || (kind == "stall" && fired) || kind == "stop-before" ||
                   kind == "kill-before" || kind == "kill-during" || kind == "hang"
  let clean := kind == "none" || kind == "slow" || ((kind == "cut" || kind == "stall") && !fired) || kind == "kill-after"
  let isCorrupt := kind == "corrupt"
  let predicted : Option Class :=
    if transport then some .dropped else if clean then some .ok else if kind == "herr" then some .err else none
  -- corrupted bytes that decode to a different but well-formed reply: the plugin answered, its
  -- contribution is whatever the bytes now say
  let altered := isCorrupt && flt.res.err == "" && hasContrib && !contributed flt "fault" && inNext
  let oc := if altered then Class.ok else obsClass flt "fault" (!inNext)
  let cls := predicted.getD oc
  let reachedObs := (names flt).contains me
  let reached : Bool :=
    if isCorrupt then reachedObs
    else if kind == "cut" || kind == "stall" then (if dir == "r2p" then off ≥ r2p else true)
    else if kind == "stop-before" || kind == "kill-before" then false
    else true
  let late := kind == "hang" || kind == "stall" || (isCorrupt && flt.wall ≥ T)
  -- ---- model
  let ps0 : List Plugin := sp.foldl (fun ps s => activate ps (mkPlugin s)) []
  -- a plugin closed before the request: its entry is marked closed, the call fails at once
  let e1 := runModel sp ps0 ev "fault" pos (faultyCall meSpec ev "fault" cls reached T late) T
  let d1 := cmp "request under test" e1 flt altered
  -- between the two requests
  let ps2 := if kind == "kill-after" then disconnect e1.after pos else e1.after
  let nextCls : Class :=
    if isCorrupt then (if nxt.res.err != "" then .err else if inNext then .ok else .dropped)      -- observed
    else .ok                                                  -- a surviving plugin answers normally
  let stillDeaf := false
  let e2 := runModel sp ps2 ev "next." pos
    (faultyCall meSpec ev "next." nextCls (if isCorrupt then inNext else true) T false) T
  let d2 := cmp "following request" e2 nxt
  let dis := d1 <|> d2
  -- ---- the property on the observation
  let bad (sig why : String) : Option (String × String) := some (sig, s!"{where_}: {why}")
  let bound := n * T + slack
  let mut spf : Option (String × String) := none
  if flt.wall > bound then
    spf := spf <|> bad s!"{tag}:too-slow" s!"the request took {flt.wall} ms (bound {n}×{T}+{slack})"
  if nxt.wall > bound then
    spf := spf <|> bad s!"{tag}:next-too-slow" s!"the following request took {nxt.wall} ms"
  let ordered (o : RObs) : Bool :=
    C06.dupFree (names o) && C06.nondecreasing ((names o).map fun nm => (sp.find? (·.name == nm)).map (fun s => C06.idxNum s.idx) |>.getD 999)
  if !ordered flt || !ordered nxt then
    spf := spf <|> bad s!"{tag}:order" s!"invocations {names flt} then {names nxt}"
  if flt.log.any (fun i => i.r != "fault" || i.e != ev) || nxt.log.any (fun i => i.r != "next." || i.e != ev) then
    spf := spf <|> bad s!"{tag}:foreign-request" "a handler saw another request"
  let healthyNames := healthy.map (·.name)
  let before := (sp.filter (·.id < pos)).map (·.name)
  if transport || clean then
    -- nothing a plugin's transport does may fail the request or touch the others
    if flt.res.err != "" then
      spf := spf <|> bad s!"{tag}:request-failed:{flt.res.err}" s!"the request failed: {flt.res.errtext}"
    else
      let want := if transport then itemsOf healthy "fault" else itemsOf sp "fault"
      if flt.res.items != want then
        spf := spf <|> bad s!"{tag}:contributions" s!"reply {flt.res.items}, expected {want}"
      if !(healthyNames.all (names flt).contains) then
        spf := spf <|> bad s!"{tag}:healthy-not-invoked" s!"invoked {names flt}"
    let dropped := transport || kind == "kill-after"
    if dropped && inNext then
      spf := spf <|> bad s!"{tag}:invoked-again" s!"the failed plugin was invoked by the following request: {names nxt}"
    if nxt.res.err != "" then
      spf := spf <|> bad s!"{tag}:next-failed:{nxt.res.err}" s!"the following request failed: {nxt.res.errtext}"
    else
      let wantN := if dropped || stillDeaf then itemsOf healthy "next." else itemsOf sp "next."
      if nxt.res.items != wantN then
        spf := spf <|> bad s!"{tag}:next-contributions" s!"following reply {nxt.res.items}, expected {wantN}"
      if !(healthyNames.all (names nxt).contains) then
        spf := spf <|> bad s!"{tag}:healthy-dropped" s!"following request invoked {names nxt}"
  else if kind == "herr" then
    if !carriesHandlerErr flt.res as me "fault" ev then
      spf := spf <|> bad s!"{tag}:error-lost" s!"the handler's error ({(herrShows as me "fault" ev).1}: {(herrShows as me "fault" ev).2}) was not returned: '{flt.res.err}' {flt.res.errtext}"
    if names flt != before ++ [me] then
      spf := spf <|> bad s!"{tag}:continued" s!"invoked {names flt}, expected {before ++ [me]}"
    if !flt.res.isNil || !flt.res.items.isEmpty then
      spf := spf <|> bad s!"{tag}:partial-result" s!"a failed request returned {flt.res.items}"
    if names nxt != sp.map (·.name) || nxt.res.err != "" || nxt.res.items != itemsOf sp "next." then
      spf := spf <|> bad s!"{tag}:plugin-lost" s!"the vetoing plugin must stay: following request invoked {names nxt}, '{nxt.res.err}', {nxt.res.items}"
  else if isCorrupt then
    -- corrupted bytes: whatever they decode to, the other plugins must come through, and a
    -- reply the runtime could not decode must not fail the request
    if flt.res.err == "" then
      if !((itemsOf healthy "fault").all flt.res.items.contains) then
        spf := spf <|> bad s!"{tag}:contributions" s!"reply {flt.res.items} lacks the healthy plugins' contributions"
    else if flt.res.err != "veto" then
      spf := spf <|> bad s!"{tag}:request-failed:{flt.res.err}" s!"the request failed: {flt.res.errtext}"
    if nxt.res.err != "" && nxt.res.err != "veto" then
      spf := spf <|> bad s!"{tag}:next-failed:{nxt.res.err}" s!"the following request failed: {nxt.res.errtext}"
    if !(healthyNames.all (names nxt).contains) && nxt.res.err == "" then
      spf := spf <|> bad s!"{tag}:healthy-dropped" s!"following request invoked {names nxt}"
  else
    spf := spf <|> bad "unknown-fault-kind" kind
  -- corrupted bytes that decode to something well-formed are outside the property's domain
  let excluded := isCorrupt && (dir == "r2p" || flt.res.err == "veto" || (flt.res.err == "" && oc == .ok))
  let outcome := if flt.res.err == "" then oc.str else "request-" ++ flt.res.err
  pure { agree := dis.isNone, spec := spf.isNone || excluded,
         why := match spf, dis with
           | some (_, w), _ => w
           | none, some w => s!"{where_}: {w}"
           | none, none => "",
         sig := match spf with | some (s, _) => "C07:" ++ s | none => (if excluded then "corrupt-but-well-formed" else ""),
         excluded := excluded,
         cover := cov0 ++ ["outcome:" ++ tag ++ ":" ++ outcome, if fired then "fired" else "not-fired",
                           s!"retries:{getNatD obs "retries"}"] ++
                  (if flt.wall ≥ T then ["waited-for-timeout"] else []) ++ (if altered then ["corrupt:altered-reply"] else []),
         nontrivial := kind != "none" && (fired || dir == ""),
         model := Json.mkObj [("class", cls.str), ("handled", Json.arr (e1.handled.map Json.str).toArray)] }

/-! ### several faults in one request -/

structure MF where
  kind : String
  dir : String
  off : Nat
  as : String

def mfClass (f : MF) : Class :=
  if f.kind == "none" || f.kind == "slow" then .ok else if f.kind == "herr" then .err else .dropped

/-- does the request reach the handler -/
def mfReached (f : MF) : Bool :=
  !(f.kind == "kill-before" || f.kind == "stop-before" || ((f.kind == "cut" || f.kind == "stall") && f.dir == "r2p"))

def judgeMulti (inp obs : Json) : Except String Verdict := do
  let ev ← getNat inp "ev"
  let T := getNatD inp "timeout_ms"
  let slack := getNatD inp "slack_ms"
  let fs ← (← getArr inp "faults").mapM fun j => do
    pure ({ kind := ← getStr j "kind", dir := getStrD j "dir", off := getNatD j "off", as := getStrD j "as" } : MF)
  let n := fs.length
  let fail := getStrD obs "fail"
  let kinds := fs.map (·.kind)
  let cov0 := ["multi", s!"multi:n={n}", s!"ev:{ev}"] ++ (kinds.eraseDups.map ("multi:has:" ++ ·)) ++
    ((fs.filter (·.kind == "herr")).map fun f => "multi:herr-as:" ++ f.as)
  let where_ := s!"faults {kinds} on plugins a.. of {n}, event {ev}"
  if fail == "crashed" || fail == "blocked" then
    return { agree := false, spec := false, sig := s!"C07:{fail}:multi", cover := fail :: cov0, nontrivial := true,
             why := s!"{where_}: the runtime process {fail}: {getStrD obs "panic"}" }
  if fail != "" then
    return { agree := false, spec := true, why := s!"harness: {fail}", cover := "harness-fail" :: cov0 }
  let warm ← decRObs (← getObj obs "warm")
  let flt ← decRObs (← getObj obs "fault")
  let nxt ← decRObs (← getObj obs "next")
  let sp := specs n
  let names (o : RObs) := o.log.map (·.p)
  let itemsOf (l : List PSpec) (rid : String) := showItems (l.flatMap fun p => contrib p ev rid)
  if names warm != sp.map (·.name) || warm.res.err != "" || warm.res.items != itemsOf sp "warm." then
    return { agree := false, spec := true, cover := "warmup-failed" :: cov0,
             why := s!"{where_}: warm-up request not clean: {names warm} {warm.res.err} {warm.res.items}" }
  let pf := sp.zip fs
  -- ---- model
  let ps0 : List Plugin := sp.foldl (fun ps s => activate ps (mkPlugin s)) []
  let callOf (rid : String) (useFault : Bool) (p : Plugin) : Call C06.Items :=
    let s := C06.specOf sp p.id
    match (pf.find? (·.1.id == p.id)).map (·.2) with
    | some f =>
      if useFault then faultyCall s ev rid (mfClass f) (mfReached f) T (f.kind == "hang" || f.kind == "stall")
      else { out := .ok (contrib s ev rid), reached := true, cost := 0 }
    | none => { out := .ok (contrib s ev rid), reached := true, cost := 0 }
  let run (ps : List Plugin) (rid : String) (useFault : Bool) : Expect :=
    let (res, tr, after) := request merger T ev (ps.map fun p => (p, callOf rid useFault p))
    let handled := tr.handled.map (U ·.name)
    match res with
    | .ok items => { handled, err := "", items, isNil := !hasReply ev, after }
    | .error _ => { handled, err := "error", items := [], isNil := true, after }
  let e1 := run ps0 "fault" true
  -- plugins closed before the request stay dead even if the loop never got to them
  let deadBefore := (pf.filter fun (_, f) => f.kind == "kill-before" || f.kind == "stop-before").map (·.1.id)
  let ps2 := deadBefore.foldl (fun ps id => disconnect ps id) e1.after
  let e2 := run ps2 "next." false
  let dis := cmp "request under test" e1 flt <|> cmp "following request" e2 nxt
  -- ---- the property on the observation
  let bad (sig why : String) : Option (String × String) := some ("multi:" ++ sig, s!"{where_}: {why}")
  let bound := n * T + slack
  let mut spf : Option (String × String) := none
  if flt.wall > bound then spf := spf <|> bad "too-slow" s!"the request took {flt.wall} ms (bound {n}×{T}+{slack})"
  if nxt.wall > bound then spf := spf <|> bad "next-too-slow" s!"the following request took {nxt.wall} ms"
  let idxOfName (nm : String) : Nat := (sp.find? (·.name == nm)).map (fun s => C06.idxNum s.idx) |>.getD 999
  let ordered (o : RObs) : Bool := C06.dupFree (names o) && C06.nondecreasing ((names o).map idxOfName)
  if !ordered flt || !ordered nxt then spf := spf <|> bad "order" s!"invocations {names flt} then {names nxt}"
  if flt.log.any (fun i => i.r != "fault" || i.e != ev) || nxt.log.any (fun i => i.r != "next." || i.e != ev) then
    spf := spf <|> bad "foreign-request" "a handler saw another request"
  let firstErr := pf.find? fun (_, f) => f.kind == "herr"
  let okOnes := (pf.filter fun (_, f) => mfClass f == .ok).map (·.1)
  match firstErr with
  | some (h, hf) =>
    -- a handler error: the request fails with it; everybody healthy before it was invoked, nobody behind it
    if !carriesHandlerErr flt.res hf.as h.name "fault" ev then
      spf := spf <|> bad "error-lost" s!"handler error of {h.name} not returned: '{flt.res.err}' {flt.res.errtext}"
    if !flt.res.isNil || !flt.res.items.isEmpty then spf := spf <|> bad "partial-result" s!"a failed request returned {flt.res.items}"
    let mustBefore := ((pf.filter fun (s, f) => s.id < h.id && mfClass f == .ok).map (·.1.name)) ++ [h.name]
    if !(mustBefore.all (names flt).contains) then spf := spf <|> bad "missed" s!"invoked {names flt}, expected at least {mustBefore}"
    if (names flt).any (fun nm => idxOfName nm > C06.idxNum h.idx) then
      spf := spf <|> bad "continued" s!"plugins behind the failing handler were invoked: {names flt}"
    -- afterwards: who failed in transport before it, or was closed beforehand, is gone; the rest answer
    let gone := (pf.filter fun (s, f) => (mfClass f == .dropped && s.id < h.id) ||
      f.kind == "kill-before" || f.kind == "stop-before").map (·.1)
    let alive := sp.filter fun s => !gone.any (·.id == s.id)
    if nxt.res.err != "" then spf := spf <|> bad s!"next-failed:{nxt.res.err}" s!"the following request failed: {nxt.res.errtext}"
    else
      if names nxt != alive.map (·.name) then spf := spf <|> bad "next-invocations" s!"following request invoked {names nxt}, expected {alive.map (·.name)}"
      if nxt.res.items != itemsOf alive "next." then spf := spf <|> bad "next-contributions" s!"following reply {nxt.res.items}"
  | none =>
    if flt.res.err != "" then spf := spf <|> bad s!"request-failed:{flt.res.err}" s!"the request failed: {flt.res.errtext}"
    else
      if flt.res.items != itemsOf okOnes "fault" then
        spf := spf <|> bad "contributions" s!"reply {flt.res.items}, expected {itemsOf okOnes "fault"}"
      if !((okOnes.map (·.name)).all (names flt).contains) then spf := spf <|> bad "healthy-not-invoked" s!"invoked {names flt}"
    if nxt.res.err != "" then spf := spf <|> bad s!"next-failed:{nxt.res.err}" s!"the following request failed: {nxt.res.errtext}"
    else
      if names nxt != okOnes.map (·.name) then
        spf := spf <|> bad "invoked-again" s!"following request invoked {names nxt}, expected {okOnes.map (·.name)}"
      if nxt.res.items != itemsOf okOnes "next." then spf := spf <|> bad "next-contributions" s!"following reply {nxt.res.items}"
  let nTimeouts := (pf.filter fun (_, f) => f.kind == "hang" || f.kind == "stall").length
  pure { agree := dis.isNone, spec := spf.isNone,
         why := match spf, dis with
           | some (_, w), _ => w
           | none, some w => s!"{where_}: {w}"
           | none, none => "",
         sig := match spf with | some (s, _) => "C07:" ++ s | none => "",
         cover := cov0 ++ [s!"multi:timeouts={nTimeouts}", s!"retries:{getNatD obs "retries"}"] ++
                  (if firstErr.isSome then ["multi:veto"] else ["multi:no-veto"]),
         nontrivial := kinds.any (· != "none"),
         model := Json.mkObj [("handled", Json.arr (e1.handled.map Json.str).toArray)] }

/-! ### faults during the registration handshake -/

def judgeHandshake (inp obs : Json) : Except String Verdict := do
  let ev ← getNat inp "ev"
  let pos ← getNat inp "pos"
  let n := if getNatD inp "n" == 0 then 3 else getNatD inp "n"
  let f ← getObj inp "fault"
  let kind ← getStr f "kind"
  let dir := getStrD f "dir"
  let off := getNatD f "off"
  let T := getNatD inp "timeout_ms"
  let slack := getNatD inp "slack_ms"
  let fail := getStrD obs "fail"
  let tag := if dir == "" then kind else kind ++ ":" ++ dir
  let cov0 := ["handshake", "fault:" ++ tag, s!"pos:{pos}", s!"ev:{ev}"]
  let where_ := s!"handshake fault {tag}" ++ (if dir == "" then "" else s!" at offset {off}") ++ s!", plugin {pname pos} of {n}, event {ev}"
  if fail == "crashed" || fail == "blocked" then
    return { agree := false, spec := false, sig := s!"C07:{fail}:{tag}", cover := fail :: cov0, nontrivial := true,
             why := s!"{where_}: the runtime process {fail}: {getStrD obs "panic"}" }
  if fail != "" then
    return { agree := false, spec := true, why := s!"harness: {fail}", cover := "harness-fail" :: cov0 }
  let warm ← decRObs (← getObj obs "warm")
  let flt ← decRObs (← getObj obs "fault")
  let nxt ← decRObs (← getObj obs "next")
  let fired := getBoolD obs "fired"
  let activated := getBoolD obs "activated"
  let lateErr := getStrD obs "late_err"
  let sp := specs n
  let late : PSpec := { id := 4, idx := "50", name := "e", mask := 0, veto := 0, clash := 0, raw := false }
  let spAll := sp ++ [late]
  let healthy := sp.filter (·.id != pos)
  let me := pname pos
  let names (o : RObs) := o.log.map (·.p)
  let itemsOf (l : List PSpec) (rid : String) := showItems (l.flatMap fun p => contrib p ev rid)
  if names warm != healthy.map (·.name) || warm.res.err != "" || warm.res.items != itemsOf healthy "warm." then
    return { agree := false, spec := true, cover := "warmup-failed" :: cov0,
             why := s!"{where_}: warm-up request not clean: {names warm} {warm.res.err} {warm.res.items}" }
  -- a handshake that was not disturbed activates the plugin; a disturbed one must leave no trace
  let undisturbed := kind == "hs-none" || (kind == "hs-cut" && !fired)
  let okCall (s : PSpec) (rid : String) : Call C06.Items := { out := .ok (contrib s ev rid), reached := true, cost := 0 }
  let run (ps : List Plugin) (rid : String) : Expect :=
    let (res, tr, after) := request merger T ev (ps.map fun p => (p, okCall (C06.specOf spAll p.id) rid))
    let handled := tr.handled.map (U ·.name)
    match res with
    | .ok items => { handled, err := "", items, isNil := !hasReply ev, after }
    | .error _ => { handled, err := "error", items := [], isNil := true, after }
  let ps0 : List Plugin := healthy.foldl (fun ps s => activate ps (mkPlugin s)) []
  let ps1 := if undisturbed then activate ps0 (mkPlugin (C06.specOf sp pos)) else ps0
  let e1 := run ps1 "fault"
  let ps2 := activate e1.after (mkPlugin late)
  let e2 := run ps2 "next."
  let dis := cmp "request after the handshake" e1 flt <|> cmp "request after a later registration" e2 nxt
  -- ---- the property on the observation
  let bad (sig why : String) : Option (String × String) := some (sig, s!"{where_}: {why}")
  let bound := n * T + slack
  let alive := if undisturbed then sp else healthy
  let mut spf : Option (String × String) := none
  if undisturbed && !activated then
    spf := spf <|> bad s!"{tag}:not-activated" "a plugin whose handshake was clean was not activated"
  if flt.wall > bound then
    spf := spf <|> bad s!"{tag}:too-slow" s!"the request took {flt.wall} ms (bound {n}×{T}+{slack})"
  if nxt.wall > bound then
    spf := spf <|> bad s!"{tag}:next-too-slow" s!"the following request took {nxt.wall} ms"
  if flt.res.err != "" then
    spf := spf <|> bad s!"{tag}:request-failed:{flt.res.err}" s!"the request failed: {flt.res.errtext}"
  else
    if !undisturbed && (names flt).contains me then
      spf := spf <|> bad s!"{tag}:invoked" s!"the plugin whose handshake failed was invoked: {names flt}"
    if names flt != alive.map (·.name) then
      spf := spf <|> bad s!"{tag}:invocations" s!"invoked {names flt}, expected {alive.map (·.name)}"
    if flt.res.items != itemsOf alive "fault" then
      spf := spf <|> bad s!"{tag}:contributions" s!"reply {flt.res.items}, expected {itemsOf alive "fault"}"
  if lateErr != "" then
    spf := spf <|> bad s!"{tag}:later-plugin-stuck" s!"a plugin that connected after the failed handshake was not activated: {lateErr}"
  if nxt.res.err != "" then
    spf := spf <|> bad s!"{tag}:next-failed:{nxt.res.err}" s!"the following request failed: {nxt.res.errtext}"
  else
    let idxOfName (nm : String) : Nat := (spAll.find? (·.name == nm)).map (fun s => C06.idxNum s.idx) |>.getD 999
    if names nxt != (alive ++ [late]).map (·.name) then
      spf := spf <|> bad s!"{tag}:next-invocations" s!"following request invoked {names nxt}, expected {(alive ++ [late]).map (·.name)}"
    if !(C06.dupFree (names nxt) && C06.nondecreasing ((names nxt).map idxOfName)) then
      spf := spf <|> bad s!"{tag}:order" s!"invocations {names nxt}"
    if nxt.res.items != itemsOf (alive ++ [late]) "next." then
      spf := spf <|> bad s!"{tag}:next-contributions" s!"following reply {nxt.res.items}"
  pure { agree := dis.isNone, spec := spf.isNone,
         why := match spf, dis with
           | some (_, w), _ => w
           | none, some w => s!"{where_}: {w}"
           | none, none => "",
         sig := match spf with | some (s, _) => "C07:" ++ s | none => "",
         cover := cov0 ++ [if undisturbed then "handshake:clean" else "handshake:failed", if fired then "fired" else "not-fired",
                           s!"retries:{getNatD obs "retries"}"] ++
                  (if kind == "hs-none" then [s!"handshake:bytes:r2p={getNatD obs "r2p"}:p2r={getNatD obs "p2r"}"] else []),
         nontrivial := !undisturbed,
         model := Json.mkObj [("handled", Json.arr (e1.handled.map Json.str).toArray)] }

def judgeCalib (inp obs : Json) : Except String Verdict := do
  let fail := getStrD obs "fail"
  let ev ← getNat inp "ev"
  if fail != "" then
    return { agree := false, spec := fail != "crashed" && fail != "blocked", sig := "C07:calibration:" ++ fail,
             why := s!"calibration for event {ev}: {fail}", cover := ["calib"] }
  let warm ← decRObs (← getObj obs "warm")
  let n := if getNatD inp "n" == 0 then 3 else getNatD inp "n"
  let sp := specs n
  let ok := warm.log.map (·.p) == sp.map (·.name) && warm.res.err == "" &&
            warm.res.items == showItems (sp.flatMap fun p => contrib p ev "warm.")
  pure { agree := ok, spec := true, why := if ok then "" else s!"clean exchange for event {ev} is not clean",
         cover := ["calib", s!"exchange:ev{ev}:r2p={getNatD obs "r2p"}:p2r={getNatD obs "p2r"}"] }

def judge (j : Json) : Except String Verdict := do
  let inp ← getObj j "in"
  let obs ← getObj j "obs"
  match getStrD inp "kind" with
  | "fault" => judgeFault inp obs
  | "calib" => judgeCalib inp obs
  | "multi" => judgeMulti inp obs
  | "handshake" => judgeHandshake inp obs
  | k => throw s!"unknown case kind {k}"

def main : IO UInt32 := runLines judge
end Drv.C07
