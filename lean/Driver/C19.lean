import Driver.Common
import NriModel.Locks
open Lean Drv Nri Nri.Mutex

/-!
Driver for C19. One case = one concurrent run of a real `Adaptation` with real stub plugins:
`in`  = the plan: every `Stub.UpdateContainers` call (plugin, list of updates as hex of their
        deterministic wire encoding) with the scripted result of the runtime's `UpdateFn`
        (failed list, error), and the generator configuration;
`obs` = the log, stamped by one global counter: every `UpdateFn` invocation (entry, exit, the
        list it received), every stub call (before, after, what it returned), every plugin
        request-handler invocation (entry, exit).

`agree` = trace acceptance by `Nri.Mutex.step?`: calls, `enter`/`fn`/`leave` at the UpdateFn
          stamps, `reqBegin`/`handler`/`reqEnd` around each request's handler stamps, `ret` with
          the value the plugin saw.
`spec`  = the property evaluated directly on the log: every returned call has exactly one
          UpdateFn invocation, with exactly the list sent; the plugin saw exactly the scripted
          failed list, or exactly the scripted error and no list; no UpdateFn interval overlaps
          another UpdateFn interval or a request's handler span; nothing blocked; a never-started
          stub answered "no service".
-/
namespace Drv.C19

abbrev A := String
abbrev E := Nat × String

structure CallI where
  u : Nat
  p : Nat
  list : List String
  failed : List String
  err : Option E
  gone : Bool := false
  deriving Inhabited

structure FnO where
  sin : Nat
  sout : Nat
  token : Int
  list : List String
  deriving Inhabited

structure CallO where
  u : Nat
  s1 : Nat
  s2 : Nat
  done : Bool
  failed : List String
  err : Option E
  waitMs : Nat := 0
  deriving Inhabited

structure HO where
  r : Nat
  p : Nat
  sin : Nat
  sout : Nat
  deriving Inhabited

def arrOf (j : Json) (k : String) : Except String (Array Json) :=
  match j.getObjVal? k with
  | .ok (.arr a) => pure a
  | .ok .null => pure #[]
  | _ => throw s!"field {k}: not an array"

def errIn (j : Json) : Option E :=
  match getOpt j "err" with
  | none => none
  | some e =>
    let plain := getBoolD e "plain"
    some (if plain then 2 else getNatD e "code", getStrD e "msg")

def errObs (j : Json) : Option E :=
  match getOpt j "err" with
  | none => none
  | some e =>
    let c := getIntD e "code"
    some (if c < 0 then 1000000 else c.toNat, getStrD e "msg")

def showErr : Option E → String
  | none => "nil"
  | some (c, m) => s!"(code {c}, {m.quote})"

def showOut (o : List A × Option (StubErr E)) : String :=
  let e := match o.2 with
    | none => "nil"
    | some .noService => "ErrNoService"
    | some (.rpc x) => showErr (some x)
  s!"({o.1.length} failed, {e})"

structure Item where
  key : Nat
  sub : Nat
  ev : Ev A E

def judgeLone (inp obs : Json) (kind : String) : Except String Verdict := do
  let result := getStrD obs "result"
  let listen := getBoolD inp "listen"
  let calls ← arrOf inp "calls"
  let list ← match calls[0]? with
    | some c => getStrList c "list"
    | none => pure []
  let cover := [s!"kind:{kind}", s!"lone:{result}", s!"listen:{listen}", s!"lone-list:{list.length}"]
  if kind == "unstarted" then
    -- model: the step is enabled in the initial state with exactly this answer
    let modelOut := stubUpdate (none : Option (List A → Option (List A) × Option E)) list
    let accepted := (run (init : State A E) [.callUnstarted 0 list ([], some .noService)]).isSome
    let spec := result == "noservice"
    pure { agree := accepted && (modelOut == ([], some .noService)) == (result == "noservice"), spec := spec,
           why := if spec then "" else s!"UpdateContainers on a never-started stub: {result} ({getStrD obs "note"})",
           sig := if spec then "" else s!"C19:noservice:{result}",
           cover := cover, nontrivial := true }
  else if kind == "starting-dial" then
    -- Start() in progress, no runtime client yet (phase `connecting`): no service, at once
    let modelOut := stubUpdate (clientOf .connecting (fun (_ : List A) => ((none : Option (List A)), (none : Option E)))) list
    let spec := result == "noservice"
    pure { agree := (modelOut == ([], some .noService)) == (result == "noservice"), spec := spec,
           why := if spec then "" else s!"UpdateContainers on a stub whose Start() is still connecting: {result} ({getStrD obs "note"})",
           sig := if spec then "" else s!"C19:noservice:starting:{result}",
           cover := cover, nontrivial := true }
  else if kind == "starting-mute" then
    -- Start() in progress, client exists, the runtime end never answers (phase `registering`):
    -- outside the property (the stub HAS a service; it is the peer that is silent). The model's
    -- wrapper goes to the client; what the real code did is recorded.
    let modelOut := stubUpdate (clientOf .registering (fun (_ : List A) => ((none : Option (List A)), some ((0, "closed") : E)))) list
    let agree := (modelOut.2 != some .noService) == (result != "noservice")
    pure { agree := agree, spec := true, excluded := true, sig := s!"mute-runtime:{result}",
           why := if agree then "" else s!"UpdateContainers during registration with a silent runtime: {result}", cover := cover }
  else
    -- started-then-stopped stub: outside the property (it says nothing about a stopped stub);
    -- the model's wrapper has a runtime client whose call fails: an error, at once
    let modelOut := stubUpdate (some (fun (_ : List A) => ((none : Option (List A)), some ((0, "closed") : E)))) list
    let agree := (modelOut.2.isSome && modelOut.1.isEmpty) == (result == "error")
    pure { agree := agree, spec := true, excluded := true, sig := s!"stopped-stub:{result}",
           why := if agree then "" else s!"UpdateContainers on a stopped stub: {result}", cover := cover }

def judge (j : Json) : Except String Verdict := do
  let inp ← getObj j "in"
  let obs ← getObj j "obs"
  let kind := getStrD inp "kind"
  let status := getStrD obs "status"
  let note := getStrD obs "note"
  if status == "crashed" && ((note.splitOn "fatal error:").length > 1 || (note.splitOn "panic:").length > 1) then
    -- the process hosting the real Adaptation died while this case ran (Go `fatal error:` / panic):
    -- its callers never got the callback's result back
    return { agree := false, spec := false, sig := "C19:runtime-crashed",
             why := s!"the runtime process crashed while the case ran: {note}", cover := ["crashed"], nontrivial := true }
  if kind == "worker" || status == "crashed" then
    return { agree := false, spec := true, why := s!"harness worker crashed: {note}", cover := ["crashed"] }
  if status == "error" then
    return { agree := false, spec := true, why := s!"harness error: {note}", cover := ["error"] }
  if kind == "unstarted" || kind == "stopped" || kind == "starting-dial" || kind == "starting-mute" then
    return ← judgeLone inp obs kind
  if status == "skipped" then
    -- lostconn: the machine did not let the case happen (three attempts): recorded, not judged
    return { agree := true, spec := true, excluded := true, sig := "lostconn:skipped",
             why := s!"case skipped: {note}", cover := [s!"kind:{kind}", "lostconn:skipped"] }
  -- decode
  let callsI ← (← arrOf inp "calls").mapM fun c => do
    pure { u := ← getNat c "u", p := ← getNat c "p", list := ← getStrList c "list",
           failed := ← getStrList c "failed", err := errIn c, gone := getBoolD c "gone" : CallI }
  let fns ← (← arrOf obs "fn").mapM fun f => do
    pure { sin := ← getNat f "in", sout := ← getNat f "out", token := ← getInt f "token",
           list := ← getStrList f "list" : FnO }
  let callsO ← (← arrOf obs "calls").mapM fun c => do
    pure { u := ← getNat c "u", s1 := getNatD c "s1", s2 := getNatD c "s2", done := getBoolD c "done",
           failed := ← getStrList c "failed", err := errObs c, waitMs := getNatD c "wait_ms" : CallO }
  let hs ← (← arrOf obs "h").mapM fun h => do
    pure { r := ← getNat h "r", p := ← getNat h "p", sin := ← getNat h "in", sout := ← getNat h "out" : HO }
  let nU := callsI.size
  -- index by u (ids are dense 0..nU-1)
  let mut ci : Array CallI := Array.replicate nU default
  for c in callsI do
    if c.u < nU then ci := ci.set! c.u c
  let mut co : Array CallO := Array.replicate nU default
  for c in callsO do
    if c.u < nU then co := co.set! c.u c
  -- ===== assign UpdateFn invocations to calls =====
  let mut fnOf : Array (List Nat) := Array.replicate nU []     -- indices into fns
  let mut unknownFn : Option Nat := none
  -- empty-list calls in order of their start
  let empties := (callsI.filter (fun c => c.list.isEmpty)).map (·.u)
  let emptiesSorted := empties.qsort (fun a b => (co[a]!).s1 < (co[b]!).s1)
  let mut usedEmpty : Array Bool := Array.replicate nU false
  let mut fi := 0
  for f in fns do
    if f.token ≥ 0 && f.token.toNat < nU then
      fnOf := fnOf.modify f.token.toNat (fi :: ·)
    else if f.token == -1 then
      -- an invocation with an empty list can belong to any empty-list call that was pending
      -- around it (s1 < entry, exit < s2); earliest deadline first is a maximum matching
      -- because the invocations are disjoint and processed in time order
      let mut pick : Option Nat := none
      for u in emptiesSorted do
        let o := co[u]!
        if !usedEmpty[u]! && o.s1 != 0 && o.s1 < f.sin && (!o.done || f.sout < o.s2) then
          match pick with
          | none => pick := some u
          | some v =>
            let ov := co[v]!
            let dv := if ov.done then ov.s2 else 0xffffffffffff
            let du := if o.done then o.s2 else 0xffffffffffff
            if du < dv then pick := some u
      match pick with
      | some u => usedEmpty := usedEmpty.set! u true; fnOf := fnOf.modify u (fi :: ·)
      | none => unknownFn := some fi
    else unknownFn := some fi
    fi := fi + 1
  -- ===== the property, directly on the log =====
  let mut ok := true
  let mut sig := ""
  let mut why := ""
  let fail (ok : Bool) (sig why : String) (s w : String) : Bool × String × String :=
    if ok then (false, s, w) else (false, sig, why)
  -- a run in which every update call returned but a runtime REQUEST is still pending is outside
  -- what C19 claims (it says nothing about requests completing): recorded, not judged
  let goneU (u : Nat) : Bool := (ci[u]?.map (·.gone)).getD false
  let onlyRequestsPending := status == "blocked" && (kind == "upd" || kind == "lostconn") &&
    callsO.all (fun c => c.done || goneU c.u)
  if status == "blocked" && !onlyRequestsPending then
    (ok, sig, why) := fail ok sig why "C19:blocked" s!"calls still pending: {note}"
  match unknownFn with
  | some i =>
    (ok, sig, why) := fail ok sig why "C19:once:spurious-invocation"
      s!"UpdateFn was invoked (seq {(fns[i]!).sin}) with a list of {(fns[i]!).list.length} updates that no pending call sent"
  | none => pure ()
  let mut cover : List String := ["trace", s!"kind:{kind}", s!"procs:{getNatD inp "procs"}", s!"P:{getNatD inp "P"}",
    s!"G:{getNatD inp "G"}", s!"early:{getBoolD inp "early"}"]
  let mut nErr := 0
  let mut nOk := 0
  for u in [0:nU] do
    let c := ci[u]!
    let o := co[u]!
    if c.gone then
      -- the caller of this call went away while the callback was running for it (the plan makes
      -- the fault follow the callback's entry): the update must still have reached the callback
      -- exactly once, unchanged; the caller sees the transport's error, or — if the reply won the
      -- race — exactly the callback's result, or nothing; never a result the callback did not give
      let inv := fnOf[u]!
      if inv.length == 0 then
        if status != "blocked" then
          (ok, sig, why) := fail ok sig why "C19:once:not-delivered" s!"call {u} of plugin {c.p} (caller gone): UpdateFn was entered for it but never completed"
      else if inv.length > 1 then
        (ok, sig, why) := fail ok sig why "C19:once:delivered-twice" s!"UpdateFn ran {inv.length} times for call {u} of plugin {c.p} (caller gone)"
      else
        let f := fns[inv.head!]!
        if f.list != c.list then
          (ok, sig, why) := fail ok sig why "C19:passthrough:argument"
            s!"call {u} (caller gone): the plugin sent {c.list.length} updates, UpdateFn received {f.list.length}{if f.list.length == c.list.length then " (different content or order)" else ""}"
      if o.done then
        match o.err with
        | some _ =>
          if !o.failed.isEmpty then
            (ok, sig, why) := fail ok sig why "C19:passthrough:list-with-error"
              s!"call {u} (caller gone): the plugin got an error and {o.failed.length} failed updates"
        | none =>
          if c.err.isSome then
            (ok, sig, why) := fail ok sig why "C19:passthrough:error-swallowed"
              s!"call {u} (caller gone): UpdateFn failed with {showErr c.err}, the plugin got success"
          else if o.failed != c.failed then
            (ok, sig, why) := fail ok sig why "C19:passthrough:failed-list"
              s!"call {u} (caller gone): UpdateFn returned {c.failed.length} failed updates, the plugin got {o.failed.length} and no error"
    else if !o.done then
      (ok, sig, why) := fail ok sig why "C19:blocked" s!"call {u} of plugin {c.p} never returned"
    else
      let inv := fnOf[u]!
      if inv.length == 0 then
        (ok, sig, why) := fail ok sig why "C19:once:not-delivered" s!"call {u} of plugin {c.p} returned but UpdateFn never ran for it"
      else if inv.length > 1 then
        (ok, sig, why) := fail ok sig why "C19:once:delivered-twice" s!"UpdateFn ran {inv.length} times for call {u} of plugin {c.p}"
      else
        let f := fns[inv.head!]!
        if f.list != c.list then
          (ok, sig, why) := fail ok sig why "C19:passthrough:argument"
            s!"call {u}: the plugin sent {c.list.length} updates, UpdateFn received {f.list.length}{if f.list.length == c.list.length then " (different content or order)" else ""}"
      -- the result, against the script
      match c.err with
      | none =>
        nOk := nOk + 1
        if o.err.isSome then
          (ok, sig, why) := fail ok sig why "C19:passthrough:spurious-error"
            s!"call {u}: UpdateFn succeeded, the plugin got error {showErr o.err}"
        else if o.failed != c.failed then
          (ok, sig, why) := fail ok sig why "C19:passthrough:failed-list"
            s!"call {u}: UpdateFn returned {c.failed.length} failed updates, the plugin got {o.failed.length}{if o.failed.length == c.failed.length then " (different content or order)" else ""}"
      | some e =>
        nErr := nErr + 1
        if o.err != some e then
          (ok, sig, why) := fail ok sig why (if o.err.isNone then "C19:passthrough:error-swallowed" else "C19:passthrough:error-changed")
            s!"call {u}: UpdateFn failed with {showErr (some e)}, the plugin got {showErr o.err}"
        else if !o.failed.isEmpty then
          (ok, sig, why) := fail ok sig why "C19:passthrough:list-with-error"
            s!"call {u}: UpdateFn failed, yet the plugin got {o.failed.length} failed updates"
  -- critical intervals: UpdateFn invocations and request handler spans
  let maxR := hs.foldl (fun m h => max m (h.r + 1)) 0
  let mut rFirst : Array Nat := Array.replicate maxR 0
  let mut rLast : Array Nat := Array.replicate maxR 0
  for h in hs do
    if rFirst[h.r]! == 0 || h.sin < rFirst[h.r]! then rFirst := rFirst.set! h.r h.sin
    if h.sout > rLast[h.r]! then rLast := rLast.set! h.r h.sout
  -- (start, end, label)
  let mut ivs : Array (Nat × Nat × String) := #[]
  for f in fns do
    ivs := ivs.push (f.sin, f.sout, s!"UpdateFn(seq {f.sin}..{f.sout})")
  for r in [0:maxR] do
    if rFirst[r]! != 0 then ivs := ivs.push (rFirst[r]!, rLast[r]!, s!"request {r} (handlers seq {rFirst[r]!}..{rLast[r]!})")
  ivs := ivs.qsort (fun a b => a.1 < b.1)
  let mut maxEnd := 0
  let mut maxLbl := ""
  for (a, b, l) in ivs do
    if a < maxEnd then
      let isFn := l.startsWith "UpdateFn" || maxLbl.startsWith "UpdateFn"
      if isFn then
        (ok, sig, why) := fail ok sig why
          (if l.startsWith "UpdateFn" && maxLbl.startsWith "UpdateFn" then "C19:exclusive:two-updates" else "C19:exclusive:update-vs-request")
          s!"{l} ran concurrently with {maxLbl}"
      else
        (ok, sig, why) := fail ok sig why "C19:exclusive:two-requests" s!"{l} ran concurrently with {maxLbl}"
    if b > maxEnd then
      maxEnd := b
      maxLbl := l
  -- contention actually present? a call is contended if some critical interval of somebody
  -- else was open between its start and its own UpdateFn entry
  let mut contended := 0
  for u in [0:nU] do
    match fnOf[u]! with
    | [i] =>
      let f := fns[i]!
      let s1 := (co[u]!).s1
      if ivs.any (fun (a, b, _) => a != f.sin && a < f.sin && b > s1) then contended := contended + 1
    | _ => pure ()
  -- ===== trace acceptance =====
  let mut items : Array Item := #[]
  for u in [0:nU] do
    let c := ci[u]!
    let o := co[u]!
    if o.s1 != 0 then items := items.push { key := 4 * o.s1, sub := 0, ev := .call u c.p c.list }
    if o.done then
      let out : List A × Option (StubErr E) := (o.failed, o.err.map .rpc)
      match c.gone, o.err with
      | true, some e =>
        -- the caller went away: the transport's error (`gone`), unless it is the callback's own
        if out == expected (⟨c.failed, c.err⟩ : FnResult A E) then
          items := items.push { key := 4 * o.s2, sub := 0, ev := .ret u out }
        else
          items := items.push { key := 4 * o.s2, sub := 0, ev := .gone u (.rpc e) }
      | _, _ => items := items.push { key := 4 * o.s2, sub := 0, ev := .ret u out }
    for i in fnOf[u]! do
      let f := fns[i]!
      items := items.push { key := 4 * f.sin, sub := 0, ev := .enter u }
      items := items.push { key := 4 * f.sout, sub := 0, ev := .fn u f.list ⟨c.failed, c.err⟩ }
      items := items.push { key := 4 * f.sout, sub := 1, ev := .leave u }
  for r in [0:maxR] do
    if rFirst[r]! != 0 then
      items := items.push { key := 4 * rFirst[r]! - 1, sub := 0, ev := .reqBegin r }
      items := items.push { key := 4 * rLast[r]! + 1, sub := 0, ev := .reqEnd r }
  for h in hs do
    items := items.push { key := 4 * h.sin, sub := 0, ev := .handler h.r h.p }
  items := items.qsort (fun a b => a.key < b.key || (a.key == b.key && a.sub < b.sub))
  let mut s : State A E := init
  let mut rej : Option String := none
  let mut idx := 0
  for it in items do
    if rej.isNone then
      match step? s it.ev with
      | some s' => s := s'
      | none =>
        let d := match it.ev with
          | .call u _ _ => s!"call {u}"
          | .enter u => s!"UpdateFn entered for call {u}"
          | .fn u arg _ => s!"UpdateFn ran for call {u} with {arg.length} updates"
          | .leave u => s!"UpdateFn returned for call {u}"
          | .ret u out => s!"call {u} returned {showOut out}"
          | .reqBegin r => s!"request {r} began"
          | .handler r p => s!"handler of plugin {p} for request {r}"
          | .reqEnd r => s!"request {r} ended"
          | .callUnstarted _ _ _ => "unstarted"
          | .gone u _ => s!"caller of call {u} went away"
        let holder := match s.mu with
          | none => "nobody"
          | some (.req r) => s!"request {r}"
          | some (.upd u) => s!"update call {u}"
        rej := some s!"the mutex model refuses event #{idx} at seq {(it.key + 1) / 4}: {d} (mutex held by {holder})"
    idx := idx + 1
  let mut agreeWhy := rej.getD ""
  if agreeWhy == "" && unknownFn.isSome then agreeWhy := "an UpdateFn invocation matches no call"
  if agreeWhy == "" && status == "ok" && (s.mu.isSome || !s.inside.isEmpty) then
    agreeWhy := "history ends with the adaptation mutex held"
  -- the slow stream: how many calls really waited longer than the plugin request time-out
  let rt := getNatD inp "req_timeout_ms"
  let overdue := if rt == 0 then 0 else (callsO.filter (fun c => c.done && c.waitMs > rt)).size
  if rt > 0 then
    cover := "slow" :: s!"slow:overdue-calls:{if overdue == 0 then "0" else if overdue < 4 then "1-3" else ">=4"}" :: cover
  cover := s!"contended:{if contended == 0 then "0" else if contended < 10 then "1-9" else ">=10"}" :: cover
  cover := (if nErr > 0 then ["result:error"] else []) ++ (if nOk > 0 then ["result:ok"] else []) ++ cover
  if callsI.any (fun c => c.list.isEmpty) then cover := "list:empty" :: cover
  if callsI.any (fun c => c.list.length ≥ 5) then cover := "list:>=5" :: cover
  if callsI.any (fun c => c.err.isNone && !c.failed.isEmpty) then cover := "failed:nonempty" :: cover
  if callsI.any (fun c => c.err.isSome && !c.failed.isEmpty) then cover := "failed:with-error" :: cover
  -- the lostconn stream: did every step happen while the callback of the gone call was running?
  let mut lostEffective := false
  if kind == "lostconn" then
    let m := (getOpt obs "marks").getD Json.null
    let entered := getNatD m "entered"
    let fault := getNatD m "fault"
    let probes := getNatD m "probes"
    let ctxDone := getNatD m "ctx_done"
    let hold := getNatD m "hold"
    let faultKind := getStrD inp "fault"
    let fout := ((fns.filter (fun f => f.sin == entered)).map (·.sout)).foldl max 0
    let nReq := hs.size
    let nUpd := (callsI.filter (fun c => !c.gone)).size
    lostEffective := entered != 0 && entered < fault && entered < probes && fault < hold && probes < hold &&
      hold < fout && (faultKind == "cancel" || (ctxDone != 0 && ctxDone < hold)) && (nReq + nUpd > 0)
    let goneRet := match (callsO.filter (fun c => goneU c.u))[0]? with
      | some o => if !o.done then "none" else if o.err.isSome then "error" else "result"
      | none => "?"
    cover := s!"lostconn:{if lostEffective then "effective" else "ineffective"}" :: s!"fault:{faultKind}" ::
      s!"order:{getStrD inp "order"}" :: s!"gone-ret:{goneRet}" ::
      s!"probes:{if nReq > 0 && nUpd > 0 then "req+upd" else if nReq > 0 then "req" else if nUpd > 0 then "upd" else "none"}" ::
      s!"attempts:{getNatD m "attempts"}" :: s!"ctx-done:{if ctxDone == 0 then "unseen" else if ctxDone < hold then "before-hold" else "late"}" :: cover
  if onlyRequestsPending && ok then
    return { agree := rej.isNone, spec := true, excluded := true, sig := "request-never-returned",
             why := s!"all update calls returned, but a runtime request was still pending after the deadline; goroutines: {(getStrD obs "stacks").take 1500}",
             cover := "anomaly:request-never-returned" :: cover }
  pure { agree := agreeWhy == "", spec := ok, why := if !ok then why else agreeWhy, sig := sig, cover := cover,
         nontrivial := if kind == "lostconn" then lostEffective else
           (if rt > 0 then overdue > 0 else contended > 0) || kind == "cfgupd",
         model := Json.mkObj [("calls", nU), ("invocations", fns.size), ("handlers", hs.size),
                              ("contended", contended), ("accepted", rej.isNone)] }

def main : IO UInt32 := runLines judge
end Drv.C19
