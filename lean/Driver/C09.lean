import Driver.Common
import NriModel.SyncChunk
open Lean Drv Nri Nri.SyncChunk

/-!
Driver for C09. `in` = the generated state (run-length encoded pad sizes), handler kind,
number of updates, slice slack, the transport limit and the sender's documented minimum of
objects per message. `obs` = outcome, encoded object sizes, the attempts seen at the
runtime end, the chunk plan seen at the plugin end, the handler's invocations, the updates
returned and received, whether the plugin was activated.

agree (trace acceptance, no dependence on the sender's constants or rounding):
  * the attempts are accepted by `acceptsTrace` (a behaviour of the repaired loop for some
    policy satisfying `Shrinks min_objs`);
  * the plan is what the accepted attempts got through, and `accepts` it (`ValidPlan`);
  * the stub model `stubRun` fed with the observed plan makes the observed handler calls and
    gives the observed replies;
  * the additive size oracle `payloadSize` equals the lengths measured on the wire.
spec (directly on the observation): delivered exactly once, complete, in order, content
  intact, updates reach the runtime, plugin activated — or failed cleanly (not activated,
  runtime alive, handler never called with a partial state) and the state was not
  transmissible in messages of at most `min_objs` objects.
-/

namespace Drv.C09

abbrev bogus : Nat := 4000000000

/-- [[a,b],…] -/
def getPairs (j : Json) (k : String) : Except String (List (Int × Int)) := do
  let a ← getArr j k
  a.mapM fun x => match x with
    | Json.arr #[p, q] => do
      let p ← (p.getInt? : Except String Int)
      let q ← (q.getInt? : Except String Int)
      pure (p, q)
    | _ => throw s!"field {k}: not a pair"

/-- runs of [count, value] -/
def expandCounts (rs : List (Int × Int)) : Array Nat := Id.run do
  let mut out : Array Nat := #[]
  for (n, v) in rs do
    for _ in [0:n.toNat] do
      out := out.push v.toNat
  return out

/-- runs of [start, len] of consecutive indices; a negative start is an object the
    runtime never supplied -/
def expandRuns (rs : List (Int × Int)) : List Nat := Id.run do
  let mut out : Array Nat := #[]
  for (s, n) in rs do
    for i in [0:n.toNat] do
      out := out.push (if s < 0 then bogus else s.toNat + i)
  return out.toList

def getChunk (j : Json) : Except String (Chunk Nat Nat) := do
  let p ← getPairs j "pods"
  let c ← getPairs j "ctrs"
  let m ← getBool j "more"
  pure ⟨expandRuns p, expandRuns c, m⟩

structure Attempt where
  chunk : Chunk Nat Nat
  size : Nat
  res : String
  len : Nat
  rmore : Bool
  rupdates : Nat

def getAttempt (j : Json) : Except String Attempt := do
  let c ← getChunk j
  pure ⟨c, ← getNat j "size", ← getStr j "res", getNatD j "len", getBoolD j "rmore", getNatD j "rupdates"⟩

def Attempt.toEv (a : Attempt) : Ev Nat Nat Nat :=
  match a.res with
  | "ok" => .sent a.chunk ⟨List.replicate a.rupdates 0, a.rmore⟩
  | "oversized" => .rejected a.chunk a.len
  | _ => .errored a.chunk

def bucket (n : Nat) : String :=
  if n == 0 then "0" else if n ≤ 8 then "1-8" else if n ≤ 100 then "9-100"
  else if n ≤ 1000 then "101-1000" else "1001+"

def sizeClass (n : Nat) : String :=
  if n < 512 then "tiny" else if n < 50000 then "1k" else if n < 600000 then "100k"
  else if n < 3000000 then "1m" else if n ≤ 4194304 then "near-limit" else "over-limit"

/-- maximum over all windows of `n` consecutive elements of the summed field lengths -/
def maxWindow (sz : Array Nat) (n : Nat) : Nat := Id.run do
  if n == 0 || sz.size < n then return 0  -- (fewer than n objects: covered by the smaller windows)
  let mut pre : Array Nat := #[0]
  for s in sz do
    pre := pre.push (pre.back! + fieldLen s)
  let mut best := 0
  for i in [0:sz.size - n + 1] do
    let w := pre[i + n]! - pre[i]!
    if w > best then best := w
  return best

/-- every message of at most `m` objects (consecutive pods, consecutive containers) fits
    under the limit with `env` bytes of envelope -/
def allSmallFit (ps cs : Array Nat) (m limit env : Nat) : Bool := Id.run do
  let wp := (List.range (m + 1)).map (maxWindow ps)
  let wc := (List.range (m + 1)).map (maxWindow cs)
  let mut ok := true
  for n in [0:m + 1] do
    for k in [0:m + 1 - n] do
      -- windows shorter than the list are dominated by the longest available one
      let a := (List.range (n + 1)).foldl (fun acc i => max acc (wp.getD i 0)) 0
      let b := (List.range (k + 1)).foldl (fun acc i => max acc (wc.getD i 0)) 0
      if a + b + 2 + env > limit then ok := false
  return ok

/-- kind "pre": plugins launched by `Adaptation.Start` and synchronized by `syncPlugins`. -/
def judgePre (inp obs : Json) : Except String Verdict := do
  let limit ← getNat inp "limit"
  let m ← getNat inp "min_objs"
  let outcome ← getStr obs "outcome"
  let panicLine := getStrD obs "panic"
  let runaway := getBoolD obs "runaway"
  let ps := expandCounts (← getPairs obs "pod_sizes")
  let cs := expandCounts (← getPairs obs "ctr_sizes")
  if outcome == "harness" then throw s!"harness could not run the case: {getStrD obs "detail"}"
  let nP := ps.size
  let nC := cs.size
  let pods := List.range nP
  let ctrs := List.range nC
  let wire := payloadSize (fun i => ps.getD i 0) (fun i => cs.getD i 0)
  let fitsOk := fun (c : Chunk Nat Nat) => decide (wire c ≤ limit)
  let transmissible := allSmallFit ps cs m limit 64
  let rtUpd := (← getArr obs "runtime_updates").map fun x => (x.getNat?.toOption.getD bogus)
  let pin ← getArr inp "plugins"
  let pobs ← getArr obs "plugins"
  let normal := outcome == "synced" && !runaway
  if normal && pin.length != pobs.length then throw "plugin observations do not match the input"
  -- per plugin: (name, handler, updates, plan, calls, bad, returned, activated)
  let plugins ← (pin.zip pobs).mapM fun (pi, po) => do
    let name := s!"{getStrD pi "idx"}-{getStrD pi "name"}"
    if normal && getStrD po "name" != name then throw s!"plugin {name}: observation is for {getStrD po "name"}"
    let plan ← (← getArr po "plan").mapM getChunk
    let callsJ ← getArr po "calls"
    let calls ← callsJ.mapM fun c => do
      pure (expandRuns (← getPairs c "pods"), expandRuns (← getPairs c "ctrs"))
    let bad := callsJ.foldl (fun acc c => acc + getNatD c "bad") 0
    let returned := (← getArr po "returned").map fun x => (x.getNat?.toOption.getD bogus)
    pure (name, getStrD pi "handler", getNatD pi "updates", plan, calls, bad, returned, getBoolD po "activated")
  let fullCall := fun (c : List Nat × List Nat) => c.1 == pods && c.2 == ctrs
  -- ---------------------------------------------------------------- spec, on the observation
  let checkPlugin := fun (x : String × String × Nat × List (Chunk Nat Nat) × List (List Nat × List Nat) × Nat × List Nat × Bool) =>
    let (name, handler, k, plan, calls, bad, returned, activated) := x
    let complete := match plan.getLast? with | some c => !c.more | none => false
    if !calls.all fullCall then some ("C09:handler-args", s!"{name}: handler called with {calls.map fun c => (c.1.length, c.2.length)} of {nP}/{nC} objects, or out of order")
    else if bad != 0 then some ("C09:content", s!"{name}: {bad} delivered object(s) differ from what the runtime supplied")
    else if calls.length > 1 then some ("C09:handler-calls", s!"{name}: handler called {calls.length} times")
    else if complete then
      if handler == "none" then
        if !calls.isEmpty then some ("C09:handler-calls", s!"{name}: no handler but called")
        else if !activated then some ("C09:not-activated", s!"{name}: synchronized but not activated") else none
      else if calls.length != 1 then some ("C09:handler-calls", s!"{name}: last chunk delivered, handler called {calls.length} times")
      else if handler == "error" then
        if activated then some ("C09:activated-after-failure", s!"{name}: handler failed the synchronization but the plugin was activated") else none
      else if returned != ctrs.take k then some ("C09:updates-lost", s!"{name}: returned {returned}")
      else if !activated then some ("C09:not-activated", s!"{name}: synchronized but not activated") else none
    else
      if !calls.isEmpty then some ("C09:handler-calls", s!"{name}: handler called although the last chunk never arrived")
      else if activated then some ("C09:activated-after-failure", s!"{name}: synchronization incomplete but the plugin was activated")
      else if transmissible then some ("C09:failed-transmissible:pre", s!"{name}: not synchronized although every message of ≤ {m} objects fits")
      else none
  let expectUpd := plugins.foldl (fun acc x =>
    let (_, handler, _, plan, _, _, returned, _) := x
    let complete := match plan.getLast? with | some c => !c.more | none => false
    if complete && handler == "record" then acc ++ returned else acc) ([] : List Nat)
  let (spec, sig, swhy) : Bool × String × String :=
    if outcome == "crashed" then
      (false, if (panicLine.splitOn "slice bounds out of range").length > 1 then "C09:crashed:slice-bounds" else "C09:crashed",
        s!"the runtime process died in Adaptation.Start: {panicLine}")
    else if outcome == "timeout" then (false, "C09:timeout", "Adaptation.Start did not return")
    else if runaway then (false, "C09:runaway:pre", "the sender kept sending to a pre-installed plugin until cut off")
    else if outcome != "synced" then (false, "C09:start-failed", s!"Adaptation.Start failed: {getStrD obs "detail"}")
    else match plugins.findSome? checkPlugin with
      | some (sg, w) => (false, sg, w)
      | none =>
        if rtUpd != expectUpd then (false, "C09:updates-lost", s!"runtime received updates {rtUpd}, the synchronized plugins returned {expectUpd}")
        else if getNatD obs "upd_bad" != 0 then (false, "C09:updates-changed", s!"{getNatD obs "upd_bad"} of the updates the runtime received differ from what the handlers returned")
        else (true, "", "")
  -- ---------------------------------------------------------------- agree, through the model
  let outcomes : List (String × Outcome Nat Unit) := plugins.map fun x =>
    let (name, handler, k, plan, _, _, _, _) := x
    if accepts fitsOk pods ctrs plan then
      (name, if handler == "error" then .failed (.peer ()) else if handler == "none" then .done [] else .done (ctrs.take k))
    else (name, .failed .tooLarge)
  let (mActive, mUpd) := activatePreinstalled outcomes
  let oActive := (plugins.filter fun x => x.2.2.2.2.2.2.2).map (·.1)
  let recvOk := plugins.all fun x =>
    let (_, handler, k, plan, calls, _, _, _) := x
    let h : Handler Nat Nat Nat Unit :=
      if handler == "none" then none
      else if handler == "error" then some (fun _ _ => .error ())
      else some (fun _ cs => .ok (cs.take k))
    (stubRun h RState.init plan).1.calls == calls
  -- a plan that is not complete must at least be a well-formed prefix: all chunks `more`
  let prefixOk := plugins.all fun x =>
    let plan := x.2.2.2.1
    accepts fitsOk pods ctrs plan || plan.all (·.more)
  let agree := normal && mActive == oActive && mUpd == rtUpd && recvOk && prefixOk
  let awhy :=
    if !normal then "the model of the repaired code neither crashes, hangs nor runs away"
    else if mActive != oActive then s!"activatePreinstalled keeps {mActive}, observed active {oActive}"
    else if mUpd != rtUpd then s!"activatePreinstalled collects updates {mUpd}, runtime received {rtUpd}"
    else if !recvOk then "stub model and observed handler calls differ"
    else if !prefixOk then "a plan is neither valid nor a prefix of `more` chunks"
    else ""
  let chunks := plugins.foldl (fun acc x => max acc x.2.2.2.1.length) 0
  let cover := [s!"outcome:{outcome}", "stream:pre", s!"pre:plugins:{plugins.length}",
    s!"P:{bucket nP}", s!"C:{bucket nC}", if transmissible then "transmissible" else "not-transmissible",
    s!"chunks:{if chunks ≤ 1 then s!"{chunks}" else if chunks ≤ 4 then "2-4" else if chunks ≤ 16 then "5-16" else "17+"}"]
    ++ plugins.map (fun x => s!"pre:handler:{x.2.1}")
    ++ (if normal then [s!"pre:active:{oActive.length}"] else [])
    ++ (if normal && agree then ["trace"] else [])
  pure { agree := agree, spec := spec, why := if !spec then swhy else awhy, cover := cover,
         nontrivial := true, sig := sig, excluded := false,
         model := Json.mkObj [("active", Json.arr (mActive.map Json.str).toArray),
                              ("updates", Json.arr (mUpd.map fun (n : Nat) => (n : Json)).toArray)] }

def judge (j : Json) : Except String Verdict := do
  let inp ← getObj j "in"
  let obs ← getObj j "obs"
  if getStrD inp "kind" == "pre" then return ← judgePre inp obs
  let handler ← getStr inp "handler"
  let nUpd ← getNat inp "updates"
  let limit ← getNat inp "limit"
  let m ← getNat inp "min_objs"
  let slack := getNatD inp "slack"
  let stream := getStrD inp "stream"
  let outcome ← getStr obs "outcome"
  let errKind := getStrD obs "err_kind"
  let panicLine := getStrD obs "panic"
  let runaway := getBoolD obs "runaway"
  let activated := getBoolD obs "activated"
  let alive := getBoolD obs "alive"
  let ps := expandCounts (← getPairs obs "pod_sizes")
  let cs := expandCounts (← getPairs obs "ctr_sizes")
  let nP := (expandCounts (← getPairs inp "pods")).size
  let nC := (expandCounts (← getPairs inp "ctrs")).size
  if outcome == "harness" then throw s!"harness could not run the case: {getStrD obs "detail"}"
  if ps.size != nP || cs.size != nC then throw "sizes do not match the input"
  let pods := List.range nP
  let ctrs := List.range nC
  let attempts ← (← getArr obs "attempts").mapM getAttempt
  let planJ ← getArr obs "plan"
  let planC ← planJ.mapM getChunk
  let planSizes := planJ.map fun c => getNatD c "size"
  let callsJ ← getArr obs "calls"
  let calls ← callsJ.mapM fun c => do
    let p ← getPairs c "pods"
    let k ← getPairs c "ctrs"
    pure (expandRuns p, expandRuns k)
  let bad := callsJ.foldl (fun acc c => acc + getNatD c "bad") 0
  let returned := (← getArr obs "returned").map fun x => (x.getNat?.toOption.getD bogus)
  let rtUpd := (← getArr obs "runtime_updates").map fun x => (x.getNat?.toOption.getD bogus)
  let updBad := getNatD obs "upd_bad"
  -- the reply: all updates in ONE SynchronizeResponse, 5 bytes of ttrpc Response around it
  let updSz := expandCounts (← getPairs obs "upd_sizes")
  let replyWire := updSz.foldl (fun acc s => acc + fieldLen s) 0
  let replyEnvelope := 5
  let replyLost := handler == "record" && replyWire + replyEnvelope > limit
  -- size oracle: additive over the encoded object sizes
  let szP := fun (i : Nat) => ps.getD i 0
  let szC := fun (i : Nat) => cs.getD i 0
  let wire := payloadSize szP szC
  let envelope := 54
  let transmissible := allSmallFit ps cs m limit (envelope + 10)
  let maxObj := (ps.toList ++ cs.toList).foldl max 0
  let rejections := (attempts.filter (·.res == "oversized")).length
  let evs := attempts.map Attempt.toEv
  let stallAt := getNatD inp "stall_at"
  let stalled := stallAt > 0 && planC.length ≥ stallAt && (match planC[stallAt - 1]? with | some c => c.more | none => false)
  -- ------------------------------------------------------------ spec, on the observation
  let fullCall := fun (c : List Nat × List Nat) => c.1 == pods && c.2 == ctrs
  let expectReturned := (ctrs.take nUpd)
  let (spec, sig, swhy) : Bool × String × String :=
    if outcome == "crashed" then
      (false, if (panicLine.splitOn "slice bounds out of range").length > 1 then "C09:crashed:slice-bounds" else "C09:crashed",
        s!"the runtime process died: {panicLine}")
    else if outcome == "timeout" then (false, "C09:timeout", "synchronization did not end within the deadline")
    else if runaway then
      (false, if planC.any (fun c => c.more && c.count == 0) then "C09:runaway:empty-more" else "C09:runaway",
        s!"the sender kept sending ({planC.length}+ messages for {nP}+{nC} objects) until cut off")
    else if !calls.all fullCall then
      if (getOpt obs "first").isSome then
        (false, "C09:restart:handler-args", s!"second session of the same stub: handler called with {calls.map fun c => (c.1.length, c.2.length)} objects, the runtime supplied {nP}/{nC} (objects of the abandoned first session, duplicates, or wrong order)")
      else
      (false, "C09:handler-args", s!"handler called with {calls.map fun c => (c.1.length, c.2.length)} of {nP}/{nC} objects, or out of order")
    else if bad != 0 then (false, "C09:content", s!"{bad} delivered object(s) differ from what the runtime supplied")
    else if calls.length > 1 then (false, "C09:handler-calls", s!"handler called {calls.length} times")
    else if outcome == "synced" && stalled then
      (false, "C09:stall:synced", s!"the reply to message {stallAt} came after the request timeout, yet the plugin counts as synchronized")
    else if outcome == "synced" then
      if handler == "none" then
        if !calls.isEmpty then (false, "C09:handler-calls", "a plugin without handler was called")
        else if !activated then (false, "C09:not-activated", "synchronized but not activated")
        else (true, "", "")
      else if calls.length != 1 then (false, "C09:handler-calls", s!"synchronized but handler called {calls.length} times")
      else if returned != expectReturned || rtUpd != returned then
        (false, "C09:updates-lost", s!"handler returned updates for {returned}, runtime received {rtUpd}")
      else if updBad != 0 then
        (false, "C09:updates-changed", s!"{updBad} of the {rtUpd.length} updates the runtime received differ from what the handler returned")
      else if !activated then (false, "C09:not-activated", "synchronized but not activated")
      else (true, "", "")
    else if outcome == "failed" then
      if activated then (false, "C09:activated-after-failure", "synchronization failed but the plugin was activated")
      else if !alive then (false, "C09:crashed", "runtime not alive")
      else if errKind == "handler" && handler == "error" then
        if calls.length == 1 then (true, "", "") else (false, "C09:handler-calls", "handler error reported but handler not called once")
      else if handler == "exhausted" then
        -- the handler answered with the status ResourceExhausted: reported with the text of a
        -- refused request, but the handler HAS been called (once, with everything) unless the
        -- sender gave up before
        if calls.length == 1 || !transmissible then (true, "", "")
        else (false, s!"C09:failed-transmissible:{errKind}", "registration failed before the handler was called although every small message fits")
      else if stalled then
        -- the reply to a `more` message came after the request timeout: the stub HAS that chunk,
        -- so the only clean reaction is to give up - no further message, handler never called
        if !calls.isEmpty then (false, "C09:stall:handler-calls", "the runtime timed out on a message of a split synchronization, yet the handler was called")
        else if planC.length != stallAt then (false, "C09:stall:continued", s!"the runtime timed out on message {stallAt} but {planC.length} messages reached the plugin")
        else (true, "", "")
      else if replyLost && calls.length == 1 then
        -- the reply cannot be sent back: the handler was called once with everything, the runtime
        -- gives up at the request deadline, plugin not activated: the clean failure of the property
        (true, "", "")
      else if transmissible then
        (false, s!"C09:failed-transmissible:{errKind}",
          s!"registration failed ({errKind}) although every message of ≤ {m} objects fits under the limit")
      else if !calls.isEmpty then (false, "C09:handler-calls", "failed although the handler had been called")
      else (true, "", "")
    else (false, "C09:unknown-outcome", outcome)
  -- ------------------------------------------------------------ agree: trace acceptance
  let fin : End := if outcome == "synced" then .done else .failed
  let fitsOk := fun (c : Chunk Nat Nat) => decide (wire c ≤ limit)
  let rejOk := fun (c : Chunk Nat Nat) (len : Nat) =>
    decide (limit < len) && decide (wire c + 40 ≤ len) && decide (len ≤ wire c + 80)
  let normal := (outcome == "synced" || outcome == "failed") && !runaway
  let traceOk := normal && acceptsTrace fitsOk rejOk m fin (SState.init pods ctrs) evs
  -- what the accepted attempts got through is the plan seen at the plugin end
  let through := (attempts.filter (·.res == "ok")).map (·.chunk)
  let lastErr := match attempts.getLast? with
    | some a => if a.res == "err" then [a.chunk] else []
    | none => []
  let planMatches := planC == through || planC == through ++ lastErr
  let planOk := outcome != "synced" || accepts fitsOk pods ctrs planC
  -- sizes: oracle = wire, at both ends
  let sizeOk := attempts.all (fun a => wire a.chunk == a.size) &&
    (planC.zip planSizes).all (fun (c, s) => wire c == s)
  -- receiver model on the observed plan
  let h : Handler Nat Nat Nat Unit :=
    if handler == "none" then none
    else if handler == "error" || handler == "exhausted" then some (fun _ _ => .error ())
    else some (fun _ cs => .ok (cs.take nUpd))
  -- the stub behind the transport (`wireStub`): the reply's size is the measured one
  let rsz := fun (r : Reply Nat) => if r.update.isEmpty then 2 else replyWire + replyEnvelope
  let (rst, replies) := planC.foldl (fun (acc : RState Nat Nat × List (Except (WireErr Unit) (Reply Nat))) c =>
      let x := wireStub rsz limit h acc.1 c
      (x.1, acc.2 ++ [x.2])) (RState.init, [])
  let obsReplies := (attempts.filter (·.res != "oversized")).map fun a =>
    if a.res == "ok" then some (a.rupdates, a.rmore) else none
  let mReplies := replies.map fun r => match r with
    | .ok rp => some (rp.update.length, rp.more)
    | .error _ => none
  -- a reply held back beyond the request timeout is a reply the runtime never gets
  let mReplies := if stalled then mReplies.set (stallAt - 1) none else mReplies
  let recvOk := !normal || (rst.calls == calls && (mReplies == obsReplies || mReplies ++ [none] == obsReplies))
  -- deterministic model of the PATCHED code (exact arithmetic for float64, envelope of 54
  -- bytes): measured only, never enforced — the property does not depend on the counts
  let E : Env Nat Nat Nat (WireErr Unit) (RState Nat Nat) :=
    { size := fun c => wire c + envelope, limit := limit, policy := policyFixed m, clamp := true,
      peer := wireStub rsz limit h, exhausted := wireExhausted (fun _ => handler == "exhausted") }
  let det := synchronize E (fuelBound pods ctrs) RState.init pods ctrs
  let shape := fun (e : Ev Nat Nat Nat) =>
    ((match e with | .sent .. => 0 | .rejected .. => 1 | .errored .. => 2 : Nat),
      (evChunk e).pods.length, (evChunk e).ctrs.length, (evChunk e).more)
  let detSame := normal && det.evs.map shape == evs.map shape
  let detOutcome := match det.out with
    | .done _ => "synced"
    | .failed _ => "failed"
    | .fault => "fault"
    | .outOfFuel => "out-of-fuel"
  -- kind "restart": the judged session is the SECOND one of the same stub object. The receiver
  -- model over both sessions (`stubSessions`-style: run, close, run) must give the observed calls.
  let firstJ := getOpt obs "first"
  let (restartOk, restartTags, restartWhy) ← match firstJ with
    | none => pure (true, ([] : List String), "")
    | some fj => do
      let plan1 ← (← getArr fj "plan").mapM getChunk
      let calls1 ← (← getArr fj "calls").mapM fun c => do
        pure (expandRuns (← getPairs c "pods"), expandRuns (← getPairs c "ctrs"))
      let st1 := stubClose true (stubRun h RState.init plan1).1
      let st2 := (stubRun h st1 planC).1
      let ok := !normal || st2.calls == calls1 ++ calls
      let stale := match plan1.getLast? with | some c => c.more | none => false
      let tags := [s!"restart:first:{getStrD fj "outcome"}:{getStrD fj "err_kind"}",
        if stale then "restart:chunks-collected-then-abandoned" else "restart:nothing-left-behind",
        if getBoolD fj "closed" then "restart:onclose-seen" else "restart:onclose-missing"]
      pure (ok, tags, if ok then "" else
        s!"stub model over both sessions (close resets the accumulator) makes calls {st2.calls.map fun c => (c.1.length, c.2.length)}; observed first {calls1.map fun c => (c.1.length, c.2.length)} then {calls.map fun c => (c.1.length, c.2.length)}")
  let agree := normal && traceOk && planMatches && planOk && sizeOk && recvOk && restartOk
  let awhy :=
    if !normal then "the model of the repaired loop neither crashes, hangs nor runs away"
    else if !traceOk then "attempts are not a behaviour of the repaired sender (out-of-range or non-prefix slice, empty `more` message, counts not shrinking, wrong `more` flag, or size/limit inconsistent)"
    else if !planMatches then "messages seen at the plugin end differ from the attempts that got through"
    else if !planOk then "plan not accepted by ValidPlan"
    else if !sizeOk then "additive size oracle differs from the measured message length"
    else if !restartOk then restartWhy
    else if !recvOk then s!"stub model: calls {rst.calls.map fun c => (c.1.length, c.2.length)} replies {mReplies}; observed calls {calls.map fun c => (c.1.length, c.2.length)} replies {obsReplies}"
    else ""
  let why := if !spec then swhy else awhy
  let reshrink := Id.run do
    let mut seenOk := false
    let mut r := false
    for a in attempts do
      if a.res == "ok" then seenOk := true
      if a.res == "oversized" && seenOk then r := true
    return r
  let minChunk := rejections > 0 && planC.any (fun c => c.more && c.count ≤ m)
  let chunksB := let n := planC.length
    if n ≤ 1 then s!"{n}" else if n ≤ 4 then "2-4" else if n ≤ 16 then "5-16" else if n ≤ 64 then "17-64" else "65+"
  let cover := [s!"outcome:{outcome}", s!"stream:{stream}", s!"handler:{handler}",
    s!"P:{bucket nP}", s!"C:{bucket nC}", s!"maxobj:{sizeClass maxObj}", s!"chunks:{chunksB}",
    s!"rejections:{if rejections == 0 then "0" else if rejections == 1 then "1" else if rejections ≤ 4 then "2-4" else "5+"}",
    if slack == 0 then "slack:0" else "slack:>0",
    if transmissible then "transmissible" else "not-transmissible"]
    ++ (if outcome == "failed" then [s!"err:{errKind}"] else [])
    ++ (if runaway then ["runaway"] else [])
    ++ (if stalled then [s!"reply:late:message-{stallAt}"] else [])
    ++ (if outcome == "failed" && errKind == "too-large" && maxObj + 64 ≤ limit then ["refused-though-each-object-fits"] else [])
    ++ (if reshrink then ["reshrink-midway"] else [])
    ++ (if minChunk then ["min-chunk"] else [])
    ++ (if nUpd > 0 then ["updates", if replyLost then "reply:over-limit" else if replyWire + replyEnvelope + 64 > limit then "reply:within-64B-of-limit" else if replyWire > 1000000 then "reply:large" else "reply:small"] else [])
    ++ (if traceOk then ["trace"] else [])
    ++ restartTags
    ++ (if normal then [if detSame then "det-model:same-attempts" else "det-model:different-attempts",
          if detOutcome == outcome then "det-model:same-outcome" else "det-model:different-outcome"] else [])
  let nontrivial := rejections > 0 || outcome != "synced" || handler != "record" || nUpd > 0 || firstJ.isSome
  pure { agree := agree, spec := spec, why := why, cover := cover, nontrivial := nontrivial,
         sig := sig, excluded := false,
         model := Json.mkObj [("trace_accepted", traceOk), ("plan_valid", planOk),
           ("stub_calls", Json.arr (rst.calls.map fun c => Json.arr #[c.1.length, c.2.length]).toArray),
           ("transmissible", transmissible), ("det_outcome", detOutcome),
           ("det_attempts", Json.arr (det.evs.map fun e =>
              let (k, p, c, mo) := shape e
              Json.arr #[k, p, c, mo]).toArray)] }

def main : IO UInt32 := runLines judge
end Drv.C09
