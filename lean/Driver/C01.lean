import Driver.Merge
open Lean Drv
namespace Drv.C01
def judge (j : Json) : Except String Verdict := Drv.Merge.judge "C01" j
def main : IO UInt32 := runLines judge
end Drv.C01
