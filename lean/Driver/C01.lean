import Driver.Common
open Lean Drv
namespace Drv.C01
/-- placeholder until the property's driver is written -/
def judge (_ : Json) : Except String Verdict := .error "C01 driver not implemented"
def main : IO UInt32 := runLines judge
end Drv.C01
