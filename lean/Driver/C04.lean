import Driver.Merge
open Lean Drv
namespace Drv.C04
def judge (j : Json) : Except String Verdict := Drv.Merge.judge "C04" j
def main : IO UInt32 := runLines judge
end Drv.C04
