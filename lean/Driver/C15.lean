import Driver.Common
import NriModel.Stub
open Lean Drv Nri

/-!
Driver for C15. One case = one stub session:
`in  = {kind:"session", type, name, idx, cfg:{config,rname,rver,regto,reqto,events,err}, reqs:[…]}`
`obs = {create, regname, regidx, start, cfgcalls, cfgerr, cfgevents, regtons, reqtons, reqs:[…], extra, note}`.

`agree`: the observation equals what `Stub.setupHandlers` / `Stub.dispatch` compute.
`spec` : the property's predicates evaluated on the observation itself, using only the
         specification vocabulary of Stub.lean (`slotOfEvent`, `argsFor`, `replyFor`) and the
         handler bits of the generated plugin type — not `dispatch`.
-/
namespace Drv.C15
open Nri.Stub Nri.Events

abbrev B := String

def slotName : Slot → String
  | .configure => "Configure" | .synchronize => "Synchronize" | .shutdown => "Shutdown"
  | .runPodSandbox => "RunPodSandbox" | .updatePodSandbox => "UpdatePodSandbox"
  | .stopPodSandbox => "StopPodSandbox" | .removePodSandbox => "RemovePodSandbox"
  | .postUpdatePodSandbox => "PostUpdatePodSandbox" | .createContainer => "CreateContainer"
  | .startContainer => "StartContainer" | .updateContainer => "UpdateContainer"
  | .stopContainer => "StopContainer" | .removeContainer => "RemoveContainer"
  | .postCreateContainer => "PostCreateContainer" | .postStartContainer => "PostStartContainer"
  | .postUpdateContainer => "PostUpdateContainer"

/-- canonical text of an invocation, the common currency of model, spec and observation -/
def optS : Option B → String
  | none => "∅"
  | some s => "«" ++ s ++ "»"

def listS (l : List B) : String := "[" ++ ",".intercalate (l.map fun s => "«" ++ s ++ "»") ++ "]"

def argsS : Args B → String
  | .config c r v => s!"config({U c}|{U r}|{U v})"
  | .sync ps cs => s!"sync({listS ps};{listS cs})"
  | .none => "none()"
  | .pod p => s!"pod({optS p})"
  | .podCtr p c => s!"podCtr({optS p},{optS c})"
  | .podCtrRes p c r => s!"podCtrRes({optS p},{optS c},{optS r})"
  | .podOvhRes p o r => s!"podOvhRes({optS p},{optS o},{optS r})"

def callS (c : Call B) : String := slotName c.method ++ ":" ++ argsS c.args

def optStr (j : Json) (k : String) : Option String :=
  match j.getObjVal? k with
  | .ok (Json.str s) => some s
  | _ => none

/-- an observed invocation, rendered in the same canonical text -/
def obsCallS (j : Json) : Except String String := do
  let m ← getStr j "m"
  let k ← getStr j "k"
  let a ← getArr j "a"
  let a : List (Option B) := a.map fun x => match x with | Json.str s => some s | _ => none
  let s ← getStrList j "s"
  let pods ← getStrList j "pods"
  let ctrs ← getStrList j "ctrs"
  let body := match k, a, s with
    | "config", _, [c, r, v] => s!"config({c}|{r}|{v})"
    | "sync", _, _ => s!"sync({listS pods};{listS ctrs})"
    | "none", _, _ => "none()"
    | "pod", [p], _ => s!"pod({optS p})"
    | "podCtr", [p, c], _ => s!"podCtr({optS p},{optS c})"
    | "podCtrRes", [p, c, r], _ => s!"podCtrRes({optS p},{optS c},{optS r})"
    | "podOvhRes", [p, o, r], _ => s!"podOvhRes({optS p},{optS o},{optS r})"
    | _, _, _ => s!"?{k}"
  pure (m ++ ":" ++ body)

def obsCalls (j : Json) (k : String) : Except String (List String) := do
  (← getArr j k).mapM obsCallS

/-- result of a request in canonical text: `err:<kind>:<payload>` or `ok:<reply>` -/
def replyS : Reply B → String
  | .configure ev => s!"configure({ev.toNat})"
  | .synchronize u more => s!"synchronize({listS u},{more})"
  | .shutdown => "empty"
  | .createContainer a u => s!"create({optS a},{listS u})"
  | .updateContainer u => s!"updates({listS u})"
  | .stopContainer u => s!"updates({listS u})"
  | .updatePodSandbox => "empty"
  | .stateChange => "empty"

def resultS : Except Err (Reply B) → String
  | .ok r => "ok:" ++ replyS r
  | .error (.handler msg) => "err:handler:" ++ U msg
  | .error (.unhandled x) => s!"err:unhandled:{x.toNat}"
  | .error .noHandlers => "err:nohandlers"
  | .error .registration => "err:registration"

structure ErrO where
  set : Bool
  kind : String
  msg : String
  extra : Int

def getErr (j : Json) (k : String) : Except String ErrO := do
  let e ← getObj j k
  pure { set := getBoolD e "set", kind := getStrD e "kind", msg := getStrD e "msg", extra := getIntD e "extra" (-1) }

/-- the observed result of request `op`, rendered like `resultS` -/
def obsResultS (op : String) (ro : Json) : Except String String := do
  let e ← getErr ro "err"
  if e.set then
    if e.kind == "handler" then pure ("err:handler:" ++ e.msg)
    else if e.kind == "unhandled" then pure s!"err:unhandled:{e.extra}"
    else pure s!"err:{e.kind}"
  else
    let u ← getStrList ro "updates"
    let adj := optStr ro "adjust"
    let more := getBoolD ro "more"
    pure <| "ok:" ++ match op with
      | "CreateContainer" => s!"create({optS adj},{listS u})"
      | "UpdateContainer" | "StopContainer" => s!"updates({listS u})"
      | "Synchronize" => s!"synchronize({listS u},{more})"
      | _ => "empty"

def decReq (q : Json) : Except String (Request B × HResult B × String) := do
  let op ← getStr q "op"
  let ev ← getInt q "event"
  let pod := optStr q "pod"
  let ctr := optStr q "ctr"
  let res := optStr q "res"
  let ovh := optStr q "ovh"
  let script : HResult B := { adjust := optStr q "adjust", updates := ← getStrList q "updates",
                              err := let e := getStrD q "err"; if e == "" then none else some (S e) }
  let r : Request B ← match op with
    | "CreateContainer" => pure (.createContainer pod ctr)
    | "UpdateContainer" => pure (.updateContainer pod ctr res)
    | "StopContainer" => pure (.stopContainer pod ctr)
    | "UpdatePodSandbox" => pure (.updatePodSandbox pod ovh res)
    | "StateChange" => if ev < 0 then throw "negative event" else pure (.stateChange ev.toNat pod ctr)
    | "Synchronize" => pure (.synchronize (← getStrList q "pods") (← getStrList q "ctrs") (getBoolD q "more"))
    | "Shutdown" => pure .shutdown
    | o => throw s!"unknown op {o}"
  pure (r, script, op)

def eventName (e : Nat) : String :=
  match slotOfEvent e with
  | some s => slotName s
  | none => s!"event{e}"

structure SessR where
  agree : Bool
  spec : Bool
  why : String
  sig : String
  cover : List String
  dyn : Dyn B
  mres : String

/-- One session of a created stub (`hd`), starting from mutable state `d0`: model agreement and
    the history-independent property predicates, from this session's input and observation
    alone (plus the plugin type). Used once per "session" case and once per session of a
    "restart" case. -/
def judgeSession (p : Plugin) (hd : Handlers) (implMask : Nat) (name idx : String) (d0 : Dyn B)
    (inp obs : Json) : Except String SessR := do
  let cfg ← getObj inp "cfg"
  let reqs ← getArr inp "reqs"
  let note := getStrD obs "note"
  let oStart := getStrD obs "start"
  let mut cover : List String := []
  let mut agree := true
  let mut spec := true
  let mut why := ""
  let mut sig := ""
  if note.startsWith "crashed" || note.startsWith "blocked" || oStart == "blocked" || note == "stop blocked" then
    return { agree := false, spec := false, why := s!"implementation {if note == "" then "blocked in Start" else note}",
             sig := "C15:hang-or-crash", cover := ["hang-or-crash"], dyn := d0, mres := "" }
  if note.startsWith "harness" then
    return { agree := false, spec := true, why := note, sig := "", cover := [], dyn := d0, mres := "" }
  -- `Start` registers under the stub's CURRENT registration timeout; a non-positive one means
  -- the deadline has passed before the call: no registration, no Configure, Start fails.
  -- (Unreachable with the repaired Configure: `C15_timeouts_sticky`.)
  if !registers d0 then
    let ok := oStart == "error" && getStrD obs "regname" == "" && (← obsCalls obs "cfgcalls").isEmpty
    return { agree := ok, spec := false, sig := "C15:configure:call",
             why := s!"the stub's registration timeout is {d0.regTimeoutNs} ns: it cannot register, Configure is never invoked",
             cover := ["registration:zero-deadline"], dyn := d0, mres := "err:registration" }
  if oStart == "error" && getStrD obs "regname" == "" then
    return { agree := false, spec := false, sig := "C15:configure:call",
             why := s!"Start failed before the stub registered ({note}) although its registration timeout should be {d0.regTimeoutNs} ns; Configure and the handlers are never invoked",
             cover := ["start:failed-before-registration"], dyn := d0, mres := "" }
  cover := (if (getIntD cfg "regto") > 0 then "regto:given" else "regto:unset") ::
           (if (getIntD cfg "reqto") > 0 then "reqto:given" else "reqto:unset") :: cover
  -- registration carries the configured identity through
  if getStrD obs "regname" != name || getStrD obs "regidx" != idx then
    agree := false
    why := s!"registered as {getStrD obs "regidx"}-{getStrD obs "regname"}, configured {idx}-{name}"
  -- configuration -----------------------------------------------------------------
  let asked : Nat ← getNat cfg "events"
  let cerr := getStrD cfg "err"
  let cb : Behaviour B := fun _ _ => { events := BitVec.ofNat 32 asked, err := if cerr == "" then none else some (S cerr) }
  let cc ← getStr cfg "config"
  let cr ← getStr cfg "rname"
  let cv ← getStr cfg "rver"
  let regto ← getInt cfg "regto"
  let reqto ← getInt cfg "reqto"
    let o := dispatch hd cb d0 (.configure (S cc) (S cr) (S cv) regto reqto)
  let mCalls := o.calls.map callS
  let mRes := resultS o.result
  let oCfgCalls ← obsCalls obs "cfgcalls"
  let oCfgErr ← getErr obs "cfgerr"
  let oEvents ← getNat obs "cfgevents"
  let oRes := if oCfgErr.set then
      (if oCfgErr.kind == "handler" then "err:handler:" ++ oCfgErr.msg
       else if oCfgErr.kind == "unhandled" then s!"err:unhandled:{oCfgErr.extra}" else s!"err:{oCfgErr.kind}")
    else s!"ok:configure({oEvents})"
  if mCalls != oCfgCalls then
    agree := false
    if why == "" then why := s!"configure calls: model {mCalls} impl {oCfgCalls}"
  -- The message text of the unhandled-events error is the stub's own; compare the bits only if
  -- it carried them. A failed Configure makes Start tear the connection down while the ttRPC
  -- server is still about to send the error status: the runtime end sees either that status
  -- or a closed connection (a race in the implementation; both mean "rejected").
  let mFailed := mRes.startsWith "err:"
  let resAgree := mRes == oRes ||
    (oCfgErr.set && oCfgErr.kind == "unhandled" && oCfgErr.extra == -1 && mRes.startsWith "err:unhandled:") ||
    (mFailed && oCfgErr.set && oCfgErr.kind == "transport")
  if mFailed && oCfgErr.set then
    cover := (if oCfgErr.kind == "transport" then "configure-rejected:connection-closed" else "configure-rejected:status") :: cover
  if !resAgree then
    agree := false
    if why == "" then why := s!"configure result: model {mRes} impl {oRes}"
  let startOk := match o.result with | .ok _ => true | .error _ => false
  if startOk != (oStart == "ok") then
    agree := false
    if why == "" then why := s!"start: model {if startOk then "ok" else "error"} impl {oStart}"
  if o.dyn.regTimeoutNs != getIntD obs "regtons" || o.dyn.reqTimeoutNs != getIntD obs "reqtons" then
    agree := false
    if why == "" then why := s!"timeouts: model {o.dyn.regTimeoutNs}/{o.dyn.reqTimeoutNs} impl {getIntD obs "regtons"}/{getIntD obs "reqtons"}"
  -- spec: subscription (directly on the observation)
  let eff : Nat := if p.configure then asked else 0
  let within := (eff &&& implMask) == eff     -- asked ⊆ implemented (both < 2^32)
  let maskClass :=
    if !p.configure then "mask:no-configure"
    else if cerr != "" then "mask:configure-error"
    else if asked == 0 then "mask:zero"
    else if asked == implMask then "mask:exact"
    else if within then "mask:subset"
    else if (asked &&& implMask) == 0 then "mask:disjoint"
    else if (asked &&& implMask) == implMask then "mask:superset"
    else "mask:overlap"
  cover := maskClass :: cover
  if p.configure && cerr != "" then
    if !(oCfgErr.set && ((oCfgErr.kind == "handler" && oCfgErr.msg == cerr) || oCfgErr.kind == "transport")) then
      spec := false; sig := "C15:configure:error-not-passed"
      why := s!"Configure failed with '{cerr}', runtime saw {oRes}"
    if oCfgCalls != [s!"Configure:config({cc}|{cr}|{cv})"] then
      spec := false; sig := "C15:configure:call"
      why := s!"Configure invocations {oCfgCalls}"
  else
    if p.configure && oCfgCalls != [s!"Configure:config({cc}|{cr}|{cv})"] then
      spec := false; sig := "C15:configure:call"
      why := s!"Configure invocations {oCfgCalls}, sent ({cc}|{cr}|{cv})"
    if !p.configure && oCfgCalls != [] then
      spec := false; sig := "C15:configure:call"
      why := s!"no Configure method, yet invocations {oCfgCalls}"
    if eff == 0 then
      -- subscribed to exactly the implemented events: bit e-1 ⇔ handler for e, nothing else
      if oCfgErr.set || oEvents != implMask then
        spec := false
        let diff := if oCfgErr.set then 0 else oEvents ^^^ implMask
        let e := (List.range 32).find? (fun i => diff.testBit i) |>.getD 0
        sig := if oCfgErr.set then "C15:mask:error" else s!"C15:mask:{eventName (e + 1)}"
        why := s!"handlers {implMask} (bits), subscribed {oRes}"
    else if within then
      if oCfgErr.set || oEvents != eff then
        spec := false; sig := "C15:configure:subset-not-honoured"
        why := s!"implemented {implMask}, asked {eff} (a subset), got {oRes}"
    else
      if !oCfgErr.set then
        spec := false; sig := "C15:configure:unhandled-accepted"
        why := s!"implemented {implMask}, asked {eff} (names an event without handler), accepted with {oEvents}"
  if !startOk then
    return { agree, spec, why, sig, cover, dyn := o.dyn, mres := mRes }
  -- requests ----------------------------------------------------------------------
  let oReqs ← getArr obs "reqs"
  if oReqs.length != reqs.length then
    agree := false
    if why == "" then why := s!"{reqs.length} requests sent, {oReqs.length} observed"
  let mut d := o.dyn
  -- spec-side bookkeeping of collected synchronisation chunks
  let mut accP : List B := []
  let mut accC : List B := []
  for (q, ro) in reqs.zip oReqs do
    let (rq, script, op) ← decReq q
    let b : Behaviour B := fun _ _ => script
    let out := dispatch hd b d rq
    d := out.dyn
    let mC := out.calls.map callS
    let mR := resultS out.result
    let oC ← obsCalls ro "calls"
    let oR ← obsResultS op ro
    if mC != oC then
      agree := false
      if why == "" then why := s!"{op} calls: model {mC} impl {oC}"
    if mR != oR then
      agree := false
      if why == "" then why := s!"{op} result: model {mR} impl {oR}"
    -- spec, directly on the observation ------------------------------------------
    let scriptErr := getStrD q "err"
    match rq with
    | .synchronize pods ctrs more =>
      cover := s!"op:Synchronize:{if more then "more" else "final"}" :: cover
      if !p.synchronize then
        if !(oC.isEmpty && oR == s!"ok:synchronize([],{more})") then
          spec := false; sig := "C15:sync:no-handler"
          why := s!"no Synchronize method: calls {oC}, reply {oR}"
      else if more then
        accP := accP ++ pods; accC := accC ++ ctrs
        if !(oC.isEmpty && oR == "ok:synchronize([],true)") then
          spec := false; sig := "C15:sync:chunk"
          why := s!"More chunk: calls {oC}, reply {oR}"
      else
        let want := s!"Synchronize:sync({listS (accP ++ pods)};{listS (accC ++ ctrs)})"
        accP := []; accC := []
        let wantR := if scriptErr != "" then "err:handler:" ++ scriptErr
                     else s!"ok:synchronize({listS script.updates},false)"
        if oC != [want] then
          spec := false; sig := "C15:sync:deliver"
          why := s!"final chunk: calls {oC}, expected [{want}]"
        else if oR != wantR then
          spec := false; sig := "C15:sync:passthrough"
          why := s!"Synchronize returned {wantR}, runtime saw {oR}"
    | .shutdown =>
      cover := "op:Shutdown" :: cover
      let want := if p.shutdown then ["Shutdown:none()"] else []
      if oC != want || oR != "ok:empty" then
        spec := false; sig := "C15:shutdown"
        why := s!"Shutdown: calls {oC}, reply {oR}"
    | .configure .. => pure ()
    | _ =>
      let e : Nat := (← getInt q "event").toNat
      let msg : Msg B := ⟨optStr q "pod", optStr q "ctr", optStr q "res", optStr q "ovh"⟩
      -- is this the request the runtime uses for event e?
      let proper := match slotOfEvent e with
        | some _ => (op == "StateChange") == !(e == 4 || e == 8 || e == 10 || e == 12)
        | none => false
      if proper then
        let s := (slotOfEvent e).getD .shutdown
        let has := implMask.testBit (e - 1)
        cover := s!"op:{slotName s}:{if has then "handled" else "absent"}" :: cover
        if scriptErr != "" && has then cover := "reply:error" :: cover
        let wantC := if has then [callS ⟨s, argsFor e msg⟩] else []
        let wantR := if has then
            (if scriptErr != "" then "err:handler:" ++ scriptErr else "ok:" ++ replyS (replyFor e script))
          else "ok:" ++ replyS (emptyReplyFor (β := B) e)
        if oC != wantC then
          spec := false; sig := s!"C15:dispatch:{slotName s}"
          why := s!"event {slotName s} (handler {if has then "present" else "absent"}): invoked {oC}, expected {wantC}"
        else if oR != wantR then
          spec := false; sig := s!"C15:passthrough:{slotName s}"
          why := s!"event {slotName s}: handler returned {wantR}, runtime saw {oR}"
      else
        cover := s!"op:StateChange:foreign" :: cover
        if !(oC.isEmpty && oR == "ok:empty") then
          spec := false; sig := "C15:dispatch:foreign-event"
          why := s!"StateChange with event {e} (no notification handler exists): invoked {oC}, reply {oR}"
  let extra ← obsCalls obs "extra"
  if !extra.isEmpty then
    agree := false; spec := false; sig := "C15:dispatch:stray"
    why := s!"invocations after the last reply: {extra}"
  -- the session ends (Stop, or the connection is lost): `close()` drops collected chunks
  return { agree, spec, why, sig, cover, dyn := { d with syncReq := none }, mres := mRes }

def judge (j : Json) : Except String Verdict := do
  let inp ← getObj j "in"
  let obs ← getObj j "obs"
  let ty ← getNat inp "type"
  let p : Plugin := { ev := BitVec.ofNat 13 ty, configure := ty / 8192 % 2 == 1,
                      synchronize := ty / 16384 % 2 == 1, shutdown := ty / 32768 % 2 == 1 }
  let name ← getStr inp "name"
  let idx ← getStr inp "idx"
  let note := getStrD obs "note"
  let oCreate ← getStr obs "create"
  let oStart := getStrD obs "start"
  let implMask : Nat := ty % 8192
  let popcount : Nat := ((List.range 13).filter (fun i => (ty % 8192).testBit i)).length
  let kind := getStrD inp "kind"
  let mut cover : List String := [kind, s!"handlers:{popcount}",
    s!"aux:{(if p.configure then "C" else "-") ++ (if p.synchronize then "S" else "-") ++ (if p.shutdown then "D" else "-")}"]
  let mut agree := true
  let mut spec := true
  let mut why := ""
  let mut sig := ""
  -- every session decides something: creation, the configured mask, or dispatch
  let nontrivial := true
  -- an observation that is a hang or a crash never satisfies the property
  if note.startsWith "crashed" || note.startsWith "blocked" || oStart == "blocked" || note == "stop blocked" then
    return { agree := false, spec := false, why := s!"implementation {if note == "" then "blocked in Start" else note}",
             sig := "C15:hang-or-crash", cover := cover ++ ["hang-or-crash"], nontrivial := true }
  if note.startsWith "harness" then
    return { agree := false, spec := true, why := note, cover := cover }
  -- creation ------------------------------------------------------------------------
  let specCreate := (implMask == 0) == (oCreate == "nohandlers") && (implMask != 0) == (oCreate == "ok")
  if !specCreate then
    spec := false; sig := "C15:none"
    why := s!"handler set {implMask}: stub creation gave {oCreate}"
  match setupHandlers p with
  | .error _ =>
    cover := "create:nohandlers" :: cover
    if oCreate != "nohandlers" then
      agree := false
      if why == "" then why := s!"model: creation fails; impl: {oCreate}"
    return { agree, spec, why, sig, cover, nontrivial := true, model := Json.mkObj [("create", "nohandlers")] }
  | .ok hd =>
    cover := "create:ok" :: cover
    if oCreate != "ok" then
      return { agree := false, spec, why := if why == "" then s!"model: creation succeeds; impl: {oCreate}" else why,
               sig, cover, nontrivial := true }
    if kind == "restart" then
      let sins ← getArr inp "sessions"
      let sobs ← getArr obs "sessions"
      if sobs.length != sins.length then
        -- the worker stops driving a stub that hung; the hanging session itself is judged below
        agree := false
        if why == "" then why := s!"{sins.length} sessions scripted, {sobs.length} played"
      let mut d : Dyn B := {}
      let mut k := 0
      let mut masks : List String := []
      let mut pattern := ""
      for (si, so) in sins.zip sobs do
        let r ← judgeSession p hd implMask name idx d si so
        d := r.dyn
        cover := cover ++ r.cover ++ [s!"end:{getStrD si "end"}"]
        let askedNow := getNatD ((getObj si "cfg").toOption.getD Json.null) "events"
        if !r.agree then
          agree := false
          if why == "" then why := s!"session #{k} (after Configure answers {masks}): {r.why}"
        if !r.spec && spec then
          spec := false
          sig := r.sig ++ (if k > 0 then ":after-restart" else "")
          why := s!"session #{k} of one stub, earlier sessions asked {masks}, this one asks {askedNow}: {r.why}"
        masks := masks ++ [toString askedNow]
        pattern := pattern ++ ((r.cover.find? (·.startsWith "mask:")).getD "mask:?") ++ ">"
        k := k + 1
      cover := s!"restart:sessions{sins.length}" :: cover
      return { agree, spec, why, sig, cover := cover.eraseDups, nontrivial := true,
               model := Json.mkObj [("pattern", pattern)] }
    else
      let r ← judgeSession p hd implMask name idx {} inp obs
      if !r.agree then
        agree := false
        if why == "" then why := r.why
      if !r.spec then
        spec := false; sig := r.sig; why := r.why
      return { agree, spec, why, sig, cover := (cover ++ r.cover).eraseDups, nontrivial,
               model := Json.mkObj [("configure", r.mres)] }

def main : IO UInt32 := runLines judge
end Drv.C15
