import Driver.Merge
open Lean Drv
namespace Drv.C02
def judge (j : Json) : Except String Verdict := Drv.Merge.judge "C02" j
def main : IO UInt32 := runLines judge
end Drv.C02
