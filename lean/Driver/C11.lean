import Driver.Common
import Driver.C10
open Lean Drv Nri Nri.Mux Drv.MuxD

/-!
Driver for C11.  `script` cases are judged by `Drv.MuxD.judgeScript` (result-by-result
acceptance by the two-ended model, property evaluated on the observation).  `chaos` cases
are concurrent: there is no linear order of operations to replay, so the property is
evaluated on the observation directly (received ⊑ sent per connection, nothing blocked,
one latched error per end, everything fails after the final close) and the model is used
in projected form: per connection, the sequence of Read results must be one the
connection state machine admits (data while open; after the first error only the latched
error or frames still queued, boundedly many), and what was received must be a prefix of
the frames the model's `decode` finds for that id on the tapped trunk of the sender.
-/

namespace Drv.C11

structure ConnLog where
  x : Nat
  id : Nat
  written : List Bytes
  wtail : List String
  reads : List String

def getConnLog (j : Json) : Except String ConnLog := do
  pure { x := ← getNat j "end", id := ← getNat j "id",
         written := (← getStrList j "written").map hexBytes,
         wtail := ← getStrList j "wtail", reads := ← getStrList j "reads" }

def judgeChaos (inp obs : Json) : Except String Verdict := do
  let qlen ← getNat inp "qlen"
  let mode ← getStr inp "mode"
  let closers ← getNat inp "closers"
  let nids ← getNat inp "nids"
  let crashed := getStrD obs "crashed"
  let cover0 := ["chaos", "mode:" ++ mode, s!"qlen:{qlen}", s!"closers:{closers}", s!"ids:{nids}"]
  if crashed != "" then
    return { agree := false, spec := false, why := s!"implementation {crashed}", sig := "C11:crashed",
             cover := cover0 ++ ["crashed"], nontrivial := true }
  let conns ← (← getArr obs "conns").mapM getConnLog
  let blocked ← getStrList obs "blocked"
  if mode == "close-race" then
    -- the same object closed by several goroutines at once, thousands of rounds: no panic (judged
    -- above), every call returns
    return { agree := true, spec := blocked.isEmpty,
             why := if blocked.isEmpty then "" else s!"calls that did not return: {blocked.take 4}",
             sig := if blocked.isEmpty then "" else "C11:close-race:blocked",
             cover := cover0 ++ ["close-race"], nontrivial := true }
  if mode == "stuck-write" then
    -- Close racing Writes that are blocked on an undrained trunk: only "everything returns"
    let done := (← getStrList obs "final").any fun s => (s.splitOn " writes completed").length > 1
    return { agree := true, spec := blocked.isEmpty,
             why := if blocked.isEmpty then "" else s!"calls that did not return: {blocked.take 4}",
             sig := if blocked.isEmpty then "" else "C11:close-vs-stuck-write",
             cover := cover0 ++ (if done then ["stuck-write:some-completed-first"] else ["stuck-write:all-stuck"]),
             nontrivial := true }
  let final ← getStrList obs "final"
  let tab := hexBytes (← getStr obs "trunk_ab")
  let tba := hexBytes (← getStr obs "trunk_ba")
  let fab := (decode tab).1
  let fba := (decode tba).1
  let mut spec := true
  let mut why := ""
  let mut sig := ""
  let mut agree := true
  let mut awhy := ""
  let mut tags : List String := []
  if !blocked.isEmpty then
    spec := false; why := s!"calls that did not return: {blocked.take 4}"; sig := "C11:blocked"
  if spec && !final.isEmpty then
    let bad := final.filter fun s => s.startsWith "write succeeded"
    if !bad.isEmpty then
      spec := false; why := s!"{bad.take 3}"; sig := "C11:write-ok-after-close"
  for x in [0, 1] do
    let mine := conns.filter (·.x == x)
    let mut errs : List String := []
    for c in mine do
      -- what the peer's writer on this id wrote successfully, and what it put on the trunk
      let peer := conns.find? fun p => p.x != x && p.id == c.id
      let sentOk := match peer with | some p => p.written | none => []
      let onTrunk := payloadsOf c.id (if x == 0 then fba else fab)
      let rcvd := c.reads.filterMap fun r => if r.startsWith "d:" && !r.startsWith "d:late:" then some (hexBytes (r.drop 2).toString) else none
      let es := c.reads.filterMap fun r => if r.startsWith "e:" then some (r.drop 2).toString else none
      errs := errs ++ es
      -- property: received ⊑ what the writer's successful Writes (plus at most the one in
      -- flight) amount to; concretely a prefix of the frames on the sender's trunk
      if spec && !(rcvd.isPrefixOf onTrunk) then
        spec := false; sig := "C11:gap-or-duplicate"
        why := s!"end {x} id {c.id}: the {rcvd.length} frames received are not a prefix of the {onTrunk.length} frames sent"
      -- every successful Write is on the trunk, in order (the writer side of "sent")
      if agree && mode != "cut" && !(sentOk.isPrefixOf (payloadsOf c.id (if x == 0 then fba else fab))) then
        agree := false; awhy := s!"id {c.id} towards end {x}: successful Writes are not a prefix of the trunk frames"
      if c.reads.any (· == "blocked") || c.wtail.any (· == "blocked") then
        if spec then spec := false; sig := "C11:blocked"; why := s!"end {x} id {c.id}: a call did not return"
      -- model projection: after the first error at most qlen+1 more data results
      let afterErr := (c.reads.dropWhile fun r => !r.startsWith "e:").filter fun r => r.startsWith "d:"
      if !afterErr.isEmpty then tags := "select:data-after-error" :: tags
      if agree && afterErr.length > qlen + 1 then
        agree := false; awhy := s!"end {x} id {c.id}: {afterErr.length} frames returned after the first error, queue length {qlen}"
      -- Writes keep failing once they failed
      let okAfterFail := (c.wtail.dropWhile fun r => !r.startsWith "e:").filter fun r => r.startsWith "ok"
      if spec && !okAfterFail.isEmpty then
        spec := false; sig := "C11:write-ok-after-error"; why := s!"end {x} id {c.id}: a Write succeeded after a Write had failed"
      -- the reader ended with an error (it keeps reading until it sees one)
      if spec && es.isEmpty && !(c.reads.any (· == "blocked")) then
        spec := false; sig := "C11:no-error-after-failure"; why := s!"end {x} id {c.id}: the reader never got an error"
    -- one latched error per end
    match errs with
    | k :: rest =>
      tags := ("err:" ++ k) :: tags
      if spec && rest.any (· != k) then
        spec := false; sig := "C11:error-not-latched"; why := s!"end {x}: Reads returned different errors {errs.eraseDups}"
    | [] => pure ()
  -- model: an overflow run must report the overflow error at the overflowing end …
  if mode == "overflow" && !(tags.contains "err:overflow") then
    tags := "overflow-not-reached" :: tags
  pure { agree := agree, spec := spec, why := if !spec then why else awhy, sig := if spec then "" else sig,
         cover := cover0 ++ tags.eraseDups ++ ["trace"], nontrivial := true }

def judge (j : Json) : Except String Verdict := do
  let inp ← getObj j "in"
  let obs ← getObj j "obs"
  match getStrD inp "kind" with
  | "script" => judgeScript "C11" inp obs
  | "chaos" => judgeChaos inp obs
  | k => throw s!"unknown case kind {k}"

def main : IO UInt32 := runLines judge
end Drv.C11
