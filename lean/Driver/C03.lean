import Driver.Merge
open Lean Drv
namespace Drv.C03
def judge (j : Json) : Except String Verdict := Drv.Merge.judge "C03" j
def main : IO UInt32 := runLines judge
end Drv.C03
