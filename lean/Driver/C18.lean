import Driver.Common
import NriModel.Launch
open Lean Drv Nri Nri.Launch

/-!
Driver for C18. One case = one generated plugin directory + drop-in directory on which a real
`Adaptation` was started, sent two creation requests and stopped.

`in  = {entries:[{name,kind,mode,content,target,behave}], dropins:[{name,kind,content}], nodir,
        nodropins, root}`
`obs = {start, log:[{who,ev,arg}], probes:[{file,argv,env,fds,configured,config,runtime,after}],
        stray, r1, r2}`
-/
namespace Drv.C18

structure EntryIn where
  name : String
  kind : String
  mode : Nat
  content : String
  target : String
  behave : String

def decEntry (j : Json) : Except String EntryIn := do
  pure { name := ← getStr j "name", kind := ← getStr j "kind", mode := ← getNat j "mode",
         content := getStrD j "content", target := getStrD j "target", behave := getStrD j "behave" "ok" }

def behaviourOf : String → Behaviour
  | "exit" => .exitsAtOnce | "hang" => .neverRegisters | "cfgfail" => .configFails
  | "drop" => .neverRegisters    -- hangs up before registering and stays alive: dropped and killed like one that never registers
  | "syncfail" => .syncFails | "die" => .diesLater
  | "idleclose" => .closesWhenIdle | "idleexit" => .exitsWhenIdle | _ => .ok

/-- the exec fact of an entry (what happens when NRI tries to run it), from how the harness
    made the file -/
def execOf (e : EntryIn) (root : Bool) : Exec :=
  let canExec := if root then hasExecBit e.mode else (e.mode / 64) % 2 = 1
  match e.kind with
  | "file" =>
    match e.content with
    | "probe" => if canExec then .runs (behaviourOf e.behave) else .cannot
    | "script" => if canExec then .runs .exitsAtOnce else .cannot
    | _ => .cannot           -- plain text: ENOEXEC; bare WebAssembly header: does not load
  | "symlink" => if e.target == "probe" then .runs (behaviourOf e.behave) else .cannot
  | _ => .cannot

/-- does a process started from this entry write reports (is it our probe)? -/
def observable (e : EntryIn) : Bool :=
  (e.kind == "file" && e.content == "probe") || (e.kind == "symlink" && e.target == "probe")

def toEntry (e : EntryIn) (root : Bool) : Entry :=
  { name := S e.name,
    kind := match e.kind with | "file" => .file | "dir" => .dir | "symlink" => .symlink | _ => .other,
    mode := if e.kind == "symlink" then 0o777 else e.mode % 512,
    exec := execOf e root }

structure ProbeObs where
  file : String
  env : List String
  fds : List String
  configured : Bool
  config : String
  runtime : String
  after : String

def decProbe (j : Json) : Except String ProbeObs := do
  pure { file := ← getStr j "file", env := ← getStrList j "env", fds := ← getStrList j "fds",
         configured := ← getBool j "configured", config := getStrD j "config",
         runtime := getStrD j "runtime", after := ← getStr j "after" }

structure LogLine where
  who : String
  ev : String
  arg : String

def decLog (j : Json) : Except String LogLine := do
  pure { who := ← getStr j "who", ev := ← getStr j "ev", arg := getStrD j "arg" }

def evName : Ev → String
  | .start => "start" | .configure => "configure" | .synchronize => "synchronize"
  | .create n => s!"create:r{n}"

def lineName (l : LogLine) : String := if l.ev == "create" then s!"create:{l.arg}" else l.ev

def sortStrings (l : List String) : List String := (l.toArray.qsort (· < ·)).toList

def expectedEnv (idx base : Str) : List String :=
  sortStrings ((childEnv idx base).map fun (k, v) => U k ++ "=" ++ U v)

def expectedFds : List String :=
  childFds.map fun n => s!"{n}:{if n < 3 then "null" else "socket"}"

def nondecreasing : List Nat → Bool
  | [] => true
  | [_] => true
  | a :: b :: rest => a ≤ b && nondecreasing (b :: rest)

def idxOfFile (file : String) : Nat :=
  match parsePluginName (S file) with
  | some (idx, _) => idxVal idx
  | none => 0

def judgeRound (j : Json) : Except String Verdict := do
  let inp ← getObj j "in"
  let obs ← getObj j "obs"
  let stream := getStrD inp "stream"
  let root := getBoolD inp "root" true
  let nodir := getBoolD inp "nodir"
  let nodropins := getBoolD inp "nodropins"
  let esIn ← (← getArr inp "entries").mapM decEntry
  let esIn := if nodir then [] else esIn
  let dsJ ← getArr inp "dropins"
  let dropins : Dropins ← (if nodropins then pure [] else dsJ.mapM fun d => do
    let n ← getStr d "name"
    let k ← getStr d "kind"
    pure (S n, if k == "dir" then Dropin.dir else Dropin.file (S (getStrD d "content"))))
  let anyDirDropin := dropins.any fun (_, v) => v == Dropin.dir
  -- what follows Start: "r" = a relayed CreateContainer, "idle" = idle-acting probes act; then Stop
  let planS : List String := match getStrList inp "plan" with
    | .ok l => if (getOpt inp "plan").isSome then l else ["r", "r"]
    | .error _ => ["r", "r"]
  let plan : List Step := planS.map fun x => if x == "idle" then Step.idle else Step.request
  let nreq := (planS.filter (· != "idle")).length
  let reqNos := (List.range nreq).map (· + 1)
  -- number of requests relayed before the first idle period
  let beforeIdle := ((planS.takeWhile (· != "idle")).filter (· != "idle")).length
  let entries := esIn.map (toEntry · root)
  let oStart ← getStr obs "start"
  let oLog ← (← getArr obs "log").mapM decLog
  let oProbes ← (← getArr obs "probes").mapM decProbe
  let oStray := getNatD obs "stray"
  let oR1 := getStrD obs "r1"
  let oR2 := getStrD obs "r2"
  let eventsFor (file : String) : List String := (oLog.filter (·.who == file)).map lineName
  let linesOf (name : String) : List String := (oLog.filter (fun l => lineName l == name)).map (·.who)
  let isObservable (file : String) : Bool := esIn.any fun e => e.name == file && observable e

  -- ================= model (of the repaired code)
  let (agree, mwhy, mdesc) : Bool × String × String := match startUp dropins entries with
    | .error _ =>
      (oStart == "config" && oLog.isEmpty && oProbes.isEmpty, "model: Start fails reading a drop-in, nothing launched", "start=config")
    | .ok su =>
      let obsStarted := su.started.filter fun s => s.process && isObservable (U s.found.fileName)
      let files := obsStarted.map fun s => U s.found.fileName
      let fin := runPlan (initRun su.active) plan
      let createsOf (file : Str) : List String :=
        (fin.log.filter (·.1 == file)).map fun p => evName (Ev.create p.2)
      let perFile := obsStarted.all fun s =>
        eventsFor (U s.found.fileName) == (eventsOf s 0).map evName ++ createsOf s.found.fileName
      let noOthers := oLog.all (fun l => files.contains l.who) && oProbes.all (fun p => files.contains p.file)
      let launchOrder := linesOf "start" == files
      let asSet (l : List String) := sortStrings l
      let handed (n : Nat) : List String :=
        ((fin.log.filter (·.2 == n)).map (U ·.1)).filter isObservable
      let invoked := reqNos.all fun n =>
        let got := linesOf s!"create:r{n}"
        asSet got == asSet (handed n) && nondecreasing (got.map idxOfFile)
      let act := su.active.filter fun f => isObservable (U f.fileName)
      let stoppedAll := (stopAll fin).stopped
      let probesOk := obsStarted.all fun s =>
        match oProbes.find? (·.file == U s.found.fileName) with
        | none => false
        | some p =>
          p.env == expectedEnv s.found.idx s.found.base && p.fds == expectedFds &&
          p.configured == s.configured && (!s.configured || (p.config == U s.found.cfg && p.runtime == "verif-runtime/v18")) &&
          (p.after == "gone") == (stoppedEventually s && (!syncOk s || stoppedAll.contains s.found))
      let ok := oStart == "ok" && perFile && noOthers && launchOrder && invoked && probesOk && oStray == 0 && oR1 == "" && oR2 == ""
      let why := if oStart != "ok" then s!"model: Start succeeds; impl: {oStart}"
        else if !perFile then "per-plugin event sequence differs from the model's"
        else if !noOthers then "events or reports from a file the model does not launch"
        else if !launchOrder then s!"launch order: model {files} impl {linesOf "start"}"
        else if !invoked then s!"invocations: model {reqNos.map handed} impl {reqNos.map fun n => linesOf s!"create:r{n}"}"
        else if !probesOk then "environment / descriptors / configuration / reaping of a probe differ from the model's"
        else if oStray != 0 then "stray processes after Stop"
        else "a request failed"
      (ok, why, s!"start=ok launched={files} active={act.map (U ·.fileName)}")

  -- ================= specification, directly on the observation
  let pluginFile (e : EntryIn) : Bool :=
    e.kind == "file" && hasExecBit e.mode && (parsePluginName (S e.name)).isSome
  let mayLaunch (e : EntryIn) : Bool :=
    pluginFile e || (e.kind == "symlink" && (parsePluginName (S e.name)).isSome)
  let starts := linesOf "start"
  let count (file : String) := (starts.filter (· == file)).length
  let configChoice (file : String) : String :=
    match parsePluginName (S file) with
    | none => ""
    | some (_, base) =>
      let look (n : String) : Option String := match AList.lookup dropins (S n) with
        | some (.file c) => some (U c) | _ => none
      match look (file ++ ".conf") with
      | some c => c
      | none => match look (U base ++ ".conf") with
        | some c => c
        | none => ""
  -- each check: (holds, sig, why)
  let checks : List (Bool × String × String) := [
    (oStart == "ok",
      (if oStart == "invalid-name" then "C18:misnamed-executable-aborts-start" else s!"C18:start-failed:{oStart}"),
      s!"Adaptation.Start failed ({oStart}); pre-installed plugins present: {(esIn.filter pluginFile).map (·.name)}; started: {starts}"),
    (oProbes.all (fun p => p.after != "alive") && oStray == 0,
      "C18:alive-after-stop:" ++ "+".intercalate (sortStrings ((oProbes.filter (·.after == "alive")).map fun p =>
          match esIn.find? (·.name == p.file) with | some e => e.behave | none => "?").eraseDups),
      s!"probe processes still running after Stop: {(oProbes.filter (·.after == "alive")).map (·.file)} stray={oStray}"),
    (esIn.all fun e => !(pluginFile e && observable e && (root || (e.mode / 64) % 2 = 1)) || count e.name == 1,
      "C18:plugin-not-launched-once",
      s!"start counts: {(esIn.filter pluginFile).map fun e => (e.name, count e.name)}"),
    (starts.all (fun f => esIn.any fun e => e.name == f && mayLaunch e) &&
      oProbes.all (fun p => esIn.any fun e => e.name == p.file && mayLaunch e),
      "C18:launched-non-plugin", s!"started: {starts}"),
    (oProbes.all fun p => match parsePluginName (S p.file) with
        | some (idx, base) => p.env == expectedEnv idx base
        | none => true,
      "C18:environment", s!"environments: {oProbes.map fun p => (p.file, p.env)}"),
    (oProbes.all (fun p => p.fds == expectedFds), "C18:inherited-descriptor",
      s!"descriptors at entry: {oProbes.map fun p => (p.file, p.fds)}"),
    (oProbes.all (fun p => !p.configured || (p.config == configChoice p.file && p.runtime == "verif-runtime/v18")),
      "C18:config-choice", s!"configurations: {oProbes.map fun p => (p.file, p.config, configChoice p.file)}"),
    (nondecreasing (starts.map idxOfFile) && reqNos.all (fun n => nondecreasing ((linesOf s!"create:r{n}").map idxOfFile)),
      "C18:order", s!"start {starts} requests {reqNos.map fun n => linesOf s!"create:r{n}"}"),
    (esIn.all fun e =>
        !(mayLaunch e && observable e && count e.name == 1) ||
        (let evs := eventsFor e.name
         let up := ["start", "configure", "synchronize"]
         let reqs (ns : List Nat) := ns.map fun n => s!"create:r{n}"
         match e.behave with
         | "ok" => evs == up ++ reqs reqNos
         | "die" => evs == up ++ reqs (reqNos.take 1)
         | "idleclose" | "idleexit" => evs == up ++ reqs ((List.range beforeIdle).map (· + 1))
         | "syncfail" => evs == up
         | "cfgfail" => evs == ["start", "configure"]
         | _ => evs == ["start"]),
      "C18:skip", s!"events: {(esIn.filter fun e => mayLaunch e && observable e).map fun e => (e.name, eventsFor e.name)}"),
    (oR1 == "" && oR2 == "", "C18:request-failed", s!"r1={oR1} r2={oR2}"),
    (oProbes.all (fun p => p.after != "zombie"),
      "C18:unreaped-child:" ++ "+".intercalate (sortStrings ((oProbes.filter (·.after == "zombie")).map fun p =>
          match esIn.find? (·.name == p.file) with | some e => e.behave | none => "?").eraseDups),
      s!"unreaped (zombie) children of the runtime after Stop: {(oProbes.filter (·.after == "zombie")).map (·.file)}")
  ]
  let inDomain := !anyDirDropin
  let failing := checks.find? fun (ok, _, _) => !ok
  let (spec, sig, swhy) := match failing with
    | some (_, sg, w) => (false, sg, w)
    | none => (true, "", "")
  let spec := spec || !inDomain
  let kinds := esIn.map fun e =>
    if e.kind == "file" then
      s!"entry:file:{e.content}:{if hasExecBit e.mode then "x" else "nox"}:{if (parsePluginName (S e.name)).isSome then "named" else "misnamed"}"
    else if e.kind == "symlink" then s!"entry:symlink:{e.target}:{if (parsePluginName (S e.name)).isSome then "named" else "misnamed"}"
    else s!"entry:dir:{if (parsePluginName (S e.name)).isSome then "named" else "misnamed"}"
  let behaves := (esIn.filter fun e => mayLaunch e && observable e).map fun e => s!"behaviour:{e.behave}"
  let cfgs := oProbes.filter (·.configured) |>.map fun p =>
    match parsePluginName (S p.file) with
    | none => "cfg:?"
    | some (_, base) =>
      if (AList.lookup dropins (S (p.file ++ ".conf"))).isSome then "cfg:specific"
      else if (AList.lookup dropins (base ++ confSuffix)).isSome then "cfg:generic" else "cfg:none"
  let cover := [s!"stream:{stream}", s!"start:{oStart}", s!"launched:{oProbes.length}", s!"plan:{"-".intercalate planS}"]
    ++ kinds.eraseDups ++ behaves.eraseDups ++ cfgs.eraseDups
    ++ (oProbes.map fun p => s!"after:{p.after}").eraseDups
    ++ (if nodir then ["no-plugin-dir"] else []) ++ (if nodropins then ["no-dropin-dir"] else [])
    ++ (if !inDomain then ["excluded"] else [])
  pure { agree := agree, spec := spec,
         why := if !spec then swhy else if !agree then mwhy else "",
         cover := cover, nontrivial := inDomain && !esIn.isEmpty,
         sig := if !inDomain then "guard:dropin-is-a-directory:start=" ++ oStart else if spec then "" else sig,
         excluded := !inDomain, model := Json.str mdesc }

/-- A case with a restart carries the observation of the second session of the same Adaptation
    under `obs.round2`; it is judged by the same rules as the first (same directory, same plan). -/
def judge (j : Json) : Except String Verdict := do
  let v1 ← judgeRound j
  let obs ← getObj j "obs"
  match getOpt obs "round2" with
  | none => pure v1
  | some o2 =>
    let inp ← getObj j "in"
    let v2 ← judgeRound (Json.mkObj [("in", inp), ("obs", o2)])
    let pre (s : String) := if s == "" then "" else "after a restart of the same Adaptation: " ++ s
    pure { v1 with
      agree := v1.agree && v2.agree, spec := v1.spec && v2.spec,
      why := if !v1.spec || (!v1.agree && v2.spec) then v1.why else if !v2.spec || !v2.agree then pre v2.why else v1.why,
      sig := if !v1.spec then v1.sig else if !v2.spec then "restart:" ++ v2.sig else v1.sig,
      cover := v1.cover ++ ["plan:restart"] ++ (v2.cover.filter fun c => c.startsWith "start:" || c.startsWith "after:").map (fun c => "restart:" ++ c) }

def main : IO UInt32 := runLines judge
end Drv.C18
