import Driver.Common
import NriModel.Wire
import NriModel.Extracted.ApiSchema
/-!
Driver for C12. Two kinds of input line:

* `{"op":"encode","in":{msg,val,…}}` (sent by the harness itself before it runs the Go
  decoders): answers with the bytes of the Lean encoder for `val` and of three variants
  every conforming decoder must accept (fields in reverse order at every level, every varint
  padded to a non-minimal form, every singular message field split into two records that
  have to be merged, the records of different fields interleaved so that the elements of a
  repeated field or map are not contiguous) in `model.variants`.
* a case line `{"id","in":{msg,val,alloc_empty,stream,note},"obs":{…}}`: judged.

agree = the Lean codec and the Go codecs compute the same thing on the same input:
  Lean `encode val` = the bytes of `proto.Marshal` (deterministic) exactly, and = the bytes
  of `MarshalVT` up to the order of map entries (checked as: `encode (decode vt) = vt` and
  `decode vt` ≈ val); Lean `size` = `SizeVT` = `proto.Size`; Lean `decode` of each byte
  string = what each Go decoder returned for it (or both reject).
spec  = the property, evaluated on the Go observations alone: neither encoder fails, `SizeVT`
  is the length of what `MarshalVT` wrote, each encoder's bytes decode with the *other*
  decoder (and with its own) to a message `proto.Equal` to the original whose dump is the
  input value (absent vs present-empty included) with no unknown bytes left over, and the
  Lean encoder's bytes and their variants decode likewise with both Go decoders.
-/
open Lean Drv Nri Nri.Wire Nri.Wire.Extracted

namespace Drv.C12

/-! hex -/

def hexDigit (c : Char) : Option Nat :=
  if '0' ≤ c ∧ c ≤ '9' then some (c.toNat - 48)
  else if 'a' ≤ c ∧ c ≤ 'f' then some (c.toNat - 87)
  else if 'A' ≤ c ∧ c ≤ 'F' then some (c.toNat - 55)
  else none

def unhexAux : List Char → List Nat → Except String Bytes
  | [], acc => pure acc.reverse
  | [_], _ => throw "odd hex length"
  | a :: b :: r, acc =>
    match hexDigit a, hexDigit b with
    | some x, some y => unhexAux r ((16 * x + y) :: acc)
    | _, _ => throw "bad hex digit"

def unhex (s : String) : Except String Bytes := unhexAux s.toList []

def hexChar (n : Nat) : Char := if n < 10 then Char.ofNat (48 + n) else Char.ofNat (87 + n)

def tohex (bs : Bytes) : String :=
  String.ofList (bs.foldr (fun b acc => hexChar (b / 16 % 16) :: hexChar (b % 16) :: acc) [])

def showBytes (bs : Bytes) : String :=
  if bs.all (fun b => 32 ≤ b ∧ b < 127) then "\"" ++ String.ofList (bs.map Char.ofNat) ++ "\""
  else "x" ++ tohex bs

/-! values from / to JSON (type-directed; see harness/c12/value.go) -/

def jsonStr (j : Json) : Except String String :=
  match j with
  | Json.str s => pure s
  | _ => throw "expected a JSON string"

mutual
partial def parseVal (S : Schema) (ty : FType) (j : Json) : Except String Val := do
  match ty with
  | .scalar _ =>
    let s ← jsonStr j
    match s.toInt? with
    | some i => pure (.int i)
    | none => throw s!"bad integer {s}"
  | .string => do
    let s ← jsonStr j
    pure (.str (← unhex s))
  | .msg m =>
    match j with
    | Json.null => pure .none
    | _ => do pure (.msg (← parseMsg S m j))
  | .repString =>
    match j with
    | Json.arr a => do
      let l ← a.toList.mapM fun x => do unhex (← jsonStr x)
      pure (.strs l)
    | Json.null => pure (.strs [])
    | _ => throw "expected a list of strings"
  | .repMsg m =>
    match j with
    | Json.arr a => do
      let l ← a.toList.mapM fun x => match x with
        | Json.null => pure Val.none
        | _ => do pure (Val.msg (← parseMsg S m x))
      pure (.list l)
    | Json.null => pure (.list [])
    | _ => throw "expected a list of messages"
  | .mapSS =>
    match j with
    | Json.arr a => do
      let l ← a.toList.mapM fun x => match x with
        | Json.arr #[k, v] => do pure ((← unhex (← jsonStr k)), (← unhex (← jsonStr v)))
        | _ => throw "expected [key,value]"
      pure (.smap l)
    | Json.null => pure (.smap [])
    | _ => throw "expected a list of map entries"
  | .unsupported => throw "unsupported field kind"
partial def parseMsg (S : Schema) (m : Nat) (j : Json) : Except String (List Val) := do
  match j with
  | Json.arr a =>
    let fs := S.fieldsOf m
    if a.size ≠ fs.length then throw s!"message {m}: {a.size} values for {fs.length} fields"
    (fs.zip a.toList).mapM fun (f, x) => parseVal S f.ty x
  | _ => throw "expected a message value (array)"
end

/-- lexicographic order on byte strings (Go's string order, which `Deterministic` uses) -/
def bytesLt : Bytes → Bytes → Bool
  | [], [] => false
  | [], _ :: _ => true
  | _ :: _, [] => false
  | a :: r, b :: s => if a < b then true else if b < a then false else bytesLt r s

def insertSorted (e : Bytes × Bytes) : List (Bytes × Bytes) → List (Bytes × Bytes)
  | [] => [e]
  | x :: r => if bytesLt e.1 x.1 then e :: x :: r else x :: insertSorted e r

def sortEntries (l : List (Bytes × Bytes)) : List (Bytes × Bytes) := l.foldr insertSorted []

mutual
/-- maps sorted by key -/
partial def canonVal : Val → Val
  | .msg fs => .msg (fs.map canonVal)
  | .list l => .list (l.map canonVal)
  | .smap l => .smap (sortEntries l)
  | v => v
end

def canonMsg (v : List Val) : List Val := v.map canonVal

partial def valBeq : Val → Val → Bool
  | .int a, .int b => a == b
  | .str a, .str b => a == b
  | .none, .none => true
  | .msg a, .msg b => a.length == b.length && (a.zip b).all fun (x, y) => valBeq x y
  | .strs a, .strs b => a == b
  | .list a, .list b => a.length == b.length && (a.zip b).all fun (x, y) => valBeq x y
  | .smap a, .smap b => a == b
  | _, _ => false

def msgBeq (a b : List Val) : Bool := valBeq (.msg a) (.msg b)

partial def showVal : Val → String
  | .int i => toString i
  | .str b => showBytes b
  | .none => "nil"
  | .msg fs => "{" ++ ", ".intercalate (fs.map showVal) ++ "}"
  | .strs l => "[" ++ ", ".intercalate (l.map showBytes) ++ "]"
  | .list l => "[" ++ ", ".intercalate (l.map showVal) ++ "]"
  | .smap l => "map[" ++ ", ".intercalate (l.map fun (k, v) => showBytes k ++ ":" ++ showBytes v) ++ "]"

def clip (s : String) (n : Nat := 160) : String :=
  if s.length ≤ n then s else String.ofList (s.toList.take n) ++ "…"

mutual
/-- path and content of the first difference between two message values -/
partial def diffMsg (S : Schema) (m : Nat) (pfx : String) (a b : List Val) : Option String :=
  let fs := S.fieldsOf m
  if a.length ≠ fs.length ∨ b.length ≠ fs.length then some s!"{pfx}: field counts {a.length}/{b.length}/{fs.length}"
  else (fs.zip (a.zip b)).findSome? fun (f, x, y) => diffVal S f (pfx ++ "." ++ f.name) x y
partial def diffVal (S : Schema) (f : Field) (path : String) (x y : Val) : Option String :=
  if valBeq x y then none else
  match f.ty, x, y with
  | .msg m, .msg a, .msg b => diffMsg S m path a b
  | .repMsg m, .list a, .list b =>
    if a.length ≠ b.length then some s!"{path}: {a.length} vs {b.length} elements"
    else ((List.range a.length).zip (a.zip b)).findSome? fun (i, p, q) =>
      match p, q with
      | .msg u, .msg w => diffMsg S m s!"{path}[{i}]" u w
      | _, _ => if valBeq p q then none else some s!"{path}[{i}]: {clip (showVal p)} vs {clip (showVal q)}"
  | _, _, _ => some s!"{path}: {clip (showVal x)} vs {clip (showVal y)}"
end

/-! the variants of the encoding that every decoder has to accept -/

structure VOpts where
  rev : Bool := false
  pad : Bool := false
  split : Bool := false
  inter : Bool := false

/-- a non-minimal varint: continuation bit on the last byte, then a zero byte -/
def padVarint (n : Nat) : Bytes :=
  let e := encodeVarint n
  if e.length < 10 then
    match e.reverse with
    | last :: front => front.reverse ++ [last + 128, 0]
    | [] => e
  else e

def vVarint (o : VOpts) (n : Nat) : Bytes := if o.pad then padVarint n else encodeVarint n
def vLenDelim (o : VOpts) (num : Nat) (p : Bytes) : Bytes :=
  vVarint o (num * 8 + 2) ++ vVarint o p.length ++ p

/-- keep the fields at even (`par = 0`) or odd positions, reset the others to the default -/
def halfOf (fs : List Field) (vs : List Val) (par : Nat) : List Val :=
  ((List.range vs.length).zip (fs.zip vs)).map fun (i, f, v) => if i % 2 = par then v else f.ty.default

/-- one record from each field in turn, until all are used up -/
partial def roundRobin (parts : List (List Bytes)) : List Bytes :=
  let parts := parts.filter (· ≠ [])
  if parts.isEmpty then [] else
    parts.filterMap List.head? ++ roundRobin (parts.map List.tail)

mutual
/-- the records of one field -/
partial def vField (S : Schema) (o : VOpts) (f : Field) (v : Val) : List Bytes :=
  match f.ty, v with
  | .scalar k, .int i => if i = 0 then [] else [vVarint o (f.num * 8 + 0) ++ vVarint o (toU64 k i)]
  | .string, .str bs => if bs = [] then [] else [vLenDelim o f.num bs]
  | .msg m, .msg fs =>
    if o.split then
      [vLenDelim o f.num (vFields S o (S.fieldsOf m) (halfOf (S.fieldsOf m) fs 0)),
       vLenDelim o f.num (vFields S o (S.fieldsOf m) (halfOf (S.fieldsOf m) fs 1))]
    else [vLenDelim o f.num (vFields S o (S.fieldsOf m) fs)]
  | .repString, .strs l => l.map (vLenDelim o f.num)
  | .repMsg m, .list l =>
    l.map fun e => match e with
      | .msg fs => vLenDelim o f.num (vFields S o (S.fieldsOf m) fs)
      | _ => vLenDelim o f.num []
  | .mapSS, .smap l =>
    let es := if o.rev then l.reverse else l
    es.map fun (k, v) =>
      let kk := vLenDelim o 1 k
      let vv := vLenDelim o 2 v
      vLenDelim o f.num (if o.rev then vv ++ kk else kk ++ vv)
  | _, _ => []
partial def vFields (S : Schema) (o : VOpts) (fs : List Field) (vs : List Val) : Bytes :=
  let parts := (fs.zip vs).map fun (f, v) => vField S o f v
  if o.rev then parts.reverse.flatten.flatten
  else if o.inter then (roundRobin parts).flatten
  else parts.flatten.flatten
end

def variants (S : Schema) (m : Nat) (v : List Val) (wt : Bool) : List (String × Bytes) :=
  let canon := ("canon", encode S m v)
  if !wt then [canon] else
  [canon,
   ("reversed", vFields S { rev := true } (S.fieldsOf m) v),
   ("padded", vFields S { pad := true } (S.fieldsOf m) v),
   ("split", vFields S { split := true } (S.fieldsOf m) v),
   ("interleaved", vFields S { inter := true } (S.fieldsOf m) v)]

/-! judging -/

def findMsg (S : Schema) (name : String) : Option Nat :=
  S.findIdx? (·.name == name)

structure Dec where
  ok : Bool
  err : String
  equal : Bool
  unknown : Nat
  same : Bool
  dump : Json

def getDec (obs : Json) (k : String) : Except String Dec := do
  let j ← getObj obs k
  pure { ok := getBoolD j "ok", err := getStrD j "err", equal := getBoolD j "equal",
         unknown := getNatD j "unknown", same := getBoolD j "same", dump := (j.getObjVal? "dump").toOption.getD Json.null }

/-- cover tags describing what the value exercises -/
partial def tagsOf (S : Schema) (f : Field) (v : Val) (depth : Nat) : List String :=
  match f.ty, v with
  | .scalar k, .int i =>
    if i = 0 then [] else
      let kn := match k with
        | .int32 => "int32" | .int64 => "int64" | .uint32 => "uint32" | .uint64 => "uint64"
        | .bool => "bool" | .enum => "enum"
      [s!"set:{kn}", s!"set:{kn}:{if i < 0 then "neg" else "pos"}",
       s!"varint-bytes:{(encodeVarint (toU64 k i)).length}"]
  | .string, .str b =>
    if b = [] then [] else ["set:string", s!"len-prefix-bytes:{(encodeVarint b.length).length}"] ++
      (if b.any (· ≥ 128) then ["string:non-ascii"] else [])
  | .msg _, .none => ["submsg:absent"]
  | .msg m, .msg fs =>
    let inner := ((S.fieldsOf m).zip fs).flatMap fun (g, x) => tagsOf S g x (depth + 1)
    let body := encode S m fs
    (if body = [] then ["submsg:present-empty"] else ["submsg:present", s!"len-prefix-bytes:{(encodeVarint body.length).length}"]) ++
      [s!"depth:{depth + 1}"] ++ inner
  | .repString, .strs l =>
    if l = [] then [] else [s!"repstring:{if l.length = 1 then "1" else "n"}"] ++
      (if l.any (· = []) then ["repstring:empty-element"] else [])
  | .repMsg m, .list l =>
    if l = [] then [] else
      [s!"repmsg:{if l.length = 1 then "1" else "n"}", s!"depth:{depth + 1}"] ++
      (if l.any (fun e => match e with | .msg fs => encode S m fs = [] | _ => false) then ["repmsg:empty-element"] else []) ++
      (l.flatMap fun e => match e with
        | .msg fs => ((S.fieldsOf m).zip fs).flatMap fun (g, x) => tagsOf S g x (depth + 1)
        | _ => ["repmsg:nil-element"])
  | .mapSS, .smap l =>
    if l = [] then [] else [s!"map:{if l.length = 1 then "1" else "n"}"] ++
      (if l.any (fun e => e.1 = []) then ["map:empty-key"] else []) ++
      (if l.any (fun e => e.2 = []) then ["map:empty-value"] else [])
  | _, _ => ["ill-typed"]

def dedup (l : List String) : List String :=
  l.foldl (fun acc x => if acc.contains x then acc else acc ++ [x]) []

/-- the Lean decoder against one Go decoding of the same bytes -/
def sameDecode (S : Schema) (m : Nat) (bytes : Bytes) (d : Dec) (inVal : List Val) (what : String) :
    Except String (Option String) := do
  match decode S m bytes with
  | none =>
    if d.ok then pure (some s!"{what}: the Go decoder accepts bytes the Lean decoder rejects")
    else pure none
  | some lv =>
    if !d.ok then pure (some s!"{what}: the Go decoder rejects ({d.err}) bytes the Lean decoder accepts")
    else
      let gv ← match d.dump with
        | Json.null => if d.same then pure inVal else throw s!"{what}: no dump"
        | j => parseMsg S m j
      if msgBeq (canonMsg lv) (canonMsg gv) then pure none
      else pure (some s!"{what}: Lean decode ≠ Go decode at {(diffMsg S m "" (canonMsg lv) (canonMsg gv)).getD "?"}")

def judgeEncode (S : Schema) (inp : Json) : Except String Verdict := do
  if getStrD inp "stream" == "raw" || getStrD inp "stream" == "glue" || getStrD inp "stream" == "concat" then
    return { model := Json.mkObj [("variants", Json.arr #[])] }
  let name ← getStr inp "msg"
  let some m := findMsg S name | throw s!"unknown message {name}"
  let v ← parseMsg S m (← getObj inp "val")
  let wt := WellTyped S m v
  let vs := variants S m v wt
  pure { model := Json.mkObj [("variants", Json.arr (vs.map fun (n, b) =>
            Json.mkObj [("name", n), ("hex", tohex b)]).toArray)] }

def judgeCase (S : Schema) (inp obs : Json) : Except String Verdict := do
  let name ← getStr inp "msg"
  let stream := getStrD inp "stream"
  let note := getStrD inp "note"
  let some m := findMsg S name | throw s!"unknown message {name}"
  let inValJ ← getObj inp "val"
  let v ← parseMsg S m inValJ
  let wt := WellTyped S m v
  let cv := canonMsg v
  -- observations
  let pbHex := getStrD obs "pb"
  let vtHex := getStrD obs "vt"
  let pbErr := getStrD obs "pb_err"
  let vtErr := getStrD obs "vt_err"
  let sizeVT := getIntD obs "size_vt" (-1)
  let pbSize := getIntD obs "pb_size" (-1)
  let hasVT := getBoolD obs "has_vt"
  let pb ← unhex pbHex
  let vt ← unhex vtHex
  let pb2vt ← getDec obs "pb2vt"
  let vt2pb ← getDec obs "vt2pb"
  let pb2pb ← getDec obs "pb2pb"
  let vt2vt ← getDec obs "vt2vt"
  -- plain proto.Marshal (default options), the call the ttRPC codec makes
  let pbdHex := getStrD obs "pbd"
  let pbdErr := getStrD obs "pbd_err"
  let pbd ← unhex pbdHex
  let pbd2vt ← getDec obs "pbd2vt"
  let pbd2pb ← getDec obs "pbd2pb"
  let leanErr := getStrD obs "lean_err"
  let leanObs ← getArr obs "lean"
  -- model
  let enc := encode S m cv
  let sz := size S m cv
  let vs := variants S m v wt
  -- ---------- spec: on the Go observations alone ----------
  let decOk (d : Dec) : Bool := d.ok && d.equal && d.unknown == 0 && d.same
  let mut specFails : List (String × String) := []
  let buildErr := getStrD obs "build_err"
  if buildErr != "" then
    specFails := specFails ++ [("build", s!"the message cannot be constructed through protobuf reflection: {buildErr}")]
  if !hasVT && buildErr == "" then specFails := specFails ++ [("no-vt-codec", "the message type has no MarshalVT/UnmarshalVT/SizeVT")]
  if pbErr != "" && buildErr == "" then specFails := specFails ++ [("encoder-error:proto", s!"proto.Marshal (deterministic) failed ({pbErr})")]
  if pbdErr != "" && buildErr == "" then specFails := specFails ++ [("encoder-error:proto-default", s!"proto.Marshal failed ({pbdErr})")]
  if vtErr != "" && buildErr == "" then specFails := specFails ++ [("encoder-error:vt", s!"MarshalVT failed ({vtErr})")]
  if vtErr == "" && sizeVT != (vt.length : Int) then
    specFails := specFails ++ [("size", s!"SizeVT = {sizeVT} but MarshalVT wrote {vt.length} bytes")]
  for (k, d, txt) in [("cross:pb-default->vt", pbd2vt, "UnmarshalVT(proto.Marshal(m)) [default options, as ttRPC]"),
                      ("self:pb-default->pb", pbd2pb, "proto.Unmarshal(proto.Marshal(m)) [default options]"),
                      ("cross:pb->vt", pb2vt, "UnmarshalVT(proto.Marshal(m))"),
                      ("cross:vt->pb", vt2pb, "proto.Unmarshal(MarshalVT(m))"),
                      ("self:pb->pb", pb2pb, "proto.Unmarshal(proto.Marshal(m))"),
                      ("self:vt->vt", vt2vt, "UnmarshalVT(MarshalVT(m))")] do
    if d.err == "no-input" then continue
    if !decOk d then
      let what :=
        if !d.ok then s!"fails ({d.err})"
        else if d.unknown != 0 then s!"leaves {d.unknown} unknown bytes"
        else match parseMsg S m d.dump with
          | .ok gv => s!"≠ m at {(diffMsg S m "" cv (canonMsg gv)).getD (if d.equal then "?" else "proto.Equal")}"
          | .error e => s!"undumpable ({e})"
      specFails := specFails ++ [(k, s!"{txt} {what}")]
  let mut leanSeen : List (String × String) := []
  for lj in leanObs do
    let vn := getStrD lj "name"
    leanSeen := leanSeen ++ [(vn, getStrD lj "hex")]
    for (dn, txt) in [("pb", "proto.Unmarshal"), ("vt", "UnmarshalVT")] do
      let d ← getDec lj dn
      if !decOk d then
        let what :=
          if !d.ok then s!"fails ({d.err})"
          else if d.unknown != 0 then s!"leaves {d.unknown} unknown bytes"
          else match d.dump with
            | Json.null => "is not proto.Equal to m"
            | dj => match parseMsg S m dj with
              | .ok gv => s!"≠ m at {(diffMsg S m "" cv (canonMsg gv)).getD "proto.Equal"}"
              | .error e => s!"undumpable ({e})"
        specFails := specFails ++ [(s!"lean-bytes:{vn}:{dn}", s!"{txt}(Lean {vn} encoding of m) {what}")]
  let spec := specFails.isEmpty
  -- ---------- agree: Lean codec = Go codecs on the same inputs ----------
  let mut dis : List String := []
  if pbErr == "" then
    if enc != pb then dis := dis ++ [s!"Lean encode ≠ proto.Marshal bytes ({clip (tohex enc) 80} vs {clip pbHex 80})"]
    if pbSize != (sz : Int) then dis := dis ++ [s!"Lean size {sz} ≠ proto.Size {pbSize}"]
    for (d, w) in [(pb2vt, "proto bytes/UnmarshalVT"), (pb2pb, "proto bytes/proto.Unmarshal")] do
      if let some e ← sameDecode S m pb d v w then dis := dis ++ [e]
  else if wt then dis := dis ++ [s!"proto.Marshal rejects ({pbErr}) a value the model holds well-typed"]
  -- default-options proto.Marshal walks Go maps in random order (a different library routine
  -- than the deterministic one): judged as MarshalVT is — the Lean encoding of what it decodes
  -- to, equal to the value up to map-entry order
  if pbdErr == "" then
    if pbd.length != sz then dis := dis ++ [s!"Lean size {sz} ≠ length {pbd.length} of proto.Marshal (default options)"]
    match decode S m pbd with
    | some lv =>
      if encode S m lv != pbd then dis := dis ++ ["proto.Marshal (default options) bytes are not the Lean encoding of the value they decode to"]
      if wt && !msgBeq (canonMsg lv) cv then
        dis := dis ++ [s!"Lean decode(proto.Marshal default bytes) ≠ value at {(diffMsg S m "" (canonMsg lv) cv).getD "?"}"]
    | none => dis := dis ++ ["Lean decode rejects the proto.Marshal (default options) bytes"]
    for (d, w) in [(pbd2vt, "proto default bytes/UnmarshalVT"), (pbd2pb, "proto default bytes/proto.Unmarshal")] do
      if let some e ← sameDecode S m pbd d v w then dis := dis ++ [e]
  else if wt then dis := dis ++ [s!"proto.Marshal (default options) rejects ({pbdErr}) a value the model holds well-typed"]
  else if pbdErr != pbErr then dis := dis ++ [s!"proto.Marshal default ({pbdErr}) and deterministic ({pbErr}) fail differently"]
  if vtErr == "" then
    if sizeVT != (sz : Int) then dis := dis ++ [s!"Lean size {sz} ≠ SizeVT {sizeVT}"]
    match decode S m vt with
    | some lv =>
      -- MarshalVT iterates Go maps in random order: equal up to map-entry order, and exactly
      -- the Lean encoding of what it decodes to
      if encode S m lv != vt then dis := dis ++ ["MarshalVT bytes are not the Lean encoding of the value they decode to"]
      if wt && !msgBeq (canonMsg lv) cv then
        dis := dis ++ [s!"Lean decode(MarshalVT bytes) ≠ value at {(diffMsg S m "" (canonMsg lv) cv).getD "?"}"]
    | none =>
      if wt then dis := dis ++ ["Lean decode rejects the MarshalVT bytes"]
      else if enc != vt then
        -- ill-typed value (excluded stream: at most one entry per map): byte-exact comparison
        dis := dis ++ [s!"Lean encode ≠ MarshalVT bytes on an ill-typed value ({clip (tohex enc) 80} vs {clip vtHex 80})"]
    -- vtproto does not validate UTF-8: its own decoder is compared only on valid input
    for (d, w, strict) in [(vt2pb, "vt bytes/proto.Unmarshal", true), (vt2vt, "vt bytes/UnmarshalVT", false)] do
      if strict || wt then
        if let some e ← sameDecode S m vt d v w then dis := dis ++ [e]
  else if wt then dis := dis ++ [s!"MarshalVT fails ({vtErr}) on a value the model holds well-typed"]
  -- the Lean direction: the harness must have used exactly the bytes the model produces
  if leanErr != "" then dis := dis ++ [s!"Lean→Go direction not run: {leanErr}"]
  else
    let want := vs.map fun (n, b) => (n, tohex b)
    if want != leanSeen then dis := dis ++ ["the Lean encodings fed to the Go decoders are not the ones the model produces"]
    for (n, b) in vs do
      match decode S m b with
      | some lv =>
        if wt && !msgBeq (canonMsg lv) cv then dis := dis ++ [s!"Lean decode of its own {n} encoding ≠ value"]
      | none => if wt then dis := dis ++ [s!"Lean decode rejects its own {n} encoding"]
  let agree := dis.isEmpty
  -- ---------- classification ----------
  let ftags := ((S.fieldsOf m).zip v).flatMap fun (f, x) =>
    let ts := tagsOf S f x 0
    if ts.isEmpty || ts == ["submsg:absent"] then ts else s!"field:{name}.{f.name}" :: ts
  -- a message BUILT BY THE HELPER API from well-formed arguments (stream `helper`) is never excused
  -- as outside the domain: if it is ill-typed, the helpers made it so
  let excl := !wt && stream != "helper"
  let exclSig :=
    if !excl then ""
    else if pbErr == "invalid-utf8" then
      s!"invalid-utf8: proto.Marshal={pbErr} MarshalVT={if vtErr == "" then "ok" else vtErr} proto.Unmarshal(vt)={if vt2pb.ok then "ok" else vt2pb.err} UnmarshalVT(vt)={if vt2vt.ok then "ok" else vt2vt.err}"
    else s!"nil-element-or-other-ill-typed: proto.Marshal={if pbErr == "" then "ok" else pbErr} MarshalVT={if vtErr == "" then "ok" else vtErr} roundtrip-equal pb={pb2pb.equal} vt={vt2vt.equal}"
  let cover := dedup ([s!"stream:{stream}", s!"msg:{name}", if excl then "domain:excluded" else "domain:in",
      s!"size-class:{if sz = 0 then "0" else if sz < 128 then "<128" else if sz < 16384 then "<16K" else ">=16K"}"]
      ++ (if getBoolD inp "alloc_empty" then ["alloc-empty"] else [])
      ++ (vs.filterMap fun (n, b) => if n != "canon" && b != enc then some s!"variant-differs:{n}" else none)
      ++ ftags)
  let why :=
    match specFails, dis with
    | (_, w) :: _, _ => s!"{name} [{note}]: {w}"
    | [], w :: _ => s!"{name} [{note}]: {w}"
    | [], [] => ""
  let sig := if excl then exclSig else match specFails with
    | (k, _) :: _ => s!"C12:{k}"
    | [] => ""
  pure { agree := agree, spec := spec, why := why, cover := cover,
         nontrivial := wt && sz > 0, sig := sig, excluded := excl,
         model := Json.mkObj [("size", sz), ("enc", clip (tohex enc) 200)] }

/-- stream `raw`: bytes no encoder produces. Outside the domain; enforced: whenever the Lean
    decoder accepts, both Go decoders accept and return the same value. Everything else is
    recorded in the signature (evidence `excluded_points`). -/
def judgeRaw (S : Schema) (inp obs : Json) : Except String Verdict := do
  let name ← getStr inp "msg"
  let note := getStrD inp "note"
  let cls := String.ofList (note.toList.takeWhile (· != ':'))
  let some m := findMsg S name | throw s!"unknown message {name}"
  let raw ← unhex (← getStr inp "raw")
  let pb ← getDec obs "pb"
  let vt ← getDec obs "vt"
  let lean := decode S m raw
  let mut dis : List String := []
  match lean with
  | some lv =>
    for (d, w) in [(pb, "proto.Unmarshal"), (vt, "UnmarshalVT")] do
      if !d.ok then dis := dis ++ [s!"{w} rejects ({d.err}) bytes the Lean decoder accepts"]
      else match parseMsg S m d.dump with
        | .ok gv =>
          if !msgBeq (canonMsg lv) (canonMsg gv) then
            dis := dis ++ [s!"{w} ≠ Lean decode at {(diffMsg S m "" (canonMsg lv) (canonMsg gv)).getD "?"}"]
        | .error e => dis := dis ++ [s!"{w}: undumpable ({e})"]
  | none =>
    -- the model is the stricter of the two Go decoders at every point but one (unknown groups,
    -- which it does not model): what it rejects, at least one Go decoder rejects
    if cls != "group" && pb.ok && vt.ok then
      dis := dis ++ ["both Go decoders accept bytes the Lean decoder rejects"]
  -- do the two Go decoders agree with each other? (recorded only)
  let goSame : String :=
    if pb.ok && vt.ok then (if pb.dump == vt.dump then "same-value" else "DIFFERENT-VALUES")
    else if !pb.ok && !vt.ok then "both-reject" else "one-rejects"
  let st (d : Dec) : String := if d.ok then (if d.unknown > 0 then "ok+unknown" else "ok") else d.err
  -- does a decoder that accepts what the model rejects also STORE something (tag aliasing)?
  let stores (d : Dec) : Bool := d.ok && (match parseMsg S m d.dump with
    | .ok gv => !msgBeq (canonMsg gv) (canonMsg (emptyMsg S m))
    | .error _ => false)
  let alias : String :=
    if lean.isNone && cls == "bigfield" then
      (if stores vt then " UnmarshalVT-stores-a-value" else "") ++ (if stores pb then " proto.Unmarshal-stores-a-value" else "")
    else ""
  let sig := s!"raw:{cls}: lean={if lean.isSome then "ok" else "reject"} proto.Unmarshal={st pb} UnmarshalVT={st vt} go:{goSame}{alias}"
  pure { agree := dis.isEmpty, spec := true, excluded := true, sig := sig,
         why := match dis with | w :: _ => s!"{name} [{note}]: {w}" | [] => "",
         cover := ["stream:raw", s!"raw:{cls}", "domain:excluded", s!"msg:{name}"],
         nontrivial := false, model := Json.mkObj [("lean_accepts", lean.isSome)] }

/-- stream `glue`: the wazero host glue of api_host.pb.go driven with the mailbox module
    (see harness/c12/glue.go). spec (on the observation): the call succeeds; request side —
    the bytes that arrived inside the module have the length of `MarshalVT(value)` and decode
    (proto.Unmarshal) to the value; response / host-function side — the message that comes
    out of the wrapper / reaches the Log handler is the value. agree: the Lean decoder reads
    the same bytes to the same value and they are its own encoding of it. -/
def judgeGlue (S : Schema) (inp obs : Json) : Except String Verdict := do
  let name ← getStr inp "msg"
  let fn := getStrD inp "fn"
  let side := getStrD inp "side"
  let note := getStrD inp "note"
  let some m := findMsg S name | throw s!"unknown message {name}"
  let v ← parseMsg S m (← getObj inp "val")
  let cv := canonMsg v
  let ok := getBoolD obs "ok"
  let err := getStrD obs "err"
  let sentErr := getStrD obs "sent_err"
  let sent ← unhex (getStrD obs "sent")
  let got ← unhex (getStrD obs "got")
  let dec ← getDec obs "dec"
  let decOk := dec.ok && dec.equal && dec.same && dec.unknown == 0
  let decWhy : String :=
    if !dec.ok then s!"fails ({dec.err})"
    else if dec.unknown != 0 then s!"carries {dec.unknown} unknown bytes"
    else match parseMsg S m dec.dump with
      | .ok gv => s!"≠ value at {(diffMsg S m "" cv (canonMsg gv)).getD "proto.Equal"}"
      | .error _ => "is not proto.Equal to the value"
  let mut fails : List String := []
  if sentErr != "" then fails := fails ++ [s!"MarshalVT failed ({sentErr})"]
  else if !ok then fails := fails ++ [s!"{fn}: {err}"]
  else if side == "req" then
    if got.length != sent.length then
      fails := fails ++ [s!"{fn}: the module received {got.length} bytes, MarshalVT(request) has {sent.length}"]
    if !decOk then fails := fails ++ [s!"{fn}: the request bytes inside the module: proto.Unmarshal {decWhy}"]
  else if side == "resp" then
    if !decOk then fails := fails ++ [s!"{fn}: the response returned by the wrapper {decWhy}"]
  else
    if getNatD obs "log_calls" != 1 then fails := fails ++ [s!"Log handler called {getNatD obs "log_calls"} times"]
    if !decOk then fails := fails ++ [s!"the LogRequest handed to the Log handler {decWhy}"]
  let mut dis : List String := []
  if sentErr == "" then
    let bytes := if side == "req" then got else sent
    match decode S m bytes with
    | some lv =>
      if !msgBeq (canonMsg lv) cv then dis := dis ++ [s!"Lean decode of the transported bytes ≠ value at {(diffMsg S m "" (canonMsg lv) cv).getD "?"}"]
      if encode S m lv != bytes then dis := dis ++ ["the transported bytes are not the Lean encoding of what they decode to"]
    | none => if ok || side != "req" then dis := dis ++ ["Lean decode rejects the transported bytes"]
  let sz := size S m cv
  pure { agree := dis.isEmpty, spec := fails.isEmpty,
         why := match fails, dis with
           | w :: _, _ => s!"{name} [{note}]: {w}"
           | [], w :: _ => s!"{name} [{note}]: {w}"
           | [], [] => "",
         sig := if fails.isEmpty then "" else s!"C12:glue:{side}:{fn}",
         cover := ["stream:glue", s!"glue:{fn}:{side}", s!"msg:{name}", "domain:in",
                   s!"size-class:{if sz = 0 then "0" else if sz < 128 then "<128" else if sz < 16384 then "<16K" else ">=16K"}"],
         nontrivial := sz > 0, model := Json.mkObj [("size", sz)] }

/-- stream `concat`: two values `a`, `b`; both Go decoders on the concatenation of their
    encodings. spec (on the observation): both decoders succeed and return the same value,
    which is `proto.Merge(a, b)`, also on the concatenated `MarshalVT` bytes. agree: the
    Lean `merge a b` (what theorem `C12_concat` says the reference decoder returns, and what
    it is re-checked to return here) is that value; the concatenated protobuf-go bytes are
    the concatenated Lean encodings. -/
def judgeConcat (S : Schema) (inp obs : Json) : Except String Verdict := do
  let name ← getStr inp "msg"
  let note := getStrD inp "note"
  let some m := findMsg S name | throw s!"unknown message {name}"
  let a ← parseMsg S m (← getObj inp "val")
  let b ← parseMsg S m (← getObj inp "val2")
  let err := getStrD obs "err"
  let cat ← unhex (getStrD obs "cat_pb")
  let pb ← getDec obs "pb"
  let vt ← getDec obs "vt"
  let vtvt ← getDec obs "vtvt"
  let mergedJ := (obs.getObjVal? "merged").toOption.getD Json.null
  let mut fails : List String := []
  if err != "" then fails := fails ++ [s!"failed: {err}"]
  else
    for (d, w) in [(pb, "proto.Unmarshal(pb(a)++pb(b))"), (vt, "UnmarshalVT(pb(a)++pb(b))"),
                   (vtvt, "UnmarshalVT(MarshalVT(a)++MarshalVT(b))")] do
      if !d.ok then fails := fails ++ [s!"{w} fails ({d.err})"]
      else if d.unknown != 0 then fails := fails ++ [s!"{w} leaves {d.unknown} unknown bytes"]
      else if d.dump != mergedJ || !d.equal then
        let loc := match parseMsg S m d.dump, parseMsg S m mergedJ with
          | .ok x, .ok y => (diffMsg S m "" (canonMsg y) (canonMsg x)).getD "proto.Equal"
          | _, _ => "?"
        fails := fails ++ [s!"{w} ≠ proto.Merge(a, b) at {loc}"]
  let mut dis : List String := []
  let wt := WellTyped S m a && WellTyped S m b
  if err == "" && wt then
    let lm := merge S m a b
    if encode S m (canonMsg a) ++ encode S m (canonMsg b) != cat then
      dis := dis ++ ["the concatenated protobuf-go bytes are not the concatenated Lean encodings"]
    match decode S m cat with
    | some lv => if !msgBeq (canonMsg lv) (canonMsg lm) then dis := dis ++ ["Lean decode of the concatenation ≠ Lean merge (contradicts C12_concat)"]
    | none => dis := dis ++ ["Lean decode rejects the concatenation"]
    match parseMsg S m mergedJ with
    | .ok gm =>
      if !msgBeq (canonMsg lm) (canonMsg gm) then
        dis := dis ++ [s!"Lean merge ≠ proto.Merge at {(diffMsg S m "" (canonMsg lm) (canonMsg gm)).getD "?"}"]
    | .error e => dis := dis ++ [s!"proto.Merge result undumpable ({e})"]
  pure { agree := dis.isEmpty, spec := fails.isEmpty,
         why := match fails, dis with
           | w :: _, _ => s!"{name} [{note}]: {w}"
           | [], w :: _ => s!"{name} [{note}]: {w}"
           | [], [] => "",
         sig := if fails.isEmpty then "" else "C12:concat",
         cover := ["stream:concat", s!"msg:{name}", "domain:in"],
         nontrivial := wt && !(encode S m a).isEmpty && !(encode S m b).isEmpty,
         model := Json.null }

def judge (j : Json) : Except String Verdict := do
  let inp ← getObj j "in"
  if getStrD j "op" == "encode" then judgeEncode apiSchema inp
  else
    let obs ← getObj j "obs"
    if getStrD inp "stream" == "raw" then judgeRaw apiSchema inp obs
    else if getStrD inp "stream" == "glue" then judgeGlue apiSchema inp obs
    else if getStrD inp "stream" == "concat" then judgeConcat apiSchema inp obs
    else judgeCase apiSchema inp obs

def main : IO UInt32 := runLines judge
end Drv.C12
