import Driver.Merge
open Lean Drv
namespace Drv.C05
def judge (j : Json) : Except String Verdict := Drv.Merge.judge "C05" j
def main : IO UInt32 := runLines judge
end Drv.C05
