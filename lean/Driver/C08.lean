import Driver.Common
import NriModel.Locks
open Lean Drv Nri Nri.Locks

/-!
Driver for C08. One case = one recorded history of a real `Adaptation`:
`in`  = the schedule-generator configuration (plugins, creator goroutines, order of the two
        halves of a creation, GOMAXPROCS, …);
`obs` = the log, stamped by one global counter: block acquired / released, relay (CreateContainer
        returned) and record (store add) of each container, SyncFn entered / snapshot taken /
        about to return, plus what each plugin received (Synchronize ids, CreateContainer ids)
        and the runtime's final store.

`agree` = trace acceptance: the history, with the two unobservable steps `activate p; syncEnd p`
          placed right after SyncFn returned, is accepted by `Nri.Locks.step?`, the store the
          model has at each snapshot is the one SyncFn read, and what each plugin received is
          what the model's plugin state holds at the end.
`spec`  = the property evaluated directly on the log, without the model: exactly-once per plugin
          against the final store; no SyncFn interval overlaps a block interval; no plugin
          received a creation whose block was acquired before its synchronisation returned;
          every registration completed.
-/
namespace Drv.C08

def natOf (j : Json) : Except String Nat :=
  match j.getNat? with
  | .ok n => pure n
  | .error _ => throw s!"not a natural number: {j.compress}"

def natArr (j : Json) : Except String (Array Nat) :=
  match j with
  | .arr a => a.mapM natOf
  | .null => pure #[]
  | _ => throw "not an array"

def arrOf (j : Json) (k : String) : Except String (Array Json) :=
  match j.getObjVal? k with
  | .ok (.arr a) => pure a
  | .ok .null => pure #[]
  | _ => throw s!"field {k}: not an array"

structure Sync where
  s : Nat
  n : Nat
  ids : Array Nat
  deriving Inhabited

structure Plug where
  p : Nat
  started : Bool
  err : String
  syncs : Array Sync
  got : Array Nat

def sorted (a : Array Nat) : Array Nat := a.qsort (· < ·)

/-- first element that does not occur exactly once in `have_` relative to `want` (both sorted):
    `(c, count)` -/
partial def firstOdd (want have_ : Array Nat) (i j : Nat) : Option (Nat × Nat) :=
  if h : i < want.size then
    let c := want[i]
    -- count occurrences of c in have_ from j
    let rec cnt (k n : Nat) : Nat × Nat :=
      if h2 : k < have_.size then
        if have_[k] == c then cnt (k + 1) (n + 1) else (k, n)
      else (k, n)
    if h3 : j < have_.size then
      if have_[j] < c then some (have_[j], 1000000)  -- something outside the store
      else
        let (k, n) := cnt j 0
        if n == 1 then firstOdd want have_ (i + 1) k else some (c, n)
    else some (c, 0)
  else if h3 : j < have_.size then some (have_[j], 1000000) else none

structure Direct where
  ok : Bool := true
  sig : String := ""
  why : String := ""

def kindName : Nat → String
  | 0 => "block" | 1 => "relay" | 2 => "record" | 3 => "unblock"
  | 4 => "syncBegin" | 5 => "snapshot" | 6 => "syncRet" | 7 => "unblock (again)" | _ => "?"

/-- a Go fatal error that means a lock of the repository was released without being held -/
def lockMisuse (note : String) : Bool :=
  (note.splitOn "RUnlock of unlocked").length > 1 || (note.splitOn "Unlock of unlocked").length > 1 ||
  (note.splitOn "unlock of unlocked").length > 1

/-- first element occurring more than once in a sorted array -/
def firstDup (a : Array Nat) : Option Nat := Id.run do
  let mut r : Option Nat := none
  for i in [1:a.size] do
    if r.isNone && a[i]! == a[i-1]! then r := some a[i]!
  return r

def judge (j : Json) : Except String Verdict := do
  let inp ← getObj j "in"
  let obs ← getObj j "obs"
  let kind := getStrD inp "kind"
  let status := getStrD obs "status"
  let note := getStrD obs "note"
  if kind == "worker" then
    -- a worker died and left no history (no journal): still an observation of the real code
    let bad := lockMisuse note
    return { agree := false, spec := !bad, why := s!"the process running the real code died: {note}",
             sig := if bad then "C08:crashed:lock-released-twice" else "", cover := ["crashed"] }
  let partialH := status == "crashed"   -- history up to a crash, recovered from the journal
  if status == "error" then
    return { agree := false, spec := true, why := s!"harness error: {note}", cover := ["error"] }
  let P := getNatD inp "P"
  let pre := getNatD inp "pre"
  let procs := getNatD inp "procs"
  let order := getStrD inp "order"
  -- decode
  let evJ ← arrOf obs "ev"
  let ev ← evJ.mapM natArr
  let snapsJ ← arrOf obs "snaps"
  let snaps ← snapsJ.mapM natArr
  let store ← natArr (← getObj obs "store")
  let plugsJ ← arrOf obs "plugins"
  let plugs ← plugsJ.mapM fun pj => do
    let syJ ← arrOf pj "syncs"
    let sy ← syJ.mapM fun sj => do
      pure { s := ← getNat sj "s", n := ← getNat sj "n", ids := ← natArr (← getObj sj "ids") : Sync }
    pure { p := ← getNat pj "p", started := getBoolD pj "started", err := getStrD pj "err",
           syncs := sy, got := ← natArr (← getObj pj "got") : Plug }
  for e in ev do
    if e.size < 3 then throw "malformed event"
  -- stamps strictly increasing
  let mut last := 0
  for e in ev do
    if e[1]! ≤ last then throw s!"log not ordered at seq {e[1]!}"
    last := e[1]!
  -- which plugin was being synchronised by SyncFn invocation n (through the marker pod)
  let mut pidOf : Array (Option Nat) := Array.replicate snaps.size none
  let mut dupMarker := false
  for pl in plugs do
    for sy in pl.syncs do
      if sy.n < pidOf.size then
        if (pidOf[sy.n]!).isSome then dupMarker := true
        pidOf := pidOf.set! sy.n (some pl.p)
  let pid (n : Nat) : Nat := match pidOf[n]? with
    | some (some p) => p
    | _ => 1000 + n
  -- ===== the property, directly on the log =====
  let mut d : Direct := {}      -- progress
  let mut dB : Direct := {}     -- blocks hold
  let mut dE : Direct := {}     -- exactly once
  let fail (d : Direct) (sig why : String) : Direct := if d.ok then { ok := false, sig := sig, why := why } else d
  if status == "blocked" then
    d := fail d "C08:progress:blocked" s!"registrations did not complete: {note}"
  if partialH then
    d := fail d (if lockMisuse note then "C08:crashed:lock-released-twice" else "C08:crashed:other")
      s!"the process running the real code died: {note}"
  -- blocks hold
  let mut readers := 0
  let mut syncing := 0
  let mut nBlocks := 0
  let mut nC := 0
  for e in ev do
    match e[0]! with
    | 0 =>
      if syncing > 0 then
        dB := fail dB "C08:blocks-hold:block-during-sync" s!"block {e[2]!} acquired at seq {e[1]!} while a SyncFn was running"
      readers := readers + 1
      if e[2]! + 1 > nBlocks then nBlocks := e[2]! + 1
    | 3 => readers := readers - 1
    | 4 =>
      if readers > 0 then
        dB := fail dB "C08:blocks-hold:sync-during-block" s!"SyncFn #{e[2]!} entered at seq {e[1]!} while {readers} sync block(s) were held"
      if syncing > 0 then
        dB := fail dB "C08:blocks-hold:two-syncs" s!"SyncFn #{e[2]!} entered at seq {e[1]!} while another SyncFn was running"
      syncing := syncing + 1
    | 6 => syncing := syncing - 1
    | 1 => if e[3]! + 1 > nC then nC := e[3]! + 1
    | 2 => if e[3]! + 1 > nC then nC := e[3]! + 1
    | _ => pure ()
  -- stamps needed below
  let mut blockAt : Array Nat := Array.replicate nBlocks 0
  let mut blockOfC : Array Nat := Array.replicate nC 0
  let mut retAt : Array Nat := Array.replicate snaps.size 0
  let mut retErr : Array Nat := Array.replicate snaps.size 0
  let mut beginAt : Array Nat := Array.replicate snaps.size 0
  for e in ev do
    match e[0]! with
    | 0 => blockAt := blockAt.set! e[2]! e[1]!
    | 1 => blockOfC := blockOfC.set! e[3]! e[2]!
    | 4 => beginAt := beginAt.set! e[2]! e[1]!
    | 6 => retAt := retAt.set! e[2]! e[1]!; retErr := retErr.set! e[2]! (e[3]?.getD 0)
    | _ => pure ()
  -- exactly once, per plugin, against the final store
  let sstore := sorted store
  let mut cover : List String := ["trace", s!"kind:{kind}", s!"procs:{procs}", s!"order:{order}", s!"P:{P}",
    s!"G:{getNatD inp "G"}", s!"contend:{getNatD inp "contend"}",
    (if getNatD inp "synclag_us" > 0 then "synclag:yes" else "synclag:no"), s!"batch:{getNatD inp "batch"}",
    s!"dbl:{getNatD inp "dbl_pct"}"]
  let mut raced := 0
  for pl in plugs do
    if pl.syncs.size == 0 then
      if status != "blocked" && !partialH then
        d := fail d "C08:progress:never-synchronised" s!"plugin {pl.p} was never synchronised (Start error: {pl.err})"
      cover := "reg:none" :: cover
    else if pl.syncs.size > 1 then
      dE := fail dE "C08:exactly-once:two-snapshots" s!"plugin {pl.p} was synchronised {pl.syncs.size} times"
    else
      let sy := pl.syncs[0]!
      if !pl.started && !partialH then
        d := fail d "C08:progress:start-failed" s!"plugin {pl.p}: stub.Start failed: {pl.err}"
      if retErr[sy.n]?.getD 0 != 0 then
        cover := "reg:sync-failed" :: cover
      else
        let have_ := sorted (sy.ids ++ pl.got)
        let odd := if partialH then (firstDup have_).map (fun c => (c, 2)) else firstOdd sstore have_ 0 0
        match odd with
        | none => pure ()
        | some (c, n) =>
          let inSnap := sy.ids.contains c
          let inGot := pl.got.contains c
          if n == 0 then
            dE := fail dE "C08:exactly-once:neither" s!"plugin {pl.p} never learnt of container {c}: not in its snapshot (SyncFn #{sy.n}) and no creation request"
          else if n == 1000000 then
            dE := fail dE "C08:exactly-once:unknown-container" s!"plugin {pl.p} was told of container {c} which is not in the runtime's store"
          else if inSnap && inGot then
            dE := fail dE "C08:exactly-once:both" s!"plugin {pl.p} learnt of container {c} twice: in its snapshot (SyncFn #{sy.n}) and by a creation request"
          else
            dE := fail dE "C08:exactly-once:duplicate" s!"plugin {pl.p} learnt of container {c} {n} times"
        -- activated while a block was held?
        let r := retAt[sy.n]?.getD 0
        for c in pl.got do
          if c < blockOfC.size then
            let b := blockOfC[c]!
            if blockAt[b]?.getD 0 < r then
              dB := fail dB "C08:blocks-hold:activated-during-block" s!"plugin {pl.p} received the creation of container {c} although its block {b} was acquired before the plugin's synchronisation returned"
        -- did the registration land in the middle of the creation stream?
        if pre < sy.ids.size && sy.ids.size < store.size then
          raced := raced + 1
          cover := "reg:raced" :: cover
        else
          cover := "reg:quiet" :: cover
        cover := (if sy.ids.size == 0 then "snap:empty" else if sy.ids.size == store.size then "snap:full" else "snap:partial") :: cover
  cover := (if ev.size < 100 then "events:<100" else if ev.size < 1000 then "events:<1000" else "events:>=1000") :: cover
  -- ===== trace acceptance by the lock model =====
  let mut s : State := init
  let mut rej : Option String := none
  let mut idx := 0
  let stepE (s : State) (e : Ev) : Option State := step? s e
  for e in ev do
    if rej.isNone then
      let k := e[0]!
      let evs : List Ev := match k with
        | 0 => [.block e[2]!]
        | 1 => [.relay e[2]! e[3]!]
        | 2 => [.record e[2]! e[3]!]
        | 3 => [.unblock e[2]!]
        | 4 => [.syncBegin (pid e[2]!)]
        | 5 => [.snapshot (pid e[2]!)]
        | 6 => if e[3]?.getD 0 == 0 then [.activate (pid e[2]!), .syncEnd (pid e[2]!)] else [.abort (pid e[2]!)]
        | 7 => [.unblock e[2]!]   -- released before: a no-op in the model
        | _ => []
      for me in evs do
        if rej.isNone then
          match stepE s me with
          | some s' => s := s'
          | none =>
            rej := some s!"the lock model refuses event #{idx} ({kindName k} {e[2]!}{if e.size > 3 then s!" {e[3]!}" else ""}, seq {e[1]!}) in a state with {s.holding.length} block(s) held and writer {s.writer}"
      if rej.isNone && k == 5 then
        let want := (snaps[e[2]!]?).getD #[]
        if s.store.reverse != want.toList then
          rej := some s!"SyncFn #{e[2]!} read a store of {want.size} containers, the model's store has {s.store.length} at that point"
    idx := idx + 1
  let mut agreeWhy := ""
  match rej with
  | some m => agreeWhy := m
  | none =>
    if dupMarker then agreeWhy := "two plugins report the same SyncFn invocation"
    if s.store.reverse != store.toList then agreeWhy := "final store differs from the model's"
    if !s.holding.isEmpty || s.writer.isSome then
      if status == "ok" then agreeWhy := "history ends with the sync lock held"
    for pl in plugs do
      if pl.syncs.size == 1 && agreeWhy == "" then
        let sy := pl.syncs[0]!
        let x := s.pl pl.p
        if retErr[sy.n]?.getD 0 == 0 then
          if x.phase != .active then agreeWhy := s!"plugin {pl.p} is not active in the model"
          else if x.snap.reverse != sy.ids.toList then
            agreeWhy := s!"plugin {pl.p} received a snapshot of {sy.ids.size} containers, the model's has {x.snap.length}"
          else if sorted x.got.toArray != sorted pl.got then
            agreeWhy := s!"plugin {pl.p} received {pl.got.size} creation requests, the model relays {x.got.length} to it"
        else if !pl.got.isEmpty || x.phase != .idle then
          agreeWhy := s!"plugin {pl.p} failed its synchronisation (not activated in the model) but received {pl.got.size} creation requests"
        if ((snaps[sy.n]?).getD #[]) != sy.ids then
          agreeWhy := s!"plugin {pl.p} received a snapshot different from the one SyncFn #{sy.n} handed to the callback"
  if partialH && rej.isNone then agreeWhy := "the history ends in a crash of the process"
  if partialH then cover := "crashed" :: cover
  let agree := agreeWhy == ""
  if !dE.ok then cover := "viol:exactly-once" :: cover
  if !dB.ok then cover := "viol:blocks-hold" :: cover
  if !d.ok then cover := "viol:progress" :: cover
  let first := if !dE.ok then dE else if !dB.ok then dB else d
  let others := (if !dE.ok && !dB.ok then s!" [also: {dB.why}]" else "") ++
    (if (!dE.ok || !dB.ok) && !d.ok then s!" [also: {d.why}]" else "")
  let why := if !first.ok then first.why ++ others else agreeWhy
  pure { agree := agree, spec := first.ok, why := why, sig := first.sig, cover := cover,
         nontrivial := raced > 0 || kind == "hold", excluded := false,
         model := Json.mkObj [("events", ev.size), ("raced", raced), ("accepted", rej.isNone)] }

def main : IO UInt32 := runLines judge
end Drv.C08
