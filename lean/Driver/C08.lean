import Driver.Common
open Lean Drv
namespace Drv.C08
/-- placeholder until the property's driver is written -/
def judge (_ : Json) : Except String Verdict := .error "C08 driver not implemented"
def main : IO UInt32 := runLines judge
end Drv.C08
