import Driver.Common
open Lean Drv
namespace Drv.C13
/-- placeholder until the property's driver is written -/
def judge (_ : Json) : Except String Verdict := .error "C13 driver not implemented"
def main : IO UInt32 := runLines judge
end Drv.C13
