/-
Driver for property C13 (generator: applying an adjustment to an OCI spec).

in  = {kind, spec, adjust, ext, runs}     (harness/c13/types.go: SpecJ, AdjJ, ExtJ)
obs = {outs:[{err, spec, n}], runs, restSame, panic}
      the DISTINCT results of `runs` fresh applications of the real generator.

agree : the implementation produced exactly one result and it equals the model's
        (`Nri.Generate.adjust`, the repaired code); in addition the model's annotation stage is
        run under PAIRS of iteration orders (`applyOrders π1 π2`: the two `range` loops draw
        independent orders; all pairs up to 4 entries, permutations × rotations for 5, rotations
        × rotations above) and the unified stage under every permutation (≤ 5 entries, else
        rotations); all must give one answer.
spec  : `Nri.Generate.Check.checkAll` on every successful result + determinism + untouched
        rest of the spec + legitimate error class, evaluated on the implementation's output.
-/
import Driver.Common
import NriModel.Generate
import NriModel.GenerateOptions
import NriModel.Lemmas.GenerateSpec
open Lean Drv Nri Nri.Api Nri.Generate

namespace Drv.C13

/-! ### decoding -/

def oJson (j : Json) (k : String) : Option Json := getOpt j k
def oInt (j : Json) (k : String) : Except String (Option Int) :=
  match getOpt j k with | none => pure none | some v => do pure (some (← v.getInt?))
def oNat (j : Json) (k : String) : Except String (Option Nat) :=
  match getOpt j k with | none => pure none | some v => do pure (some (← v.getNat?))
def oBool (j : Json) (k : String) : Except String (Option Bool) :=
  match getOpt j k with | none => pure none | some v => do pure (some (← v.getBool?))
def oStr (j : Json) (k : String) : Except String (Option Str) :=
  match getOpt j k with | none => pure none | some v => do pure (some (S (← v.getStr?)))
def strs (j : Json) (k : String) : Except String (List Str) := do pure ((← getStrList j k).map S)
def strMap (j : Json) (k : String) : Except String (AList Str Str) := do
  pure ((← getStrMap j k).map fun (a, b) => (S a, S b))
def sField (j : Json) (k : String) : Except String Str := do pure (S (← getStr j k))
def arr (j : Json) (k : String) (f : Json → Except String α) : Except String (List α) := do
  (← getArr j k).mapM f

def decOciMount (j : Json) : Except String Oci.Mount := do
  pure { destination := ← sField j "destination", type := ← sField j "type",
         source := ← sField j "source", options := ← strs j "options" }
def decApiMount (j : Json) : Except String Api.Mount := do
  pure { destination := ← sField j "destination", type := ← sField j "type",
         source := ← sField j "source", options := ← strs j "options" }
def decOciDevice (j : Json) : Except String Oci.Device := do
  pure { path := ← sField j "path", type := ← sField j "type", major := ← getInt j "major",
         minor := ← getInt j "minor", fileMode := ← oNat j "fileMode", uid := ← oNat j "uid",
         gid := ← oNat j "gid" }
def decApiDevice (j : Json) : Except String Api.LinuxDevice := do
  pure { path := ← sField j "path", type := ← sField j "type", major := ← getInt j "major",
         minor := ← getInt j "minor", fileMode := ← oNat j "fileMode", uid := ← oNat j "uid",
         gid := ← oNat j "gid" }
def decDevRule (j : Json) : Except String Oci.DeviceCgroup := do
  pure { allow := ← getBool j "allow", type := ← sField j "type", major := ← oInt j "major",
         minor := ← oInt j "minor", access := ← sField j "access" }
def decOciHook (j : Json) : Except String Oci.Hook := do
  pure { path := ← sField j "path", args := ← strs j "args", env := ← strs j "env",
         timeout := ← oInt j "timeout" }
def decApiHook (j : Json) : Except String Api.Hook := do
  pure { path := ← sField j "path", args := ← strs j "args", env := ← strs j "env",
         timeout := ← oInt j "timeout" }
def decOciHooks (j : Json) : Except String Oci.Hooks := do
  pure { prestart := ← arr j "prestart" decOciHook, createRuntime := ← arr j "createRuntime" decOciHook,
         createContainer := ← arr j "createContainer" decOciHook,
         startContainer := ← arr j "startContainer" decOciHook,
         poststart := ← arr j "poststart" decOciHook, poststop := ← arr j "poststop" decOciHook }
def decApiHooks (j : Json) : Except String Api.Hooks := do
  pure { prestart := ← arr j "prestart" decApiHook, createRuntime := ← arr j "createRuntime" decApiHook,
         createContainer := ← arr j "createContainer" decApiHook,
         startContainer := ← arr j "startContainer" decApiHook,
         poststart := ← arr j "poststart" decApiHook, poststop := ← arr j "poststop" decApiHook }
def decOciRlimit (j : Json) : Except String Oci.Rlimit := do
  pure { type := ← sField j "type", hard := ← getNat j "hard", soft := ← getNat j "soft" }
def decApiRlimit (j : Json) : Except String Api.POSIXRlimit := do
  pure { type := ← sField j "type", hard := ← getNat j "hard", soft := ← getNat j "soft" }
def decOciHuge (j : Json) : Except String Oci.HugepageLimit := do
  pure { pageSize := ← sField j "pageSize", limit := ← getNat j "limit" }
def decApiHuge (j : Json) : Except String Api.HugepageLimit := do
  pure { pageSize := ← sField j "pageSize", limit := ← getNat j "limit" }
def decOciCpu (j : Json) : Except String Oci.CPU := do
  pure { shares := ← oNat j "shares", quota := ← oInt j "quota", period := ← oNat j "period",
         realtimeRuntime := ← oInt j "realtimeRuntime", realtimePeriod := ← oNat j "realtimePeriod",
         cpus := ← sField j "cpus", mems := ← sField j "mems" }
def decApiCpu (j : Json) : Except String Api.LinuxCPU := do
  pure { shares := ← oNat j "shares", quota := ← oInt j "quota", period := ← oNat j "period",
         realtimeRuntime := ← oInt j "realtimeRuntime", realtimePeriod := ← oNat j "realtimePeriod",
         cpus := ← sField j "cpus", mems := ← sField j "mems" }
def decOciMem (j : Json) : Except String Oci.Memory := do
  pure { limit := ← oInt j "limit", reservation := ← oInt j "reservation", swap := ← oInt j "swap",
         kernel := ← oInt j "kernel", kernelTCP := ← oInt j "kernelTCP",
         swappiness := ← oNat j "swappiness", disableOOMKiller := ← oBool j "disableOOMKiller",
         useHierarchy := ← oBool j "useHierarchy" }
def decApiMem (j : Json) : Except String Api.LinuxMemory := do
  pure { limit := ← oInt j "limit", reservation := ← oInt j "reservation", swap := ← oInt j "swap",
         kernel := ← oInt j "kernel", kernelTcp := ← oInt j "kernelTCP",
         swappiness := ← oNat j "swappiness", disableOomKiller := ← oBool j "disableOOMKiller",
         useHierarchy := ← oBool j "useHierarchy" }

def decSpec (j : Json) : Except String Oci.Spec := do
  pure { annotations := ← strMap j "annotations", args := ← strs j "args", env := ← strs j "env",
         rlimits := ← arr j "rlimits" decOciRlimit, oomScoreAdj := ← oInt j "oom",
         mounts := ← arr j "mounts" decOciMount, devices := ← arr j "devices" decOciDevice,
         devRules := ← arr j "devRules" decDevRule, cpu := ← decOciCpu (← getObj j "cpu"),
         memory := ← decOciMem (← getObj j "memory"), hugepages := ← arr j "hugepages" decOciHuge,
         unified := ← strMap j "unified", pids := ← oInt j "pids", blockio := ← oNat j "blockio",
         rdt := ← oStr j "rdt", cgroupsPath := ← sField j "cgroupsPath",
         rootfsPropagation := ← sField j "rootfsPropagation",
         hooks := ← decOciHooks (← getObj j "hooks"), cdi := ← strs j "cdi" }

def decRes (j : Json) : Except String Api.LinuxResources := do
  let mem ← match oJson j "memory" with | some m => do pure (some (← decApiMem m)) | none => pure none
  let cpu ← match oJson j "cpu" with | some m => do pure (some (← decApiCpu m)) | none => pure none
  pure { memory := mem, cpu := cpu, hugepageLimits := ← arr j "hugepages" decApiHuge,
         blockioClass := ← oStr j "blockio", rdtClass := ← oStr j "rdt",
         unified := ← strMap j "unified", pids := ← oInt j "pids" }

def decLinux (j : Json) : Except String Api.LinuxContainerAdjustment := do
  let res ← match oJson j "resources" with | some r => do pure (some (← decRes r)) | none => pure none
  pure { devices := ← arr j "devices" decApiDevice, resources := res,
         cgroupsPath := ← sField j "cgroupsPath", oomScoreAdj := ← oInt j "oom" }

def decAdj (j : Json) : Except String Adjustment := do
  let hooks ← match oJson j "hooks" with | some h => do pure (some (← decApiHooks h)) | none => pure none
  let linux ← match oJson j "linux" with | some h => do pure (some (← decLinux h)) | none => pure none
  pure { annotations := ← strMap j "annotations", mounts := ← arr j "mounts" decApiMount,
         env := ← arr j "env" (fun e => do pure { key := ← sField e "key", value := ← sField e "value" }),
         hooks := hooks, linux := linux, rlimits := ← arr j "rlimits" decApiRlimit,
         cdiDevices := ← strs j "cdi", args := ← strs j "args" }

/-- one of the runtime's two callbacks, in the vocabulary of harness/c13/types.go: CallbackJ -/
structure Callback where
  kind : String
  arg : Str
  n : Int

def decCallback (j : Json) (k : String) : Except String (Option Callback) :=
  match getOpt j k with
  | none => pure none
  | some c => pure (some { kind := getStrD c "kind", arg := S (getStrD c "arg"), n := getIntD c "n" })

/-- `WithAnnotationFilter` callbacks of the harness -/
def filterOf : Option Callback → Option (AList Str Str → Except Unit (AList Str Str))
  | none => none
  | some c => some fun l =>
    if c.kind == "drop" then .ok (l.filter fun e => !(c.arg.isPrefixOf e.1))
    else if c.kind == "reject" then (if l.any (fun e => c.arg.isPrefixOf e.1) then .error () else .ok l)
    else .ok l

/-- `WithResourceChecker` callbacks of the harness; `rNil`: the callback was handed a nil
    `*LinuxResources` (the spec had no resources section and no setter created one), observed. -/
def checkerOf (rNil : Bool) : Option Callback → Option (Oci.Spec → Except Unit Oci.Spec)
  | none => none
  | some c => some fun s =>
    if c.kind == "fail" then .error ()
    else if c.kind == "failPidsGt" then
      (match s.pids with | some p => if p > c.n then .error () else .ok s | none => .ok s)
    else if c.kind == "capShares" then
      if c.n < 0 then .ok s else
      .ok { s with cpu := { s.cpu with shares := s.cpu.shares.map fun v => if v > c.n.toNat then c.n.toNat else v } }
    else if c.kind == "setPids" then (if rNil then .ok s else .ok { s with pids := some c.n })
    else if c.kind == "clearUnified" then (if rNil then .ok s else .ok { s with unified := [] })
    else .ok s

structure ExtIn where
  filter : Option Callback := none
  check : Option Callback := none
  blockio : List (Str × Nat)
  rdt : AList Str Str
  cdiBad : List Str
  hostProp : AList Str Str
  noInjector : Bool
  noBlockio : Bool
  noRdt : Bool

def decExt (j : Json) : Except String ExtIn := do
  let bio ← match j.getObjVal? "blockio" with
    | .ok (Json.obj kvs) => kvs.toList.mapM fun (k, v) => do pure (S k, ← v.getNat?)
    | _ => pure []
  pure { filter := ← decCallback j "filter", check := ← decCallback j "check",
         blockio := bio, rdt := ← strMap j "rdt", cdiBad := ← strs j "cdiBad",
         hostProp := ← strMap j "hostProp", noInjector := getBoolD j "noInjector",
         noBlockio := getBoolD j "noBlockio", noRdt := getBoolD j "noRdt" }

def lookupNat (l : List (Str × Nat)) (k : Str) : Option Nat :=
  match l with | [] => none | (a, b) :: r => if a = k then some b else lookupNat r k

def ExtIn.toExternals (e : ExtIn) : Externals :=
  { injectCDI := if e.noInjector then none else some (recordingInjector e.cdiBad)
    resolveBlockIO := if e.noBlockio then none else
      some (fun c => match lookupNat e.blockio c with | some v => .ok v | none => .error ())
    resolveRdt := if e.noRdt then none else
      some (fun c => match AList.lookup e.rdt c with | some v => .ok v | none => .error ())
    hostPropagation := fun src => match AList.lookup e.hostProp src with | some p => p | none => [] }

/-! ### comparison -/

/-- Go maps are compared extensionally. -/
def alistEqv (a b : AList Str Str) : Bool :=
  a.length == b.length && a.all (fun e => AList.lookup b e.1 == some e.2)

def specEqv (a b : Oci.Spec) : Bool :=
  alistEqv a.annotations b.annotations && alistEqv a.unified b.unified &&
  decide ({ a with annotations := [], unified := [] } = { b with annotations := [], unified := [] })

/-- names of the modelled fields in which two specs differ -/
def diffFields (a b : Oci.Spec) : List String :=
  (if alistEqv a.annotations b.annotations then [] else ["annotations"]) ++
  (if a.args = b.args then [] else ["args"]) ++ (if a.env = b.env then [] else ["env"]) ++
  (if a.rlimits = b.rlimits then [] else ["rlimits"]) ++
  (if a.oomScoreAdj = b.oomScoreAdj then [] else ["oomScoreAdj"]) ++
  (if a.mounts = b.mounts then [] else ["mounts"]) ++ (if a.devices = b.devices then [] else ["devices"]) ++
  (if a.devRules = b.devRules then [] else ["devRules"]) ++ (if a.cpu = b.cpu then [] else ["cpu"]) ++
  (if a.memory = b.memory then [] else ["memory"]) ++ (if a.hugepages = b.hugepages then [] else ["hugepages"]) ++
  (if alistEqv a.unified b.unified then [] else ["unified"]) ++ (if a.pids = b.pids then [] else ["pids"]) ++
  (if a.blockio = b.blockio then [] else ["blockio"]) ++ (if a.rdt = b.rdt then [] else ["rdt"]) ++
  (if a.cgroupsPath = b.cgroupsPath then [] else ["cgroupsPath"]) ++
  (if a.rootfsPropagation = b.rootfsPropagation then [] else ["rootfsPropagation"]) ++
  (if a.hooks = b.hooks then [] else ["hooks"]) ++ (if a.cdi = b.cdi then [] else ["cdi"])

def errName : GenError → String
  | .cdi => "cdi" | .blockio => "blockio" | .rdt => "rdt" | .mountPropagation => "other"

def optErrName : OptError → String
  | .annotationFilter => "filter" | .resourceCheck => "check" | .gen e => errName e

/-- all permutations -/
def perms {α : Type} : List α → List (List α)
  | [] => [[]]
  | x :: xs => (perms xs).flatMap fun p => (List.range (p.length + 1)).map fun i => p.take i ++ x :: p.drop i

/-- the iteration orders tried for a map: all permutations up to 5 entries, else rotations,
    the reverse and a riffle -/
def orders {α : Type} (l : List α) : List (List α) :=
  if l.length ≤ 5 then perms l
  else (List.range l.length).map (fun i => l.drop i ++ l.take i) ++ [l.reverse]

/-- rotations and the reverse -/
def lightOrders {α : Type} (l : List α) : List (List α) :=
  (List.range l.length).map (fun i => l.drop i ++ l.take i) ++ [l.reverse]

/-- PAIRS of iteration orders for the two `range` loops of `AdjustAnnotations` (Go draws them
    independently): all pairs up to 4 entries (≤ 576), every permutation against the rotations
    and the reverse — both ways round — for 5 entries, rotations × rotations above. -/
def orderPairs {α : Type} (l : List α) : List (List α × List α) :=
  let pairs (xs ys : List (List α)) := xs.flatMap fun x => ys.map fun y => (x, y)
  if l.length ≤ 4 then pairs (perms l) (perms l)
  else if l.length ≤ 5 then pairs (perms l) (lightOrders l) ++ pairs (lightOrders l) (perms l)
  else pairs (lightOrders l) (lightOrders l)

/-! ### the error class the property allows, read off the input -/

def expectedErr (s : Oci.Spec) (a : Adjustment) (e : ExtIn) : String :=
  let res : LinuxResources := match a.resources with | some r => r | none => {}
  if !e.noInjector && a.cdiDevices.any (fun n => e.cdiBad.contains n) then "cdi"
  else if (match res.blockioClass with | some c => !e.noBlockio && c != [] && (lookupNat e.blockio c).isNone | none => false) then "blockio"
  else if (match res.rdtClass with | some c => !e.noRdt && c != [] && (AList.lookup e.rdt c).isNone | none => false) then "rdt"
  else
    -- a mount whose (sticky) propagation request is rshared/rslave needs a host mount that shares enough
    let rec go (prop : Str) (rootfs : Str) : List Api.Mount → Bool
      | [] => false
      | m :: r =>
        if isMarked m.destination then go prop rootfs r else
        let p := m.propagationQuery prop
        let hp := match AList.lookup e.hostProp m.source with | some x => x | none => []
        if p = str "rshared" && hp != str "rshared" then true
        else if p = str "rslave" && hp != str "rshared" && hp != str "rslave" then true
        else go p rootfs r
    if go [] s.rootfsPropagation a.mounts then "other" else ""

/-! ### coverage tags -/

def patTag {ε : Type} (fam : String) (rawKey : ε → Str) (present : Str → Bool) (L : List ε) : List String :=
  ((L.map (fun e => stripMarker (rawKey e))).eraseDups.map fun k =>
    let ops := (L.filter (fun e => stripMarker (rawKey e) == k)).map (fun e => if isMarked (rawKey e) then 'r' else 's')
    s!"{fam}:{String.ofList (ops.take 3)}:" ++ (if present k then "present" else "absent"))

def coverTags (s : Oci.Spec) (a : Adjustment) : List String :=
  let res : LinuxResources := match a.resources with | some r => r | none => {}
  let cpu : LinuxCPU := match res.cpu with | some c => c | none => {}
  let t (b : Bool) (n : String) := if b then [n] else []
  patTag "ann" (fun e : Str × Str => e.1) (fun k => (AList.lookup s.annotations k).isSome) a.annotations ++
  patTag "env" KeyValue.key (fun k => (Env.lookup s.env k).isSome) a.env ++
  patTag "mnt" Api.Mount.destination (fun k => (find Oci.Mount.destination k s.mounts).isSome) a.mounts ++
  patTag "dev" LinuxDevice.path (fun k => (find Oci.Device.path k s.devices).isSome) a.linuxDevices ++
  t (!a.args.isEmpty) (match a.args with | [] :: _ => "args:update" | _ => "args:set") ++
  t a.hooks.isSome "hooks" ++ t (!a.rlimits.isEmpty) "rlimits" ++ t (!a.cdiDevices.isEmpty) "cdi" ++
  t (a.cgroupsPath != []) "cgroupsPath" ++ t a.oomScoreAdj.isSome "oom" ++
  t cpu.shares.isSome "cpu.shares" ++ t cpu.quota.isSome "cpu.quota" ++ t cpu.period.isSome "cpu.period" ++
  t cpu.realtimeRuntime.isSome "cpu.rtRuntime" ++ t cpu.realtimePeriod.isSome "cpu.rtPeriod" ++
  t (cpu.cpus != []) "cpu.cpus" ++ t (cpu.mems != []) "cpu.mems" ++
  t ((match res.memory with | some m => m.limit.isSome | none => false)) "mem.limit" ++
  t (!res.hugepageLimits.isEmpty) "hugepages" ++ t (!res.unified.isEmpty) "unified" ++
  t res.pids.isSome "pids" ++ t res.blockioClass.isSome "blockio" ++ t res.rdtClass.isSome "rdt" ++
  t (a.mounts.any (fun m => m.options.any isPropagationOpt)) "mnt:propagation"

def touches (a : Adjustment) : Bool :=
  !a.annotations.isEmpty || !a.mounts.isEmpty || !a.env.isEmpty || a.hooks.isSome || a.linux.isSome ||
  !a.rlimits.isEmpty || !a.cdiDevices.isEmpty || !a.args.isEmpty

/-! ### judge -/

structure Out where
  err : String
  spec : Oci.Spec
  checkCalls : Nat := 0
  checkSaw : Option Oci.Spec := none
  checkNil : Bool := false
  filterCalls : Nat := 0

/-- Cases with the runtime's callbacks (`WithAnnotationFilter` / `WithResourceChecker`): the model
    is `adjustWith`; the property is read on the implementation's own observation — the error
    class the input (and what the checker was shown) calls for, `checkAll` for the FILTERED
    adjustment on the result with the resources section as the checker found it, and the
    resources section of the result = what the checker returned for what it was shown. -/
def judgeOpts (kind : String) (s : Oci.Spec) (a : Adjustment) (e : ExtIn) (outs : List Out)
    (restSame : Bool) (panic : String) : Verdict :=
  let rNil := outs.any (·.checkNil)
  let o : Generate.Options := { filterAnnotations := filterOf e.filter, checkResources := checkerOf rNil e.check }
  let ext := e.toExternals
  let m := adjustWith o ext s a
  let sees := checkerSees o ext s a
  let agreeOut := match outs, m with
    | [out], .ok ms => out.err == "" && specEqv ms out.spec
    | [out], .error me => out.err == optErrName me
    | _, _ => false
  let agreeCalls := match outs with
    | [out] =>
      out.filterCalls == (if e.filter.isSome then 1 else 0) &&
      (match sees, out.checkSaw with
        | some x, some y => specEqv x y && out.checkCalls == 1
        | none, none => out.checkCalls == 0
        | _, _ => false)
    | _ => false
  let agree := agreeOut && agreeCalls
  let filtered := filterStage o a.annotations
  let a' : Adjustment := match filtered with | .ok ann => { a with annotations := ann } | .error _ => a
  let guard := Check.guardViolated s a'
  let expErr : String := match filtered with
    | .error _ => "filter"
    | .ok _ =>
      let base := expectedErr s a' e
      if base == "cdi" then base else
      match a'.resources, o.checkResources, (outs.head?.bind (·.checkSaw)) with
      | some _, some chk, some saw => (match chk saw with | .error _ => "check" | .ok _ => base)
      | _, _, _ => base
  let bio : Option (Str → Option Nat) := if e.noBlockio then none else some (lookupNat e.blockio)
  let rdt : Option (Str → Option Str) := if e.noRdt then none else some (AList.lookup e.rdt)
  let perOut : List Check.Fail := outs.flatMap fun out =>
    if out.err != expErr then
      [{ sig := "C13:error-class", why := s!"Adjust returned error class \"{out.err}\" where the input (with the runtime's callbacks) calls for \"{expErr}\"" }]
    else if out.err != "" then []
    else
      match out.checkSaw, o.checkResources with
      | some saw, some chk =>
        -- the property of the adjustment itself, on the result with the resources as the checker found them
        let o' := { out.spec with cpu := saw.cpu, memory := saw.memory, hugepages := saw.hugepages,
                                  unified := saw.unified, pids := saw.pids }
        Check.checkAll s a' o' (!e.noInjector) bio rdt ++
        (match chk saw with
          | .ok after =>
            if out.spec.cpu = after.cpu && out.spec.memory = after.memory && out.spec.hugepages = after.hugepages &&
               alistEqv out.spec.unified after.unified && out.spec.pids = after.pids then []
            else [{ sig := "C13:options:checker-result-lost",
                    why := "the resources section of the result is not what the resource checker returned for what it was shown" }]
          | .error _ => [])
      | _, _ => Check.checkAll s a' out.spec (!e.noInjector) bio rdt
  let callFail : List Check.Fail := outs.flatMap fun out =>
    (if a'.resources.isNone && out.checkCalls != 0 then
      [{ sig := "C13:options:checker-without-resources", why := "the resource checker ran although the adjustment has no resources section" }] else []) ++
    (if a'.resources.isSome && o.checkResources.isSome && out.checkCalls == 0 && out.err != "cdi" && out.err != "filter"
        && expectedErr s a' e != "cdi" && (match filtered with | .ok _ => true | .error _ => false) then
      [{ sig := "C13:options:checker-not-called", why := "the adjustment has a resources section and the runtime installed a resource checker, yet the checker never ran" }] else []) ++
    (if out.checkCalls > 1 then
      [{ sig := "C13:options:checker-twice", why := s!"the resource checker ran {out.checkCalls} times in one Adjust" }] else [])
  let detFail : List Check.Fail := match outs with
    | o1 :: o2 :: _ =>
      let d := if o1.err != o2.err then ["error"] else diffFields o1.spec o2.spec
      [{ sig := "C13:" ++ ",".intercalate d ++ ":order-dependent",
         why := s!"{outs.length} different results over the repeated runs of the same input; they differ in {d}" }]
    | _ => []
  let restFail : List Check.Fail :=
    (if restSame then [] else [{ sig := "C13:frame:rest-of-spec", why := "a part of the spec no adjustment field names was changed" }]) ++
    (if panic == "" then [] else [{ sig := "C13:panic", why := s!"Adjust panicked: {panic}" }])
  let fails := perOut ++ callFail ++ detFail ++ restFail
  let fails := fails.filter (fun f => !f.recorded) ++ fails.filter (fun f => f.recorded)
  let excluded := guard.isSome
  let spec := fails.isEmpty
  let first := fails.head?
  let why :=
    if !spec && !excluded then (match first with | some f => f.why | none => "")
    else if !agree then
      (match outs, m with
        | [out], .ok ms => if out.err == "" then s!"model (adjustWith) and implementation differ in {diffFields ms out.spec}" else s!"implementation failed ({out.err}), model succeeds"
        | [out], .error me => s!"model fails ({optErrName me}), implementation: \"{out.err}\""
        | _, _ => s!"{outs.length} distinct implementation results; the model is deterministic") ++
      (if !agreeCalls then "; callback invocations (count, or the spec the checker was shown) differ from the model" else "") ++
      (match guard with | some g => s!" [{g}]" | none => "")
    else ""
  let fk := match e.filter with | some c => c.kind | none => "none"
  let ck := match e.check with | some c => c.kind | none => "none"
  let cover := [s!"kind:{kind}", if excluded then "domain:excluded" else "domain:in", s!"outs:{outs.length}", s!"err:{expErr}",
                s!"opt:filter:{fk}", s!"opt:check:{ck}",
                s!"opt:checker-called:{sees.isSome}"] ++
               (match filtered with
                | .ok ann => if ann.length != a.annotations.length then ["opt:filter:dropped-some"] else []
                | .error _ => ["opt:filter:rejected"]) ++
               (match sees, o.checkResources with
                | some x, some chk => (match chk x with
                    | .ok y => if y != x then ["opt:check:edited"] else ["opt:check:unchanged"]
                    | .error _ => ["opt:check:refused"])
                | _, _ => []) ++
               (if rNil then ["opt:check:nil-resources"] else []) ++ coverTags s a
  { agree := agree, spec := spec || excluded, why := why, cover := cover,
    nontrivial := touches a && !excluded, excluded := excluded,
    sig := match guard with
      | some g => g
      | none => (match first with | some f => f.sig | none => ""),
    model := Json.null }

def judge (j : Json) : Except String Verdict := do
  let inp ← getObj j "in"
  let obs ← getObj j "obs"
  let kind := getStrD inp "kind"
  let s ← decSpec (← getObj inp "spec")
  let a ← decAdj (← getObj inp "adjust")
  let e ← decExt (← getObj inp "ext")
  let outs ← arr obs "outs" (fun o => do
    let err ← getStr o "err"
    let saw ← match getOpt o "checkSaw" with
      | some sj => do pure (some (← decSpec sj))
      | none => pure none
    pure ({ err := err, spec := ← decSpec (← getObj o "spec"), checkCalls := getNatD o "checkCalls",
            checkSaw := saw, checkNil := getBoolD o "checkNil", filterCalls := getNatD o "filterCalls" } : Out))
  let restSame := getBoolD obs "restSame" true
  let panic := getStrD obs "panic"
  if e.filter.isSome || e.check.isSome then
    return judgeOpts kind s a e outs restSame panic
  let ext := e.toExternals
  -- model (repaired code), under every iteration order of the two maps
  let m := adjust ext s a
  let annOrders := orders a.annotations
  let annRef := Annotations.apply s.annotations a.annotations
  let annStable := (orderPairs a.annotations).all fun (π1, π2) =>
    alistEqv (Annotations.applyOrders s.annotations π1 π2) annRef
  let uni := match a.resources with | some r => r.unified | none => []
  let uniStable := (orders uni).all fun π =>
    alistEqv (Resources.applyUnified s.unified π) (Resources.applyUnified s.unified uni)
  -- what the transcriptions of the code before the repairs can produce (for the diagnosis only)
  let sameAs (us : List (Except GenError Oci.Spec)) : Bool := outs.all fun o => us.any fun u =>
    match u with
    | .ok x => o.err == "" && specEqv x o.spec
    | .error ue => o.err == errName ue
  let matchesLists := sameAs [adjustListsUnfixed ext s a]
  let matchesUnfixed := matchesLists || sameAs (annOrders.map fun π => adjustUnfixed ext s { a with annotations := π })
  let diag := if matchesLists then " [the result is that of generate.go before commit 6eaf34c (removals before sets in env/devices/mounts)]"
    else " [the results are those of generate.go before the repairs 1f50159/ad4e689/6eaf34c]"
  let agreeOut := match outs, m with
    | [o], .ok ms => o.err == "" && specEqv ms o.spec
    | [o], .error me => o.err == errName me
    | _, _ => false
  let agree := agreeOut && annStable && uniStable
  -- domain
  let guard := Check.guardViolated s a
  -- the property on the implementation's own results
  let expErr := expectedErr s a e
  let bio : Option (Str → Option Nat) := if e.noBlockio then none else some (lookupNat e.blockio)
  let rdt : Option (Str → Option Str) := if e.noRdt then none else some (AList.lookup e.rdt)
  let perOut : List Check.Fail := outs.flatMap fun o =>
    if o.err != expErr then
      [{ sig := "C13:error-class", why := s!"Adjust returned error class \"{o.err}\" where the input calls for \"{expErr}\"" }]
    else if o.err != "" then []
    else Check.checkAll s a o.spec (!e.noInjector) bio rdt
  let detFail : List Check.Fail := match outs with
    | o1 :: o2 :: _ =>
      let d := if o1.err != o2.err then ["error"] else diffFields o1.spec o2.spec
      [{ sig := "C13:" ++ ",".intercalate d ++ ":order-dependent",
         why := s!"{outs.length} different results over the repeated runs of the same input; they differ in {d}" }]
    | _ => []
  let restFail : List Check.Fail :=
    (if restSame then [] else [{ sig := "C13:frame:rest-of-spec", why := "a part of the spec no adjustment field names was changed" }]) ++
    (if panic == "" then [] else [{ sig := "C13:panic", why := s!"Adjust panicked: {panic}" }])
  let fails := perOut ++ detFail ++ restFail
  let fails := fails.filter (fun f => !f.recorded) ++ fails.filter (fun f => f.recorded)
  let excluded := guard.isSome
  let spec := fails.isEmpty
  let first := fails.head?
  let why :=
    if !spec && !excluded then
      (match first with | some f => f.why | none => "") ++
        (if matchesUnfixed && !agreeOut then diag else "")
    else if !agree then
      (match outs, m with
        | [o], .ok ms => if o.err == "" then s!"model and implementation differ in {diffFields ms o.spec}" else s!"implementation failed ({o.err}), model succeeds"
        | [o], .error me => s!"model fails ({errName me}), implementation: \"{o.err}\""
        | _, _ => s!"{outs.length} distinct implementation results; the model is deterministic") ++
        (if !annStable then "; MODEL annotations depend on the entry order" else "") ++
        (if !uniStable then "; MODEL unified depends on the entry order" else "") ++
        (if matchesUnfixed then diag else "") ++
        (match guard with | some g => s!" [{g}]" | none => "")
    else ""
  let cover := [s!"kind:{kind}", if excluded then "domain:excluded" else "domain:in",
                s!"outs:{outs.length}", s!"err:{expErr}",
                s!"perm:ann:{a.annotations.length}", s!"perm:uni:{uni.length}"] ++
               coverTags s a ++ (if matchesUnfixed && !agreeOut then ["impl:as-unrepaired"] else []) ++
               (match outs with
                | o :: _ =>
                  if o.err == "" && o.spec.rootfsPropagation != s.rootfsPropagation
                  then [s!"mnt:rootfs-raised:{String.ofList s.rootfsPropagation}->{String.ofList o.spec.rootfsPropagation}"] else []
                | [] => []) ++
               (if expErr == "" && a.mounts.any (fun m => !isMarked m.destination && m.options.any isPropagationOpt)
                then ["mnt:propagation-accepted"] else []) ++
               (match outs with
                | o :: _ =>
                  let ms := o.spec.mounts
                  let unclean := fun (m : Oci.Mount) => Mounts.cleanPath m.destination != m.destination
                  (if !a.mounts.isEmpty && ms.any unclean then ["mnt:unclean-destination-in-result"] else []) ++
                  (if !a.mounts.isEmpty && ms.any (fun c => unclean c && ms.any (fun p => Check.isCleanParentOf p.destination c.destination))
                    then ["mnt:clean-parent-with-unclean-child"] else [])
                | [] => []) ++
               [s!"perm:ann-pairs:{(orderPairs a.annotations).length}"]
  pure { agree := agree, spec := spec || excluded, why := why, cover := cover,
         nontrivial := touches a && !excluded, excluded := excluded,
         sig := match guard with
           | some g => g
           | none => (match first with | some f => f.sig | none => ""),
         model := Json.null }

def main : IO UInt32 := runLines judge
end Drv.C13
