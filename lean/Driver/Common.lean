/-
Line-protocol plumbing shared by every property driver (core Lean + Lean.Data.Json only).

Input : one JSON object per line, `{"id":…, "in":…, "obs":…}` written by the Go harness
        (`in` = generated input, `obs` = canonicalised observation of the implementation).
Output: one JSON object per line,
        `{"id","agree","spec","why","cover":[…],"nontrivial","sig","excluded"}`.
  agree      – model observation == implementation observation
  spec       – the abstract property predicate evaluated directly on the implementation's
               observation holds
  sig        – structural signature of a spec failure (matched against known_findings.json)
  excluded   – the input lies outside the property's stated domain (guard); only `agree`
               is meaningful for it
-/
import Lean.Data.Json
import NriModel.Basic

open Lean

namespace Drv

structure Verdict where
  id : String := ""
  agree : Bool := true
  spec : Bool := true
  why : String := ""
  cover : List String := []
  nontrivial : Bool := false
  sig : String := ""
  excluded : Bool := false
  model : Json := Json.null

def Verdict.toJson (v : Verdict) : Json :=
  Json.mkObj [("id", v.id), ("agree", v.agree), ("spec", v.spec), ("why", v.why),
    ("cover", Json.arr (v.cover.map Json.str).toArray), ("nontrivial", v.nontrivial),
    ("sig", v.sig), ("excluded", v.excluded), ("model", v.model)]

def getStr (j : Json) (k : String) : Except String String := j.getObjValAs? String k
def getNat (j : Json) (k : String) : Except String Nat := j.getObjValAs? Nat k
def getInt (j : Json) (k : String) : Except String Int := j.getObjValAs? Int k
def getBool (j : Json) (k : String) : Except String Bool := j.getObjValAs? Bool k
def getObj (j : Json) (k : String) : Except String Json := j.getObjVal? k
def getArr (j : Json) (k : String) : Except String (List Json) := do
  match j.getObjVal? k with
  | .ok (Json.arr a) => pure a.toList
  | .ok Json.null => pure []
  | .ok _ => throw s!"field {k}: not an array"
  | .error _ => pure []
def getStrD (j : Json) (k : String) (d : String := "") : String :=
  match j.getObjValAs? String k with | .ok s => s | .error _ => d
def getBoolD (j : Json) (k : String) (d : Bool := false) : Bool :=
  match j.getObjValAs? Bool k with | .ok s => s | .error _ => d
def getNatD (j : Json) (k : String) (d : Nat := 0) : Nat :=
  match j.getObjValAs? Nat k with | .ok s => s | .error _ => d
def getIntD (j : Json) (k : String) (d : Int := 0) : Int :=
  match j.getObjValAs? Int k with | .ok s => s | .error _ => d
/-- optional field: absent or null ↦ none -/
def getOpt (j : Json) (k : String) : Option Json :=
  match j.getObjVal? k with
  | .ok Json.null => none
  | .ok v => some v
  | .error _ => none
def getStrList (j : Json) (k : String) : Except String (List String) := do
  let a ← getArr j k
  a.mapM fun x => match x with | Json.str s => pure s | _ => throw s!"field {k}: non-string"
/-- a JSON object as a key-sorted association list (harness emits maps as objects) -/
def getStrMap (j : Json) (k : String) : Except String (List (String × String)) := do
  match j.getObjVal? k with
  | .ok (Json.obj kvs) =>
    kvs.toList.mapM fun (kk, v) => match v with
      | Json.str s => pure (kk, s) | _ => throw s!"field {k}: non-string value"
  | .ok Json.null => pure []
  | .ok _ => throw s!"field {k}: not an object"
  | .error _ => pure []

def S (s : String) : Nri.Str := s.toList
def U (s : Nri.Str) : String := String.ofList s

/-- Read stdin line by line, judge each case, print one verdict per line. A line the
    judge cannot decode is itself reported as a disagreement, never skipped. -/
partial def runLines (judge : Json → Except String Verdict) : IO UInt32 := do
  let stdin ← IO.getStdin
  let stdout ← IO.getStdout
  let rec loop : IO Unit := do
    let line ← stdin.getLine
    if line.isEmpty then return ()
    let t := line.trimAscii.toString
    if t.isEmpty then loop else
    let v : Verdict := match Json.parse t with
      | .error e => { agree := false, spec := true, why := s!"driver: bad json: {e}" }
      | .ok j =>
        let id := getStrD j "id"
        match judge j with
        | .ok v => { v with id := id }
        | .error e => { id := id, agree := false, spec := true, why := s!"driver: {e}" }
    stdout.putStrLn v.toJson.compress
    loop
  loop
  stdout.flush
  return 0

end Drv
