/-
Builder stream of the C01–C05 harness (harness/merge/builder.go): the plugins of a case are
given PROGRAMS of pkg/api helper calls. This file decodes the programs and the messages the
real helpers built (`obs.built`), runs the model (`Nri.Builder.runA / runU`) on the programs and
compares (`agree`), hands the messages that were actually sent to the ordinary merge judgement
(Driver/Merge.lean), and evaluates the program-level predicates directly on the observation:

* every item a program sets that nobody else sets or releases shows in the reply with the
  program's value (adjustment items, hooks, and the fields of update entries);
* a conflict is never raised on an item the claimant's program releases (and adds at most once);
* two programs (strictly) setting one item of one container with no release in between ⇒ the
  request failed; programs naming pairwise distinct items ⇒ it succeeded.

The syntactic readings (`progSets`, `progClears`, `progVals`, …) are those of
NriModel/Builder.lean; no message built by the model enters a `spec` predicate.
-/
import Driver.MergeDecode
import NriModel.Builder

open Lean Drv Nri Nri.NApi Nri.Result Nri.Builder

namespace Drv.Builder
open Drv.Merge

/-! ### decoding -/

def argStr (a : Json) (k : String) : Except String Str := S <$> getStr a k
def argInt (a : Json) : Except String Int := getInt a "int"
def argNat (a : Json) : Except String Nat := getNat a "uint"

def decROp (op : String) (a : Json) : Except String (Option ROp) := do
  match op with
  | "SetLinuxMemoryLimit" => pure (some (.memLimit (← argInt a)))
  | "SetLinuxMemoryReservation" => pure (some (.memReservation (← argInt a)))
  | "SetLinuxMemorySwap" => pure (some (.memSwap (← argInt a)))
  | "SetLinuxMemoryKernel" => pure (some (.memKernel (← argInt a)))
  | "SetLinuxMemoryKernelTCP" => pure (some (.memKernelTcp (← argInt a)))
  | "SetLinuxMemorySwappiness" => pure (some (.memSwappiness (← argNat a)))
  | "SetLinuxMemoryDisableOomKiller" => pure (some .memDisableOom)
  | "SetLinuxMemoryUseHierarchy" => pure (some .memUseHierarchy)
  | "SetLinuxCPUShares" => pure (some (.cpuShares (← argNat a)))
  | "SetLinuxCPUQuota" => pure (some (.cpuQuota (← argInt a)))
  | "SetLinuxCPUPeriod" => pure (some (.cpuPeriod (← argInt a)))
  | "SetLinuxCPURealtimeRuntime" => pure (some (.cpuRtRuntime (← argInt a)))
  | "SetLinuxCPURealtimePeriod" => pure (some (.cpuRtPeriod (← argNat a)))
  | "SetLinuxCPUSetCPUs" => pure (some (.cpus (← argStr a "value")))
  | "SetLinuxCPUSetMems" => pure (some (.mems (← argStr a "value")))
  | "SetLinuxPidLimits" => pure (some (.pids (← argInt a)))
  | "AddLinuxHugepageLimit" => pure (some (.hugepage (← argStr a "key") (← argNat a)))
  | "SetLinuxBlockIOClass" => pure (some (.blockio (← argStr a "value")))
  | "SetLinuxRDTClass" => pure (some (.rdt (← argStr a "value")))
  | "AddLinuxUnified" => pure (some (.unified (← argStr a "key") (← argStr a "value")))
  | _ => pure none

def decACall (j : Json) : Except String (String × ACall) := do
  let op ← getStr j "op"
  let a ← getObj j "args"
  let c : ACall ← match op with
    | "AddAnnotation" => pure (.op (.addAnnotation (← argStr a "key") (← argStr a "value")))
    | "RemoveAnnotation" => pure (.op (.removeAnnotation (← argStr a "key")))
    | "AddMount" => pure (.op (.addMount (← decMount (← getObj a "mount"))))
    | "RemoveMount" => pure (.op (.removeMount (← argStr a "key")))
    | "AddEnv" => pure (.op (.addEnv (← argStr a "key") (← argStr a "value")))
    | "RemoveEnv" => pure (.op (.removeEnv (← argStr a "key")))
    | "SetArgs" => pure (.op (.setArgs (← strsF a "strs")))
    | "UpdateArgs" => pure (.op (.updateArgs (← strsF a "strs")))
    | "AddHooks" => match getOpt a "hooks" with
        | none => pure .addHooksNil
        | some h => pure (.op (.addHooks (← decHooks h)))
    | "AddRlimit" => pure (.op (.addRlimit (← argStr a "key") (← getNat a "hard") (← getNat a "soft")))
    | "AddDevice" => pure (.op (.addDevice (← decDevice (← getObj a "device"))))
    | "RemoveDevice" => pure (.op (.removeDevice (← argStr a "key")))
    | "AddCDIDevice" => pure (.op (.addCDIDevice (← argStr a "key")))
    | "SetLinuxCgroupsPath" => pure (.op (.setLinuxCgroupsPath (← argStr a "value")))
    | "SetLinuxOomScoreAdj" => pure (.op (.setLinuxOomScoreAdj (← optOf a "int" asInt)))
    | _ => match ← decROp op a with
        | some r => pure (.op (.res r))
        | none => throw s!"unknown adjustment helper {op}"
  pure (op, c)

def decUOp (j : Json) : Except String (String × UOp) := do
  let op ← getStr j "op"
  let a ← getObj j "args"
  let c : UOp ← match op with
    | "SetContainerId" => pure (.setContainerId (← argStr a "value"))
    | "SetIgnoreFailure" => pure .setIgnoreFailure
    | _ => match ← decROp op a with
        | some r => pure (.res r)
        | none => throw s!"unknown update helper {op}"
  pure (op, c)

structure Progs where
  adjust : Option (List ACall)
  updates : List (List UOp)
  helpers : List String          -- names of the helpers called (cover tags)
  ncalls : Nat

def decProgs (j : Json) : Except String Progs := do
  let adj ← match getOpt j "adjust" with
    | none => pure none
    | some (Json.arr a) => some <$> a.toList.mapM decACall
    | some _ => throw "progs.adjust: not an array"
  let upds ← (← getArr j "updates").mapM fun u => match u with
    | Json.arr a => a.toList.mapM decUOp
    | Json.null => pure []
    | _ => throw "progs.updates: not an array of arrays"
  let names := (adj.getD []).map (fun x => "A." ++ x.1) ++ upds.flatMap fun u => u.map fun x => "U." ++ x.1
  pure { adjust := adj.map (·.map (·.2)), updates := upds.map (·.map (·.2)), helpers := names.eraseDups,
         ncalls := names.length }

structure Built where
  name : Str
  invoked : Bool
  panic : String
  adjust : Option Adjustment
  updates : List Update

def decBuilt (j : Json) : Except String Built := do
  pure { name := ← strF j "name", invoked := ← getBool j "invoked", panic := getStrD j "panic",
         adjust := ← optOf j "adjust" decAdjust, updates := ← arrF j "updates" decUpdate }

/-! ### model vs. the real helpers -/

def strLe' : Str → Str → Bool
  | [], _ => true
  | _ :: _, [] => false
  | a :: as, b :: bs => if a.toNat < b.toNat then true else if a.toNat > b.toNat then false else strLe' as bs

def insertPair (x : Str × Str) : AList Str Str → AList Str Str
  | [] => [x]
  | y :: ys => if strLe' x.1 y.1 then x :: y :: ys else y :: insertPair x ys

/-- Go maps come out sorted by key; the model's association lists are in insertion order -/
def sortPairs (m : AList Str Str) : AList Str Str := m.foldr insertPair []

def canonResB (r : Resources) : Resources := { r with unified := sortPairs r.unified }
def canonAdjB (a : Adjustment) : Adjustment :=
  { a with annotations := sortPairs a.annotations, resources := a.resources.map canonResB }
def canonUpdB (u : Update) : Update := { u with resources := u.resources.map canonResB }

/-- what the model says a plugin's programs do: `none` = a helper panics (`AddHooks(nil)`) -/
def modelOf (create : Bool) (p : Progs) : Option PluginProg :=
  match p.adjust with
  | none => some { adjust := none, updates := p.updates }
  | some calls =>
    if create then
      match runCalls calls with
      | none => none
      | some ops => some { adjust := some ops, updates := p.updates }
    else some { adjust := none, updates := p.updates }   -- the adjustment program is not run

/-- one plugin of a builder case -/
structure Plug where
  name : Str
  progs : Option Progs              -- none = an ordinary plugin with a given response
  prog : Option PluginProg          -- the model's reading (none for ordinary plugins and panics)
  panics : Bool
  sent : Response                   -- what the runtime received (built; model if never invoked)
  model : Response                  -- what the model says it receives

structure Info where
  plugs : List Plug
  diffs : List String
  cover : List String
  ncalls : Nat

def prepare (kindS : String) (inJ obsJ : Json) (plain : List PluginRsp) : Except String (Option Info) := do
  let pj ← getArr inJ "plugins"
  let progs ← pj.mapM fun p => optOf p "progs" decProgs
  if progs.all (·.isNone) then return none
  let built ← (← getArr obsJ "built").mapM decBuilt
  let create := kindS == "create"
  let mut diffs : List String := []
  let mut plugs : List Plug := []
  let mut rest := built
  for (pl, pr) in List.zip plain progs do
    match pr with
    | none => plugs := plugs ++ [{ name := pl.name, progs := none, prog := none, panics := false, sent := pl.rsp, model := pl.rsp }]
    | some p =>
      let m := modelOf create p
      let mrsp : Response := match m with | some pp => pp.response | none => {}
      match rest with
      | [] => throw "obs.built is shorter than the list of plugins with programs"
      | b :: bs =>
        rest := bs
        if b.name != pl.name then throw s!"obs.built out of step: {U b.name} / {U pl.name}"
        let mut sent := mrsp
        if b.invoked then
          sent := { adjust := if create then b.adjust else none, updates := b.updates }
          if (b.panic != "") != m.isNone then
            diffs := diffs ++ [s!"built[{U pl.name}]: model {if m.isNone then "panics" else "returns"}, helpers {if b.panic != "" then "panicked: " ++ b.panic else "returned"}"]
          else if m.isSome then
            if create && mrsp.adjust.map canonAdjB != b.adjust.map canonAdjB then
              diffs := diffs ++ [s!"built[{U pl.name}].adjust: model {shO shAdjust (mrsp.adjust.map canonAdjB)} /// helpers {shO shAdjust (b.adjust.map canonAdjB)}"]
            if mrsp.updates.map canonUpdB != b.updates.map canonUpdB then
              diffs := diffs ++ [s!"built[{U pl.name}].updates: model {shL shUpdate (mrsp.updates.map canonUpdB)} /// helpers {shL shUpdate (b.updates.map canonUpdB)}"]
        plugs := plugs ++ [{ name := pl.name, progs := some p, prog := m, panics := m.isNone, sent := sent, model := mrsp }]
  let shape := getStrD inJ "shape"
  let cover := (plugs.flatMap fun p => match p.progs with | some pr => pr.helpers.map (fun h => s!"helper:{h}") | none => []).eraseDups
    ++ (if shape != "" then [s!"bshape:{shape}"] else [])
    ++ (if plugs.any (·.panics) then ["built:panic"] else [])
  pure (some { plugs, diffs, cover, ncalls := (progs.filterMap id).foldl (fun n p => n + p.ncalls) 0 })

/-! ### program-level predicates on the observation -/

def setsOnP (strict : Bool) (k : Kind) (p : Plug) (c : Cid) : List Item :=
  match p.progs, p.prog with
  | some _, some pp => progSetsOn strict k pp c
  | some _, none => []                       -- the handler panicked: empty answer
  | none, _ => Ledger.setsOn strict k p.sent c

def removesOnP (k : Kind) (p : Plug) (c : Cid) : List Item :=
  match p.progs, p.prog with
  | some _, some pp => progRemovesOn k pp c
  | some _, none => []
  | none, _ => Ledger.removesOn k p.sent c

def targetsOf (p : Plug) : List Cid :=
  match p.progs, p.prog with
  | some _, some pp => pp.updates.map progTarget
  | some _, none => []
  | none, _ => p.sent.updates.map (·.containerId)

def containersP (k : Kind) (ps : List Plug) : List Cid := (cidOf k :: ps.flatMap targetsOf).eraseDups

def idx (l : List α) : List (Nat × α) := List.zip (List.range l.length) l

/-- two programs (strictly) set one item of one container, nobody from the later one back to
    the earlier one releases it -/
def progCollision (k : Kind) (ps : List Plug) : Option String :=
  (containersP k ps).findSome? fun c =>
    (idx ps).findSome? fun (i, pi) =>
      (setsOnP true k pi c).findSome? fun it =>
        (idx ps).findSome? fun (j, pj) =>
          if i < j && (setsOnP true k pj c).contains it &&
             ((idx ps).all fun (m, pm) => !(i < m && m ≤ j) || !(removesOnP k pm c).contains it)
          then some s!"{U pi.name} and {U pj.name} both set '{U (Ledger.subjectOf it)}' of {U c}"
          else none

/-- no (container, item) pair is named twice, nobody updates the container being created -/
def progDisjoint (k : Kind) (ps : List Plug) : Bool :=
  let all := (containersP k ps).flatMap fun c => ps.flatMap fun p => (setsOnP false k p c).map fun it => (c, it)
  let selfUpd := match k with | .create id => ps.any fun p => (targetsOf p).contains id | _ => false
  all.eraseDups.length == all.length && !selfUpd

def resShows (r : Resources) : Item → Val → Bool
  | .memLimit, .int v => (r.memory.getD {}).limit == some v
  | .memReservation, .int v => (r.memory.getD {}).reservation == some v
  | .memSwap, .int v => (r.memory.getD {}).swap == some v
  | .memKernel, .int v => (r.memory.getD {}).kernel == some v
  | .memKernelTcp, .int v => (r.memory.getD {}).kernelTcp == some v
  | .memSwappiness, .nat v => (r.memory.getD {}).swappiness == some v
  | .memDisableOom, .bool b => (r.memory.getD {}).disableOomKiller == some b
  | .memUseHierarchy, .bool b => (r.memory.getD {}).useHierarchy == some b
  | .cpuShares, .nat v => (r.cpu.getD {}).shares == some v
  | .cpuQuota, .int v => (r.cpu.getD {}).quota == some v
  | .cpuPeriod, .nat v => (r.cpu.getD {}).period == some v
  | .cpuRtRuntime, .int v => (r.cpu.getD {}).realtimeRuntime == some v
  | .cpuRtPeriod, .nat v => (r.cpu.getD {}).realtimePeriod == some v
  | .cpusetCpus, .str s => (r.cpu.getD {}).cpus == s
  | .cpusetMems, .str s => (r.cpu.getD {}).mems == s
  | .pids, .int v => r.pids == some v
  | .hugepage s, .nat v => r.hugepages.any fun h => h.pageSize == s && h.limit == v
  | .unified k, .str v => AList.lookup r.unified k == some v
  | .blockio, .str s => r.blockioClass == some s
  | .rdt, .str s => r.rdtClass == some s
  | _, _ => false

def adjShows (a : Adjustment) : Item → Val → Bool
  | .annotation k, .str v => AList.lookup a.annotations k == some v
  | .mount _, .mount m => a.mounts.contains m
  | .env k, .str v => a.env.any fun e => e.key == k && e.value == v
  | .args, .strs l => a.args == (match l with | [] :: t => t | l => l)
  | .device _, .device d => a.devices.contains d
  | .cdi n, .unit => a.cdiDevices.contains n
  | .rlimit t, .rlimit h s => a.rlimits.contains { type := t, hard := h, soft := s }
  | .cgroupsPath, .str s => a.cgroupsPath == s
  | .oomScoreAdj, .int v => a.oomScoreAdj == some v
  | it, v => resShows (a.resources.getD {}) it v

def itemTag : Item → String
  | .annotation _ => "annotation" | .mount _ => "mount" | .device _ => "device" | .cdi _ => "cdi"
  | .env _ => "env" | .args => "args" | .hugepage _ => "hugepage" | .unified _ => "unified"
  | .rlimit _ => "rlimit" | .memLimit => "memLimit" | .memReservation => "memReservation"
  | .memSwap => "memSwap" | .memKernel => "memKernel" | .memKernelTcp => "memKernelTcp"
  | .memSwappiness => "memSwappiness" | .memDisableOom => "memDisableOom"
  | .memUseHierarchy => "memUseHierarchy" | .cpuShares => "cpuShares" | .cpuQuota => "cpuQuota"
  | .cpuPeriod => "cpuPeriod" | .cpuRtRuntime => "cpuRtRuntime" | .cpuRtPeriod => "cpuRtPeriod"
  | .cpusetCpus => "cpusetCpus" | .cpusetMems => "cpusetMems" | .pids => "pids"
  | .blockio => "blockio" | .rdt => "rdt" | .cgroupsPath => "cgroupsPath" | .oomScoreAdj => "oomScoreAdj"

/-- adjustment items: every item plugin i's program sets once, that no other plugin sets and no
    later plugin releases, shows in the reply with the program's value -/
def adjValues (k : Kind) (ps : List Plug) (reply : Adjustment) : Option (String × String) :=
  let c0 := cidOf k
  (idx ps).findSome? fun (i, p) =>
    match p.prog.bind (·.adjust) with
    | none => none
    | some prog =>
      (progVals prog).findSome? fun (it, v) =>
        let mine := (progSets prog).count it == 1
        let others := (idx ps).any fun (j, q) => j != i && (setsOnP false k q c0).contains it
        let released := (idx ps).any fun (j, q) => j > i && (removesOnP k q c0).contains it
        if mine && !others && !released && !adjShows reply it v then
          some (s!"{U p.name}'s program sets '{U (Ledger.subjectOf it)}' (nobody else sets or releases it) but the reply does not show its value; reply: {shAdjust reply}",
                s!"prog:value:{itemTag it}")
        else none

/-- hooks are not owned: the reply carries every plugin's hooks, kind by kind in plugin order -/
def hooksExpected (ps : List Plug) : Hooks :=
  ps.foldl (fun acc p =>
    match p.progs, p.prog with
    | some _, some pp => (match pp.adjust with | some prog => acc.append (progHooks prog) | none => acc)
    | some _, none => acc
    | none, _ => (match p.sent.adjust.bind (·.hooks) with | some h => acc.append h | none => acc)) {}

/-- update entries: if no item of an update program is named by anybody else for its target, the
    entry returned for the target shows every value the program gives -/
def updValues (k : Kind) (ps : List Plug) (updates : List (Option Update)) : Option (String × String) :=
  (idx ps).findSome? fun (_, p) =>
    match p.prog with
    | none => none
    | some pp =>
      pp.updates.findSome? fun u =>
        let t := progTarget u
        let named := ps.flatMap fun q => setsOnP false k q t
        let exclusive := (progSetsU u).all fun it => named.count it == 1
        if !exclusive || (progSetsU u).isEmpty then none else
        match updates.findSome? (fun e => match e with | some e => if e.containerId == t then some e else none | none => none) with
        | none => some (s!"{U p.name}'s update program for {U t} has no entry in the reply", "prog:update:missing-entry")
        | some e =>
          (progValsU u).findSome? fun (it, v) =>
            if resShows (e.resources.getD {}) it v then none
            else some (s!"{U p.name}'s update program sets '{U (Ledger.subjectOf it)}' of {U t} (nobody else names it) but the entry does not show its value: {shUpdate e}",
                       s!"prog:update-value:{itemTag it}")

/-- all program-level predicates; `none` = they hold -/
def progSpec (k : Kind) (ps : List Plug) (obs : CaseObs) : Option (String × String) :=
  let ok := obs.err.kind == "none"
  -- a conflict on an item the claimant's program releases (and adds at most once)
  let released : Option (String × String) :=
    if obs.err.kind != "conflict" then none else
    match ps.find? (fun p => p.name == obs.err.p) with
    | none => none
    | some p =>
      match p.prog.bind (·.adjust), k with
      | some prog, .create _ =>
        (progClears prog).findSome? fun it =>
          if Ledger.subjectOf it == obs.err.subject && (progSets prog).count it ≤ 1 then
            some (s!"conflict on '{U obs.err.subject}' between {U obs.err.p} and {U obs.err.q} although {U obs.err.p}'s program releases it",
                  s!"prog:released-item-conflict:{itemTag it}")
          else none
      | _, _ => none
  -- a conflict raised by an update although every update program of the claimant that names the
  -- item calls SetIgnoreFailure (such an update is dropped, it never fails the request)
  let ignored : Option (String × String) :=
    if obs.err.kind != "conflict" then none else
    match ps.find? (fun p => p.name == obs.err.p) with
    | none => none
    | some p =>
      match p.prog with
      | none => none
      | some pp =>
        let names := fun (l : List Item) => l.any fun it => Ledger.subjectOf it == obs.err.subject
        let inAdjust := match k, pp.adjust with | .create _, some prog => names (progSets prog) | _, _ => false
        let us := pp.updates.filter fun u => names (progSetsU u)
        if !inAdjust && !us.isEmpty && us.all progIgnore then
          some (s!"conflict on '{U obs.err.subject}' between {U obs.err.p} and {U obs.err.q} although every update program of {U obs.err.p} naming it calls SetIgnoreFailure",
                "prog:ignored-update-failed")
        else none
  match released.orElse (fun _ => ignored) with
  | some r => some r
  | none =>
    match progCollision k ps with
    | some w => if ok then some (w ++ " with no release in between, yet the request succeeded", "prog:collision-not-flagged") else none
    | none =>
      if progDisjoint k ps && !ok then
        some (s!"the programs name pairwise distinct items, yet the request failed: {obs.err.kind} '{U obs.err.subject}' {U obs.err.p}/{U obs.err.q}",
              "prog:disjoint-failed")
      else if !ok then none
      else
        let adjPart : Option (String × String) :=
          match k, obs.adjust with
          | .create _, some reply =>
            match adjValues k ps reply with
            | some r => some r
            | none =>
              let exp := hooksExpected ps
              if reply.hooks.getD {} != exp then
                some (s!"hooks of the reply {shHooks (reply.hooks.getD {})} /// all programs' hooks in plugin order {shHooks exp}", "prog:hooks")
              else none
          | _, _ => none
        match adjPart with
        | some r => some r
        | none => updValues k ps obs.updates

end Drv.Builder
