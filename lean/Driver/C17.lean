import Driver.Common
import NriModel.Registration
open Lean Drv Nri

/-!
Driver for C17. Case kinds:

* `index` – `in = {idx}`, `obs = {res}`: `api.CheckPluginIndex`.
* `chain` – `in = {regtoms, reqtoms, plugins:[{name, idx, reg, close, retry, cfg, events, sync}]}`,
            `obs = {done, plugins:[{reg, retry, configures, syncs, events, others, closed}], relayerr, slow}`:
            scripted plugin ends against a real `Adaptation`, then every lifecycle event relayed once.
* `dir`   – `in = {umask, existing:[mode], missing, disabled}`, `obs = {start, modes:[mode|null], socket, connect, euid}`.

`agree` compares with `Registration.acceptAll` / `recipients` / `startListener`; `spec` evaluates
the property on the observation itself (well-formedness is decided by a separate plain reading
of the name and index, not by `checkIndex`).
-/
namespace Drv.C17
open Nri.Registration Nri.Events

def idxErrS : IdxErr → String
  | .length => "index-length"
  | .notDigits => "index-digits"

def judgeIndex (inp obs : Json) : Except String Verdict := do
  let idx ← getStr inp "idx"
  let res ← getStr obs "res"
  let m := match checkIndex (S idx) with
    | .ok () => "ok"
    | .error e => idxErrS e
  -- the property's reading of "two-digit index": exactly two characters, both ASCII digits
  let two := match idx.toList with
    | [a, b] => a.toNat ≥ 48 && a.toNat ≤ 57 && b.toNat ≥ 48 && b.toNat ≤ 57
    | _ => false
  let spec := two == (res == "ok")
  pure { agree := m == res, spec,
         why := if !spec then s!"CheckPluginIndex({idx.quote}) = {res}" else if m != res then s!"model {m} impl {res}" else "",
         sig := if spec then "" else "C17:index",
         cover := ["index", s!"index:{m}", s!"index:len{idx.length}"],
         nontrivial := true, model := Json.mkObj [("res", m)] }

/-- ticks: milliseconds -/
def delay (mode : String) (limit : Nat) : Except String (Option Nat × Bool) :=
  match mode with
  | "answer" | "now" => pure (some 0, false)
  | "short" => pure (some (limit / 4), false)
  | "late" => pure (some (limit * 5 / 2 + 50), false)
  | "never" => pure (none, false)
  | "error" => pure (some 0, true)
  | m => throw s!"unknown mode {m}"

def decPlug (to : Timeouts) (j : Json) : Except String Behaviour := do
  let name ← getStr j "name"
  let idx ← getStr j "idx"
  let reg ← getStr j "reg"
  let early := getStrD j "close" == "early"
  let events ← getNat j "events"
  if reg == "stub" then
    -- a real stub around a plugin with all thirteen handlers: registers at once; its own
    -- Configure refuses a mask naming anything beyond them (C15_configure), answers an empty
    -- mask with all thirteen, and otherwise passes the mask on
    let refused := events &&& 0xffffe000 != 0
    return { regAt := some 0, name := S name, idx := S idx, closeAt := none, cfgAt := some 0, cfgErr := refused,
             events := BitVec.ofNat 32 (if events == 0 then 0x1fff else events), syncAt := some 0, syncErr := false }
  let (regAt, _) ← delay reg to.reg
  let (cfgAt, cfgErr) ← delay (← getStr j "cfg") to.req
  let (syncAt, syncErr) ← delay (← getStr j "sync") to.req
  pure { regAt := if early then none else regAt, name := S name, idx := S idx,
         closeAt := if early then some 0 else none,
         cfgAt, cfgErr, events := BitVec.ofNat 32 events, syncAt, syncErr }

def outcomeS : Outcome → String
  | .closedEarly => "closed-early" | .regTimeout => "reg-timeout"
  | .regRejected .emptyName => "rejected:empty-name"
  | .regRejected (.badIndex e) => "rejected:" ++ idxErrS e
  | .cfgTimeout => "cfg-timeout" | .cfgError => "cfg-error"
  | .invalidEvents _ => "invalid-events" | .syncFailed => "sync-failed"
  | .activated .. => "activated"

/-- what the plugin end is expected to have seen, from the model's `Handled` -/
def expectReg (b : Behaviour) (h : Handled) (regMode : String) (early : Bool) : String :=
  if early || regMode == "never" then "none" else
  match h.outcome with
  | .regRejected .emptyName => "empty-name"
  | .regRejected (.badIndex e) => idxErrS e
  | .regTimeout => "failed"       -- registered too late: the connection is gone
  | .closedEarly => "none"
  | _ => "ok"

def natList (j : Json) (k : String) : Except String (List Nat) := do
  (← getArr j k).mapM fun x => match x.getNat? with | .ok n => pure n | .error _ => throw s!"{k}: not a number"

def judgeChain (inp obs : Json) : Except String Verdict := do
  let to : Timeouts := ⟨← getNat inp "regtoms", ← getNat inp "reqtoms"⟩
  let ps ← getArr inp "plugins"
  let done ← getStr obs "done"
  if done.startsWith "harness" then
    return { agree := false, spec := true, why := done, cover := ["chain"] }
  if getBoolD obs "slow" then
    -- the process was stalled by the machine for a noticeable part of a timeout: timing-dependent
    -- observations of this run prove nothing either way (the harness already retried it)
    return { agree := true, spec := true, excluded := true, sig := "slow-run", cover := ["chain", "chain:slow-run-skipped"],
             why := s!"run skipped: process lag {getNatD obs "maxlagms"} ms" }
  let bs ← ps.mapM (decPlug to)
  let (st, hs) := acceptAll to {} bs
  let mut cover : List String := ["chain", s!"chain:len{bs.length}", s!"timeouts:{to.reg}/{to.req}"]
  let nbad := (hs.filter fun h => match h.outcome with | .activated .. => false | _ => true).length
  cover := s!"chain:bad{nbad}" :: cover
  if done != "ok" then
    -- the last plugin of a chain is well-behaved: if the handshake phase never completed, bad
    -- plugins ahead of it blocked the accept loop (or the implementation hung or died)
    return { agree := false, spec := false, sig := "C17:no-block",
             why := s!"handshakes did not complete ({done}) with {nbad} bad plugin(s) in the chain",
             cover := "chain:blocked" :: cover, nontrivial := true }
  let os ← getArr obs "plugins"
  if os.length != bs.length then
    return { agree := false, spec := true, why := s!"{bs.length} plugins scripted, {os.length} observed", cover }
  let mut agree := true
  let mut spec := true
  let mut why := ""
  let mut sig := ""
  let relayErr ← getStrList obs "relayerr"
  if !relayErr.isEmpty then
    agree := false; spec := false; sig := "C17:relay-error"
    why := s!"relaying events failed: {relayErr}"
  let mut i := 0
  for (((pj, b), h), o) in ((ps.zip bs).zip hs).zip os do
    let regMode := getStrD pj "reg"
    let early := getStrD pj "close" == "early"
    let oReg ← getStr o "reg"
    let oCfg ← getNat o "configures"
    let oSync ← getNat o "syncs"
    let oEv ← natList o "events"
    let oOthers ← getNat o "others"
    let oClosed := getBoolD o "closed"
    cover := s!"outcome:{outcomeS h.outcome}" :: cover
    if getStrD o "retry" != "none" then cover := s!"retry:{getStrD o "retry"}" :: cover
    -- model ------------------------------------------------------------------------
    let mReg := expectReg b h regMode early
    let mEv : List Nat := (List.range 13).map (· + 1) |>.filter fun e => (recipients st e).contains i
    let mCfg := if h.configured then 1 else 0
    let mSync := if h.synced then 1 else 0
    -- The runtime answers RegisterPlugin on one goroutine while `start` already configures the
    -- plugin on another; when that ends in `p.close()` at once (refused mask, Configure error),
    -- the close can overtake the registration reply and the plugin sees its call fail.
    let regLost := mReg == "ok" && oReg == "failed" && h.closed
    if regLost then cover := "registration-reply-lost-to-close" :: cover
    let ok := (mReg == oReg || regLost) && mCfg == oCfg && mSync == oSync && mEv == oEv && oOthers == 0 &&
              (early || h.closed == oClosed)
    if !ok then
      agree := false
      if why == "" then
        why := s!"plugin #{i} ({outcomeS h.outcome}): model reg={mReg} cfg={mCfg} sync={mSync} events={mEv} closed={h.closed}; " ++
               s!"impl reg={oReg} cfg={oCfg} sync={oSync} events={oEv} others={oOthers} closed={oClosed}"
    -- spec, on the observation -----------------------------------------------------
    let name := getStrD pj "name"
    let idx := getStrD pj "idx"
    let events ← getNat pj "events"
    let wellFormed := name != "" && (match idx.toList with
      | [a, c] => a.toNat ≥ 48 && a.toNat ≤ 57 && c.toNat ≥ 48 && c.toNat ≤ 57
      | _ => false)
    let timely := !early && (regMode == "now" || regMode == "short" || regMode == "stub")
    if regMode == "stub" then cover := "plugin:real-stub" :: cover
    let cfgMode := getStrD pj "cfg"
    let cfgAnswered := cfgMode == "answer" || cfgMode == "short"
    let validMask := events &&& 0xffffe000 == 0
    let syncMode := getStrD pj "sync"
    let syncAnswered := syncMode == "answer" || syncMode == "short"
    let admissible := wellFormed && timely && cfgAnswered && validMask
    let wanted : List Nat := (List.range 13).map (· + 1) |>.filter fun e =>
      if events == 0 then true else events.testBit (e - 1)
    cover := (if admissible then (if syncAnswered then "class:good" else "class:good-but-sync-fails")
              else if !wellFormed then "class:malformed" else if !timely then "class:untimely"
              else if !cfgAnswered then "class:configure-unanswered" else "class:invalid-mask") :: cover
    if !admissible then
      -- never synchronised, never sent an event
      if oSync != 0 then
        spec := false; sig := s!"C17:isolated:synchronize"
        why := s!"plugin #{i} (name {name.quote}, index {idx.quote}, reg {regMode}, cfg {cfgMode}, events {events}) is not admissible but received Synchronize"
      else if !oEv.isEmpty then
        spec := false; sig := s!"C17:isolated:events"
        why := s!"plugin #{i} (name {name.quote}, index {idx.quote}, reg {regMode}, cfg {cfgMode}, events {events}) is not admissible but received events {oEv}"
      else if (!wellFormed || !timely) && oCfg != 0 then
        spec := false; sig := s!"C17:isolated:configure"
        why := s!"plugin #{i} (name {name.quote}, index {idx.quote}, reg {regMode}) did not register properly but was sent Configure"
    else if syncAnswered then
      -- a good plugin, wherever it stands in the chain, is activated and gets exactly its events
      if oEv != wanted then
        spec := false
        sig := if oEv.isEmpty then "C17:good-not-activated" else "C17:events"
        why := s!"plugin #{i} is well-formed, timely and answers everything (events {events}) behind {i} other plugin(s); it received events {oEv}, expected {wanted}"
    else if !oEv.isEmpty then
      spec := false; sig := "C17:isolated:unsynchronized"
      why := s!"plugin #{i} never completed Synchronize but received events {oEv}"
    i := i + 1
  return { agree, spec, why, sig, cover := cover.eraseDups, nontrivial := true,
           model := Json.arr (hs.map fun h => Json.str (outcomeS h.outcome)).toArray }

def judgeDir (inp obs : Json) : Except String Verdict := do
  let umask ← getNat inp "umask"
  let existing ← natList inp "existing"
  let missing ← getNat inp "missing"
  let disabled := getBoolD inp "disabled"
  let start ← getStr obs "start"
  let euid := getIntD obs "euid" 0
  let modesJ ← getArr obs "modes"
  let oModes : List (Option Nat) := modesJ.map fun x => match x.getNat? with | .ok n => some n | .error _ => none
  let chain : List (Option Mode) := existing.map (fun m => some (BitVec.ofNat 12 m)) ++ List.replicate missing none
  let u : Mode := BitVec.ofNat 12 umask
  -- the harness creates the base directory itself, without special bits
  let mModes : List (Option Nat) := match startListener disabled u 0o755#12 chain with
    | none => chain.map fun c => c.map (·.toNat)
    | some ms => ms.map fun m => some m.toNat
  let socket := getBoolD obs "socket"
  let connect := getStrD obs "connect"
  let msg := getStrD obs "msg"
  if msg.startsWith "harness" then
    return { agree := false, spec := true, why := msg, cover := ["dir"] }
  let mut cover := ["dir", s!"dir:missing{missing}", s!"dir:existing{existing.length}",
    if disabled then "dir:listening-disabled" else "dir:listening", s!"euid:{if euid == 0 then "root" else "user"}"]
  -- Without root, a directory created without owner write/search permission cannot take the
  -- next component or the socket; that is outside the model (it creates unconditionally).
  let ownerBlocked := euid != 0 && !disabled && missing > 0 && (umask &&& 0o300 != 0)
  if ownerBlocked then
    let spec := oModes.zip chain |>.all fun (o, c) => match c, o with
      | none, some m => m &&& 0o077 == 0
      | _, _ => true
    return { agree := true, spec, excluded := true, sig := if spec then "umask-blocks-owner" else "C17:dir-private",
             why := if spec then "" else s!"umask {umask}: created modes {oModes}", cover := "dir:owner-blocked" :: cover }
  let mut agree := true
  let mut spec := true
  let mut why := ""
  let mut sig := ""
  if start != "ok" then
    agree := false
    why := s!"Start failed: {msg}"
  if mModes != oModes then
    agree := false
    if why == "" then why := s!"modes: model {mModes} impl {oModes}"
  if disabled then
    if socket || connect == "ok" || connect == "refused" then
      spec := false; sig := "C17:no-listen"
      why := s!"external connections disabled, yet socket={socket} connect={connect}"
    if (oModes.drop existing.length).any (·.isSome) then
      spec := false; sig := "C17:no-listen"
      why := s!"external connections disabled, yet directories appeared: {oModes}"
  else
    if !(socket && connect == "ok") && start == "ok" then
      agree := false
      if why == "" then why := s!"listening, but socket={socket} connect={connect}"
    -- every directory NRI created is closed to group and others
    let created := (oModes.drop existing.length)
    match created.find? (fun m => match m with | some v => v &&& 0o077 != 0 | none => false) with
    | some (some v) =>
      spec := false; sig := "C17:dir-private"
      why := s!"umask {Nat.toDigits 8 umask |> String.ofList}: a created socket directory has mode {Nat.toDigits 8 v |> String.ofList}"
    | _ => pure ()
    if missing > 0 then cover := "dir:created" :: cover
  return { agree, spec, why, sig, cover, nontrivial := missing > 0 || disabled,
           model := Json.arr (mModes.map fun m => match m with | some v => Json.num v | none => Json.null).toArray }

def judge (j : Json) : Except String Verdict := do
  let inp ← getObj j "in"
  let obs ← getObj j "obs"
  match getStrD inp "kind" with
  | "index" => judgeIndex inp obs
  | "chain" => judgeChain inp obs
  | "dir" => judgeDir inp obs
  | k => throw s!"unknown case kind {k}"

def main : IO UInt32 := runLines judge
end Drv.C17
