/-
Shared driver for C01–C05: runs the model of result.go on the generated chain, compares with
the implementation's observation (canonicalised), and evaluates each property's predicate
directly on the observation.
-/
import Driver.MergeDecode
import Driver.Builder
import NriModel.Ledger
import NriModel.Overlay
import NriModel.UpdateWalk

open Lean Drv Nri Nri.NApi Nri.Result Nri.Overlay Nri.UpdateWalk

namespace Drv.Merge

/-! ### canonical forms (order that carries no meaning is sorted away) -/

def strLe : Str → Str → Bool
  | [], _ => true
  | _ :: _, [] => false
  | a :: as, b :: bs => if a.toNat < b.toNat then true else if a.toNat > b.toNat then false else strLe as bs

def insertBy (le : α → α → Bool) (x : α) : List α → List α
  | [] => [x]
  | y :: ys => if le x y then x :: y :: ys else y :: insertBy le x ys

def sortBy (le : α → α → Bool) (l : List α) : List α := l.foldr (insertBy le) []

def canonPairs (m : AList Str Str) : AList Str Str := sortBy (fun a b => strLe a.1 b.1) m

/-- sort every maximal run of consecutive removal markers (they come out of a Go map) -/
def canonRuns (key : α → Str) (l : List α) : List α :=
  let isM := fun x => (isMarked (key x)).2
  let rec go (run : List α) : List α → List α
    | [] => sortBy (fun a b => strLe (key a) (key b)) run
    | x :: xs => if isM x then go (x :: run) xs
                 else sortBy (fun a b => strLe (key a) (key b)) run ++ x :: go [] xs
  go [] l

def canonRes (r : Resources) : Resources :=
  { r with memory := some (r.memory.getD {}), cpu := some (r.cpu.getD {}), unified := canonPairs r.unified }

def canonContainer (c : Container) : Container :=
  { c with annotations := canonPairs c.annotations, resources := canonRes c.resources }

def canonAdjust (a : Adjustment) : Adjustment :=
  { a with annotations := canonPairs a.annotations,
           mounts := canonRuns (·.destination) a.mounts,
           env := canonRuns (·.key) a.env,
           devices := canonRuns (·.path) a.devices,
           hooks := some (a.hooks.getD {}),
           resources := some (canonRes (a.resources.getD {})) }

def canonUpdate (u : Update) : Update :=
  { u with resources := some (canonRes (u.resources.getD {})) }

/-! ### guards: inputs outside the properties' stated domain -/

/-- inside one response a key is first set and then marked for removal (list families), a
    key itself begins with the removal marker, a key is empty, or args is a bare marker -/
def adjustGuard (a : Adjustment) : Option String :=
  let listFam := fun (keys : List Str) =>
    let rec go : List Str → List Str → Bool
      | _, [] => false
      | seen, k :: ks => let (key, m) := isMarked k
                         if m && seen.contains key then true else go (if m then seen else key :: seen) ks
    go [] keys
  let dashKey := fun (keys : List Str) => keys.any fun k => let (key, _) := isMarked k; key.head? == some '-'
  let emptyKey := fun (keys : List Str) => keys.any fun k => (isMarked k).1 == []
  let fams := [a.mounts.map (·.destination), a.env.map (·.key), a.devices.map (·.path)]
  -- (set-then-remove list order inside one response used to be a guard: since fix 6eaf34c
  --  the generator, like the collector, lets the set win whatever the order)
  if false && fams.any listFam then some "set-then-remove order inside one response"
  else if (a.annotations.map (·.1) :: fams).any dashKey then some "key begins with the removal marker"
  else if (a.annotations.map (·.1) :: fams).any emptyKey then some "empty key"
  else if a.args == [[]] then some "bare args marker"
  else none

/-- `hugeGuard`: a plugin sets a hugepage limit of a size the original container already has.
    This is a hypothesis of C04's last sentence only (`guard_view_hugepage_in_original`); the
    predicates the driver evaluates do not need it, so it is off. -/
def caseGuard (k : Kind) (c0 : Container) (rs : List (Plugin × Response)) (hugeGuard : Bool := false) : Option String :=
  match rs.findSome? (fun (_, r) => r.adjust.bind adjustGuard) with
  | some g => some g
  | none =>
    if Ledger.dupWithin k rs then some "one response names an item twice"
    else if hugeGuard && rs.any (fun (_, r) => match r.adjust with
        | some a => (a.resources.map (·.hugepages)).getD [] |>.any fun h => c0.resources.hugepages.any fun h0 => h0.pageSize = h.pageSize
        | none => false) then some "hugepage size already in the original"
    else none

/-! ### the judge -/

def showErr : Except Err State → String
  | .ok _ => "none"
  | .error (.conflict _ it p q) => s!"conflict {U (Ledger.subjectOf it)} {U p}/{U q}"
  | .error (.selfUpdate p c) => s!"selfupdate {U p} {U c}"

def errKind : Except Err State → String
  | .ok _ => "none"
  | .error (.conflict ..) => "conflict"
  | .error (.selfUpdate ..) => "selfupdate"

structure Judged where
  agree : Bool
  whyAgree : String
  kind : Kind
  chain : List (Plugin × Response)
  inp : CaseIn
  obs : CaseObs
  guard : Option String
  modelOk : Bool
  cover : List String
  /-- builder stream (plugins given programs of pkg/api helper calls): Driver/Builder.lean -/
  binfo : Option Drv.Builder.Info := none

def firstDiff (label : String) (sh : α → String) (xs ys : List α) [BEq α] : Option String :=
  if xs.length != ys.length then some s!"{label}: model has {xs.length}, implementation {ys.length}"
  else (List.zip (List.range xs.length) (List.zip xs ys)).findSome? fun (i, (x, y)) =>
    if x == y then none else some s!"{label}[{i}]: model {sh x} /// implementation {sh y}"

def itemKindTag : Item → String
  | .annotation _ => "annotation" | .mount _ => "mount" | .device _ => "device" | .cdi _ => "cdi"
  | .env _ => "env" | .args => "args" | .hugepage _ => "hugepage" | .unified _ => "unified"
  | .rlimit _ => "rlimit" | .memLimit => "memLimit" | .memReservation => "memReservation"
  | .memSwap => "memSwap" | .memKernel => "memKernel" | .memKernelTcp => "memKernelTcp"
  | .memSwappiness => "memSwappiness" | .memDisableOom => "memDisableOom"
  | .memUseHierarchy => "memUseHierarchy" | .cpuShares => "cpuShares" | .cpuQuota => "cpuQuota"
  | .cpuPeriod => "cpuPeriod" | .cpuRtRuntime => "cpuRtRuntime" | .cpuRtPeriod => "cpuRtPeriod"
  | .cpusetCpus => "cpusetCpus" | .cpusetMems => "cpusetMems" | .pids => "pids"
  | .blockio => "blockio" | .rdt => "rdt" | .cgroupsPath => "cgroupsPath" | .oomScoreAdj => "oomScoreAdj"

def isInfix (pat s : Str) : Bool :=
  (List.range (s.length + 1 - pat.length)).any fun i => (s.drop i).take pat.length == pat

/-- the key of a keyed item (what an error message must mention to be about it) -/
def itemKey : Item → Option Str
  | .annotation k => some k | .mount d => some d | .device p => some p | .cdi n => some n
  | .env n => some n | .hugepage s => some s | .unified k => some k | .rlimit t => some t
  | _ => none

/-- the subject is one the collector's current wording produces (Ledger.subjectOf) -/
def knownSubject (s : Str) : Bool :=
  [Item.args, .memLimit, .memReservation, .memSwap, .memKernel, .memKernelTcp, .memSwappiness,
   .memDisableOom, .memUseHierarchy, .cpuShares, .cpuQuota, .cpuPeriod, .cpuRtRuntime, .cpuRtPeriod,
   .cpusetCpus, .cpusetMems, .pids, .blockio, .rdt, .cgroupsPath, .oomScoreAdj].any (fun it => Ledger.subjectOf it == s)
  || [Item.annotation [], .mount [], .device [], .cdi [], .env [], .hugepage [], .unified [], .rlimit []].any
       (fun it => (Ledger.subjectOf it).isPrefixOf s)

/-! ### iteration order of Go maps that is observable

`updateResources` claims the unified keys of an update in Go map iteration order, and the claims
an ignore-failure update made before its failing field stay in the ledger. Which unified keys
such a dropped update keeps is therefore decided by an order the harness cannot see. The model
takes the order from the list; the theorems hold for every list, hence for every order; the
comparison accepts the case if SOME order of the unified keys of the ignore-failure updates
reproduces the observation, and the property predicates are evaluated on that order. -/

def permsOf {α : Type} : List α → List (List α)
  | [] => [[]]
  | x :: xs => (permsOf xs).flatMap fun p => (List.range (p.length + 1)).map fun i => p.take i ++ x :: p.drop i

/-- all ways of replacing each element by one of its variants, the unchanged list first; never
    more than 600 are kept at any level -/
def listVariants {α : Type} (f : α → List α) : List α → List (List α)
  | [] => [[]]
  | x :: xs =>
    let rest := listVariants f xs
    (((f x).take 600).flatMap fun x' => (rest.take (600 / ((f x).length.max 1) + 1)).map (x' :: ·)).take 600

def sublists {α : Type} : List α → List (List α)
  | [] => [[]]
  | x :: xs => let r := sublists xs; r ++ r.map (x :: ·)

/-- orders of the keys of a map that can differ in effect. All that matters is which keys come
    before the first one whose claim fails: up to four keys every permutation; above that, every
    choice of "these first, then that one, then the rest" (the original order first). -/
def orderVariants {α : Type} [BEq α] (l : List α) : List (List α) :=
  if l.length ≤ 1 then [l]
  else if l.length ≤ 4 then permsOf l
  else if l.length ≤ 7 then
    l :: (sublists l).flatMap fun pre =>
      let rest := l.filter fun x => !pre.contains x
      rest.map fun c => pre ++ c :: rest.filter fun x => !(x == c)
  else [l]

def updVariants (u : Update) : List Update :=
  match u.resources with
  | some r =>
    if u.ignoreFailure && r.unified.length ≥ 2 then
      (orderVariants r.unified).map fun un => { u with resources := some { r with unified := un } }
    else [u]
  | none => [u]

/-- the chain itself first, then its variants (at most 600) -/
def chainVariants (chain : List (Plugin × Response)) : List (List (Plugin × Response)) :=
  (listVariants (fun (x : Plugin × Response) =>
      (listVariants updVariants x.2.updates).map fun us => (x.1, { x.2 with updates := us })) chain).take 600

def judgeChain (j : Json) (variant : Nat) : Except String (Judged × Nat) := do
  let inJ ← getObj j "in"
  let inp ← decCaseIn inJ
  let obs ← decCaseObs inp.kind (← getObj j "obs")
  let kind : Kind := match inp.kind with
    | "create" => .create inp.container.id
    | "update" => .update inp.container.id
    | _ => .stop
  let st0 : State := match inp.kind with
    | "create" => initCreate inp.container
    | "update" => initUpdate inp.container.id (inp.resources.getD {})
    | _ => initStop
  -- builder stream: the responses are what the plugins' programs built with the real helpers
  -- (compared with the model's `runA`/`runU` in `Drv.Builder.prepare`); otherwise as given
  let binfo ← Drv.Builder.prepare inp.kind inJ (← getObj j "obs") inp.plugins
  let chain0 : List (Plugin × Response) := match binfo with
    | some b => b.plugs.map fun p => (p.name, p.sent)
    | none => inp.plugins.map fun p => (p.name, p.rsp)
  let variants := chainVariants chain0
  let chain : List (Plugin × Response) := variants.getD variant chain0
  let chainO : List (Plugin × Option Response) := chain.map fun (n, r) => (n, some r)
  let res := run Quirks.fixed st0 chainO
  let along := viewsAlong Quirks.fixed st0 chainO
  -- error class
  let eAgree := errKind res == obs.err.kind
  let mut diffs : List String := match binfo with | some b => b.diffs | none => []
  if !eAgree then diffs := diffs ++ [s!"error: model {showErr res}, implementation {obs.err.kind} {U obs.err.subject} {U obs.err.p}/{U obs.err.q}"]
  -- who is blamed for what: the collector's claim order is deterministic except inside Go maps
  -- (annotations, unified keys), so the model's (claimant, owner, item) is the expected one
  if eAgree && obs.err.kind == "conflict" && !obs.err.loose && inp.stream != "twins" then
    match res with
    | .error (.conflict _ it p q) =>
      let mapFamily := match it with | .annotation _ => true | .unified _ => true | _ => false
      let sameFamily := match it with
        | .annotation _ => (Ledger.subjectOf (.annotation [])).isPrefixOf obs.err.subject
        | .unified _ => (Ledger.subjectOf (.unified [])).isPrefixOf obs.err.subject
        | _ => false
      let subjOk := Ledger.subjectOf it == obs.err.subject || (mapFamily && sameFamily)
      -- a reworded subject (not in the collector's current vocabulary) is not compared
      let known := knownSubject obs.err.subject
      if (known && !subjOk) || (!mapFamily && (p != obs.err.p || q != obs.err.q)) then
        diffs := diffs ++ [s!"blame: model {showErr res}, implementation conflict {U obs.err.subject} {U obs.err.p}/{U obs.err.q}"]
    | _ => pure ()
  -- who was invoked
  let mInvoked := (chain.take along.length).map (·.1)
  if let some d := firstDiff "invoked" U mInvoked obs.invoked then diffs := diffs ++ [d]
  -- what each plugin was shown
  if inp.kind == "create" then
    if let some d := firstDiff "view" shContainer (along.map fun s => canonContainer s.view) (obs.viewsC.map canonContainer) then diffs := diffs ++ [d]
  if inp.kind == "update" then
    if let some d := firstDiff "shown-resources" shRes (along.map fun s => canonRes s.reqRes) (obs.viewsR.map canonRes) then diffs := diffs ++ [d]
  -- the reply
  match res with
  | .ok st =>
    if inp.kind == "create" then
      match obs.adjust with
      | some a => if canonAdjust st.reply != canonAdjust a then
          diffs := diffs ++ [s!"reply adjustment: model {shAdjust (canonAdjust st.reply)} /// implementation {shAdjust (canonAdjust a)}"]
      | none => if obs.err.kind == "none" then diffs := diffs ++ ["reply adjustment missing"]
    if obs.err.kind == "none" then
      if let some d := firstDiff "updates" (shO shUpdate) ((replyUpdates st).map (·.map canonUpdate)) (obs.updates.map (·.map canonUpdate)) then diffs := diffs ++ [d]
  | .error _ => pure ()
  -- guards are read off the programs (the model's messages), not off what broken helpers built
  let guard := caseGuard kind inp.container (match binfo with
    | some b => b.plugs.map fun p => (p.name, p.model)
    | none => chain)
  -- coverage tags
  let setItems := chain.flatMap fun (_, r) => (Ledger.containersOf kind chain).flatMap fun c => Ledger.setsOn false kind r c
  let cover := [s!"kind:{inp.kind}", s!"stream:{inp.stream}", s!"err:{obs.err.kind}",
                s!"plugins:{(chain.filter fun (_, r) => r.adjust.isSome || !r.updates.isEmpty).length}"]
    ++ (setItems.map itemKindTag).eraseDups.map (fun t => s!"item:{t}")
    ++ (if chain.any (fun (_, r) => r.updates.any (·.ignoreFailure)) then ["ignore-failure"] else [])
    ++ (if chain.any (fun (_, r) => (Ledger.containersOf kind chain).any fun c => !(Ledger.removesOn kind r c).isEmpty) then ["removal"] else [])
    ++ (match guard with | some g => [s!"guard:{g}"] | none => [])
    ++ (match binfo with | some b => b.cover | none => [])
  let cover := if variants.length > 1 then s!"unified-orders:{variants.length}" :: cover else cover
  pure ({ agree := diffs.isEmpty, whyAgree := "; ".intercalate diffs, kind, chain, inp, obs, guard,
          modelOk := errKind res == "none", cover, binfo }, variants.length)

def judgeCommon (j : Json) : Except String Judged := do
  let (d0, n) ← judgeChain j 0
  if d0.agree || n ≤ 1 then return d0
  for v in List.range n do
    if v > 0 then
      let (d, _) ← judgeChain j v
      if d.agree then return { d with cover := "unified-order:found" :: d.cover }
  return d0

/-! ### property predicates, each evaluated on the implementation's observation -/

/-- C01: a colliding pair ⇒ the request failed -/
def specC01 (d : Judged) : Bool × String × String :=
  if Ledger.mustFail d.kind d.chain && d.obs.err.kind == "none" then
    (false, "two plugins set the same item (no removal in between) yet the request succeeded", "C01:collision-not-flagged")
  else (true, "", "")

/-- blame with an error text of unknown wording: both named plugins (in either order) set one
    item of one container, and if that item has a key the text mentions it -/
def blameLoose (k : Kind) (rs : List (Plugin × Response)) (p q text : Str) : Bool :=
  (Ledger.containersOf k rs).any fun c =>
    let sp := (rs.filter fun (n, _) => n = p).flatMap fun (_, r) => Ledger.setsOn false k r c
    let sq := (rs.filter fun (n, _) => n = q).flatMap fun (_, r) => Ledger.setsOn false k r c
    sp.any fun it => sq.contains it && (match itemKey it with | some key => isInfix key text | none => true)

def blameHolds (d : Judged) : Bool :=
  let e := d.obs.err
  if e.loose || !knownSubject e.subject then
    blameLoose d.kind d.chain e.p e.q (if e.loose then e.text else e.subject)
  else Ledger.blameOk d.kind d.chain e.p e.q e.subject

/-- C02: disjoint writers / removal-released items ⇒ success; and the blamed plugins both
    set the named item -/
def specC02 (d : Judged) : Bool × String × String :=
  if d.obs.err.kind == "conflict" && !blameHolds d then
    (false, s!"conflict blames {U d.obs.err.p} and {U d.obs.err.q} for '{U d.obs.err.subject}' which they did not both set",
     s!"C02:blame:{U d.obs.err.subject |>.takeWhile (· != ' ')}")
  else if (Ledger.absRun d.kind [] d.chain).isSome && d.obs.err.kind != "none" then
    (false, s!"no two plugins set the same item, yet the request failed: {d.obs.err.kind} '{U d.obs.err.subject}' {U d.obs.err.p}/{U d.obs.err.q}",
     s!"C02:false-conflict:{U d.obs.err.subject |>.takeWhile (· != ' ')}")
  else (true, "", "")

def simBase (d : Judged) : Cid → Resources := fun c =>
  let own : Bool := match d.kind with | .update o => decide (o = c) | _ => false
  if own then normRes (d.inp.resources.getD {}) else normRes {}

def simPrefix (d : Judged) (n : Nat) : Sim := walk (simBase d) (d.chain.take n)

/-- every returned entry carries exactly what the walk above yields for its target -/
def exactFields (d : Judged) : Option String :=
  let s := simPrefix d d.chain.length
  d.obs.updates.findSome? fun e => match e with
    | none => none
    | some e =>
      let expected := s.get (simBase d) e.containerId
      if canonRes expected == canonRes (e.resources.getD {}) then none
      else some s!"entry for {U e.containerId}: expected {shRes (canonRes expected)} /// returned {shRes (canonRes (e.resources.getD {}))}"

/-- C04: each plugin is shown what the previous plugin was shown, overlaid with the
    previous plugin's own adjustment (first plugin: the original) -/
def specC04 (d : Judged) : Bool × String × String :=
  if d.inp.kind == "create" then
    let orig := canonContainer (initCreate d.inp.container).view
    let rec go (prev : Container) (i : Nat) : List Container → List (Plugin × Response) → Option String
      | [], _ => none
      | v :: vs, rs =>
        if canonContainer v != canonContainer prev then
          some s!"plugin #{i} was shown a container that differs from the original with the earlier adjustments applied: shown {shContainer (canonContainer v)} /// expected {shContainer (canonContainer prev)}"
        else match rs with
          | [] => none
          | (_, r) :: rest => go (match r.adjust with | some a => overlayContainer v a | none => v) (i + 1) vs rest
    match go orig 0 d.obs.viewsC d.chain with
    | some w => (false, w, "C04:view")
    | none => (true, "", "")
  else if d.inp.kind == "update" then
    -- plugin i is shown the requested resources overlaid with the applied updates of the
    -- container being updated that earlier plugins sent
    let own := cidOf d.kind
    let bad := (List.zip (List.range d.obs.viewsR.length) d.obs.viewsR).findSome? fun (i, v) =>
      let expected := (simPrefix d i).get (simBase d) own
      if canonRes v == canonRes expected then none
      else some s!"plugin #{i} of an update request was shown {shRes (canonRes v)} /// expected {shRes (canonRes expected)}"
    match bad with
    | some w => (false, w, "C04:shown-resources")
    | none => (true, "", "")
  else (true, "", "")

/-- C05, structure of the update list: one entry per distinct target, only mentioned
    targets, own entry last (placeholder when untouched), self-update fails creation -/
def specC05 (d : Judged) : Bool × String × String :=
  let own := cidOf d.kind
  let mentioned := (d.chain.flatMap fun (_, r) => r.updates.map (·.containerId)).eraseDups
  if Ledger.selfUpdate d.kind d.chain && d.obs.err.kind == "none" &&
     -- the self-update must have been reached: every plugin was invoked
     true then
    (false, "an update targeting the container being created did not fail the request", "C05:self-update")
  else if d.obs.err.kind != "none" then (true, "", "")
  else
    let ids := d.obs.updates.filterMap fun u => u.map (·.containerId)
    let third := match d.kind with | .update _ => d.obs.updates.dropLast | _ => d.obs.updates
    let thirdIds := third.filterMap fun u => u.map (·.containerId)
    if third.any (·.isNone) then (false, "nil entry among the third-party updates", "C05:nil-entry")
    else if ids.eraseDups.length != ids.length then (false, "two entries for one target", "C05:duplicate-entry")
    else if thirdIds.any (fun i => !mentioned.contains i) then (false, "entry for a container no plugin mentioned", "C05:phantom-entry")
    else if (mentioned.filter fun i => !(match d.kind with | .update o => i = o | _ => false)).any (fun i => !thirdIds.contains i) then
      (false, "a target a plugin updated has no entry", "C05:missing-entry")
    else if let some w := exactFields d then (false, w, "C05:fields") else
    match d.kind with
      | .update _ =>
        match d.obs.updates.getLast? with
        | none => (false, "update reply is empty (own entry missing)", "C05:own-missing")
        | some none => if mentioned.contains own then (false, "own entry is a placeholder although a plugin updated the container", "C05:own-placeholder") else (true, "", "")
        | some (some u) =>
          if u.containerId != own then (false, "last entry is not the updated container", "C05:own-not-last")
          else if !mentioned.contains own then (false, "own entry present although no plugin touched it", "C05:own-phantom")
          else if thirdIds.contains own then (false, "own container also among third-party entries", "C05:own-twice")
          else (true, "", "")
      | _ => (true, "", "")

/-- C03: applying the combined adjustment = applying each plugin's adjustment in turn, both
    through the repository's own generator, family by family. Two stated weakenings: the
    process environment is compared as a set of NAME=value entries (a variable re-set by a
    later plugin is replaced in place sequentially but re-appended by the combined reply), and
    the device cgroup allow rules of the combined reply must be among those of sequential
    application (the generator never retracts the rule of a device a later plugin removes or
    replaces; recorded as a known finding of C03 when they differ). -/
def specC03 (d : Judged) : Bool × String × String :=
  if d.obs.genErr != "" then (false, s!"generator failed: {d.obs.genErr}", "C03:generator-error") else
  match d.obs.comb, d.obs.seq with
  | some a, some b =>
    let diff := (List.zip a.fams b.fams).find? fun ((n, x), (_, y)) => n != "envOrdered" && x != y
    match diff with
    | some ((n, x), (_, y)) => (false, s!"{n}: combined {x} /// sequential {y}", s!"C03:{n}")
    | none =>
      if a.devRules.any (fun r => !b.devRules.contains r) then
        (false, s!"device cgroup rules: combined {a.devRules} has a rule sequential {b.devRules} lacks", "C03:devRules-extra")
      else if !b.staleUnexplained.isEmpty then
        (false, s!"device cgroup rules: sequential has {b.staleUnexplained} which the combined spec lacks although no later plugin removed or replaced that device", "C03:devRules-missing")
      else if a.devRules.length != b.devRules.length then
        (false, s!"device cgroup rules: combined {a.devRules} /// sequential {b.devRules}", "C03:devRules-stale")
      else (true, "", "")
  | _, _ =>
    -- a successful creation request without the two specs was not compared at all
    if d.inp.kind == "create" && d.obs.err.kind == "none" && d.inp.stream != "twins" then
      (false, "the combined and the sequential spec are missing from the observation", "C03:not-compared")
    else (true, "", "")

def finish (prop : String) (d : Judged) (s : Bool × String × String) : Verdict :=
  let (ok, why, sig) := s
  -- "twins" stream: two plugin instances share one index-name; their relative order is
  -- unspecified (sort.Slice), so only the order-independent success/failure predicates of
  -- C01/C02 are evaluated and the model comparison is skipped
  let twins := d.inp.stream == "twins"
  { agree := d.agree || twins, spec := ok,
    why := if !ok then why else if twins then "" else d.whyAgree,
    sig := if !ok then sig else (match d.guard with | some g => s!"guard:{g}" | none => ""),
    cover := d.cover, excluded := d.guard.isSome && !twins,
    nontrivial := (d.chain.filter fun (_, r) => r.adjust.isSome || !r.updates.isEmpty).length ≥ 2 ||
      (match d.binfo with | some b => b.ncalls ≥ 2 | none => false) }

def judge (prop : String) (j : Json) : Except String Verdict := do
  let d ← judgeCommon j
  let s := match prop with
    | "C01" => specC01 d
    | "C02" => specC02 d
    | "C03" => specC03 d
    | "C04" => specC04 d
    | "C05" => specC05 d
    | _ => (true, "", "")
  -- program-level predicates of the builder stream, evaluated on the observation
  let s := match d.binfo with
    | some b =>
      if s.1 && (prop == "C01" || prop == "C02" || prop == "C05") then
        match Drv.Builder.progSpec d.kind b.plugs d.obs with
        | some (why, sig) => (false, why, s!"{prop}:{sig}")
        | none => s
      else s
    | none => s
  pure (finish prop d s)

end Drv.Merge
