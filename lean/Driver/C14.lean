import Driver.Common
import NriModel.Events
open Lean Drv Nri

namespace Drv.C14

/-- kind = "mask": `in = {kind, mask}`; `obs = {pretty, parsed, perr}` where `parsed` is
    `ParseEventMask(PrettyString(mask))`. -/
def judgeMask (inp obs : Json) : Except String Verdict := do
  let mN ← getNat inp "mask"
  let m : Events.Mask := BitVec.ofNat 32 mN
  let oPretty ← getStr obs "pretty"
  let oErr := getBoolD obs "perr"
  let oParsed := getNatD obs "parsed"
  let mPretty := U (Events.pretty m)
  let mParsed := Events.parse [Events.pretty m]
  let agreeP := mPretty == oPretty
  let agreeQ := match mParsed with
    | some r => !oErr && r.toNat == oParsed
    | none => oErr
  let inDomain := mN != 0 && (m &&& ~~~Events.valid) == 0#32
  -- the property, on the implementation's own observation
  let spec := !inDomain || (!oErr && oParsed == mN)
  let why :=
    if !spec then s!"ParseEventMask(PrettyString({mN})) = {if oErr then "error" else toString oParsed}"
    else if !agreeP then s!"pretty: model {mPretty} impl {oPretty}"
    else if !agreeQ then s!"parse: model {mParsed.map (·.toNat)} impl err={oErr} {oParsed}"
    else ""
  pure { agree := agreeP && agreeQ, spec := spec, why := why,
         cover := ["mask", if inDomain then "mask:valid" else "mask:outside"],
         nontrivial := inDomain, excluded := false,
         sig := if spec then "" else "C14:mask-roundtrip",
         model := Json.mkObj [("pretty", mPretty)] }

def judge (j : Json) : Except String Verdict := do
  let inp ← getObj j "in"
  let obs ← getObj j "obs"
  match getStrD inp "kind" with
  | "mask" => judgeMask inp obs
  | k => throw s!"unknown case kind {k}"

def main : IO UInt32 := runLines judge
end Drv.C14
