import Driver.Common
import NriModel.Events
import NriModel.Convert
open Lean Drv Nri Nri.Convert

/-!
Driver for C14. Case kinds (field `in.kind`):

* `mask`, `parse`, `bits`                       — event.go
* `res_oci`, `res_nri`                          — resources.go both directions, and `Copy`
* `mounts_*`, `devices_*`, `hooks_*`, `env_*`   — mount.go, device.go, hooks.go, env.go
* `helpers`                                     — helpers.go
* `ctor`                                        — optional.go constructors and `Get`
* `alias`                                       — the differential mutation test ("copies share no
                                                   state"): MEASURED by the harness, the driver only
                                                   folds the reported booleans into `spec`
* `platform`                                    — asserts the 64-bit `int` the model assumes

`agree` compares the model's result with the implementation's; `spec` evaluates the property's
predicate on the implementation's own observation without going through the model's
conversion functions (only the `carried` views and plain equality).
-/
namespace Drv.C14

def trunc (s : String) (n : Nat := 400) : String := if s.length > n then (s.take n).toString ++ "…" else s
def show' {α} [Repr α] (a : α) : String := trunc ((repr a).pretty (width := 1000000))
/-- the raw case, on one line, for `why` messages -/
def ctx (inp obs : Json) : String := s!"in={trunc inp.compress 700} obs={trunc obs.compress 900}"

def diffNames {α : Type} (fields : List (String × (α → α → Bool))) (a b : α) : List String :=
  fields.filterMap fun (n, eq) => if eq a b then none else some n

/-! ### decoding -/

def asInt (j : Json) : Except String Int := match j.getInt? with | .ok i => pure i | .error e => throw e
def decI64 (j : Json) : Except String I64 := do
  let i ← asInt j
  if i < -(2^63 : Int) ∨ i ≥ (2^63 : Int) then throw s!"int64 out of range: {i}" else pure (I64.ofInt i)
def decU64 (j : Json) : Except String U64 := do
  let i ← asInt j
  if i < 0 ∨ i ≥ (2^64 : Int) then throw s!"uint64 out of range: {i}" else pure (U64.ofNat i.toNat)
def decU32 (j : Json) : Except String U32 := do
  let i ← asInt j
  if i < 0 ∨ i ≥ (2^32 : Int) then throw s!"uint32 out of range: {i}" else pure (U32.ofNat i.toNat)
def decBool (j : Json) : Except String Bool := match j with | .bool b => pure b | _ => throw "not a bool"
def decStr (j : Json) : Except String Str := match j with | .str s => pure (S s) | _ => throw "not a string"

def opt {α} (j : Json) (k : String) (f : Json → Except String α) : Except String (Option α) :=
  match getOpt j k with
  | none => pure none
  | some v => do pure (some (← f v))
def req {α} (j : Json) (k : String) (f : Json → Except String α) : Except String α := do
  match j.getObjVal? k with
  | .ok v => f v
  | .error _ => throw s!"missing field {k}"
def strList (j : Json) (k : String) : Except String (List Str) := do
  pure ((← getStrList j k).map S)
def pairList (j : Json) (k : String) : Except String (AList Str Str) := do
  let a ← getArr j k
  a.mapM fun x => match x with
    | Json.arr #[Json.str a, Json.str b] => pure (S a, S b)
    | _ => throw s!"field {k}: not a pair"
/-- list whose elements may be `null` (nil pointers in a `[]*T`): the non-null elements and
    whether a null was seen -/
def optElems {α} (j : Json) (k : String) (f : Json → Except String α) : Except String (List (Option α)) := do
  let a ← getArr j k
  a.mapM fun x => match x with
    | Json.null => pure none
    | v => do pure (some (← f v))

/-- an OBSERVED list of pointers: the non-null elements, and whether a null element was present.
    A conversion result must not contain a nil element (the property says the result EQUALS the
    source's fields); the judges turn `true` here into `spec := false`. -/
def obsElems {α} (j : Json) (k : String) (f : Json → Except String α) : Except String (List α × Bool) := do
  let l ← optElems j k f
  pure (l.filterMap id, (allSome l).isNone)

def nilElemWhy (what : String) : String := s!"result contains a nil element ({what})"

def decHp (j : Json) : Except String Hugepage := do
  pure { pageSize := ← req j "pageSize" decStr, limit := ← req j "limit" decU64 }
def decDevCg (j : Json) : Except String DevCgroup := do
  pure { allow := ← req j "allow" decBool, type := ← req j "type" decStr, major := ← opt j "major" decI64,
         minor := ← opt j "minor" decI64, access := ← req j "access" decStr }
def decOciMem (j : Json) : Except String OciMemory := do
  pure { limit := ← opt j "limit" decI64, reservation := ← opt j "reservation" decI64, swap := ← opt j "swap" decI64,
         kernel := ← opt j "kernel" decI64, kernelTcp := ← opt j "kernelTcp" decI64,
         swappiness := ← opt j "swappiness" decU64, disableOom := ← opt j "disableOom" decBool,
         useHierarchy := ← opt j "useHierarchy" decBool, checkBeforeUpdate := ← opt j "checkBeforeUpdate" decBool }
def decNriMem (j : Json) : Except String NriMemory := do
  pure { limit := ← opt j "limit" decI64, reservation := ← opt j "reservation" decI64, swap := ← opt j "swap" decI64,
         kernel := ← opt j "kernel" decI64, kernelTcp := ← opt j "kernelTcp" decI64,
         swappiness := ← opt j "swappiness" decU64, disableOom := ← opt j "disableOom" decBool,
         useHierarchy := ← opt j "useHierarchy" decBool }
def decOciCpu (j : Json) : Except String OciCPU := do
  pure { shares := ← opt j "shares" decU64, quota := ← opt j "quota" decI64, burst := ← opt j "burst" decU64,
         period := ← opt j "period" decU64, rtRuntime := ← opt j "rtRuntime" decI64, rtPeriod := ← opt j "rtPeriod" decU64,
         cpus := ← req j "cpus" decStr, mems := ← req j "mems" decStr, idle := ← opt j "idle" decI64 }
def decNriCpu (j : Json) : Except String NriCPU := do
  pure { shares := ← opt j "shares" decU64, quota := ← opt j "quota" decI64,
         period := ← opt j "period" decU64, rtRuntime := ← opt j "rtRuntime" decI64, rtPeriod := ← opt j "rtPeriod" decU64,
         cpus := ← req j "cpus" decStr, mems := ← req j "mems" decStr }

/-- nil-ness flags reported next to a resources value -/
structure ResNil where
  hugepages : Bool
  unified : Bool
  devices : Bool
deriving DecidableEq, Repr

def decResNil (j : Json) : ResNil :=
  { hugepages := getBoolD j "hugepagesNil", unified := getBoolD j "unifiedNil", devices := getBoolD j "devicesNil" }

/-- decoded OCI resources (`none` = nil pointer) -/
def decOciRes (j? : Option Json) : Except String (Option OciResources) := do
  match j? with
  | none => pure none
  | some j =>
    let hp ← optElems j "hugepages" decHp
    let dv ← optElems j "devices" decDevCg
    pure (some { devices := dv.filterMap id, memory := ← opt j "memory" decOciMem, cpu := ← opt j "cpu" decOciCpu,
                 pids := (← opt j "pids" decI64).map (⟨·⟩), hugepages := hp.filterMap id,
                 unified := ← pairList j "unified", uncarried := ← strList j "uncarried" })

/-- decoded NRI resources plus "a nil element was present in hugepages / devices" -/
def decNriRes (j? : Option Json) : Except String (Option NriResources × Bool × Bool) := do
  match j? with
  | none => pure (none, false, false)
  | some j =>
    let hp ← optElems j "hugepages" decHp
    let dv ← optElems j "devices" decDevCg
    let r : NriResources :=
      { memory := ← opt j "memory" decNriMem, cpu := ← opt j "cpu" decNriCpu, hugepages := hp.filterMap id,
        blockioClass := ← opt j "blockioClass" decStr, rdtClass := ← opt j "rdtClass" decStr,
        unified := ← pairList j "unified", devices := dv.filterMap id, pids := (← opt j "pids" decI64).map (⟨·⟩) }
    pure (some r, (allSome hp).isNone, (allSome dv).isNone)

def decOciMount (j : Json) : Except String OciMount := do
  pure { destination := ← req j "destination" decStr, type := ← req j "type" decStr, source := ← req j "source" decStr,
         options := ← strList j "options", idMapped := getBoolD j "idMapped" }
def decNriMount (j : Json) : Except String NriMount := do
  pure { destination := ← req j "destination" decStr, type := ← req j "type" decStr, source := ← req j "source" decStr,
         options := ← strList j "options" }
def decDev (j : Json) : Except String Device := do
  pure { path := ← req j "path" decStr, type := ← req j "type" decStr, major := ← req j "major" decI64,
         minor := ← req j "minor" decI64, fileMode := ← opt j "fileMode" decU32, uid := ← opt j "uid" decU32,
         gid := ← opt j "gid" decU32 }
def decHook (j : Json) : Except String Hook := do
  pure { path := ← req j "path" decStr, args := ← strList j "args", env := ← strList j "env",
         timeout := ← opt j "timeout" decI64 }
/-- hooks; second component: some list held a nil element -/
def decHooks (j? : Option Json) : Except String (Option Hooks × Bool) := do
  match j? with
  | none => pure (none, false)
  | some j =>
    let l (k : String) := optElems j k decHook
    let a ← l "prestart"; let b ← l "createRuntime"; let c ← l "createContainer"
    let d ← l "startContainer"; let e ← l "poststart"; let f ← l "poststop"
    let bad := [a, b, c, d, e, f].any fun x => (allSome x).isNone
    pure (some { prestart := a.filterMap id, createRuntime := b.filterMap id, createContainer := c.filterMap id,
                 startContainer := d.filterMap id, poststart := e.filterMap id, poststop := f.filterMap id }, bad)
def decKV (j : Json) : Except String KeyValue := do
  pure { key := ← req j "key" decStr, value := ← req j "value" decStr }

def tagIf (b : Bool) (t : String) : List String := if b then [t] else []

/-! ### event masks -/

/-- kind = "mask": `in = {kind, mask}`; `obs = {pretty, parsed, perr}` where `parsed` is
    `ParseEventMask(PrettyString(mask))`. -/
def judgeMask (inp obs : Json) : Except String Verdict := do
  let mN ← getNat inp "mask"
  let m : Events.Mask := BitVec.ofNat 32 mN
  let oPretty ← getStr obs "pretty"
  let oErr := getBoolD obs "perr"
  let oParsed := getNatD obs "parsed"
  let mPretty := U (Events.pretty m)
  let mParsed := Events.parse [Events.pretty m]
  let agreeP := mPretty == oPretty
  let agreeQ := match mParsed with
    | some r => !oErr && r.toNat == oParsed
    | none => oErr
  let inDomain := mN != 0 && (m &&& ~~~Events.valid) == 0#32
  -- the property, on the implementation's own observation
  let spec := !inDomain || (!oErr && oParsed == mN)
  let why :=
    if !spec then s!"ParseEventMask(PrettyString({mN})) = {if oErr then "error" else toString oParsed}"
    else if !agreeP then s!"pretty: model {mPretty} impl {oPretty}"
    else if !agreeQ then s!"parse: model {mParsed.map (·.toNat)} impl err={oErr} {oParsed}"
    else ""
  pure { agree := agreeP && agreeQ, spec := spec, why := why,
         cover := ["mask", if inDomain then "mask:valid" else "mask:outside"],
         nontrivial := inDomain, excluded := false,
         sig := if spec then "" else "C14:mask-roundtrip",
         model := Json.mkObj [("pretty", mPretty)] }

def isAscii (s : String) : Bool := s.toList.all fun c => c.toNat < 128

def judgeParse (inp obs : Json) : Except String Verdict := do
  let evs ← getStrList inp "events"
  let oErr := getBoolD obs "err"
  let oMask := getNatD obs "mask"
  let ascii := evs.all isAscii
  let mdl := Events.parse (evs.map S)
  -- `MustParseEventMask` is `ParseEventMask` with the error turned into a panic (absent in replays
  -- recorded before it was observed)
  let mustOk := match getOpt obs "must_panic" with
    | none => true
    | some _ => getBoolD obs "must_panic" == oErr && (oErr || getNatD obs "must_mask" == oMask)
  let agree := (match mdl with
    | some r => !oErr && r.toNat == oMask
    | none => oErr) && mustOk
  -- no property clause speaks about arbitrary strings; the only direct requirement: a
  -- successful parse yields valid events only
  let spec := oErr || (BitVec.ofNat 32 oMask &&& ~~~Events.valid) == 0#32
  pure { agree := agree || !ascii, spec := spec, excluded := !ascii,
         sig := if !ascii then (if oErr then "C14:parse:non-ascii:rejected-by-go"
                                else if agree then "C14:parse:non-ascii:accepted-by-go-and-model"
                                else "C14:parse:non-ascii:accepted-by-go-only")
                else if spec then "" else "C14:parse:invalid-bits",
         why := if agree then "" else if !mustOk then s!"MustParseEventMask{evs} does not behave as ParseEventMask with the error turned into a panic (err={oErr} mask={oMask})"
                else s!"ParseEventMask{evs}: model {mdl.map (·.toNat)} impl err={oErr} mask={oMask}",
         cover := ["parse", if oErr then "parse:error" else "parse:ok"], nontrivial := !oErr && oMask != 0 }

def judgeBits (inp obs : Json) : Except String Verdict := do
  let mN ← getNat inp "mask"
  let e ← getInt inp "event"
  let pnc := getStrD obs "panic"
  if e < 1 then
    -- Go: `1 << (e-1)` with a negative count panics; outside the model's domain (e ≥ 1)
    return { agree := pnc != "", spec := true, excluded := true, sig := "C14:bits:event<1",
             why := if pnc != "" then "" else "expected a negative-shift panic", cover := ["bits", "bits:event<1"] }
  let m : Events.Mask := BitVec.ofNat 32 mN
  let en := e.toNat
  let oIs := getBoolD obs "isSet"
  let oSet := getNatD obs "set"
  let oClr := getNatD obs "cleared"
  let oValid := getNatD obs "valid"
  let agree := pnc == "" && Events.isSet m en == oIs && (Events.set m en).toNat == oSet &&
    (Events.clear m en).toNat == oClr && Events.valid.toNat == oValid
  -- algebra on the implementation's own values
  let s : Events.Mask := BitVec.ofNat 32 oSet
  let c : Events.Mask := BitVec.ofNat 32 oClr
  let inRange := en ≤ 14
  let spec := !inRange || (oValid == 0x1fff && (s &&& ~~~c) == (s ^^^ c) &&
      ((s ^^^ c) == (1#32 <<< (en - 1))) && (oIs == (m == s)) && ((!oIs) == (m == c)))
  pure { agree := agree, spec := spec, excluded := !inRange,
         sig := if !inRange then "C14:bits:event>14" else if spec then "" else "C14:bits:algebra",
         why := if agree && spec then "" else s!"mask {mN} event {e}: impl isSet={oIs} set={oSet} clear={oClr} valid={oValid}",
         cover := ["bits", s!"bits:e{if en ≤ 15 then toString en else "big"}"], nontrivial := inRange }

/-! ### resources -/

def nilOk (n : ResNil) (r : Option Json) (hpLen dvLen uLen : Nat) : Bool :=
  match r with
  | none => true
  | some _ => n.hugepages == appendBuiltNil hpLen && n.devices == appendBuiltNil dvLen && n.unified == (uLen == 0)

def sizeTag (n : Nat) : String := if n == 0 then "0" else if n == 1 then "1" else "n"

def memTags (pre : String) (l : List (String × Bool × Bool)) : List String :=
  l.flatMap fun (n, set, zero) => if !set then [s!"{pre}{n}:unset"] else if zero then [s!"{pre}{n}:zero"] else [s!"{pre}{n}:set"]

def oI (o : Option I64) : Bool × Bool := (o.isSome, o == some (I64.ofInt 0))
def oU (o : Option U64) : Bool × Bool := (o.isSome, o == some (U64.ofNat 0))
def oB (o : Option Bool) : Bool × Bool := (o.isSome, o == some false)

def carriedTags (c : Carried) : List String :=
  memTags "f:" [("memLimit", oI c.memLimit), ("memReservation", oI c.memReservation), ("memSwap", oI c.memSwap),
    ("memKernel", oI c.memKernel), ("memKernelTcp", oI c.memKernelTcp), ("memSwappiness", oU c.memSwappiness),
    ("memDisableOom", oB c.memDisableOom), ("memUseHierarchy", oB c.memUseHierarchy),
    ("cpuShares", oU c.cpuShares), ("cpuQuota", oI c.cpuQuota), ("cpuPeriod", oU c.cpuPeriod),
    ("cpuRtRuntime", oI c.cpuRtRuntime), ("cpuRtPeriod", oU c.cpuRtPeriod),
    ("pids", (c.pids.isSome, c.pids == some ⟨I64.ofInt 0⟩))] ++
  [s!"hugepages:{sizeTag c.hugepages.length}", s!"unified:{sizeTag c.unified.length}", s!"devcg:{sizeTag c.devices.length}"]

/-- names of the carried fields on which two views differ -/
def carriedDiff (a b : Carried) : List String :=
  diffNames [("memory.limit", fun x y => decide (x.memLimit = y.memLimit)),
    ("memory.reservation", fun x y => decide (x.memReservation = y.memReservation)),
    ("memory.swap", fun x y => decide (x.memSwap = y.memSwap)),
    ("memory.kernel", fun x y => decide (x.memKernel = y.memKernel)),
    ("memory.kernelTcp", fun x y => decide (x.memKernelTcp = y.memKernelTcp)),
    ("memory.swappiness", fun x y => decide (x.memSwappiness = y.memSwappiness)),
    ("memory.disableOomKiller", fun x y => decide (x.memDisableOom = y.memDisableOom)),
    ("memory.useHierarchy", fun x y => decide (x.memUseHierarchy = y.memUseHierarchy)),
    ("cpu.shares", fun x y => decide (x.cpuShares = y.cpuShares)), ("cpu.quota", fun x y => decide (x.cpuQuota = y.cpuQuota)),
    ("cpu.period", fun x y => decide (x.cpuPeriod = y.cpuPeriod)),
    ("cpu.realtimeRuntime", fun x y => decide (x.cpuRtRuntime = y.cpuRtRuntime)),
    ("cpu.realtimePeriod", fun x y => decide (x.cpuRtPeriod = y.cpuRtPeriod)),
    ("cpu.cpus", fun x y => decide (x.cpus = y.cpus)), ("cpu.mems", fun x y => decide (x.mems = y.mems)),
    ("hugepageLimits", fun x y => decide (x.hugepages = y.hugepages)), ("devices", fun x y => decide (x.devices = y.devices)),
    ("pids", fun x y => decide (x.pids = y.pids)), ("unified", fun x y => decide (x.unified = y.unified))] a b

def carriedDiffO (a b : Option Carried) : String :=
  match a, b with
  | some a, some b => toString (carriedDiff a b)
  | none, none => "[]"
  | _, _ => "[nil-ness of the whole value]"

def judgeResOci (inp obs : Json) : Except String Verdict := do
  let src ← decOciRes (getOpt inp "res")
  let pnc := getStrD obs "panic"
  let oNri ← decNriRes (getOpt obs "nri")
  let oBack ← decOciRes (getOpt obs "back")
  let mNri := fromOCIResources src
  let mBack := toOCIResources mNri
  let nilsOk := match getOpt obs "nri", oNri.1 with
    | some j, some r => nilOk (decResNil j) (some j) r.hugepages.length r.devices.length r.unified.length
    | _, _ => true
  let nilsOk2 := match getOpt obs "back", oBack with
    | some j, some r => nilOk (decResNil j) (some j) r.hugepages.length r.devices.length r.unified.length
    | _, _ => true
  let obsNil := oNri.2.1 || oNri.2.2
  let agree := pnc == "" && !obsNil && decide (mNri = oNri.1) && decide (mBack = oBack) && nilsOk && nilsOk2
  -- property on the implementation's own values: both conversions preserve every carried field
  let spec := pnc == "" && !obsNil && (match src, oNri.1, oBack with
    | none, none, none => true
    | some s, some n, some b => decide (n.carried = s.carried) && decide (b.carried = s.carried)
    | _, _, _ => false)
  let tags := match src with
    | none => ["res:nil"]
    | some s => carriedTags s.carried ++ tagIf s.memory.isNone "memory:nil" ++ tagIf s.cpu.isNone "cpu:nil" ++
        tagIf (s.uncarried != []) "oci:uncarried-populated"
  pure { agree := agree, spec := spec,
         why := if obsNil then s!"{nilElemWhy "FromOCILinuxResources: hugepageLimits or devices"} {ctx inp obs}"
                else if !spec then s!"OCI->NRI->OCI does not preserve: FromOCILinuxResources changed {carriedDiffO (src.map (·.carried)) (oNri.1.map (·.carried))}, after ToOCI changed {carriedDiffO (src.map (·.carried)) (oBack.map (·.carried))}; panic='{pnc}' {ctx inp obs}"
                else if !agree then s!"res_oci: model and implementation differ (nri equal={decide (mNri = oNri.1)} back equal={decide (mBack = oBack)} nil-flags={nilsOk},{nilsOk2}) model nri {show' mNri} {ctx inp obs}" else "",
         sig := if obsNil then "C14:nil-element-in-result" else if spec then "" else "C14:res:oci-nri-oci",
         cover := "res_oci" :: tags, nontrivial := src.isSome }

def copyDiff (s c : Option NriResources) : String :=
  match s, c with
  | some s, some c => toString (diffNames (α := NriResources)
      [("memory", fun x y => decide (x.memory = y.memory)), ("cpu", fun x y => decide (x.cpu = y.cpu)),
       ("hugepageLimits", fun x y => decide (x.hugepages = y.hugepages)), ("unified", fun x y => decide (x.unified = y.unified)),
       ("pids", fun x y => decide (x.pids = y.pids)), ("blockioClass", fun x y => decide (x.blockioClass = y.blockioClass)),
       ("rdtClass", fun x y => decide (x.rdtClass = y.rdtClass))] s c)
  | none, none => "[]"
  | _, _ => "[nil-ness of the whole value]"

def judgeResNri (inp obs : Json) : Except String Verdict := do
  let (src, nilHp, nilDv) ← decNriRes (getOpt inp "res")
  let ociP := getStrD obs "ociPanic"
  let copyP := getStrD obs "copyPanic"
  let oOci ← decOciRes (getOpt obs "oci")
  let (oBack, bNilHp, bNilDv) ← decNriRes (getOpt obs "back")
  let (oCopy, cNilHp, cNilDv) ← decNriRes (getOpt obs "copy")
  let backNil := bNilHp || bNilDv
  let copyNil := cNilHp || cNilDv
  -- faults: ToOCI ranges over hugepages and devices, Copy over hugepages only
  let toFault := nilHp || nilDv
  let cpFault := nilHp
  let mOci := toOCIResources src
  let mBack := fromOCIResources mOci
  let mCopy := copyResources src
  let nl (k : String) (r : Option NriResources) := match getOpt obs k, r with
    | some j, some r => nilOk (decResNil j) (some j) r.hugepages.length r.devices.length r.unified.length
    | _, _ => true
  let nlo := match getOpt obs "oci", oOci with
    | some j, some r => nilOk (decResNil j) (some j) r.hugepages.length r.devices.length r.unified.length
    | _, _ => true
  let agreeTo := if toFault then ociP == "nil-deref"
    else ociP == "" && !backNil && decide (mOci = oOci) && decide (mBack = oBack) && nlo && nl "back" oBack
  let agreeCp := if cpFault then copyP == "nil-deref" else copyP == "" && !copyNil && decide (mCopy = oCopy) && nl "copy" oCopy
  -- a nil device element faults ToOCI only: Copy (which does not range over Devices) stays in the domain
  let excluded := cpFault
  let specTo := toFault || (ociP == "" && !backNil && (match src, oOci, oBack with
    | none, none, none => true
    | some s, some o, some b => decide (o.carried = s.carried) && decide (b.carried = s.carried)
    | _, _, _ => false))
  let specCp := cpFault || (copyP == "" && !copyNil && (match src, oCopy with
    | none, none => true
    | some s, some c => decide (c.memory = s.memory) && decide (c.cpu = s.cpu) && decide (c.hugepages = s.hugepages) &&
        decide (c.unified = s.unified) && decide (c.pids = s.pids) && decide (c.blockioClass = s.blockioClass) &&
        decide (c.rdtClass = s.rdtClass)
    | _, _ => false))
  let tags := match src with
    | none => ["res:nil"]
    | some s => carriedTags s.carried ++ tagIf s.memory.isNone "memory:nil" ++ tagIf s.cpu.isNone "cpu:nil" ++
        tagIf s.blockioClass.isSome "nri:blockio-set" ++ tagIf s.rdtClass.isSome "nri:rdt-set" ++
        tagIf (s.blockioClass == some []) "nri:blockio-empty-string"
  pure { agree := agreeTo && agreeCp, spec := specTo && specCp, excluded := excluded,
         why := if !cpFault && copyNil then s!"{nilElemWhy "Copy: hugepageLimits or devices"} {ctx inp obs}"
                else if !toFault && backNil then s!"{nilElemWhy "FromOCILinuxResources after ToOCI: hugepageLimits or devices"} {ctx inp obs}"
                else if !specCp then s!"Copy differs from its source on {copyDiff src oCopy}; panic='{copyP}' {ctx inp obs}"
                else if !specTo then s!"NRI->OCI->NRI does not preserve: ToOCI changed {carriedDiffO (src.map (·.carried)) (oOci.map (·.carried))}, after FromOCILinuxResources changed {carriedDiffO (src.map (·.carried)) (oBack.map (·.carried))}; panic='{ociP}' {ctx inp obs}"
                else if !agreeTo then s!"res_nri ToOCI: model and implementation differ (oci equal={decide (mOci = oOci)} back equal={decide (mBack = oBack)}) model oci {show' mOci} panic='{ociP}' {ctx inp obs}"
                else if !agreeCp then s!"res_nri Copy: model {show' mCopy} panic='{copyP}' {ctx inp obs}" else "",
         sig := if excluded then "C14:res:nil-element" else if (!cpFault && copyNil) || (!toFault && backNil) then "C14:nil-element-in-result"
                else if !specCp then "C14:copy" else if !specTo then "C14:res:nri-oci-nri" else "",
         cover := "res_nri" :: (tags ++ tagIf toFault "res:nil-element"), nontrivial := src.isSome && !excluded }

/-! ### mounts -/

/-- per element of array `k`: "field `lst` is an empty list and flag `fld` says it is a nil slice"
    (null elements read as `false`) -/
def nilFlags (j : Json) (k lst fld : String) : Except String (List Bool) := do
  let a ← getArr j k
  a.mapM fun x => match x with
    | Json.null => pure false
    | v => do
      let l ← getArr v lst
      pure (l.isEmpty && getBoolD v fld)

def judgeMountsOci (inp obs : Json) : Except String Verdict := do
  let src ← (← getArr inp "mounts").mapM decOciMount
  let pnc := getStrD obs "panic"
  let (oOut, outNilElem) ← obsElems obs "out" decNriMount
  let (oBack, _) ← obsElems obs "back" decOciMount
  let oNil := getBoolD obs "outNil"
  let mOut := fromOCIMounts src
  let mBack := mOut.map fun m => (mountToOCI m none).1
  -- nil-ness of the option slices: FromOCIMounts duplicates (nil iff nil), ToOCI appends (nil iff empty)
  let inOptNil ← nilFlags inp "mounts" "options" "optionsNil"
  let outOptNil ← nilFlags obs "out" "options" "optionsNil"
  let backOptNil ← nilFlags obs "back" "options" "optionsNil"
  let optNilOk := outOptNil == inOptNil.map dupNil && backOptNil == src.map (fun m => appendBuiltNil m.options.length)
  if outNilElem then
    return { agree := false, spec := false, sig := "C14:nil-element-in-result",
             why := s!"{nilElemWhy "FromOCIMounts"} {ctx inp obs}", cover := ["mounts_oci"], nontrivial := true }
  let agree := pnc == "" && decide (mOut = oOut) && decide (mBack = oBack) && oNil == appendBuiltNil src.length && optNilOk
  let spec := pnc == "" && decide (oBack = src.map fun m => { m with idMapped := false }) &&
    decide (oOut.map (fun m => (m.destination, m.type, m.source, m.options)) = src.map (fun m => (m.destination, m.type, m.source, m.options)))
  pure { agree := agree, spec := spec, sig := if spec then "" else "C14:mounts:oci-nri-oci",
         why := if spec && agree then "" else s!"mounts OCI->NRI->OCI: spec={spec} agree={agree} option-nil-flags={optNilOk} panic='{pnc}' {ctx inp obs}",
         cover := ["mounts_oci", s!"mounts:{sizeTag src.length}"] ++ tagIf (src.any (·.idMapped)) "mounts:idmapped",
         nontrivial := src != [] }

def judgeMountsNri (inp obs : Json) : Except String Verdict := do
  let raw ← optElems inp "mounts" decNriMount
  let q ← opt inp "query" decStr
  let pnc := getStrD obs "panic"
  match allSome raw with
  | none =>
    return { agree := pnc == "nil-deref", spec := true, excluded := true, sig := "C14:mounts:nil-element",
             why := if pnc == "nil-deref" then "" else s!"expected a nil dereference, got '{pnc}'", cover := ["mounts_nri", "mounts:nil-element"] }
  | some src =>
    let (oOut, _) ← obsElems obs "out" decOciMount
    let (oBack, backNilElem) ← obsElems obs "back" decNriMount
    if backNilElem then
      return { agree := false, spec := false, sig := "C14:nil-element-in-result",
               why := s!"{nilElemWhy "FromOCIMounts after ToOCI"} {ctx inp obs}", cover := ["mounts_nri"], nontrivial := true }
    let outOptNil ← nilFlags obs "out" "options" "optionsNil"
    let backOptNil ← nilFlags obs "back" "options" "optionsNil"
    let wantOptNil := src.map fun m => appendBuiltNil m.options.length
    let optNilOk := outOptNil == wantOptNil && backOptNil == wantOptNil.map dupNil
    let oQ ← opt obs "query" decStr
    -- thread the query through the mounts in order, as generate.go does
    let (mOut, mQ) := src.foldl (fun (acc : List OciMount × Option Str) m =>
      let (o, q') := mountToOCI m acc.2; (acc.1 ++ [o], q')) ([], q)
    let mBack := fromOCIMounts mOut
    let agree := pnc == "" && decide (mOut = oOut) && decide (mBack = oBack) && decide (mQ = oQ) && optNilOk
    -- property: round trip is the identity; the query ends as the last propagation option seen
    let lastProp := (src.flatMap (·.options)).foldl (fun a o => if isPropagation o then some o else a) none
    let specQ := match q with
      | none => oQ == none
      | some init => oQ == some (lastProp.getD init)
    let spec := pnc == "" && decide (oBack = src) && specQ
    pure { agree := agree, spec := spec, sig := if spec then "" else "C14:mounts:nri-oci-nri",
           why := if spec && agree then "" else s!"mounts NRI->OCI->NRI: spec={spec} agree={agree} option-nil-flags={optNilOk} model query={(mQ.map U)} panic='{pnc}' {ctx inp obs}",
           cover := ["mounts_nri", s!"mounts:{sizeTag src.length}"] ++ tagIf q.isSome "mounts:query" ++ tagIf lastProp.isSome "mounts:propagation",
           nontrivial := src != [] }

/-! ### devices -/

def judgeDevsOci (inp obs : Json) : Except String Verdict := do
  let src ← (← getArr inp "devices").mapM decDev
  let pnc := getStrD obs "panic"
  let (oOut, outNilElem) ← obsElems obs "out" decDev
  let (oBack, _) ← obsElems obs "back" decDev
  if outNilElem then
    return { agree := false, spec := false, sig := "C14:nil-element-in-result",
             why := s!"{nilElemWhy "FromOCILinuxDevices"} {ctx inp obs}", cover := ["devices_oci"], nontrivial := true }
  let oNil := getBoolD obs "outNil"
  let mOut := fromOCIDevices src
  let mBack := mOut.map fun d => deviceToOCI (some d)
  let agree := pnc == "" && decide (mOut = oOut) && decide (mBack = oBack) && oNil == appendBuiltNil src.length
  let spec := pnc == "" && decide (oOut = src) && decide (oBack = src)
  pure { agree := agree, spec := spec, sig := if spec then "" else "C14:devices:oci-nri-oci",
         why := if spec && agree then "" else s!"devices OCI->NRI->OCI: spec={spec} agree={agree} panic='{pnc}' {ctx inp obs}",
         cover := ["devices_oci", s!"devices:{sizeTag src.length}"] ++
           tagIf (src.any (·.fileMode.isSome)) "dev:mode-set" ++ tagIf (src.any (·.fileMode == some (U32.ofNat 0))) "dev:mode-zero" ++
           tagIf (src.any (·.fileMode.isNone)) "dev:mode-unset" ++ tagIf (src.any (·.uid == some (U32.ofNat 0))) "dev:uid-zero",
         nontrivial := src != [] }

def judgeDevsNri (inp obs : Json) : Except String Verdict := do
  let raw ← optElems inp "devices" decDev
  let pnc := getStrD obs "panic"
  let (oOut, _) ← obsElems obs "out" decDev
  let (oBack, backNilElem) ← obsElems obs "back" decDev
  if backNilElem then
    return { agree := false, spec := false, sig := "C14:nil-element-in-result",
             why := s!"{nilElemWhy "FromOCILinuxDevices after ToOCI"} {ctx inp obs}", cover := ["devices_nri"], nontrivial := true }
  let oAcc ← strList obs "access"
  let mOut := raw.map deviceToOCI
  let mBack := fromOCIDevices mOut
  let mAcc := raw.map fun d => match d with | none => [] | some d => accessString d
  let agree := pnc == "" && decide (mOut = oOut) && decide (mBack = oBack) && decide (mAcc = oAcc)
  let hasNil := (allSome raw).isNone
  let want := raw.map fun d => d.getD zeroDevice
  let spec := pnc == "" && decide (oOut = want) && decide (oBack = want)
  pure { agree := agree, spec := spec, excluded := hasNil,
         sig := if hasNil then "C14:devices:nil-element" else if spec then "" else "C14:devices:nri-oci-nri",
         why := if spec && agree then "" else s!"devices NRI->OCI->NRI: spec={spec} agree={agree} panic='{pnc}' {ctx inp obs}",
         cover := ["devices_nri", s!"devices:{sizeTag raw.length}"] ++ tagIf hasNil "devices:nil-element", nontrivial := raw != [] && !hasNil }

/-! ### hooks -/

def hooksLists (h : Hooks) : List (List Hook) :=
  [h.prestart, h.createRuntime, h.createContainer, h.startContainer, h.poststart, h.poststop]

def hooksMap (f : Hook → Hook) (h : Hooks) : Hooks :=
  ⟨h.prestart.map f, h.createRuntime.map f, h.createContainer.map f, h.startContainer.map f, h.poststart.map f, h.poststop.map f⟩
/-- list-wise concatenation, written independently of the model's `hooksAppend` -/
def hooksZip (h x : Hooks) : Hooks :=
  ⟨h.prestart ++ x.prestart, h.createRuntime ++ x.createRuntime, h.createContainer ++ x.createContainer,
   h.startContainer ++ x.startContainer, h.poststart ++ x.poststart, h.poststop ++ x.poststop⟩

/-- for each of the six hook lists, per hook: (args is a nil slice, env is a nil slice) -/
def hookNilFlags (j? : Option Json) : Except String (List (List Bool × List Bool)) := do
  match j? with
  | none => pure []
  | some j =>
    ["prestart", "createRuntime", "createContainer", "startContainer", "poststart", "poststop"].mapM fun k => do
      pure (← nilFlags j k "args" "argsNil", ← nilFlags j k "env" "envNil")

def judgeHooksOci (inp obs : Json) : Except String Verdict := do
  let (src, _) ← decHooks (getOpt inp "hooks")
  let pnc := getStrD obs "panic"
  let (oOut, outBad) ← decHooks (getOpt obs "out")
  let (oBack, _) ← decHooks (getOpt obs "back")
  if outBad then
    return { agree := false, spec := false, sig := "C14:nil-element-in-result",
             why := s!"{nilElemWhy "FromOCIHooks"} {ctx inp obs}", cover := ["hooks_oci"], nontrivial := true }
  -- args/env are duplicated with DupStringSlice in both directions: nil iff nil
  let inF ← hookNilFlags (getOpt inp "hooks")
  let argNilOk := (← hookNilFlags (getOpt obs "out")) == inF && (← hookNilFlags (getOpt obs "back")) == inF
  let oNE := getBoolD obs "nonEmpty"
  let mOut := fromOCIHooks src
  let mBack := mOut.map (hooksMap hookToOCI)
  let mNE := (hooksHooks mOut).isSome
  let nilsOk := match getOpt obs "out", oOut with
    | some j, some h => (match j.getObjValAs? (List Bool) "nils" with
        | .ok ns => ns == (hooksLists h).map (fun l => appendBuiltNil l.length)
        | .error _ => false)
    | _, _ => true
  let agree := pnc == "" && decide (mOut = oOut) && decide (mBack = oBack) && mNE == oNE && nilsOk && argNilOk
  let spec := pnc == "" && decide (oOut = src) && decide (oBack = src) &&
    (oNE == (match src with | none => false | some h => (hooksLists h).any (· != [])))
  pure { agree := agree, spec := spec, sig := if spec then "" else "C14:hooks:oci-nri-oci",
         why := if spec && agree then "" else s!"hooks OCI->NRI->OCI: spec={spec} agree={agree} nil-flags={nilsOk} args/env-nil-flags={argNilOk} panic='{pnc}' {ctx inp obs}",
         cover := ["hooks_oci"] ++ tagIf src.isNone "hooks:nil" ++ tagIf oNE "hooks:nonempty", nontrivial := oNE }

def judgeHooksNri (inp obs : Json) : Except String Verdict := do
  let (src, bad) ← decHooks (getOpt inp "hooks")
  let (extra, _) ← decHooks (getOpt inp "extra")
  let pnc := getStrD obs "panic"
  if bad then
    return { agree := pnc == "nil-deref", spec := true, excluded := true, sig := "C14:hooks:nil-element",
             why := if pnc == "nil-deref" then "" else s!"expected a nil dereference, got '{pnc}'", cover := ["hooks_nri", "hooks:nil-element"] }
  let (oOut, _) ← decHooks (getOpt obs "out")
  let (oBack, backBad) ← decHooks (getOpt obs "back")
  let (oApp, appBad) ← decHooks (getOpt obs "appended")
  if backBad || appBad then
    return { agree := false, spec := false, sig := "C14:nil-element-in-result",
             why := s!"{nilElemWhy (if backBad then "FromOCIHooks after ToOCI" else "Append")} {ctx inp obs}", cover := ["hooks_nri"], nontrivial := true }
  let inF ← hookNilFlags (getOpt inp "hooks")
  let exF ← hookNilFlags (getOpt inp "extra")
  let appF := if exF.isEmpty then inF else (inF.zip exF).map fun (a, b) => (a.1 ++ b.1, a.2 ++ b.2)
  let argNilOk := (← hookNilFlags (getOpt obs "out")) == inF && (← hookNilFlags (getOpt obs "back")) == inF &&
    (src.isNone || (← hookNilFlags (getOpt obs "appended")) == appF)
  let oNE := getBoolD obs "nonEmpty"
  let mOut := src.map (hooksMap hookToOCI)
  let mBack := fromOCIHooks mOut
  let mApp := src.map fun h => hooksAppend h extra
  let mNE := (hooksHooks src).isSome
  let agree := pnc == "" && decide (mOut = oOut) && decide (mBack = oBack) && decide (mApp = oApp) && mNE == oNE && argNilOk
  let wantApp := src.map fun h => match extra with
    | none => h
    | some x => hooksZip h x
  let spec := pnc == "" && decide (oOut = src) && decide (oBack = src) && decide (oApp = wantApp)
  pure { agree := agree, spec := spec, sig := if spec then "" else "C14:hooks:nri-oci-nri",
         why := if spec && agree then "" else s!"hooks NRI->OCI->NRI/Append: spec={spec} agree={agree} args/env-nil-flags={argNilOk} panic='{pnc}' {ctx inp obs}",
         cover := ["hooks_nri"] ++ tagIf src.isNone "hooks:nil" ++ tagIf oNE "hooks:nonempty" ++ tagIf extra.isSome "hooks:append",
         nontrivial := oNE }

/-! ### env -/

def judgeEnvOci (inp obs : Json) : Except String Verdict := do
  let src ← strList inp "env"
  let isNil := getBoolD inp "nil"
  let pnc := getStrD obs "panic"
  let (oKVs, kvNilElem) ← obsElems obs "kvs" decKV
  if kvNilElem then
    return { agree := false, spec := false, sig := "C14:nil-element-in-result",
             why := s!"{nilElemWhy "FromOCIEnv"} {ctx inp obs}", cover := ["env_oci"], nontrivial := true }
  let oEnv ← strList obs "env"
  let oNil := getBoolD obs "outNil"
  let mKVs := fromOCIEnv src
  let mEnv := mKVs.map kvToOCI
  let agree := pnc == "" && decide (mKVs = oKVs) && decide (mEnv = oEnv) && oNil == dupNil isNil
  let allEq := src.all fun s => s.contains '='
  -- in the domain (every entry has '='): the round trip is the identity and every key is '='-free
  let spec := pnc == "" && (if allEq then decide (oEnv = src) && oKVs.all (fun kv => !kv.key.contains '=')
                            else decide (oEnv = src.map fun s => if s.contains '=' then s else s ++ ['=']))
  pure { agree := agree, spec := spec, excluded := !allEq,
         sig := if !allEq then "C14:env:entry-without-eq" else if spec then "" else "C14:env:oci-nri-oci",
         why := if spec && agree then "" else s!"env OCI->NRI->OCI: spec={spec} agree={agree} panic='{pnc}' {ctx inp obs}",
         cover := ["env_oci", s!"env:{sizeTag src.length}"] ++ tagIf (!allEq) "env:no-eq" ++
           tagIf (src.any fun s => (s.filter (· == '=')).length > 1) "env:several-eq",
         nontrivial := src != [] && allEq }

def judgeEnvNri (inp obs : Json) : Except String Verdict := do
  let raw ← optElems inp "kvs" decKV
  let pnc := getStrD obs "panic"
  match allSome raw with
  | none =>
    return { agree := pnc == "nil-deref", spec := true, excluded := true, sig := "C14:env:nil-element",
             why := if pnc == "nil-deref" then "" else s!"expected a nil dereference, got '{pnc}'", cover := ["env_nri", "env:nil-element"] }
  | some src =>
    let (oKVs, kvNilElem) ← obsElems obs "kvs" decKV
    if kvNilElem then
      return { agree := false, spec := false, sig := "C14:nil-element-in-result",
               why := s!"{nilElemWhy "FromOCIEnv after ToOCI"} {ctx inp obs}", cover := ["env_nri"], nontrivial := true }
    let oEnv ← strList obs "env"
    let mEnv := src.map kvToOCI
    let mKVs := fromOCIEnv mEnv
    let agree := pnc == "" && decide (mKVs = oKVs) && decide (mEnv = oEnv)
    let noEq := src.all fun kv => !kv.key.contains '='
    let spec := pnc == "" && (!noEq || decide (oKVs = src))
    pure { agree := agree, spec := spec, excluded := !noEq,
           sig := if !noEq then "C14:env:key-with-eq" else if spec then "" else "C14:env:nri-oci-nri",
           why := if spec && agree then "" else s!"env NRI->OCI->NRI: spec={spec} agree={agree} panic='{pnc}' {ctx inp obs}",
           cover := ["env_nri", s!"env:{sizeTag src.length}"] ++ tagIf (!noEq) "env:key-with-eq" ++
             tagIf (src.any fun kv => kv.value.contains '=') "env:value-with-eq" ++ tagIf (src.any fun kv => kv.value == []) "env:empty-value",
           nontrivial := src != [] && noEq }

/-! ### helpers -/

def judgeHelpers (inp obs : Json) : Except String Verdict := do
  let ss ← strList inp "strs"
  let isNil := getBoolD inp "nil"
  let mp ← pairList inp "map"
  let mapNil := mp == [] && !getBoolD inp "empty"
  let key := S (getStrD inp "key")
  let pnc := getStrD obs "panic"
  let oS ← strList obs "strs"
  let oM ← pairList obs "map"
  let (u, marked) := isMarkedForRemoval key
  let agree := pnc == "" && decide (dupStringSlice ss = oS) && getBoolD obs "strsNil" == dupNil (isNil && ss == []) &&
    decide (dupMap mp = oM) && getBoolD obs "mapNil" == dupNil mapNil &&
    S (getStrD obs "unmarked") == u && getBoolD obs "isMarked" == marked &&
    S (getStrD obs "marked") == markForRemoval key && S (getStrD obs "cleared") == clearRemovalMarker key
  let spec := pnc == "" && decide (oS = ss) && decide (oM = mp)
  pure { agree := agree, spec := spec, sig := if spec then "" else "C14:helpers:dup",
         why := if spec && agree then "" else s!"helpers: spec={spec} agree={agree} panic='{pnc}' {ctx inp obs}",
         cover := ["helpers"] ++ tagIf marked "helpers:marked", nontrivial := ss != [] || mp != [] }

/-! ### optional constructors -/

/-- which dynamic argument types each constructor's type switch accepts -/
def accepted (ctor arg : String) : Bool :=
  match ctor with
  | "Int64" | "UInt64" => ["int", "uint", "int64", "uint64", "*int64", "*uint64", "*Opt"].contains arg
  | "FileMode" => ["os.FileMode", "*os.FileMode", "*Opt", "uint32"].contains arg
  | _ => ["T", "*T", "*Opt"].contains arg

/-- the literal `X(nil)`: the untyped nil interface value ("other:nil" is its legacy spelling).
    IN the property's domain ("map nil to unset"), for every constructor. -/
def isNilIface (arg : String) : Bool := arg == "nil" || arg == "other:nil"

def judgeCtor (inp obs : Json) : Except String Verdict := do
  let ctor ← getStr inp "ctor"
  let arg ← getStr inp "arg"
  let nilIface := isNilIface arg
  let isNil := getBoolD inp "nil"
  let i ← req inp "i" decI64
  let u ← req inp "u" decU64
  let b := getBoolD inp "b"
  let s := S (getStrD inp "s")
  let pnc := getStrD obs "panic"
  let oSet := getBoolD obs "set"
  let oGetSet := getBoolD obs "getSet"
  let ptr {α} (v : α) : Option α := if isNil then none else some v
  let acc := accepted ctor arg || nilIface
  -- (model result, implementation result, implementation Get result, exact?) all rendered as Option String
  -- `exact`: the mathematical value of the argument equals the mathematical value stored
  let mk {α} [Repr α] [DecidableEq α] (m : Option α) (oVal oGet : α) : Bool × String :=
    let impl : Option α := if oSet then some oVal else none
    let implGet : Option α := if oGetSet then some oGet else none
    (decide (m = impl) && decide (optGet impl = implGet), s!"model {reprStr m} impl {reprStr impl} get {reprStr implGet}")
  let oI ← req obs "i" decI64
  let oU ← req obs "u" decU64
  let gI ← req obs "getI" decI64
  let gU ← req obs "getU" decU64
  let i32 (x : I64) : I32 := I32.ofInt x.val
  let u32 (x : U64) : U32 := U32.ofNat x.val
  let (agree, txt, wraps) ← match ctor with
    | "String" =>
      let a : Arg Str := match arg with | "T" => .val s | "*T" => .ptr (ptr s) | "*Opt" => .opt (ptr s) | _ => if nilIface then .nil else .other
      let (ok, t) := mk (optString a) (S (getStrD obs "s")) (S (getStrD obs "getS")); pure (ok, t, false)
    | "Bool" =>
      let a : Arg Bool := match arg with | "T" => .val b | "*T" => .ptr (ptr b) | "*Opt" => .opt (ptr b) | _ => if nilIface then .nil else .other
      let (ok, t) := mk (optBool a) (getBoolD obs "b") (getBoolD obs "getB"); pure (ok, t, false)
    | "Int" =>
      let a : Arg I64 := match arg with | "T" => .val i | "*T" => .ptr (ptr i) | "*Opt" => .opt (ptr i) | _ => if nilIface then .nil else .other
      let (ok, t) := mk (optInt a) oI gI; pure (ok, t, false)
    | "Int32" =>
      let a : Arg I32 := match arg with | "T" => .val (i32 i) | "*T" => .ptr (ptr (i32 i)) | "*Opt" => .opt (ptr (i32 i)) | _ => if nilIface then .nil else .other
      let (ok, t) := mk (optInt32 a) (i32 oI) (i32 gI); pure (ok, t, false)
    | "UInt32" =>
      let a : Arg U32 := match arg with | "T" => .val (u32 u) | "*T" => .ptr (ptr (u32 u)) | "*Opt" => .opt (ptr (u32 u)) | _ => if nilIface then .nil else .other
      let (ok, t) := mk (optUInt32 a) (u32 oU) (u32 gU); pure (ok, t, false)
    | "FileMode" =>
      let a : FileModeArg := match arg with
        | "os.FileMode" => .mode (u32 u) | "*os.FileMode" => .pMode (ptr (u32 u)) | "*Opt" => .opt (ptr (u32 u))
        | "uint32" => .u32 (u32 u) | _ => if nilIface then .nil else .other
      let (ok, t) := mk (optFileMode a) (u32 oU) (u32 gU); pure (ok, t, false)
    | "Int64" =>
      let a : Int64Arg := match arg with
        | "int" => .int i | "uint" => .uint u | "int64" => .int64 i | "uint64" => .uint64 u
        | "*int64" => .pInt64 (ptr i) | "*uint64" => .pUint64 (ptr u) | "*Opt" => .opt (ptr i) | _ => if nilIface then .nil else .other
      let unsignedArg := arg == "uint" || arg == "uint64" || arg == "*uint64"
      let (ok, t) := mk (optInt64 a) oI gI
      pure (ok, t, unsignedArg && !isNil && u.val ≥ 2^63)
    | "UInt64" =>
      let a : UInt64Arg := match arg with
        | "int" => .int i | "uint" => .uint u | "int64" => .int64 i | "uint64" => .uint64 u
        | "*int64" => .pInt64 (ptr i) | "*uint64" => .pUint64 (ptr u) | "*Opt" => .opt (ptr u) | _ => if nilIface then .nil else .other
      let signedArg := arg == "int" || arg == "int64" || arg == "*int64"
      let (ok, t) := mk (optUInt64 a) oU gU
      pure (ok, t, signedArg && !isNil && i.val < 0)
    | c => throw s!"unknown constructor {c}"
  -- the property on the implementation's own values: nil ↦ unset; a value ↦ set, with exactly
  -- that (mathematical) value; Get returns what was stored
  let isPtr := arg.startsWith "*"
  let valueOk : Bool := match ctor with
    | "String" => S (getStrD obs "s") == s && S (getStrD obs "getS") == s
    | "Bool" => getBoolD obs "b" == b && getBoolD obs "getB" == b
    | "Int" | "Int32" => oI.val == i.val && gI.val == i.val
    | "UInt32" | "FileMode" => oU.val == u.val && gU.val == u.val
    | "Int64" => if arg == "uint" || arg == "uint64" || arg == "*uint64" then oI.val == (u.val : Int) && gI.val == (u.val : Int)
                 else oI.val == i.val && gI.val == i.val
    | _ => if arg == "int" || arg == "int64" || arg == "*int64" then (oU.val : Int) == i.val && (gU.val : Int) == i.val
           else oU.val == u.val && gU.val == u.val
  let spec := pnc == "" && (if (isPtr && isNil) || nilIface then !oSet && !oGetSet else oSet && oGetSet && valueOk)
  let excluded := !acc || wraps
  pure { agree := pnc == "" && agree, spec := spec || excluded, excluded := excluded,
         sig := if !acc then "C14:ctor:unaccepted-type" else if wraps then "C14:ctor:value-not-representable"
                else if spec then "" else "C14:ctor",
         why := if (spec || excluded) && agree then "" else s!"{ctor}({arg}{if isNil then " nil" else ""} i={i.val} u={u.val} b={b}): {txt} panic={pnc}",
         cover := ["ctor", s!"ctor:{ctor}:{arg}{if isPtr then (if isNil then ":nil" else ":value") else ""}"] ++ tagIf wraps "ctor:wraps" ++
           tagIf nilIface "ctor:nil-interface",
         nontrivial := acc && !wraps }

/-! ### aliasing (measured by the harness) -/

/-- locations that must have been probed in the copy of a resources value, given the source -/
def expectedCopyProbes (r : NriResources) : List String :=
  (match r.memory with
   | none => []
   | some m => tagIf m.limit.isSome ".Memory.Limit.Value" ++ tagIf m.swappiness.isSome ".Memory.Swappiness.Value" ++
       tagIf m.disableOom.isSome ".Memory.DisableOomKiller.Value" ++ [".Memory.Limit(ptr)", ".Memory(ptr)"]) ++
  (match r.cpu with
   | none => []
   | some c => tagIf c.shares.isSome ".Cpu.Shares.Value" ++ tagIf c.quota.isSome ".Cpu.Quota.Value" ++ [".Cpu.Cpus", ".Cpu.Mems"]) ++
  ((List.range r.hugepages.length).flatMap fun i => [s!".HugepageLimits[{i}].Limit", s!".HugepageLimits[{i}].PageSize", s!".HugepageLimits[{i}](ptr)"]) ++
  ((List.range r.unified.length).map fun i => s!".Unified[k{i}]") ++ tagIf (r.unified != []) ".Unified(insert)" ++
  tagIf r.pids.isSome ".Pids.Limit" ++ tagIf r.blockioClass.isSome ".BlockioClass.Value" ++ tagIf r.rdtClass.isSome ".RdtClass.Value"

def judgeAlias (inp obs : Json) : Except String Verdict := do
  let what ← getStr inp "what"
  let pnc := getStrD obs "panic"
  let probes ← getArr obs "probes"
  let shared ← getStrList obs "shared"
  let ps ← probes.mapM fun p => do pure (← getStr p "path", ← getStr p "dir", ← getBool p "leaked")
  let leaked := ps.filter (·.2.2)
  -- completeness of the probe set for Copy: every location the input makes reachable was mutated, both ways
  let (complete, missing) ← (do
    if what != "copy" then pure (true, "") else
    let (src, _, _) ← decNriRes (getOpt inp "res")
    match src with
    | none => pure (true, "")
    | some r =>
      let want := expectedCopyProbes r
      let miss := (["a", "b"].flatMap fun d => (want.filter fun w => !(ps.any fun p => p.1 == w && p.2.1 == d)).map (d ++ ":" ++ ·))
      pure (miss == [], toString miss) : Except String (Bool × String))
  let spec := pnc == "" && leaked == [] && shared == []
  pure { agree := pnc == "" && complete, spec := spec,
         sig := if spec then "" else s!"C14:alias:{what}",
         why := if !spec then s!"{what}: state shared between a value and its copy/conversion: leaked {leaked.map (fun p => p.2.1 ++ ":" ++ p.1)} shared {shared} panic={pnc}"
                else if !complete then s!"{what}: locations not probed: {missing}" else "",
         cover := ["alias", s!"alias:{what}", s!"alias:probes:{if ps.length == 0 then "0" else if ps.length < 20 then "<20" else if ps.length < 60 then "<60" else "60+"}"],
         nontrivial := ps.length > 0 }

def judgePlatform (obs : Json) : Except String Verdict := do
  let n := getNatD obs "intSize"
  pure { agree := n == 64, spec := true, why := if n == 64 then "" else s!"Go int is {n} bits wide; the model assumes 64",
         cover := ["platform"] }

def judge (j : Json) : Except String Verdict := do
  let inp ← getObj j "in"
  let obs ← getObj j "obs"
  match getStrD inp "kind" with
  | "mask" => judgeMask inp obs
  | "parse" => judgeParse inp obs
  | "bits" => judgeBits inp obs
  | "res_oci" => judgeResOci inp obs
  | "res_nri" => judgeResNri inp obs
  | "mounts_oci" => judgeMountsOci inp obs
  | "mounts_nri" => judgeMountsNri inp obs
  | "devices_oci" => judgeDevsOci inp obs
  | "devices_nri" => judgeDevsNri inp obs
  | "hooks_oci" => judgeHooksOci inp obs
  | "hooks_nri" => judgeHooksNri inp obs
  | "env_oci" => judgeEnvOci inp obs
  | "env_nri" => judgeEnvNri inp obs
  | "helpers" => judgeHelpers inp obs
  | "ctor" => judgeCtor inp obs
  | "alias" => judgeAlias inp obs
  | "platform" => judgePlatform obs
  | k => throw s!"unknown case kind {k}"

def main : IO UInt32 := runLines judge
end Drv.C14
