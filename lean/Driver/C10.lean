import Driver.Common
import NriModel.MuxSys
open Lean Drv Nri Nri.Mux

/-!
Driver for C10 (and the pieces C11 shares: hex decoding, payload regeneration, the script
judge, the whole-write interleaving search).

`traffic` cases: the tapped trunk of each direction is decoded with the model's `decode`;
a linearisation of the writers' programs is searched (untrusted witness), then CHECKED:
the model's `encodeWrites` of that linearisation must equal the tapped bytes exactly, and
what every reader got must equal the model's demultiplexing of those frames.  The property
itself is evaluated on the observation alone: per connection the bytes read are an
interleaving by whole writes of what the writers wrote to that id.

`script` cases: every observed result is accepted or rejected by `Sys.apply`.
-/

namespace Drv.MuxD

def hexVal (c : UInt8) : UInt8 :=
  if c ≥ 48 && c ≤ 57 then c - 48 else if c ≥ 97 && c ≤ 102 then c - 87 else 0

/-- hex string → bytes (built back to front, no recursion on the output) -/
def hexBytes (s : String) : Bytes :=
  let a := s.toUTF8
  let rec go : Nat → Bytes → Bytes
    | 0, acc => acc
    | i + 1, acc => go i ((hexVal a[2 * i]! * 16 + hexVal a[2 * i + 1]!) :: acc)
  go (a.size / 2) []

/-- `c10.Payload(n, seed, step)`: byte j = seed + j*step (mod 256) -/
def genPayload (n seed step : Nat) : Bytes :=
  let rec go : Nat → Bytes → Bytes
    | 0, acc => acc
    | j + 1, acc => go j (UInt8.ofNat ((seed + j * step) % 256) :: acc)
  go n []

structure WSpec where
  conn : Nat
  len : Nat
  seed : Nat
  step : Nat

def getWSpec (j : Json) : Except String WSpec := do
  pure { conn := ← getNat j "conn", len := ← getNat j "len", seed := ← getNat j "seed", step := ← getNat j "step" }

def getPrograms (j : Json) (k : String) : Except String (List (List WSpec)) := do
  let ps ← getArr j k
  ps.mapM fun p => match p with
    | Json.arr a => a.toList.mapM getWSpec
    | Json.null => pure []
    | _ => throw s!"{k}: program is not an array"

/-- search for the order in which whole writes reached the trunk (untrusted witness finder;
    its answer is checked by re-encoding).  `progs[w]` = remaining writes of writer `w`, each
    as the frames it must produce.  Returns the order and the remaining search budget. -/
partial def findOrder (progs : List (List (List Frame))) (fs : List Frame) (budget : Nat) :
    Option (List Nat) × Nat :=
  if budget = 0 then (none, 0)
  else if progs.all (·.isEmpty) then ((if fs.isEmpty then some [] else none), budget - 1)
  else
    let rec tryW (w : Nat) (pre post : List (List (List Frame))) (budget : Nat) :
        Option (List Nat) × Nat :=
      match post with
      | [] => (none, budget)
      | p :: rest =>
        match p with
        | [] => tryW (w + 1) (pre ++ [p]) rest budget
        | wr :: more =>
          if wr.isPrefixOf fs then
            match findOrder (pre ++ [more] ++ rest) (fs.drop wr.length) (budget - 1) with
            | (some ord, b) => (some (w :: ord), b)
            | (none, b) => if b = 0 then (none, 0) else tryW (w + 1) (pre ++ [p]) rest b
          else tryW (w + 1) (pre ++ [p]) rest budget
    tryW 0 [] progs budget

/-- byte-level version for the specification: `progs[w]` = remaining payloads of writer `w`
    on ONE connection; is `s` an interleaving of them by whole writes? -/
def isInterleaving : Nat → List (List Bytes) → Bytes → Bool
  | 0, _, _ => false
  | fuel + 1, progs, s =>
    -- empty writes contribute nothing and can be taken at once
    let progs := progs.map fun p => p.dropWhile (·.isEmpty)
    if progs.all (·.isEmpty) then s.isEmpty
    else
      let rec tryW (pre post : List (List Bytes)) : Bool :=
        match post with
        | [] => false
        | p :: rest =>
          match p with
          | [] => tryW (pre ++ [p]) rest
          | wr :: more =>
            (wr.isPrefixOf s && isInterleaving fuel (pre ++ [more] ++ rest) (s.drop wr.length))
              || tryW (pre ++ [p]) rest
      tryW [] progs

/-- rebuild the linearised write list from an order of writer indices -/
def linearise : List Nat → List (List (Nat × Bytes)) → Option (List (Nat × Bytes))
  | [], progs => if progs.all (·.isEmpty) then some [] else none
  | w :: ord, progs =>
    match progs[w]? with
    | some (wr :: more) => (linearise ord (progs.set w more)).map (wr :: ·)
    | _ => none

def sizeClass (mp n : Nat) : String :=
  if n = 0 then "size:0" else if n = 1 then "size:1" else if n + 1 = mp then "size:mp-1"
  else if n = mp then "size:mp" else if n = mp + 1 then "size:mp+1"
  else if n > 2 * mp then "size:>2mp" else if n > mp then "size:>mp"
  else if n ≤ 256 then "size:small" else "size:medium"

def sentinelLen : Nat := 13

structure DirResult where
  agree : Bool
  spec : Bool
  why : String
  sig : String
  raced : Bool

/-- one direction of a traffic case -/
def judgeDir (mp : Nat) (ids : List Nat) (progs : List (List WSpec)) (trunkHex : String)
    (reads : Json) (dir : String) : Except String DirResult := do
  let sentinel : List WSpec := ids.map fun id => { conn := id, len := sentinelLen, seed := 255, step := 0 }
  let progs := progs ++ [sentinel]
  let payloads : List (List (Nat × Bytes)) := progs.map fun p => p.map fun w => (w.conn, genPayload w.len w.seed w.step)
  let trunk := hexBytes trunkHex
  let (frames, tail) := decode trunk
  -- what each reader got
  let got : List (Nat × List Bytes) ← ids.mapM fun id => do
    let a ← getArr reads (toString id)
    let fr ← a.mapM fun x => match x with
      | Json.str s => pure (hexBytes s) | _ => throw "reads: non-string"
    pure (id, fr)
  -- the property on the observation alone
  let specBad := got.filterMap fun (id, fr) =>
    let mine := payloads.map fun p => (p.filter (·.1 == id)).map (·.2)
    if isInterleaving 200000 mine fr.flatten then none else some id
  let spec := specBad.isEmpty
  -- the model: the trunk is the concatenation of whole encoded writes in some order …
  let want : List (List (List Frame)) := payloads.map fun p => p.map fun (id, b) =>
    (framesOfWrite mp id b).getD []
  let mut agree := true
  let mut why := ""
  let mut raced := false
  if !tail.isEmpty then
    agree := false; why := s!"{dir}: trunk does not parse: {frames.length} frames then {tail.length} stray bytes"
  else
    match (findOrder want frames 400000).1 with
    | none => agree := false; why := s!"{dir}: the {frames.length} trunk frames are not a concatenation of whole writes"
    | some ord =>
      raced := (ord.zip (ord.drop 1)).any fun (a, b) => a > b
      -- trusted check of the witness: the frames of the writes, linearised in that order, are
      -- exactly the decoded frames (and the tail is empty).  By `decode_sound` and
      -- `encodeWrites_eq` this is equivalent to `encodeWrites mp ws = some trunk`; small
      -- trunks are also re-encoded and compared byte for byte.
      match linearise ord (payloads.map fun p => p.map fun (id, b) => (id, b)) with
      | none => agree := false; why := s!"{dir}: internal: order does not linearise"
      | some ws =>
        let wsFrames := ws.flatMap fun (id, b) => (framesOfWrite mp id b).getD []
        if wsFrames != frames then
          agree := false; why := s!"{dir}: frames of the linearised writes differ from the trunk frames"
        else if trunk.length ≤ 2000000 then
          match encodeWrites mp ws with
          | none => agree := false; why := s!"{dir}: model write loop faults"
          | some bytes =>
            if bytes != trunk then
              agree := false; why := s!"{dir}: model encoding of the linearised writes differs from the tapped trunk"
  -- … and every reader got exactly the frames addressed to its id, in order
  if agree then
    for (id, fr) in got do
      if payloadsOf id frames != fr then
        agree := false
        why := s!"{dir}: connection {id}: reader got {fr.length} frames, trunk carries {(payloadsOf id frames).length}, or contents differ"
  let why2 := if !spec then s!"{dir}: bytes read on connection(s) {specBad} are not an interleaving by whole writes of what was written" else why
  pure { agree := agree, spec := spec, why := why2, sig := if spec then "" else "C10:stream-mismatch", raced := raced }

def judgeTraffic (inp obs : Json) : Except String Verdict := do
  let mp ← getNat inp "mp"
  let qlen ← getNat inp "qlen"
  let ids := (← getArr inp "ids").filterMap fun j => (j.getNat?).toOption
  let pa ← getPrograms inp "a"
  let pb ← getPrograms inp "b"
  let crashed := getStrD obs "crashed"
  let status := getStrD obs "status"
  let allw := (pa ++ pb).flatten
  let cover := ["traffic", s!"qlen:{qlen}", s!"ids:{ids.length}", s!"writers:{pa.length}+{pb.length}",
      "note:" ++ getStrD inp "note"] ++ (allw.map (sizeClass mp ·.len)).eraseDups
  if crashed != "" then
    return { agree := false, spec := false, why := s!"implementation {crashed}", sig := "C10:crashed",
             cover := cover ++ ["crashed"], nontrivial := true }
  if status != "ok" then
    let errs := (← getStrList obs "errs")
    return { agree := false, spec := false, sig := "C10:" ++ (status.splitOn ":").head!,
             why := s!"traffic did not complete: {status} {errs.take 3}", cover := cover ++ ["status:" ++ status],
             nontrivial := true }
  let ab ← judgeDir mp ids pa (← getStr obs "trunk_ab") (← getObj obs "reads_b") "A→B"
  let ba ← judgeDir mp ids pb (← getStr obs "trunk_ba") (← getObj obs "reads_a") "B→A"
  let spec := ab.spec && ba.spec
  pure { agree := ab.agree && ba.agree, spec := spec,
         why := if !ab.spec || (!ab.agree && ba.spec) then ab.why else if !ba.spec || !ba.agree then ba.why else "",
         sig := if !ab.spec then ab.sig else ba.sig,
         cover := cover ++ (if ab.raced || ba.raced then ["writers-interleaved"] else []) ++ ["trace"],
         nontrivial := allw.length ≥ 2 }

/-! ### scripts -/

instance : Inhabited Op := ⟨{ kind := .cut, x := 0 }⟩
instance : Inhabited Seen := ⟨.blocked⟩

def getOp (j : Json) : Except String Op := do
  let kind ← match (← getStr j "op") with
    | "open" => pure OpKind.open | "dial" => pure .dial | "listen" => pure .listen
    | "accept" => pure .accept | "acceptbg" => pure .acceptbg | "lclose" => pure .lclose
    | "write" => pure .write | "read" => pure .read | "readbg" => pure .readbg | "join" => pure .join
    | "closeconn" => pure .closeconn | "closemux" => pure .closemux | "cut" => pure .cut
    | "tear" => pure .tear
    | k => throw s!"unknown op {k}"
  let len ← getNat j "len"
  let seed ← getNat j "seed"
  let step ← getNat j "step"
  pure { kind := kind, x := ← getNat j "end", h := ← getNat j "h", id := ← getNat j "id",
         payload := if kind == .write then genPayload len seed step else [],
         blen := ← getNat j "blen", bcap := ← getNat j "bcap", k := ← getNat j "k" }

def getSeen (j : Json) : Except String Seen := do
  match (← getStr j "r") with
  | "ok" => pure (.ok 0)
  | "conn" => pure (.conn (← getNat j "h"))
  | "lst" => pure (.lst (← getNat j "h"))
  | "data" => pure (.data (hexBytes (← getStr j "data")) (← getNat j "n"))
  | "err" => pure (.err (← getStr j "err"))
  | "eof" => pure .eof
  | "blocked" => pure .blocked
  | "pending" => pure .pending
  | "skipped" => pure (.err "skipped")
  | r => throw s!"unknown result {r}"

/-- a write result carries n -/
def getSeenFor (op : Op) (j : Json) : Except String Seen := do
  let s ← getSeen j
  match op.kind, s with
  | .write, .ok _ => pure (.ok (← getNat j "n"))
  | _, s => pure s

def isPrefixL {α} [BEq α] (a b : List α) : Bool := a.isPrefixOf b

def isInfixL {α} [BEq α] (a : List α) : List α → Bool
  | [] => a.isEmpty
  | b :: bs => a.isPrefixOf (b :: bs) || isInfixL a bs

structure SpecOut where
  ok : Bool := true
  why : String := ""
  sig : String := ""
  tags : List String := []

/-- eventual result of op `i`: a background op's result is reported by its `join` or, if it
    was never joined, at the end of the script -/
def finalRes (ops : Array Op) (res : Array Seen) (late : List (Nat × Seen)) (i : Nat) : Seen :=
  match late.find? (·.1 == i) with
  | some (_, r) => r
  | none =>
    let op : Op := ops[i]!
    if op.kind == OpKind.readbg || op.kind == OpKind.acceptbg then
      match (List.range ops.size).find? fun j =>
          let oj : Op := ops[j]!
          oj.kind == OpKind.join && oj.k == i with
      | some j => res[j]!
      | none => res[i]!
    else res[i]!

/-- The C11/C10 property evaluated on a script's observation alone (no model):
    nothing hangs once an end is known to be closed, closing never hangs, a Write after the
    close fails, all Read errors of one end are equal, and what a handle received is a
    contiguous piece (a prefix when it was opened before the first write to its id) of what
    the peer successfully wrote to that id. -/
def scriptSpec (ops : Array Op) (res : Array Seen) (late : List (Nat × Seen)) (guard : Bool) : SpecOut := Id.run do
  let mut out : SpecOut := {}
  let fail := fun (o : SpecOut) (why sig : String) => if o.ok then { o with ok := false, why := why, sig := sig } else o
  -- eventual result of op i
  let final := finalRes ops res late
  -- fault points the INPUT determines: a cut armed at one end is reached by the successful
  -- Write there that crosses it (or at once for k = 0); from then on the trunk is dead and
  -- both ends must fail
  let mut cutAt : Option Nat := none
  let mut armed : List (Nat × Nat) := []      -- (end, bytes still forwarded)
  for i in [0:ops.size] do
    let op : Op := ops[i]!
    if cutAt.isNone then
      if op.kind == OpKind.cut && res[i]! == Seen.ok 0 then
        if op.k == 0 then cutAt := some i else armed := (op.x, op.k) :: armed.filter (·.1 != op.x)
      else if op.kind == OpKind.write then
        match res[i]!, armed.find? (·.1 == op.x) with
        | .ok _, some (_, left) =>
          let bytes := 8 + op.payload.length     -- script payloads fit one frame
          if bytes ≥ left then cutAt := some i
          else armed := (op.x, left - bytes) :: armed.filter (·.1 != op.x)
        | _, _ => pure ()
  -- … and a header write torn after 1..7 bytes (op `tear` followed by the Write that failed
  -- on the trunk): from then on that end must be dead
  let mut tornAt : List (Nat × Nat) := []        -- (end, op index of the torn write)
  let mut tearArmed : List (Nat × Nat) := []
  for i in [0:ops.size] do
    let op : Op := ops[i]!
    if op.kind == OpKind.tear then tearArmed := (op.x, op.k) :: tearArmed.filter (·.1 != op.x)
    else if op.kind == OpKind.write then
      match tearArmed.find? (·.1 == op.x), res[i]! with
      | some (_, k), .err "wfail" =>
        tearArmed := tearArmed.filter (·.1 != op.x)
        if k ≥ 1 && k < 8 then tornAt := (op.x, i) :: tornAt
      | _, _ => pure ()
  -- handle ↦ (id, op index of its creation), per end, from the Open results
  let handles := fun (x : Nat) => (List.range ops.size).filterMap fun i =>
    let op : Op := ops[i]!
    if op.x == x && (op.kind == OpKind.open || op.kind == OpKind.dial) then
      match res[i]! with | .conn h => some (h, op.id, i) | _ => none
    else none
  -- first op that injects or reveals any failure (close, cut, tear, an error result)
  let firstFault : Nat := ((List.range ops.size).find? fun i =>
    let op : Op := ops[i]!
    op.kind == OpKind.cut || op.kind == OpKind.tear || op.kind == OpKind.closemux ||
      op.kind == OpKind.closeconn || op.kind == OpKind.lclose ||
      (match res[i]! with | .err k => k != "reserved" | _ => false)).getD ops.size
  for x in [0, 1] do
    -- when is end x known to be closed?  (first Read error on a conn that was not closed
    -- individually, or a returned mux Close)
    let mut closedAt : Option Nat := none
    let mut connClosed : List Nat := []
    let mut lstConn : List (Nat × Nat) := []      -- listener index ↦ conn handle (from accept results)
    let mut openedAt : List (Nat × Nat) := []     -- handle ↦ op index of its creation
    let mut errKinds : List String := []
    let mut knownClosed : List Nat := []      -- handles seen closed (own Read error / own Close)
    let mut muxCloseReturned := false
    let mut nl := 0
    for i in [0:ops.size] do
      let op := ops[i]!
      if op.x != x then continue
      let r := res[i]!
      match op.kind, r with
      | .open, .conn h | .dial, .conn h =>
        if !(openedAt.any (·.1 == h)) then openedAt := openedAt ++ [(h, i)]
      | .listen, .lst _ => nl := nl + 1
      | .accept, .conn h => lstConn := lstConn ++ [(op.h, h)]
      | .closeconn, .ok _ => connClosed := op.h :: connClosed; knownClosed := op.h :: knownClosed
      | .lclose, .ok _ =>
        match lstConn.find? (·.1 == op.h) with
        | some (_, h) => connClosed := h :: connClosed
        | none => connClosed := connClosed   -- conn never handed out: its handle is unknown to the observer
      | .closemux, .ok _ =>
        muxCloseReturned := true
        if closedAt.isNone then closedAt := some i
      | _, _ => pure ()
      -- hangs
      let isBlocked := final i == .blocked
      if isBlocked then
        match op.kind with
        | .closeconn | .closemux | .lclose =>
          out := fail out s!"op {i}: close did not return" "C11:close-hangs"
        | .write =>
          -- script payloads are far below the socket buffer: a Write never waits for the peer
          out := fail out s!"op {i}: Write did not return" "C11:write-hangs"
        | .read | .readbg =>
          -- completeness (C10): before anything failed, a Read for which the peer has
          -- successfully written more frames than were read so far must not stay blocked
          if i < firstFault && op.kind == OpKind.read then
            match (handles x).find? (·.1 == op.h) with
            | some (_, id, oi) =>
              let peerHs := ((handles (1 - x)).filter (·.2.1 == id)).map (·.1)
              let sentN := ((List.range i).filter fun j =>
                let oj : Op := ops[j]!
                j > oi && oj.x != x && oj.kind == OpKind.write && peerHs.contains oj.h &&
                  (match res[j]! with | .ok _ => true | _ => false)).length
              let gotN := ((List.range i).filter fun j =>
                let oj : Op := ops[j]!
                oj.x == x && oj.h == op.h && (oj.kind == OpKind.read || oj.kind == OpKind.readbg) &&
                  (match final j with | .data _ _ => true | _ => false)).length
              if sentN > gotN then
                out := fail out s!"op {i}: Read blocked although {sentN} frames were written to id {id} and only {gotN} read: a frame was not delivered" "C10:frame-not-delivered"
            | none => pure ()
          match closedAt with
          | some c =>
            let lateOpen := match openedAt.find? (·.1 == op.h) with
              | some (_, oi) => decide (oi > c) | none => false
            if lateOpen then
              out := fail out s!"op {i}: Read on a connection opened after the mux had closed (op {c}) never returns" "C11:open-after-close:read-blocks"
            else
              out := fail out s!"op {i}: {if op.kind == .write then "Write" else "Read"} still blocked although the mux closed at op {c}" "C11:blocked-after-close"
          | none =>
            match cutAt with
            | some c =>
              if i > c + 1 && op.kind != OpKind.write then
                out := fail out s!"op {i}: Read still blocked although the trunk was cut at op {c}" "C11:blocked-after-cut"
            | none => pure ()
        | _ => pure ()
      match tornAt.find? (·.1 == x) with
      | some (_, t) =>
        if i > t then
          match op.kind, r with
          | .write, .ok _ => out := fail out s!"op {i}: Write succeeded although the header write of op {t} was torn: the mux did not stop" "C11:write-ok-after-torn-header"
          | _, _ => pure ()
      | none => pure ()
      -- results after the close
      match closedAt with
      | some c =>
        if i > c then
          match op.kind, r with
          | .write, .ok _ =>
            -- (per handle: `mux.Close` closes the connections one after the other, so an error
            -- seen on one handle does not date the close of another; a returned Close does)
            if knownClosed.contains op.h || muxCloseReturned then
              out := fail out s!"op {i}: Write succeeded after the connection was closed (op {c})" "C11:write-ok-after-close"
          | .read, .data _ _ => out := { out with tags := "select:data-after-close" :: out.tags }
          | _, _ => pure ()
      | none => pure ()
      -- read errors
      match op.kind, final i with
      | .read, .err k | .readbg, .err k =>
        if k != "enomem" then
          errKinds := errKinds ++ [k]
          -- (only an error returned at once dates the close; a call that blocked first, or a
          -- background Read, got its error at an unknown later time)
          if op.kind == .read && r != .blocked then knownClosed := op.h :: knownClosed
          if op.kind == .read && r != .blocked && closedAt.isNone && !(connClosed.contains op.h) then closedAt := some i
          if op.kind == .readbg then out := { out with tags := "bgread:woken-by-error" :: out.tags }
      | .readbg, .data _ _ => out := { out with tags := "bgread:woken-by-data" :: out.tags }
      | _, _ => pure ()
    -- a background Read/Accept still blocked at the end although the end closed
    match closedAt with
    | some c =>
      for (i, r) in late do
        if i < ops.size && ops[i]!.x == x && r == .blocked && ops[i]!.kind == .readbg then
          let lateOpen := match openedAt.find? (·.1 == ops[i]!.h) with
            | some (_, oi) => decide (oi > c) | none => false
          if !lateOpen then
            out := fail out s!"op {i}: background Read was never woken although the mux closed at op {c}" "C11:reader-not-woken"
    | none => pure ()
    -- latch
    match errKinds with
    | k :: rest =>
      if rest.any (· != k) then
        out := fail out s!"end {x}: Reads returned different errors {errKinds.eraseDups}" "C11:error-not-latched"
      out := { out with tags := ("err:" ++ k) :: out.tags }
    | [] => pure ()
    -- received ⊑ sent, per handle
    if guard then
      for (h, oi) in openedAt do
        -- id of the handle
        let id := ops[oi]!.id
        let rcvd : List Bytes := (List.range ops.size).filterMap fun i =>
          let op := ops[i]!
          if op.x == x && op.h == h && (op.kind == .read || op.kind == .readbg) then
            match final i with
            | .data p _ => some p
            | _ => none
          else none
        -- what the peer wrote successfully to this id, handle by handle of the peer with that id
        let peerHandles : List Nat := (List.range ops.size).filterMap fun i =>
          let op := ops[i]!
          if op.x != x && (op.kind == .open || op.kind == .dial) && op.id == id then
            match res[i]! with | .conn ph => some ph | _ => none
          else none
        let sent : List (Nat × Bytes) := (List.range ops.size).filterMap fun i =>
          let op := ops[i]!
          if op.x != x && op.kind == .write && peerHandles.contains op.h then
            match res[i]! with | .ok _ => some (i, op.payload) | _ => none
          else none
        let sentAll := sent.map (·.2)
        let sentAfter := (sent.filter (·.1 > oi)).map (·.2)
        if !(isInfixL rcvd sentAll) then
          out := fail out s!"end {x} handle {h} (id {id}): received frames are not a contiguous piece of what was written" "C11:gap-or-duplicate"
        else if sentAfter.length == sentAll.length && !(isPrefixL rcvd sentAll) then
          out := fail out s!"end {x} handle {h} (id {id}): received frames are not a prefix of what was written" "C11:not-a-prefix"
  pure out

def judgeScript (pid : String) (inp obs : Json) : Except String Verdict := do
  let mp ← getNat inp "mp"
  let qlen ← getNat inp "qlen"
  let guard ← getBool inp "guard"
  let note := getStrD inp "note"
  let opsJ ← getArr inp "ops"
  let ops ← opsJ.mapM getOp
  let crashed := getStrD obs "crashed"
  let cover0 := ["script", "note:" ++ note, s!"qlen:{qlen}", if getBoolD obs "late_closed" then "open-after-close:closed" else "open-after-close:open"]
  if crashed != "" then
    return { agree := false, spec := false, why := s!"implementation {crashed}", sig := pid ++ ":crashed",
             cover := cover0 ++ ["crashed"], nontrivial := true }
  let resJ ← getArr obs "res"
  if resJ.length != ops.length then throw "res/ops length mismatch"
  let res0 ← (ops.zip resJ).mapM fun (op, j) => getSeenFor op j
  -- the harness abandons a script after three hung calls: judge what was executed
  let nrun := (res0.takeWhile (· != Seen.err "skipped")).length
  let ops := ops.take nrun
  let res := res0.take nrun
  let lateJ ← getArr obs "late"
  let late : List (Nat × Seen) ← lateJ.mapM fun j => do
    pure ((← getNat j "op"), (← getSeen (← getObj j "res")))
  -- model: accept result by result
  -- what Open does on a closed mux is measured on the code the observation comes from
  let lateClosed := getBoolD obs "late_closed"
  let tab := hexBytes (← getStr obs "trunk_ab")
  let tba := hexBytes (← getStr obs "trunk_ba")
  -- A Write that fails towards a dead peer fails either in its header call before the first byte
  -- (the mux lives on) or later (the mux closes and latches the write error); which of the two is
  -- not observable at the Write itself.  The acceptance is run with the first reading and, should
  -- that not explain the rest of the script, again with the second.
  let accept := fun (epipeCloses : Bool) => Id.run do
    let mut s := { Sys.init { mp := mp, qlen := qlen, lateClosed := lateClosed } with epipeCloses := epipeCloses }
    let mut agree := true
    let mut why := ""
    let mut idx := 0
    for (op, r) in ops.zip res do
      if agree then
        let lt := (late.find? (·.1 == idx)).map (·.2)
        match s.apply idx op r lt with
        | .ok s' => s := s'
        | .error e => agree := false; why := s!"op {idx}: {e}"
      idx := idx + 1
    if agree then
      let s' := s.settle
      -- background operations never joined: resolve them now, in issue order, with the result
      -- the implementation reported at the end of the script
      let mut fin := s'
      for (i, r) in late do
        if agree && i < ops.length then
          let op := ops[i]!
          let e := fin.getEnd op.x
          if op.kind == .readbg then
            match e.pend.find? (·.op == i) with
            | none => pure ()     -- joined during the script
            | some p =>
              match e.readSeen p.h p.blen p.bcap r with
              | .ok e' => fin := fin.setEnd op.x { e' with pend := e'.pend.filter (·.op != i) }
              | .error m => agree := false; why := s!"op {i} (background Read, at the end): {m}"
          else if op.kind == .acceptbg then
            match e.doneAcc.find? (·.1 == i), r with
            | some (_, .conn h), .conn h' => if h != h' then agree := false; why := s!"op {i}: Accept: model conn {h}, implementation {h'}"
            | some (_, .eof), .eof => pure ()
            | none, .blocked => pure ()
            | _, r => agree := false; why := s!"op {i}: background Accept: model and implementation ({r.show}) differ"
      -- the bytes on the trunk
      if agree then
        let same := fun (tap : Bytes) (w : Wire) => match w.exactUpTo with
          | none => tap == w.sent
          | some n => tap.take n == w.sent.take n && tap.length ≥ n
        if !(same tab s'.ab) then agree := false; why := s!"trunk A→B: tapped {tab.length} bytes, model {s'.ab.sent.length} (or contents differ)"
        else if !(same tba s'.ba) then agree := false; why := s!"trunk B→A: tapped {tba.length} bytes, model {s'.ba.sent.length} (or contents differ)"
    return (agree, why)
  let (agree, why) := match accept false with
    | (true, w) => (true, w)
    | (false, w) => (match accept true with | (true, w') => (true, w') | (false, _) => (false, w))
  let sp := scriptSpec ops.toArray res.toArray late guard
  let anyErr := res.any fun r => match r with | .err k => k != "reserved" | _ => false
  let kinds := (res.filterMap fun r => match r with
    | .blocked => some "res:blocked" | .err "enomem" => some "res:enomem" | .eof => some "accept:eof" | _ => none).eraseDups
  pure { agree := agree, spec := sp.ok || !guard,
         why := if !sp.ok && guard then sp.why else why,
         sig := if sp.ok || !guard then (if guard then "" else "guard:" ++ note) else sp.sig,
         cover := cover0 ++ sp.tags.eraseDups ++ kinds ++ ["trace"],
         nontrivial := anyErr, excluded := !guard }

end Drv.MuxD

namespace Drv.C10
open Drv.MuxD

def judge (j : Json) : Except String Verdict := do
  let inp ← getObj j "in"
  let obs ← getObj j "obs"
  match getStrD inp "kind" with
  | "traffic" => judgeTraffic inp obs
  | "script" => judgeScript "C10" inp obs
  | k => throw s!"unknown case kind {k}"

def main : IO UInt32 := runLines judge
end Drv.C10
