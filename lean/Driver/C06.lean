/-
Driver for C06. Case kinds (written by harness/c06):

* `seq`  – a sequence of `reg` / `stop` / `req` steps against one Adaptation; per request the
           handler invocation log and the caller's result.
* `conc` – concurrent callers; the merged stamp history and every caller's results.

`agree`: the observation is accepted by the model (`Nri.Dispatch`): the plugin list is some
index-sorted arrangement (equal indices may stand in any order, but the order stays fixed
between two activations), each request is one `Dispatch.request` on that list, concurrent
requests are atomic in the order of their stamps.
`spec`: the property predicates evaluated on the observation itself, without the model.
-/
import Driver.Common
import NriModel.Dispatch
open Lean Drv Nri Nri.Events Nri.Dispatch

namespace Drv.C06

/-! ### decoding -/

structure PSpec where
  id : Nat
  idx : String
  name : String
  mask : Nat
  veto : Nat
  clash : Nat
  raw : Bool
  deriving Inhabited

def decSpec (id : Nat) (j : Json) : Except String PSpec := do
  pure { id := id, idx := ← getStr j "idx", name := ← getStr j "name", mask := ← getNat j "mask",
         veto := getNatD j "veto", clash := getNatD j "clash", raw := getBoolD j "raw" }

structure Inv where
  p : String
  r : String
  e : Nat

def decInv (j : Json) : Except String Inv := do
  pure { p := ← getStr j "p", r := ← getStr j "r", e := ← getNat j "e" }

structure Res where
  err : String
  errtext : String
  vetoBy : String
  vetoReq : String
  items : List String
  isNil : Bool
  t0 : Nat
  t1 : Nat
  deriving Inhabited

def decRes (j : Json) : Except String Res := do
  pure { err := ← getStr j "err", errtext := getStrD j "errtext", vetoBy := getStrD j "vetoby",
         vetoReq := getStrD j "vetoreq", items := ← getStrList j "items", isNil := getBoolD j "nil",
         t0 := getNatD j "t0", t1 := getNatD j "t1" }

/-! ### what the harness plugins answer (package rt) -/

def bitOf (m ev : Nat) : Bool := ev ≥ 1 && (m >>> (ev - 1)) % 2 == 1

def memFor (name req : String) : Nat :=
  let h := (name ++ "|" ++ req).toList.foldl (fun h c => (h * 1099511 + c.toNat) % 1000000007) 1469598103
  2^28 + h % 2^27

abbrev Items := List (String × String)

def evCreate := 4
def evUpdate := 8
def evStop := 10
def hasReply (ev : Nat) : Bool := ev == evCreate || ev == evUpdate || ev == evStop || ev == 12

def contrib (p : PSpec) (ev : Nat) (rid : String) : Items :=
  if ev == evCreate then
    [(p.name, rid)] ++ (if bitOf p.clash ev then [("shared", p.name)] else [])
  else if ev == evUpdate || ev == evStop then
    [(rid ++ "/" ++ p.name, toString (memFor p.name rid))] ++
      (if bitOf p.clash ev then [(rid ++ "/shared", toString (memFor p.name rid))] else [])
  else []

def insSorted (x : String) : List String → List String
  | [] => [x]
  | y :: ys => if x < y then x :: y :: ys else y :: insSorted x ys
def sortStrs (l : List String) : List String := l.foldr insSorted []

def showItems (it : Items) : List String := sortStrs (it.map fun (k, v) => k ++ "=" ++ v)

/-- the slice of result.go these plugins exercise: a key may be set by one plugin only -/
def merger : Merger Items Items (List String) Unit where
  init := []
  apply acc _ rsp := if rsp.any (fun kv => acc.any (·.1 == kv.1)) then .error () else .ok (acc ++ rsp)
  finish := showItems

def mkPlugin (s : PSpec) : Plugin :=
  { id := s.id, idx := S s.idx, name := S s.name, events := effective (BitVec.ofNat 32 s.mask), closed := false }

def specOf (specs : List PSpec) (id : Nat) : PSpec :=
  match specs.find? (·.id == id) with
  | some s => s
  | none => default

def callFor (specs : List PSpec) (ev : Nat) (rid : String) (p : Plugin) : Call Items :=
  let s := specOf specs p.id
  { out := if bitOf s.veto ev then .handlerErr (S s.name) else .ok (contrib s ev rid),
    reached := true, cost := 0 }

/-! ### the tie order: any arrangement inside an equal-index group -/

def idxOfName (l : List String) (n : String) : Option Nat :=
  let rec go : List String → Nat → Option Nat
    | [], _ => none
    | x :: xs, i => if x == n then some i else go xs (i + 1)
  go l 0

/-- insert by (idx, rank), stable -/
def insRank (x : Plugin × Nat) : List (Plugin × Nat) → List (Plugin × Nat)
  | [] => [x]
  | y :: ys =>
    if strLt x.1.idx y.1.idx || (!strLt y.1.idx x.1.idx && x.2 < y.2) then x :: y :: ys
    else y :: insRank x ys

/-- the arrangement of `ps` in which the plugins named in `log` stand in the order of `log`
    inside their index group and before the group's other members -/
def arrange (ps : List Plugin) (log : List String) : List Plugin :=
  let ranked := ps.zipIdx.map fun (p, i) =>
    (p, match idxOfName log (U p.name) with | some k => k | none => log.length + i)
  (ranked.foldr insRank []).map (·.1)

/-- ordered pairs of same-index plugin ids a log reveals -/
def revealedPairs (ps : List Plugin) (log : List String) : List (Nat × Nat) :=
  let inLog := log.filterMap fun n => ps.find? (fun p => U p.name == n)
  let rec go : List Plugin → List (Nat × Nat)
    | [] => []
    | p :: rest => (rest.filter (fun q => q.idx == p.idx)).map (fun q => (p.id, q.id)) ++ go rest
  go inLog

/-! ### one request against the model -/

structure Expect where
  handled : List String
  err : String
  vetoBy : String
  items : List String
  isNil : Bool
  after : List Plugin

def runModel (specs : List PSpec) (ps : List Plugin) (ev : Nat) (rid : String) (dying : List String := []) : Expect :=
  let pcs := ps.map fun p =>
    if dying.contains (U p.name) then (p, ({ out := .fatal .closed, reached := true, cost := 0 } : Call Items))
    else (p, callFor specs ev rid p)
  let (res, tr, after) := request merger 1 ev pcs
  let handled := tr.handled.map (U ·.name)
  match res with
  | .ok items => { handled, err := "", vetoBy := "", items, isNil := !hasReply ev, after }
  | .error (.veto p _) => { handled, err := "veto", vetoBy := U p.name, items := [], isNil := true, after }
  | .error (.merge _ _) => { handled, err := "conflict", vetoBy := "", items := [], isNil := true, after }

def cmpExpect (e : Expect) (log : List String) (r : Res) : Option String :=
  if e.handled != log then some s!"invocations: model {e.handled} impl {log}"
  else if e.err != r.err then some s!"error: model '{e.err}' impl '{r.err}' ({r.errtext})"
  else if e.err == "veto" && e.vetoBy != r.vetoBy then some s!"veto by: model {e.vetoBy} impl {r.vetoBy}"
  else if e.items != r.items then some s!"reply: model {e.items} impl {r.items}"
  else if e.isNil != r.isNil then some s!"reply nil: model {e.isNil} impl {r.isNil}"
  else none

/-! ### the property, on the observation itself -/

def subscribedN (mask ev : Nat) : Bool := mask == 0 || bitOf mask ev

def idxNum (s : String) : Nat := idxNat (S s)

def nondecreasing : List Nat → Bool
  | a :: b :: rest => a ≤ b && nondecreasing (b :: rest)
  | _ => true

def dupFree : List String → Bool
  | [] => true
  | x :: xs => !xs.contains x && dupFree xs

/-- Checks one request's invocation list and result against the property. `active` are the
    plugins that were registered and not disconnected when the request was made; `must` those
    of them that certainly were (for late registrations: known active). Returns a failure
    signature and text. -/
def specRequest (active must : List PSpec) (ev : Nat) (rid : String) (log : List Inv) (r : Res)
    (optional : List String := []) : Option (String × String) :=
  let names := log.map (·.p)
  let find (n : String) := active.find? (·.name == n)
  let bad (sig why : String) : Option (String × String) := some (sig, s!"request {rid} (event {ev}): {why}")
  if log.any (fun i => i.r != rid) then bad "foreign-request" s!"a handler was shown another request: {log.map (·.r)}"
  else if log.any (fun i => i.e != ev) then bad "wrong-event" s!"handlers saw events {log.map (·.e)}"
  else if !dupFree names then bad "invoked-twice" s!"a plugin was invoked more than once: {names}"
  else if names.any (fun n => (find n).isNone) then bad "unknown-plugin" s!"invocations {names}"
  else
  let logged := names.filterMap find
  if logged.any (fun p => !subscribedN p.mask ev) then
    bad "unsubscribed-invoked" s!"plugins not subscribed to the event were invoked: {(logged.filter (fun p => !subscribedN p.mask ev)).map (·.name)} (masks {(logged.filter (fun p => !subscribedN p.mask ev)).map (·.mask)})"
  else if !nondecreasing (logged.map (idxNum ·.idx)) then
    bad "index-order" s!"invoked in index order {logged.map (·.idx)}"
  else
  let vetoers := logged.filter (fun p => bitOf p.veto ev)
  let missingBelow (bound : Nat) := must.filter fun p =>
    subscribedN p.mask ev && idxNum p.idx < bound && !names.contains p.name
  if r.err == "" then
    let missing := must.filter fun p => subscribedN p.mask ev && !names.contains p.name
    if !missing.isEmpty then bad "missed" s!"subscribed plugins {missing.map (·.name)} were not invoked; invoked {names}"
    else if !vetoers.isEmpty then bad "veto-ignored" s!"{vetoers.map (·.name)} returned an error but the request succeeded"
    else
      -- a plugin that disconnects while its handler runs is invoked but contributes nothing
      let counted := logged.filter fun p => !optional.contains p.name ||
        (contrib p ev rid).all fun (k, v) => r.items.contains (k ++ "=" ++ v)
      let want := showItems (counted.flatMap fun p => contrib p ev rid)
      if hasReply ev && r.isNil then bad "no-reply" "success without a reply"
      else if want != r.items then bad "foreign-result" s!"reply {r.items}, the responses to this request give {want}"
      else none
  else if r.err == "veto" then
    match logged.getLast? with
    | none => bad "veto-from-nowhere" s!"failed with '{r.errtext}' but nobody was invoked"
    | some last =>
      if r.vetoReq != rid then bad "foreign-error" s!"error of another request: {r.errtext}"
      else if r.vetoBy != last.name then bad "continued-after-veto" s!"error by {r.vetoBy}, but invocations went on: {names}"
      else if vetoers.length != 1 then bad "veto-ignored" s!"vetoing plugins among the invoked: {vetoers.map (·.name)}"
      else if !(missingBelow (idxNum last.idx)).isEmpty then
        bad "missed" s!"subscribed plugins {(missingBelow (idxNum last.idx)).map (·.name)} before the veto were not invoked"
      else if !r.isNil || !r.items.isEmpty then bad "partial-result" s!"a failed request returned {r.items}"
      else none
  else if r.err == "conflict" then
    match logged.getLast? with
    | none => bad "conflict-from-nowhere" "conflict but nobody was invoked"
    | some last =>
      if (logged.filter (fun p => bitOf p.clash ev)).length < 2 || !bitOf last.clash ev then
        bad "spurious-conflict" s!"conflict reported, invoked {names}"
      else if !(missingBelow (idxNum last.idx)).isEmpty then bad "missed" "subscribed plugins before the conflict were not invoked"
      else if !r.isNil || !r.items.isEmpty then bad "partial-result" s!"a failed request returned {r.items}"
      else none
  else bad ("error-" ++ r.err) s!"unexpected failure: {r.errtext}"

/-! ### sequential cases -/

structure SeqSt where
  specs : List PSpec := []          -- every plugin ever registered
  plugins : List Plugin := []       -- model state
  active : List Nat := []           -- ids registered and not stopped (for the direct check)
  revealed : List (Nat × Nat) := [] -- tie orders seen since the last activation
  agree : Option String := none
  spec : Option (String × String) := none
  cover : List String := []
  nontriv : Bool := false
  reqs : Nat := 0

def lenClass (n : Nat) : String :=
  if n == 0 then "0" else if n == 1 then "1" else if n ≤ 3 then "2-3" else if n ≤ 8 then "4-8" else "9+"

def judgeSeq (inp obs : Json) : Except String Verdict := do
  let ops ← getArr inp "ops"
  let oops ← getArr obs "ops"
  let stream := getStrD inp "stream"
  let fail := getStrD obs "fail"
  if fail == "crashed" || fail == "blocked" then
    return { agree := false, spec := false, sig := "C06:" ++ fail,
             why := s!"the runtime process {fail}: {getStrD obs "panic"}", cover := ["stream:" ++ stream, fail] }
  if fail != "" then
    return { agree := false, spec := true, why := s!"harness: {fail}", cover := ["stream:" ++ stream, "harness-fail"] }
  if ops.length != oops.length then throw "ops/obs length mismatch"
  let mut st : SeqSt := {}
  for (op, oo) in ops.zip oops do
    let kind ← getStr op "op"
    match kind with
    | "reg" =>
      let pj ← getObj op "plugin"
      let s ← decSpec st.specs.length pj
      if !getBoolD oo "ok" then
        st := { st with agree := st.agree <|> some s!"registration of {s.idx}-{s.name} failed" }
      st := { st with specs := st.specs ++ [s], plugins := activate st.plugins (mkPlugin s),
                      active := st.active ++ [s.id], revealed := [],
                      cover := (if s.raw then ["plugin:raw"] else ["plugin:stub"]) ++
                               (if s.mask == 0 then ["mask:empty" ++ (if s.raw then ":literal" else ":via-stub")] else []) ++ st.cover }
    | "stop" =>
      let n ← getStr op "name"
      match st.specs.find? (·.name == n) with
      | some s =>
        st := { st with plugins := disconnect st.plugins s.id, active := st.active.filter (· != s.id),
                        cover := "op:stop" :: st.cover }
      | none => throw s!"stop of unknown plugin {n}"
    | "req" =>
      let ev ← getNat op "ev"
      let rid ← getStr op "id"
      let log ← (← getArr oo "log").mapM decInv
      let res ← decRes (← getObj oo "res")
      let names := log.map (·.p)
      -- model: the arrangement revealed by this log must be a legal one and must not contradict
      -- what earlier requests revealed since the last activation
      let arr := arrange st.plugins names
      let legal := arr.isPerm st.plugins && sortedB arr
      let pairs := revealedPairs arr names
      let contradiction := pairs.any fun (a, b) => st.revealed.contains (b, a)
      let e := runModel st.specs arr ev rid
      let dis := if !legal then some "tie arrangement is not a sorted permutation (driver)" else
                 if contradiction then some s!"request {rid}: equal-index plugins changed their order without an activation: {names}"
                 else (cmpExpect e names res).map (s!"request {rid} (event {ev}): " ++ ·)
      let activeSpecs := st.specs.filter fun s => st.active.contains s.id
      let sp := specRequest activeSpecs activeSpecs ev rid log res
      let subs := activeSpecs.filter fun s => subscribedN s.mask ev
      let tie := pairs.length > 0
      st := { st with plugins := e.after, revealed := pairs ++ st.revealed,
                      agree := st.agree <|> dis, spec := st.spec <|> sp, reqs := st.reqs + 1,
                      nontriv := st.nontriv || (log.length ≥ 2) || (log.length ≥ 1 && subs.length < activeSpecs.length),
                      cover := [s!"ev:{ev}", "res:" ++ (if res.err == "" then "ok" else res.err),
                                "invoked:" ++ lenClass log.length] ++ (if tie then ["tie:equal-index-invoked"] else []) ++
                               (if arr != st.plugins then ["tie:order-differs-from-insertion"] else []) ++ st.cover }
    | k => throw s!"unknown op {k}"
  -- exhaustive bookkeeping for the mask stream: which hundred-blocks of masks does this case hold
  let mut blocks : List String := []
  if stream == "masks" then
    let masks := (st.specs.filter (!·.raw)).map (·.mask)
    let evs := ops.filterMap fun op => if getStrD op "op" == "req" then some (getNatD op "ev") else none
    let allEv := (List.range 13).all fun e => evs.contains (e + 1)
    for b in List.range 82 do
      let lo := b * 100
      let hi := min (lo + 99) 8191
      if allEv && (List.range (hi + 1 - lo)).all (fun k => masks.contains (lo + k)) then
        blocks := s!"masks:{lo}-{hi}" :: blocks
  let cov := (["kind:seq", "stream:" ++ stream] ++ blocks ++ st.cover).eraseDups
  pure { agree := st.agree.isNone, spec := st.spec.isNone,
         why := match st.spec, st.agree with
           | some (_, w), _ => w
           | none, some w => w
           | none, none => "",
         sig := match st.spec with | some (s, _) => "C06:" ++ s | none => "",
         cover := cov, nontrivial := st.nontriv,
         model := Json.mkObj [("requests", st.reqs)] }

/-! ### concurrent cases -/

structure Stamp where
  seq : Nat
  plugin : String
  req : String
  ev : Nat

def decStamp (j : Json) : Except String Stamp := do
  pure { seq := ← getNat j "seq", plugin := ← getStr j "plugin", req := ← getStr j "req", ev := ← getNat j "ev" }

structure CReq where
  caller : Nat
  k : Nat
  ev : Nat
  rid : String
  res : Res
  stamps : List Stamp     -- in history order
  deriving Inhabited

/-- Kahn's algorithm: does the precedence relation (edges a → b) over `n` nodes have a
    topological order? -/
def acyclic (n : Nat) (edges : List (Nat × Nat)) : Bool :=
  let rec go (fuel : Nat) (alive : List Nat) (edges : List (Nat × Nat)) : Bool :=
    match fuel with
    | 0 => alive.isEmpty
    | fuel + 1 =>
      if alive.isEmpty then true else
      let free := alive.filter fun v => !edges.any (fun e => e.2 == v)
      if free.isEmpty then false else
      go fuel (alive.filter (!free.contains ·)) (edges.filter fun e => !free.contains e.1)
  go (n + 1) (List.range n) edges

def consecutivePairs : List Nat → List (Nat × Nat)
  | a :: b :: rest => (a, b) :: consecutivePairs (b :: rest)
  | _ => []

def judgeConc (inp obs : Json) : Except String Verdict := do
  let fail := getStrD obs "fail"
  if fail == "crashed" || fail == "blocked" then
    return { agree := false, spec := false, sig := "C06:" ++ fail,
             why := s!"the runtime process {fail}: {getStrD obs "panic"}", cover := ["kind:conc", fail] }
  if fail != "" then
    return { agree := false, spec := true, why := s!"harness: {fail}", cover := ["kind:conc", "harness-fail"] }
  let early ← (← getArr inp "plugins").zipIdx.mapM fun (j, i) => decSpec i j
  let late ← (← getArr inp "late").zipIdx.mapM fun (j, i) => decSpec (early.length + i) j
  let specs := early ++ late
  let hist ← (← getArr obs "hist").mapM decStamp
  -- A leaving plugin shuts its connection from inside its After-th handler invocation (so that
  -- reply is lost and nothing reaches it afterwards). `death`: the stamp of that invocation.
  let leaveAfter : List (String × Nat) := (← getArr inp "leaving").map fun j =>
    (getStrD j "name", max 1 (getNatD j "after"))
  let death (name : String) : Option Nat :=
    match leaveAfter.find? (·.1 == name) with
    | none => none
    | some (_, k) => ((hist.filter (·.plugin == name)).drop (k - 1)).head?.map (·.seq)
  let leaving := early.filter fun s => (death s.name).isSome
  let staying := early.filter fun s => (death s.name).isNone
  let leavingNames := leaving.map (·.name)
  let callersIn ← getArr inp "callers"
  let callersObs ← getArr obs "results"
  if callersIn.length != callersObs.length then throw "callers/results length mismatch"
  -- requests
  let mut reqs : Array CReq := #[]
  for ((ci, co), c) in (callersIn.zip callersObs).zipIdx do
    let qs ← match ci with | Json.arr a => pure a.toList | _ => throw "caller: not an array"
    let rs ← match co with | Json.arr a => pure a.toList | _ => throw "results: not an array"
    if qs.length != rs.length then throw "caller requests/results length mismatch"
    for ((q, r), k) in (qs.zip rs).zipIdx do
      let rid ← getStr q "id"
      reqs := reqs.push { caller := c, k := k, ev := ← getNat q "ev", rid := rid, res := ← decRes r,
                          stamps := hist.filter (·.req == rid) }
  let reqL := reqs.toList
  let ridIx (rid : String) : Option Nat := reqL.findIdx? (·.rid == rid)
  -- ---- the property, directly on the observation
  let mut sp : Option (String × String) := none
  -- (0) every stamp belongs to a request of this case
  if let some s := hist.find? (fun s => (ridIx s.req).isNone) then
    sp := sp <|> some ("foreign-request", s!"handler of {s.plugin} saw unknown request {s.req}")
  -- (1) per request: each once, index order, subscribed only, inside the caller's call, own result
  for q in reqL do
    let log := q.stamps.map fun s => ({ p := s.plugin, r := s.req, e := s.ev } : Inv)
    -- plugins that must have been invoked: the early ones, and late ones already seen by a
    -- request that had returned before this one was called
    let seenBefore := late.filter fun lp => reqL.any fun q' =>
      q'.res.t1 < q.res.t0 && q'.stamps.any (·.plugin == lp.name)
    let stillThere := leaving.filter fun lp => match death lp.name with
      | some dth => q.res.t1 < dth
      | none => true
    sp := sp <|> specRequest specs (staying ++ stillThere ++ seenBefore) q.ev q.rid log q.res leavingNames
    -- a plugin that disconnected is never invoked again
    for lp in leaving do
      if let some dth := death lp.name then
        if let some st := q.stamps.find? (fun st => st.plugin == lp.name && st.seq > dth) then
          sp := sp <|> some ("invoked-after-disconnect", s!"request {q.rid}: plugin {lp.name} closed its connection at tick {dth} and was invoked again at tick {st.seq}")
    if let some s := q.stamps.find? (fun s => s.seq < q.res.t0 || s.seq > q.res.t1) then
      sp := sp <|> some ("outside-call", s!"request {q.rid}: handler of {s.plugin} ran outside the caller's call")
  -- (2) one common order: the union of the plugins' own orders is acyclic
  let mut edges : List (Nat × Nat) := []
  for p in specs do
    let seen := (hist.filter (·.plugin == p.name)).filterMap (ridIx ·.req)
    edges := consecutivePairs seen ++ edges
  if !acyclic reqL.length edges then
    sp := sp <|> some ("no-common-order", "two plugins saw two requests in opposite orders")
  -- ---- the lock model: relays are atomic, in stamp order; replay them on the model
  let mut dis : Option String := none
  -- contiguity
  let reqSeq := hist.map (·.req)
  let rec blocks : List String → List String
    | a :: b :: rest => if a == b then blocks (b :: rest) else a :: blocks (b :: rest)
    | l => l
  let bl := blocks reqSeq
  let interleaved := !dupFree bl
  if interleaved then
    dis := some "invocations of different requests interleave: the relay is not atomic"
  -- Order: requests that reached a handler, at their first stamp. Replaying them on the model
  -- gives the sequence of plugin lists in force between them. A request that reached nobody
  -- changes nothing; it is accepted if SOME point inside its caller's bracket (t0, t1) has a
  -- plugin list on which the model, too, invokes nobody and returns what the caller got.
  let firstSeq (q : CReq) : Nat := (q.stamps.head?.map (·.seq)).getD 0
  let insK (x : CReq) (l : List CReq) : List CReq :=
    let rec go : List CReq → List CReq
      | [] => [x]
      | y :: ys => if firstSeq x < firstSeq y then x :: y :: ys else y :: go ys
    go l
  let stamped := (reqL.filter (!·.stamps.isEmpty)).foldr insK []
  let silent := reqL.filter (·.stamps.isEmpty)
  let (rep, states) : Option String × List (Nat × List Plugin) := Id.run do
    let mut d : Option String := none
    let mut plugins : List Plugin := early.foldl (fun ps s => activate ps (mkPlugin s)) []
    let mut activated : List Nat := early.map (·.id)
    let mut revealed : List (Nat × Nat) := []
    let mut states : List (Nat × List Plugin) := [(0, plugins)]   -- (from this tick on, list), latest first
    for q in stamped do
      let names := q.stamps.map (·.plugin)
      -- a late plugin that shows up for the first time was activated before this relay
      for lp in late do
        if names.contains lp.name && !activated.contains lp.id then
          plugins := activate plugins (mkPlugin lp)
          activated := lp.id :: activated
          revealed := []
      let arr := arrange plugins names
      let pairs := revealedPairs arr names
      if pairs.any (fun (a, b) => revealed.contains (b, a)) then
        d := d <|> some s!"request {q.rid}: equal-index plugins changed their order without an activation"
      -- the leaving plugins whose last invocation this is: invoked, reply lost, dropped
      let dying := (leaving.filter fun lp => match death lp.name with
        | some dth => q.stamps.any fun st => st.plugin == lp.name && st.seq == dth
        | none => false).map (·.name)
      let e := runModel specs arr q.ev q.rid dying
      d := d <|> (cmpExpect e names q.res).map (s!"request {q.rid} (event {q.ev}): " ++ ·)
      plugins := e.after
      revealed := pairs ++ revealed
      states := (firstSeq q, plugins) :: states
    return (d, states.reverse)
  dis := dis <|> rep
  -- states: [(0, l0), (s1, l1), …]: list l_i is in force from relay i (first stamp s_i) to relay i+1
  let rec windows : List (Nat × List Plugin) → List (Nat × Nat × List Plugin)
    | (a, l) :: (b, l') :: rest => (a, b, l) :: windows ((b, l') :: rest)
    | [(a, l)] => [(a, 1000000000, l)]
    | [] => []
  let wins := windows states
  for q in silent do
    let fits' := wins.any fun (a, b, l) =>
      a < q.res.t1 && q.res.t0 < b && (cmpExpect (runModel specs l q.ev q.rid) [] q.res).isNone
    if !fits' then
      dis := dis <|> some s!"request {q.rid} (event {q.ev}) reached nobody and returned '{q.res.err}' {q.res.items}: at no point of its call does the model do the same"
  let overl := reqL.any fun q => reqL.any fun q' =>
    q'.caller != q.caller && q'.res.t0 < q.res.t1 && q.res.t0 < q'.res.t1
  let nInv := hist.length
  pure { agree := dis.isNone, spec := sp.isNone,
         why := match sp, dis with
           | some (_, w), _ => w
           | none, some w => w
           | none, none => "",
         sig := match sp with | some (s, _) => "C06:" ++ s | none => "",
         cover := ["kind:conc", "trace", s!"callers:{lenClass callersIn.length}", s!"late:{late.length}", s!"leaving:{leaving.length}",
                   s!"procs:{getNatD inp "procs"}"] ++ (if overl then ["overlapping-calls"] else ["no-overlap"]) ++
                  (if interleaved then ["interleaved"] else []),
         nontrivial := overl && nInv > 0,
         model := Json.mkObj [("requests", reqL.length), ("invocations", nInv)] }

def judge (j : Json) : Except String Verdict := do
  let inp ← getObj j "in"
  let obs ← getObj j "obs"
  match getStrD inp "kind" with
  | "seq" => judgeSeq inp obs
  | "conc" => judgeConc inp obs
  | k => throw s!"unknown case kind {k}"

def main : IO UInt32 := runLines judge
end Drv.C06
