/-
JSON decoders for the C01–C05 line protocol (harness/merge/types.go): every field is
emitted by the harness, maps arrive as sorted lists of [key, value] pairs.
-/
import Driver.Common
import NriModel.Result

open Lean Drv Nri Nri.NApi

namespace Drv.Merge

def optOf (j : Json) (k : String) (f : Json → Except String α) : Except String (Option α) :=
  match getOpt j k with
  | none => pure none
  | some v => some <$> f v

def asInt (j : Json) : Except String Int := match j.getInt? with | .ok v => pure v | .error e => throw e
def asNat (j : Json) : Except String Nat := match j.getNat? with | .ok v => pure v | .error e => throw e
def asBool (j : Json) : Except String Bool := match j.getBool? with | .ok v => pure v | .error e => throw e
def asStr (j : Json) : Except String Str := match j.getStr? with | .ok v => pure (S v) | .error e => throw e

def strF (j : Json) (k : String) : Except String Str := S <$> getStr j k
def strsF (j : Json) (k : String) : Except String (List Str) := (·.map S) <$> getStrList j k
def arrF (j : Json) (k : String) (f : Json → Except String α) : Except String (List α) := do
  (← getArr j k).mapM f

def pairsF (j : Json) (k : String) : Except String (AList Str Str) := do
  (← getArr j k).mapM fun p => match p with
    | Json.arr #[Json.str a, Json.str b] => pure (S a, S b)
    | _ => throw s!"field {k}: expected [key,value] pairs"

def decMount (j : Json) : Except String Mount := do
  pure { destination := ← strF j "destination", type := ← strF j "type", source := ← strF j "source",
         options := ← strsF j "options" }

def decHook (j : Json) : Except String Hook := do
  pure { path := ← strF j "path", args := ← strsF j "args", env := ← strsF j "env",
         timeout := ← optOf j "timeout" asInt }

def decHooks (j : Json) : Except String Hooks := do
  pure { prestart := ← arrF j "prestart" decHook, createRuntime := ← arrF j "createRuntime" decHook,
         createContainer := ← arrF j "createContainer" decHook, startContainer := ← arrF j "startContainer" decHook,
         poststart := ← arrF j "poststart" decHook, poststop := ← arrF j "poststop" decHook }

def decDevice (j : Json) : Except String Device := do
  pure { path := ← strF j "path", type := ← strF j "type", major := ← getInt j "major", minor := ← getInt j "minor",
         fileMode := ← optOf j "fileMode" asNat, uid := ← optOf j "uid" asNat, gid := ← optOf j "gid" asNat }

def decKV (j : Json) : Except String KeyValue := do
  pure { key := ← strF j "key", value := ← strF j "value" }

def decRlimit (j : Json) : Except String Rlimit := do
  pure { type := ← strF j "type", hard := ← getNat j "hard", soft := ← getNat j "soft" }

def decHugepage (j : Json) : Except String Hugepage := do
  pure { pageSize := ← strF j "pageSize", limit := ← getNat j "limit" }

def decMemory (j : Json) : Except String Memory := do
  pure { limit := ← optOf j "limit" asInt, reservation := ← optOf j "reservation" asInt,
         swap := ← optOf j "swap" asInt, kernel := ← optOf j "kernel" asInt,
         kernelTcp := ← optOf j "kernelTcp" asInt, swappiness := ← optOf j "swappiness" asNat,
         disableOomKiller := ← optOf j "disableOomKiller" asBool, useHierarchy := ← optOf j "useHierarchy" asBool }

def decCpu (j : Json) : Except String Cpu := do
  pure { shares := ← optOf j "shares" asNat, quota := ← optOf j "quota" asInt, period := ← optOf j "period" asNat,
         realtimeRuntime := ← optOf j "realtimeRuntime" asInt, realtimePeriod := ← optOf j "realtimePeriod" asNat,
         cpus := ← strF j "cpus", mems := ← strF j "mems" }

def decResources (j : Json) : Except String Resources := do
  pure { memory := ← optOf j "memory" decMemory, cpu := ← optOf j "cpu" decCpu,
         hugepages := ← arrF j "hugepages" decHugepage,
         blockioClass := ← optOf j "blockioClass" asStr, rdtClass := ← optOf j "rdtClass" asStr,
         unified := ← pairsF j "unified", pids := ← optOf j "pids" asInt }

def decContainer (j : Json) : Except String Container := do
  pure { id := ← strF j "id", annotations := ← pairsF j "annotations", args := ← strsF j "args",
         env := ← strsF j "env", mounts := ← arrF j "mounts" decMount, hooks := ← decHooks (← getObj j "hooks"),
         rlimits := ← arrF j "rlimits" decRlimit, devices := ← arrF j "devices" decDevice,
         resources := ← decResources (← getObj j "resources"),
         oomScoreAdj := ← optOf j "oomScoreAdj" asInt, cgroupsPath := ← strF j "cgroupsPath",
         rest := ← strF j "rest" }

def decAdjust (j : Json) : Except String Adjustment := do
  pure { annotations := ← pairsF j "annotations", mounts := ← arrF j "mounts" decMount,
         env := ← arrF j "env" decKV, hooks := ← optOf j "hooks" decHooks, hasLinux := ← getBool j "hasLinux",
         devices := ← arrF j "devices" decDevice, resources := ← optOf j "resources" decResources,
         cgroupsPath := ← strF j "cgroupsPath", oomScoreAdj := ← optOf j "oomScoreAdj" asInt,
         rlimits := ← arrF j "rlimits" decRlimit, cdiDevices := ← strsF j "cdiDevices", args := ← strsF j "args" }

def decUpdate (j : Json) : Except String Update := do
  pure { containerId := ← strF j "containerId", resources := ← optOf j "resources" decResources,
         ignoreFailure := ← getBool j "ignoreFailure" }

def decOptUpdate (j : Json) : Except String (Option Update) :=
  match j with
  | Json.null => pure none
  | _ => some <$> decUpdate j

structure PluginRsp where
  name : Str
  rsp : Result.Response

def decPlugin (j : Json) : Except String PluginRsp := do
  pure { name := ← strF j "name",
         rsp := { adjust := ← optOf j "adjust" decAdjust, updates := ← arrF j "updates" decUpdate } }

structure CaseIn where
  kind : String
  container : Container
  resources : Option Resources
  plugins : List PluginRsp
  stream : String

def decCaseIn (j : Json) : Except String CaseIn := do
  pure { kind := ← getStr j "kind", container := ← decContainer (← getObj j "container"),
         resources := ← optOf j "resources" decResources, plugins := ← arrF j "plugins" decPlugin,
         stream := getStrD j "stream" }

structure ObsErr where
  kind : String
  p : Str
  q : Str
  subject : Str
  /-- the error text did not have the known wording: `p`, `q` are the first two plugin names
      found in it, `subject` is empty; judge by looking for the item's key in `text` -/
  loose : Bool := false
  text : Str := []

/-- an OCI spec rendered family by family into canonical strings (harness/merge/spec.go) -/
structure SpecFamilies where
  fams : List (String × String)
  devRules : List String
  staleUnexplained : List String := []

def decFamilies (j : Json) : Except String SpecFamilies := do
  let names := ["annotations", "args", "envOrdered", "envSorted", "mounts", "hooks", "rlimits", "devices",
                "resources", "blockio", "rdt", "cgroupsPath", "oomScoreAdj", "rest"]
  pure { fams := ← names.mapM (fun n => do pure (n, ← getStr j n)), devRules := ← getStrList j "devRules",
         staleUnexplained := (getStrList j "staleUnexplained").toOption.getD [] }

structure CaseObs where
  comb : Option SpecFamilies := none
  seq : Option SpecFamilies := none
  genErr : String := ""
  err : ObsErr
  adjust : Option Adjustment
  updates : List (Option Update)
  invoked : List Str
  viewsC : List Container      -- creation requests
  viewsR : List Resources      -- update requests

def decCaseObs (kind : String) (j : Json) : Except String CaseObs := do
  let e ← getObj j "err"
  let views ← getArr j "views"
  pure { comb := ← optOf j "comb" decFamilies, seq := ← optOf j "seq" decFamilies, genErr := getStrD j "genErr",
         err := { kind := ← getStr e "kind", p := S (getStrD e "p"), q := S (getStrD e "q"), subject := S (getStrD e "subject"),
                  loose := (e.getObjValAs? Bool "loose").toOption.getD false, text := S (getStrD e "text") },
         adjust := ← optOf j "adjust" decAdjust,
         updates := ← arrF j "updates" decOptUpdate,
         invoked := ← strsF j "invoked",
         viewsC := ← (if kind == "create" then views.mapM decContainer else pure []),
         viewsR := ← (if kind == "update" then views.mapM decResources else pure []) }

/-! ### compact rendering for diagnostics -/

def shS (s : Str) : String := "\"" ++ U s ++ "\""
def shL (f : α → String) (l : List α) : String := "[" ++ ", ".intercalate (l.map f) ++ "]"
def shO (f : α → String) : Option α → String | none => "-" | some x => f x
def shPairs (m : AList Str Str) : String := shL (fun (k, v) => U k ++ "=" ++ U v) m
def shMount (m : Mount) : String := s!"{U m.destination}<{U m.source}:{U m.type}:{shL U m.options}>"
def shDevice (d : Device) : String := s!"{U d.path}<{U d.type} {d.major}:{d.minor} {shO toString d.fileMode} {shO toString d.uid} {shO toString d.gid}>"
def shHook (h : Hook) : String := s!"{U h.path}{shL U h.args}{shL U h.env}{shO toString h.timeout}"
def shHooks (h : Hooks) : String :=
  s!"pre{shL shHook h.prestart} cr{shL shHook h.createRuntime} cc{shL shHook h.createContainer} sc{shL shHook h.startContainer} ps{shL shHook h.poststart} pst{shL shHook h.poststop}"
def shMem (m : Memory) : String :=
  s!"mem({shO toString m.limit},{shO toString m.reservation},{shO toString m.swap},{shO toString m.kernel},{shO toString m.kernelTcp},{shO toString m.swappiness},{shO toString m.disableOomKiller},{shO toString m.useHierarchy})"
def shCpu (c : Cpu) : String :=
  s!"cpu({shO toString c.shares},{shO toString c.quota},{shO toString c.period},{shO toString c.realtimeRuntime},{shO toString c.realtimePeriod},{U c.cpus},{U c.mems})"
def shRes (r : Resources) : String :=
  s!"{shO shMem r.memory} {shO shCpu r.cpu} hp{shL (fun h => U h.pageSize ++ ":" ++ toString h.limit) r.hugepages} bio={shO U r.blockioClass} rdt={shO U r.rdtClass} uni{shPairs r.unified} pids={shO toString r.pids}"
def shContainer (c : Container) : String :=
  s!"ann{shPairs c.annotations} args{shL U c.args} env{shL U c.env} mounts{shL shMount c.mounts} hooks({shHooks c.hooks}) rlimits{shL (fun l => s!"{U l.type}:{l.hard}:{l.soft}") c.rlimits} dev{shL shDevice c.devices} res({shRes c.resources}) oom={shO toString c.oomScoreAdj} cg={U c.cgroupsPath} rest={U c.rest}"
def shAdjust (a : Adjustment) : String :=
  s!"ann{shPairs a.annotations} mounts{shL shMount a.mounts} env{shL (fun e => U e.key ++ "=" ++ U e.value) a.env} hooks({shO shHooks a.hooks}) linux={a.hasLinux} dev{shL shDevice a.devices} res({shO shRes a.resources}) cg={U a.cgroupsPath} oom={shO toString a.oomScoreAdj} rlimits{shL (fun l => s!"{U l.type}:{l.hard}:{l.soft}") a.rlimits} cdi{shL U a.cdiDevices} args{shL U a.args}"
def shUpdate (u : Update) : String := s!"{U u.containerId} ignore={u.ignoreFailure} res({shO shRes u.resources})"

end Drv.Merge
