import NriModel.Basic
import NriModel.AuditCore
