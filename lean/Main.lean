import Driver.C01
import Driver.C02
import Driver.C03
import Driver.C04
import Driver.C05
import Driver.C06
import Driver.C07
import Driver.C08
import Driver.C09
import Driver.C10
import Driver.C11
import Driver.C12
import Driver.C13
import Driver.C14
import Driver.C15
import Driver.C16
import Driver.C17
import Driver.C18
import Driver.C19
import Driver.C20

/-- `nridrv <property-id>`: reads harness lines on stdin, prints verdict lines. -/
def main (args : List String) : IO UInt32 := do
  match args with
  | ["C01"] => Drv.C01.main
  | ["C02"] => Drv.C02.main
  | ["C03"] => Drv.C03.main
  | ["C04"] => Drv.C04.main
  | ["C05"] => Drv.C05.main
  | ["C06"] => Drv.C06.main
  | ["C07"] => Drv.C07.main
  | ["C08"] => Drv.C08.main
  | ["C09"] => Drv.C09.main
  | ["C10"] => Drv.C10.main
  | ["C11"] => Drv.C11.main
  | ["C12"] => Drv.C12.main
  | ["C13"] => Drv.C13.main
  | ["C14"] => Drv.C14.main
  | ["C15"] => Drv.C15.main
  | ["C16"] => Drv.C16.main
  | ["C17"] => Drv.C17.main
  | ["C18"] => Drv.C18.main
  | ["C19"] => Drv.C19.main
  | ["C20"] => Drv.C20.main
  | _ => do
    IO.eprintln "usage: nridrv C01..C20 < cases.jsonl"
    return 2
