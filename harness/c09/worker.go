package c09

import (
	"bufio"
	"context"
	"encoding/json"
	"errors"
	"fmt"
	"io"
	"os"
	"path/filepath"
	"strconv"
	"strings"
	"sync"
	"time"

	nri "github.com/containerd/nri/pkg/adaptation"
	"github.com/containerd/nri/pkg/api"
	"github.com/containerd/nri/pkg/stub"
	"github.com/containerd/ttrpc"
	"github.com/sirupsen/logrus"
	"google.golang.org/grpc/codes"
	"google.golang.org/grpc/status"
	"google.golang.org/protobuf/encoding/protowire"
	"google.golang.org/protobuf/proto"
)

// workerMain: read {"id","in"} lines on stdin, answer {"id","obs"} lines on stdout.
func workerMain(scratch string) error {
	logrus.SetOutput(io.Discard)
	in := bufio.NewReaderSize(os.Stdin, 1<<20)
	out := bufio.NewWriter(os.Stdout)
	seq := 0
	for {
		line, err := in.ReadBytes('\n')
		if len(line) > 1 {
			var rq workerReq
			if e := json.Unmarshal(line, &rq); e != nil {
				return e
			}
			seq++
			dir := filepath.Join(scratch, strconv.Itoa(seq))
			if e := os.MkdirAll(dir, 0o755); e != nil {
				return e
			}
			if len(dir) > 80 {
				// unix socket paths must stay below ~100 bytes: fall back to a short directory
				if d, e := os.MkdirTemp("", "c09-"); e == nil {
					os.RemoveAll(dir)
					dir = d
				}
			}
			t0 := time.Now()
			obs := runCase(rq.In, dir)
			if os.Getenv("VERIFH_C09_TIMING") != "" {
				fmt.Fprintf(os.Stderr, "TIMING %s %d ms %s\n", rq.ID, time.Since(t0).Milliseconds(), rq.In.Note)
			}
			os.RemoveAll(dir)
			b, e := json.Marshal(workerRsp{ID: rq.ID, Obs: obs})
			if e != nil {
				return e
			}
			out.Write(b)
			out.WriteByte('\n')
			if e := out.Flush(); e != nil {
				return e
			}
			if obs.Outcome == "timeout" {
				// something is stuck in this process (that is the observation); do not try to
				// tear it down gracefully — the parent starts a fresh worker
				os.Exit(0)
			}
		}
		if err != nil {
			if err == io.EOF {
				return nil
			}
			return err
		}
	}
}

var (
	padCache = map[int]string{}
	padMu    sync.Mutex
)

func pad2(n int) string { return pad(n) }

func pad(n int) string {
	padMu.Lock()
	defer padMu.Unlock()
	if s, ok := padCache[n]; ok {
		return s
	}
	s := strings.Repeat("x", n)
	padCache[n] = s
	return s
}

func expand(runs [][2]int) []int {
	var out []int
	for _, r := range runs {
		for i := 0; i < r[0]; i++ {
			out = append(out, r[1])
		}
	}
	return out
}

func compress(vals []int) [][2]int {
	out := [][2]int{}
	for _, v := range vals {
		if n := len(out); n > 0 && out[n-1][1] == v {
			out[n-1][0]++
		} else {
			out = append(out, [2]int{1, v})
		}
	}
	return out
}

// toRuns encodes an index list as [start,len] runs of consecutive indices.
func toRuns(idx []int) Runs {
	out := Runs{}
	for _, v := range idx {
		if n := len(out); n > 0 && out[n-1][0]+out[n-1][1] == v {
			out[n-1][1]++
		} else {
			out = append(out, [2]int{v, 1})
		}
	}
	return out
}

// buildState builds the runtime's state. The slices have exactly `in.Slack` elements of
// spare capacity: with none, an out-of-range `[:n]` in the sender panics; with some, it
// silently exposes nil elements the runtime never supplied.
func buildState(in *In) ([]*api.PodSandbox, []*api.Container) {
	pp, cp := expand(in.Pods), expand(in.Ctrs)
	pods := make([]*api.PodSandbox, 0, len(pp)+in.Slack)
	ctrs := make([]*api.Container, 0, len(cp)+in.Slack)
	for i, p := range pp {
		pod := &api.PodSandbox{
			Id:        "p" + strconv.Itoa(i),
			Name:      "pod-" + strconv.Itoa(i),
			Uid:       "uid-" + strconv.Itoa(i),
			Namespace: "ns",
			Labels:    map[string]string{"idx": strconv.Itoa(i)},
		}
		if p > 0 {
			pod.Annotations = map[string]string{"pad": pad(p)}
		}
		pods = append(pods, pod)
	}
	np := len(pods)
	for i, p := range cp {
		ctr := &api.Container{
			Id:    "c" + strconv.Itoa(i),
			Name:  "ctr-" + strconv.Itoa(i),
			State: api.ContainerState_CONTAINER_RUNNING,
			Args:  []string{"sleep", strconv.Itoa(i)},
			Env:   []string{"IDX=" + strconv.Itoa(i)},
		}
		if np > 0 {
			ctr.PodSandboxId = "p" + strconv.Itoa(i%np)
		}
		if p > 0 {
			ctr.Labels = map[string]string{"pad": pad(p)}
		}
		ctrs = append(ctrs, ctr)
	}
	return pods, ctrs
}

func idxOf(id string, prefix byte) int {
	if len(id) < 2 || id[0] != prefix {
		return -1
	}
	n, err := strconv.Atoi(id[1:])
	if err != nil {
		return -1
	}
	return n
}

// scanSync walks the wire bytes of a SynchronizeRequest and extracts the indices of its
// pods and containers (field 1 of each object is its id) and the `more` flag, without
// materialising the objects.
func scanSync(b []byte) (pods, ctrs []int, more bool, err error) {
	pods, ctrs = []int{}, []int{}
	for len(b) > 0 {
		num, typ, n := protowire.ConsumeTag(b)
		if n < 0 {
			return nil, nil, false, protowire.ParseError(n)
		}
		b = b[n:]
		switch {
		case (num == 1 || num == 2) && typ == protowire.BytesType:
			v, n := protowire.ConsumeBytes(b)
			if n < 0 {
				return nil, nil, false, protowire.ParseError(n)
			}
			b = b[n:]
			id := ""
			for len(v) > 0 {
				inum, ityp, m := protowire.ConsumeTag(v)
				if m < 0 {
					return nil, nil, false, protowire.ParseError(m)
				}
				v = v[m:]
				if inum == 1 && ityp == protowire.BytesType {
					s, m := protowire.ConsumeBytes(v)
					if m < 0 {
						return nil, nil, false, protowire.ParseError(m)
					}
					id = string(s)
					break
				}
				m = protowire.ConsumeFieldValue(inum, ityp, v)
				if m < 0 {
					return nil, nil, false, protowire.ParseError(m)
				}
				v = v[m:]
			}
			if num == 1 {
				pods = append(pods, idxOf(id, 'p'))
			} else {
				ctrs = append(ctrs, idxOf(id, 'c'))
			}
		case num == 3 && typ == protowire.VarintType:
			v, n := protowire.ConsumeVarint(b)
			if n < 0 {
				return nil, nil, false, protowire.ParseError(n)
			}
			b = b[n:]
			more = v != 0
		default:
			n := protowire.ConsumeFieldValue(num, typ, b)
			if n < 0 {
				return nil, nil, false, protowire.ParseError(n)
			}
			b = b[n:]
		}
	}
	return pods, ctrs, more, nil
}

type recorder struct {
	sync.Mutex
	stallAt  int           // > 0: the reply to the stallAt-th SynchronizeRequest (if it says More) is held back for stallFor
	stallFor time.Duration // ... which is longer than the request timeout: the runtime's call times out although the stub HAS collected the chunk
	cutAfter int    // > 0: answer the (cutAfter+1)-th SynchronizeRequest with an RPC error (restart stream)
	onChange func() // called (unlocked) after the record changed; pre-installed plugins flush to a file
	nObjs    int
	attempts []Attempt
	plan     []ChunkObs
	runaway  bool
	detail   []string
}

func (r *recorder) note(format string, a ...interface{}) {
	r.Lock()
	defer r.Unlock()
	if len(r.detail) < 8 {
		r.detail = append(r.detail, fmt.Sprintf(format, a...))
	}
}

// clientIcpt sits on the runtime's ttrpc client: it sees every Synchronize attempt and
// how the transport / plugin answered it.
func (r *recorder) clientIcpt(ctx context.Context, req *ttrpc.Request, resp *ttrpc.Response, info *ttrpc.UnaryClientInfo, invoker ttrpc.Invoker) error {
	if !strings.HasSuffix(info.FullMethod, "/Synchronize") {
		return invoker(ctx, req, resp)
	}
	pods, ctrs, more, perr := scanSync(req.Payload)
	if perr != nil {
		r.note("client: undecodable request: %v", perr)
	}
	a := Attempt{Pods: toRuns(pods), Ctrs: toRuns(ctrs), More: more, Size: len(req.Payload)}
	err := invoker(ctx, req, resp)
	var oe *ttrpc.OversizedMessageErr
	switch {
	case err == nil && (resp.Status == nil || resp.Status.Code == int32(codes.OK)):
		a.Res = "ok"
		var rpl api.SynchronizeResponse
		if e := proto.Unmarshal(resp.Payload, &rpl); e != nil {
			r.note("client: undecodable reply: %v", e)
		}
		a.RMore, a.RUpdate = rpl.More, len(rpl.Update)
	case errors.As(err, &oe):
		a.Res = "oversized"
		a.Len = oe.RejectedLength()
	default:
		a.Res = "err"
	}
	r.Lock()
	// a runaway exchange is cut off by the server interceptor; keep the record bounded
	if len(r.attempts) <= r.nObjs+16 {
		r.attempts = append(r.attempts, a)
	}
	r.Unlock()
	return err
}

// serverIcpt sits on the stub's ttrpc server: it sees every SynchronizeRequest that
// reached the plugin end, before the stub handles it.
func (r *recorder) serverIcpt(ctx context.Context, unmarshal ttrpc.Unmarshaler, info *ttrpc.UnaryServerInfo, method ttrpc.Method) (interface{}, error) {
	if !strings.HasSuffix(info.FullMethod, "/Synchronize") {
		return method(ctx, unmarshal)
	}
	stall := false
	wrapped := func(v interface{}) error {
		if err := unmarshal(v); err != nil {
			return err
		}
		q, ok := v.(*api.SynchronizeRequest)
		if !ok {
			return nil
		}
		defer func() {
			r.Lock()
			stall = r.stallAt > 0 && len(r.plan) == r.stallAt && q.More
			r.Unlock()
		}()
		var pods, ctrs []int
		for _, p := range q.Pods {
			pods = append(pods, idxOf(p.GetId(), 'p'))
		}
		for _, c := range q.Containers {
			ctrs = append(ctrs, idxOf(c.GetId(), 'c'))
		}
		if r.onChange != nil {
			defer r.onChange()
		}
		r.Lock()
		defer r.Unlock()
		if r.cutAfter > 0 && len(r.plan) == r.cutAfter {
			return status.Error(codes.Unavailable, "verif: connection cut mid-synchronization")
		}
		if len(r.plan) > r.nObjs+8 {
			// No valid plan has more messages than objects (+1). The sender is running away
			// (e.g. sending empty `more` messages for ever): cut it off instead of waiting for
			// the request deadline. The cut is part of the observation (`runaway`).
			r.runaway = true
			return status.Error(codes.Aborted, "verif: runaway synchronization cut off")
		}
		r.plan = append(r.plan, ChunkObs{Pods: toRuns(pods), Ctrs: toRuns(ctrs), More: q.More, Size: proto.Size(q)})
		return nil
	}
	res, err := method(ctx, wrapped)
	if stall {
		time.Sleep(r.stallFor)
	}
	return res, err
}

// mkUpdate is the update the handler returns for container #i: a function of the container
// alone, so that whoever receives it can tell whether it arrived unchanged.
func mkUpdate(i int, id string, pad int) *api.ContainerUpdate {
	u := &api.ContainerUpdate{ContainerId: id}
	u.SetLinuxMemoryLimit(int64(1000000 + i))
	u.SetLinuxMemorySwap(int64(2000000 + i))
	u.SetLinuxCPUShares(uint64(100 + i))
	u.SetLinuxCPUQuota(int64(50000 + i))
	u.SetLinuxCPUPeriod(100000)
	u.SetLinuxCPUSetCPUs("0-" + strconv.Itoa(i%8))
	u.SetLinuxPidLimits(int64(300 + i))
	u.AddLinuxHugepageLimit("2MB", uint64(4+i))
	u.AddLinuxUnified("memory.high", strconv.Itoa(900000+i))
	if pad > 0 {
		u.AddLinuxUnified("pad", pad2(pad))
	}
	if i%3 == 1 {
		u.SetIgnoreFailure()
	}
	return u
}

// updBad counts received updates that differ from what the handler returned.
func updBad(ups []*api.ContainerUpdate, pad int) int {
	bad := 0
	for _, u := range ups {
		i := idxOf(u.GetContainerId(), 'c')
		if i < 0 || !proto.Equal(u, mkUpdate(i, u.GetContainerId(), pad)) {
			bad++
		}
	}
	return bad
}

func updSizes(in *In, k int) [][2]int {
	n := len(expand(in.Ctrs))
	var sz []int
	for i := 0; i < k && i < n; i++ {
		sz = append(sz, proto.Size(mkUpdate(i, "c"+strconv.Itoa(i), in.UpdPad)))
	}
	return compress(sz)
}

type plugin struct {
	sync.Mutex
	onChange func()
	mode     string
	updPad   int
	updates  int
	pods     []*api.PodSandbox
	ctrs     []*api.Container
	calls    []CallObs
	returned []int
	gotRun   bool
}

func (p *plugin) RunPodSandbox(context.Context, *api.PodSandbox) error {
	p.Lock()
	p.gotRun = true
	p.Unlock()
	if p.onChange != nil {
		p.onChange()
	}
	return nil
}

func (p *plugin) synchronize(_ context.Context, pods []*api.PodSandbox, ctrs []*api.Container) ([]*api.ContainerUpdate, error) {
	var pi, ci []int
	bad := 0
	for _, x := range pods {
		i := idxOf(x.GetId(), 'p')
		pi = append(pi, i)
		if i < 0 || i >= len(p.pods) || !proto.Equal(x, p.pods[i]) {
			bad++
		}
	}
	for _, x := range ctrs {
		i := idxOf(x.GetId(), 'c')
		ci = append(ci, i)
		if i < 0 || i >= len(p.ctrs) || !proto.Equal(x, p.ctrs[i]) {
			bad++
		}
	}
	if p.onChange != nil {
		defer p.onChange()
	}
	p.Lock()
	defer p.Unlock()
	p.calls = append(p.calls, CallObs{Pods: toRuns(pi), Ctrs: toRuns(ci), Bad: bad})
	if p.mode == "error" {
		return nil, errors.New("verif: handler refuses to synchronize")
	}
	if p.mode == "exhausted" {
		// a plugin may answer with any status; this one is what recalcObjsPerSyncMsg keys on
		return nil, status.Error(codes.ResourceExhausted, "verif: handler out of some resource")
	}
	var ups []*api.ContainerUpdate
	for i := 0; i < p.updates && i < len(ctrs); i++ {
		ups = append(ups, mkUpdate(i, ctrs[i].GetId(), p.updPad))
		p.returned = append(p.returned, idxOf(ctrs[i].GetId(), 'c'))
	}
	return ups, nil
}

// syncPlugin implements stub.SynchronizeInterface; noSyncPlugin does not.
type syncPlugin struct{ *plugin }

func (p syncPlugin) Synchronize(ctx context.Context, pods []*api.PodSandbox, ctrs []*api.Container) ([]*api.ContainerUpdate, error) {
	return p.plugin.synchronize(ctx, pods, ctrs)
}

type noSyncPlugin struct{ *plugin }

// caseTimeout is the request timeout of one case: cases that are EXPECTED to end by the request
// deadline (a reply too large to be sent back) bring their own, short one.
func caseTimeout(in *In) time.Duration {
	if in != nil && in.ReqTimeoutMs > 0 {
		return time.Duration(in.ReqTimeoutMs) * time.Millisecond
	}
	return reqTimeout()
}

func reqTimeout() time.Duration {
	if s := os.Getenv(timeoutEnv); s != "" {
		if n, err := strconv.Atoi(s); err == nil && n > 0 {
			return time.Duration(n) * time.Millisecond
		}
	}
	return 45 * time.Second
}

func classifyErr(err error, runaway bool) string {
	if err == nil {
		return ""
	}
	s := err.Error()
	switch {
	case runaway:
		return "runaway"
	case strings.Contains(s, "failed to synchronize plugin with split messages"):
		return "too-large"
	case strings.Contains(s, "does not handle split sync"):
		return "no-split"
	case errors.Is(err, context.DeadlineExceeded) || strings.Contains(s, "deadline exceeded"):
		return "deadline"
	case strings.Contains(s, "handler refuses"):
		return "handler"
	case errors.Is(err, ttrpc.ErrClosed) || strings.Contains(s, "closed"):
		return "closed"
	}
	return "other"
}

type syncResult struct {
	ups []*api.ContainerUpdate
	err error
}

func runCase(in *In, dir string) *Obs {
	if in.Kind == "pre" {
		return runCasePre(in, dir)
	}
	if in.Kind == "restart" {
		return runCaseRestart(in, dir)
	}
	obs := emptyObs()
	obs.Outcome, obs.Alive = "harness", true
	pods, ctrs := buildState(in)
	var ps, cs []int
	for _, p := range pods {
		ps = append(ps, proto.Size(p))
	}
	for _, c := range ctrs {
		cs = append(cs, proto.Size(c))
	}
	obs.PodSizes, obs.CtrSizes = compress(ps), compress(cs)

	rec := &recorder{nObjs: len(pods) + len(ctrs), stallAt: in.StallAt, stallFor: caseTimeout(in) + 800*time.Millisecond}
	pl := &plugin{mode: in.Handler, updates: in.Updates, updPad: in.UpdPad, pods: pods, ctrs: ctrs}
	obs.UpdSizes = updSizes(in, in.Updates)
	var pimpl interface{} = syncPlugin{pl}
	if in.Handler == "none" {
		pimpl = noSyncPlugin{pl}
	}

	sock := filepath.Join(dir, "n.sock")
	if len(sock) >= 100 {
		obs.Detail = "socket path too long: " + sock
		return obs
	}
	syncC := make(chan syncResult, 4)
	var syncCalls int
	var armed bool
	var mu sync.Mutex
	syncFn := func(ctx context.Context, cb nri.SyncCB) error {
		mu.Lock()
		isPlugin := armed
		if isPlugin {
			syncCalls++
		}
		mu.Unlock()
		ups, err := cb(ctx, pods, ctrs)
		if isPlugin {
			// (Adaptation.Start itself calls SyncFn once for the pre-installed plugins, of
			// which there are none here; only calls made for the registering plugin count.)
			syncC <- syncResult{ups, err}
		}
		return err
	}
	updateFn := func(context.Context, []*nri.ContainerUpdate) ([]*nri.ContainerUpdate, error) {
		return nil, nil
	}
	nri.SetPluginRequestTimeout(caseTimeout(in))
	empty := filepath.Join(dir, "empty")
	os.MkdirAll(empty, 0o755)
	r, err := nri.New("verif-c09", "0", syncFn, updateFn,
		nri.WithPluginPath(empty), nri.WithPluginConfigPath(empty), nri.WithSocketPath(sock),
		nri.WithTTRPCOptions([]ttrpc.ClientOpts{ttrpc.WithUnaryClientInterceptor(rec.clientIcpt)}, nil))
	if err != nil {
		obs.Detail = "adaptation.New: " + err.Error()
		return obs
	}
	if err := r.Start(); err != nil {
		obs.Detail = "adaptation.Start: " + err.Error()
		return obs
	}
	mu.Lock()
	armed = true
	mu.Unlock()

	st, err := stub.New(pimpl, stub.WithPluginName("c09"), stub.WithPluginIdx("10"), stub.WithSocketPath(sock),
		stub.WithOnClose(func() { rec.note("stub: connection closed") }), // the default is os.Exit(0)
		stub.WithTTRPCOptions(nil, []ttrpc.ServerOpt{ttrpc.WithUnaryServerInterceptor(rec.serverIcpt)}))
	if err != nil {
		obs.Detail = "stub.New: " + err.Error()
		r.Stop()
		return obs
	}
	ctx, cancel := context.WithCancel(context.Background())
	defer cancel()
	startErr := make(chan error, 1)
	go func() { startErr <- st.Start(ctx) }()

	deadline := time.After(caseTimeout(in) + 10*time.Second)
	var res syncResult
	select {
	case res = <-syncC:
	case <-deadline:
		obs.Outcome = "timeout"
		obs.Detail = "the runtime's SyncFn did not return"
		fill(obs, rec, pl, &mu, &syncCalls)
		return obs
	}
	select {
	case e := <-startErr:
		if e != nil {
			rec.note("stub.Start: %v", e)
		}
	case <-time.After(10 * time.Second):
		rec.note("stub.Start still blocked 10s after synchronization ended")
	}
	// activation (or not) happens after SyncFn returns and before the sync lock is released
	b := r.BlockPluginSync()
	b.Unblock()
	evctx, evcancel := context.WithTimeout(context.Background(), 10*time.Second)
	if e := r.RunPodSandbox(evctx, &api.StateChangeEvent{Pod: &api.PodSandbox{Id: "probe", Name: "probe"}}); e != nil {
		rec.note("RunPodSandbox: %v", e)
	}
	evcancel()
	st.Stop()
	r.Stop()

	fill(obs, rec, pl, &mu, &syncCalls)
	if res.err == nil {
		obs.Outcome = "synced"
	} else {
		obs.Outcome = "failed"
		obs.ErrKind = classifyErr(res.err, obs.Runaway)
		rec.note("sync error: %.200s", res.err.Error())
		obs.Detail = strings.Join(rec.detail, "; ")
	}
	for _, u := range res.ups {
		obs.RtUpdates = append(obs.RtUpdates, idxOf(u.GetContainerId(), 'c'))
	}
	obs.UpdBad = updBad(res.ups, in.UpdPad)
	return obs
}

func fill(obs *Obs, rec *recorder, pl *plugin, mu *sync.Mutex, syncCalls *int) {
	rec.Lock()
	obs.Attempts = append(obs.Attempts, rec.attempts...)
	obs.Plan = append(obs.Plan, rec.plan...)
	obs.Runaway = rec.runaway
	obs.Detail = strings.Join(rec.detail, "; ")
	rec.Unlock()
	pl.Lock()
	obs.Calls = append(obs.Calls, pl.calls...)
	obs.Returned = append(obs.Returned, pl.returned...)
	obs.Activated = pl.gotRun
	pl.Unlock()
	mu.Lock()
	obs.SyncCalls = *syncCalls
	mu.Unlock()
}
