package c09

import (
	"bufio"
	"bytes"
	"encoding/json"
	"fmt"
	"io"
	"math/rand"
	"os"
	"os/exec"
	"path/filepath"
	"strings"
	"sync"
	"sync/atomic"
	"time"

	"google.golang.org/protobuf/encoding/protowire"
	"google.golang.org/protobuf/proto"

	"verifh/internal/hx"
	"verifh/internal/lineio"
)

func Run(o *hx.Opts, w *lineio.Writer) error {
	if ctl := os.Getenv(pluginEnv); ctl != "" {
		return pluginMain(ctl)
	}
	if os.Getenv(workerEnv) != "" {
		return workerMain(o.Scratch)
	}
	var ids []string
	var ins []*In
	if o.Replay != "" {
		cs, err := hx.ReplayCases(o.Replay)
		if err != nil {
			return err
		}
		for _, c := range cs {
			var in In
			if err := json.Unmarshal(c.In, &in); err != nil {
				return fmt.Errorf("replay case %s: %w", c.ID, err)
			}
			ids = append(ids, c.ID)
			ins = append(ins, &in)
		}
	} else {
		ins = generate(o)
		for i, in := range ins {
			ids = append(ids, fmt.Sprintf("%s-%d-%03d", in.Stream, o.Seed, i))
		}
	}
	workers := 4
	if o.Thorough() {
		workers = 6
	}
	if len(ins) < workers {
		workers = len(ins)
	}
	obs := make([]*Obs, len(ins))
	next := make(chan int, len(ins))
	for i := range ins {
		next <- i
	}
	close(next)
	var wg sync.WaitGroup
	var slow int32 // cases that ended by deadline: after a few, stop (each costs a full request timeout)
	errs := make(chan error, workers)
	for k := 0; k < workers; k++ {
		wg.Add(1)
		go func(k int) {
			defer wg.Done()
			p := &proc{dir: filepath.Join(o.Scratch, fmt.Sprintf("w%d", k))}
			defer p.kill()
			for i := range next {
				if atomic.LoadInt32(&slow) >= 3 {
					continue // not run, not emitted: the failing inputs are already on record
				}
				ob, err := p.do(ids[i], ins[i])
				if err != nil {
					errs <- err
					return
				}
				obs[i] = ob
				if (ob.Outcome == "timeout" || ob.ErrKind == "deadline") && ins[i].ReqTimeoutMs == 0 {
					atomic.AddInt32(&slow, 1)
				}
			}
		}(k)
	}
	wg.Wait()
	select {
	case err := <-errs:
		return err
	default:
	}
	for i := range ins {
		if obs[i] == nil {
			continue
		}
		if err := w.Put(&lineio.Case{ID: ids[i], In: ins[i], Obs: obs[i]}); err != nil {
			return err
		}
	}
	return nil
}

// proc is one worker subprocess; it is restarted after a crash or a kill.
type proc struct {
	dir    string
	cmd    *exec.Cmd
	stdin  io.WriteCloser
	stdout *bufio.Reader
	stderr *bytes.Buffer
	lines  chan []byte
	gen    int
}

func (p *proc) start() error {
	p.gen++
	dir := filepath.Join(p.dir, fmt.Sprintf("g%d", p.gen))
	if err := os.MkdirAll(dir, 0o755); err != nil {
		return err
	}
	cmd := exec.Command(os.Args[0], "C09", "-out", dir)
	cmd.Env = append(os.Environ(), workerEnv+"=1", "GOMEMLIMIT=3GiB", "GOTRACEBACK=single", "GOMAXPROCS=4")
	in, err := cmd.StdinPipe()
	if err != nil {
		return err
	}
	out, err := cmd.StdoutPipe()
	if err != nil {
		return err
	}
	p.stderr = &bytes.Buffer{}
	cmd.Stderr = p.stderr
	if os.Getenv("VERIFH_C09_TIMING") != "" {
		cmd.Stderr = os.Stderr
	}
	if err := cmd.Start(); err != nil {
		return err
	}
	p.cmd, p.stdin = cmd, in
	rd := bufio.NewReaderSize(out, 1<<20)
	lines := make(chan []byte, 1)
	p.lines = lines
	go func() {
		defer close(lines)
		for {
			l, err := rd.ReadBytes('\n')
			if len(l) > 1 {
				lines <- l
			}
			if err != nil {
				return
			}
		}
	}()
	return nil
}

func (p *proc) kill() {
	if p.cmd != nil {
		p.stdin.Close()
		p.cmd.Process.Kill()
		p.cmd.Wait()
		p.cmd = nil
	}
}

func firstPanicLine(s string) string {
	for _, l := range strings.Split(s, "\n") {
		if strings.HasPrefix(l, "panic:") || strings.HasPrefix(l, "fatal error:") {
			if len(l) > 200 {
				l = l[:200]
			}
			return l
		}
	}
	return ""
}

func (p *proc) do(id string, in *In) (*Obs, error) {
	b, err := json.Marshal(workerReq{ID: id, In: in})
	if err != nil {
		return nil, err
	}
	for try := 0; ; try++ {
		if p.cmd == nil {
			if err := p.start(); err != nil {
				return nil, err
			}
		}
		if _, err := p.stdin.Write(append(b, '\n')); err == nil {
			break
		}
		// the worker is gone (it exits on its own after reporting a stuck case): start a fresh one
		p.kill()
		if try == 2 {
			return nil, fmt.Errorf("worker does not accept input")
		}
	}
	limit := reqTimeout() + 25*time.Second
	select {
	case l, ok := <-p.lines:
		if !ok {
			// worker exited without answering: the runtime process died on this case
			p.cmd.Wait()
			msg := firstPanicLine(p.stderr.String())
			tail := p.stderr.String()
			if len(tail) > 600 {
				tail = tail[:600]
			}
			p.cmd = nil
			ob := emptyObs()
			ob.Outcome, ob.Panic, ob.Alive, ob.Detail = "crashed", msg, false, tail
			sizesInto(ob, in)
			return ob, nil
		}
		var rsp workerRsp
		if err := json.Unmarshal(l, &rsp); err != nil {
			return nil, fmt.Errorf("worker answer: %w", err)
		}
		if rsp.ID != id {
			return nil, fmt.Errorf("worker answered %q for %q", rsp.ID, id)
		}
		if rsp.Obs.Outcome == "timeout" {
			p.kill()
		}
		return rsp.Obs, nil
	case <-time.After(limit):
		p.kill()
		ob := emptyObs()
		ob.Outcome, ob.Alive, ob.Detail = "timeout", false, "worker killed after "+limit.String()
		sizesInto(ob, in)
		return ob, nil
	}
}

func emptyObs() *Obs {
	return &Obs{Attempts: []Attempt{}, Plan: []ChunkObs{}, Calls: []CallObs{}, Returned: []int{}, RtUpdates: []int{},
		PodSizes: [][2]int{}, CtrSizes: [][2]int{}, Plugins: []PluginObs{}, UpdSizes: [][2]int{}}
}

// sizesInto measures the encoded object sizes in the parent (the worker that would have
// reported them is gone).
func sizesInto(ob *Obs, in *In) {
	pods, ctrs := buildState(in)
	var ps, cs []int
	for _, p := range pods {
		ps = append(ps, proto.Size(p))
	}
	for _, c := range ctrs {
		cs = append(cs, proto.Size(c))
	}
	ob.PodSizes, ob.CtrSizes = compress(ps), compress(cs)
}

// ---------------------------------------------------------------- generator

const (
	tiny  = 0
	kb    = 1000
	kb100 = 100_000
	mb    = 1 << 20 // four of these do not fit into one message
	mbDec = 1_000_000
)

func mk(stream, note string, pods, ctrs [][2]int) *In {
	if pods == nil {
		pods = [][2]int{}
	}
	if ctrs == nil {
		ctrs = [][2]int{}
	}
	return &In{Kind: "sync", Pods: pods, Ctrs: ctrs, Handler: "record", Updates: 0, Plugins: []PluginIn{},
		Limit: ttrpcLimit, MinObjs: minObjs, Stream: stream, Note: note}
}

func run1(n, pad int) [][2]int {
	if n == 0 {
		return [][2]int{}
	}
	return [][2]int{{n, pad}}
}

func totalBytes(in *In) int {
	t := 0
	for _, r := range in.Pods {
		t += r[0] * (r[1] + 64)
	}
	for _, r := range in.Ctrs {
		t += r[0] * (r[1] + 64)
	}
	return t
}

// witnesses: the states DESIGN.md §6 #5 and #6 name.
func witnesses() []*In {
	return []*In{
		mk("witness", "3 pods + 12 x 1MB containers (fallback to 4/4 slices beyond 3 pods)", run1(3, tiny), run1(12, mb)),
		mk("witness", "0 pods + 9 x 1MB containers", nil, run1(9, mb)),
		mk("witness", "2 pods + 40 x 300KB containers (pod share rounds to zero)", run1(2, tiny), run1(40, 300_000)),
		func() *In {
			in := mk("witness", "3 pods + 12 x 600KB containers, slices with spare capacity (4/4 fallback sends a pod that does not exist)", run1(3, tiny), run1(12, 600_000))
			in.Slack = 4
			return in
		}(),
	}
}

// fewLarge: the complete table of few-large-object states; `pick` selects a slice of it.
func fewLarge() []*In {
	var out []*In
	for _, cpad := range []int{300_000, 500_000, mbDec, mb, 2_000_000, maxObjBytes} {
		for _, ppad := range []int{tiny, kb, 500_000} {
			for _, p := range []int{0, 1, 2, 3, 4, 5, 9} {
				for _, c := range []int{0, 1, 2, 4, 5, 7, 8, 9, 10, 12, 16, 24, 40} {
					if p == 0 && c == 0 && (ppad != tiny || cpad != 300_000) {
						continue
					}
					in := mk("few-large", fmt.Sprintf("%d pods pad %d + %d ctrs pad %d", p, ppad, c, cpad), run1(p, ppad), run1(c, cpad))
					if totalBytes(in) > 72<<20 {
						continue
					}
					out = append(out, in)
				}
			}
		}
	}
	return out
}

func scaleCount(rng *rand.Rand) int {
	switch rng.Intn(10) {
	case 0:
		return 0
	case 1, 2, 3:
		return rng.Intn(21)
	case 4, 5, 6:
		return 20 + rng.Intn(281)
	default:
		return 300 + rng.Intn(2701)
	}
}

func randomPads(rng *rand.Rand, n int, profile int) []int {
	out := make([]int, n)
	for i := range out {
		switch profile {
		case 0: // all tiny
			out[i] = tiny
		case 1: // around 1 KB
			out[i] = kb + rng.Intn(64)
		case 2: // mixed
			switch x := rng.Intn(1000); {
			case x < 600:
				out[i] = tiny
			case x < 900:
				out[i] = kb
			case x < 990:
				out[i] = kb100
			default:
				out[i] = mbDec
			}
		case 3: // a few big objects among tiny ones
			if rng.Intn(n/6+1) == 0 {
				out[i] = []int{kb100, mbDec, mb, 2_000_000, maxObjBytes}[rng.Intn(5)]
			}
		case 4: // growing: later messages are rejected again and the counts shrink mid-way
			out[i] = i * (4000 + rng.Intn(2000)) / (n/64 + 1)
		case 5: // shrinking
			out[i] = (n - i) * (4000 + rng.Intn(2000)) / (n/64 + 1)
		case 6: // 100 KB
			out[i] = kb100 + rng.Intn(1000)
		}
		if out[i] > maxObjBytes {
			out[i] = maxObjBytes
		}
	}
	return out
}

func capBytes(pads []int, budget int) []int {
	t := 0
	for i, p := range pads {
		t += p + 64
		if t > budget {
			return pads[:i]
		}
	}
	return pads
}

func random(rng *rand.Rand, budget int) *In {
	p, c := scaleCount(rng), scaleCount(rng)
	pp, cp := rng.Intn(7), rng.Intn(7)
	if rng.Intn(3) > 0 {
		pp = rng.Intn(3) // pods are usually small
	}
	pods := capBytes(randomPads(rng, p, pp), budget/4)
	ctrs := capBytes(randomPads(rng, c, cp), budget)
	in := mk("random", fmt.Sprintf("P=%d profile %d, C=%d profile %d", len(pods), pp, len(ctrs), cp), compress(pods), compress(ctrs))
	if rng.Intn(4) == 0 {
		in.Slack = 1 + rng.Intn(8)
	}
	switch rng.Intn(8) {
	case 0:
		in.Updates = 1
	case 1:
		in.Updates = 3
	case 2:
		in.Updates = len(ctrs)
		if in.Updates > 200 {
			in.Updates = 200
		}
	}
	return in
}

// boundary: one message whose total length (payload + the 54 bytes ttrpc adds around it for
// the request timeouts used here) is within a few bytes of the limit.
func boundary(rng *rand.Rand) []*In {
	var out []*In
	for _, d := range []int{-16, -2, -1, 0, 1, 2, 16, 54, 55} {
		p := rng.Intn(4)
		c := 1 + rng.Intn(3)
		target := ttrpcLimit - 54 + d // payload length aimed at
		padN := target - 200
		var in *In
		for k := 0; k < 6; k++ {
			in = mk("boundary", fmt.Sprintf("one message of limit%+d bytes", d), run1(p, tiny), append(run1(c-1, tiny), [2]int{1, padN}))
			pods, ctrs := buildState(in)
			sz := 0
			for _, x := range pods {
				n := proto.Size(x)
				sz += 1 + protowire.SizeVarint(uint64(n)) + n
			}
			for _, x := range ctrs {
				n := proto.Size(x)
				sz += 1 + protowire.SizeVarint(uint64(n)) + n
			}
			if sz == target {
				break
			}
			padN += target - sz
		}
		out = append(out, in)
	}
	return out
}

func handlers(rng *rand.Rand) []*In {
	var out []*In
	for _, h := range []string{"none", "error"} {
		out = append(out, func() *In {
			in := mk("handler", h+", single message", run1(2, tiny), run1(3, kb))
			in.Handler = h
			return in
		}())
		out = append(out, func() *In {
			in := mk("handler", h+", split", run1(5+rng.Intn(30), kb), run1(20+rng.Intn(40), 300_000))
			in.Handler = h
			return in
		}())
	}
	for _, k := range []int{1, 5, 64} {
		in := mk("handler", fmt.Sprintf("%d updates, split", k), run1(3+rng.Intn(10), kb), run1(64+rng.Intn(64), kb100))
		in.Updates = k
		out = append(out, in)
	}
	return out
}

// unsendable: an object that exceeds the limit on its own — the state cannot be
// transmitted; registration must fail cleanly.
func unsendable(rng *rand.Rand) []*In {
	big := ttrpcLimit + 1000
	return []*In{
		mk("unsendable", "single oversized container", nil, [][2]int{{1, big}}),
		mk("unsendable", "oversized container among small ones", run1(3, tiny), [][2]int{{5 + rng.Intn(10), kb}, {1, big}, {4 + rng.Intn(10), kb}}),
		mk("unsendable", "oversized pod among many containers", [][2]int{{2, tiny}, {1, big}}, run1(100+rng.Intn(200), kb)),
	}
}

// huge: thousands of objects of each kind (the upper end of the property's quantifier).
func huge(o *hx.Opts) []*In {
	out := []*In{
		mk("huge", "3000 tiny pods + 3000 tiny containers", run1(3000, tiny), run1(3000, tiny)),
		mk("huge", "3000 pods of 1KB + 3000 containers of 1KB", run1(3000, kb), run1(3000, kb)),
		mk("huge", "3000 tiny pods + 400 containers of 100KB", run1(3000, tiny), run1(400, kb100)),
	}
	if o.Thorough() {
		out = append(out,
			mk("huge", "3000 pods of 1KB + 3000 containers of 100KB (300 MB)", run1(3000, kb), run1(3000, kb100)),
			mk("huge", "2 pods + 3000 containers of 100KB", run1(2, tiny), run1(3000, kb100)),
			mk("huge", "3000 pods of 100KB + 5 containers of 1MB", run1(3000, kb100), run1(5, mbDec)),
			mk("huge", "100 containers of 1MB + 100 just under the limit", run1(7, kb), [][2]int{{100, mbDec}, {60, maxObjBytes}}),
		)
		out[len(out)-1].Updates = 3
	}
	return out
}

// restart: one stub object registering twice. The first session collects at least one chunk
// and is then abandoned; the second must deliver exactly the second state.
func restart(rng *rand.Rand, n int) []*In {
	type st struct {
		note   string
		p1, c1 [][2]int
		cut    int
		p2, c2 [][2]int
	}
	states := []st{
		{"12 x 100KB then 8 x 600KB fails after the first chunk; then the large ones are gone", run1(1, tiny), [][2]int{{12, 100 * 1024}, {8, 600 * 1024}}, 0, run1(1, tiny), run1(12, 100*1024)},
		{"tail of 3 x 2MB cannot be sent; second state split again", run1(4, kb), [][2]int{{30, 200_000}, {3, 2_000_000}}, 0, run1(3, kb), run1(45, 200_000)},
		{"tail with an oversized container; second state empty", run1(2, tiny), [][2]int{{20, 300_000}, {1, ttrpcLimit + 1000}}, 0, nil, nil},
		{"cut after 1 chunk; same state again", run1(3, kb), run1(30, 300_000), 1, run1(3, kb), run1(30, 300_000)},
		{"cut after 2 chunks; smaller single-message state", run1(5, kb), run1(40, 300_000), 2, run1(1, tiny), run1(2, kb)},
		{"cut after 1 chunk; larger state", run1(2, tiny), run1(20, 400_000), 1, run1(6, kb), run1(60, 300_000)},
		{"cut after 3 chunks of many small objects", run1(400, kb), run1(2400, 8*kb), 3, run1(100, kb), run1(300, kb)},
		{"first session completes (no stale data possible); second differs", run1(2, tiny), run1(30, 300_000), 0, run1(1, tiny), run1(10, 300_000)},
	}
	var out []*In
	for i := 0; i < n; i++ {
		s := states[i%len(states)]
		if i >= len(states) {
			// random variant: a split first state cut after 1..3 chunks, an unrelated second state
			c1 := 50 + rng.Intn(40)
			s = st{"random cut", run1(rng.Intn(6), kb), run1(c1, 250_000+rng.Intn(200_000)), 1 + rng.Intn(3),
				run1(rng.Intn(8), kb), run1(rng.Intn(50), []int{tiny, kb, kb100, 300_000}[rng.Intn(4)])}
		}
		in := mk("restart", s.note, s.p2, s.c2)
		in.Kind = "restart"
		in.First = &FirstIn{Pods: s.p1, Ctrs: s.c1, CutAfter: s.cut}
		if in.First.Pods == nil {
			in.First.Pods = [][2]int{}
		}
		if i%3 == 1 {
			in.Updates = 2
		}
		out = append(out, in)
	}
	return out
}

// replies: the REPLY has a size limit too. deliverSync puts all updates of the handler into one
// SynchronizeResponse; one that exceeds ttrpc's limit is dropped by the stub's ttrpc server and
// the runtime's call ends with the request deadline. Expected: total reply comfortably under the
// limit -> synchronized, every update arrives unchanged; over the limit -> the handler has been
// called once with the whole state, registration fails cleanly (not activated, runtime alive).
// Cases expected to end by the deadline carry a short request timeout of their own.
func replies(rng *rand.Rand, thorough bool) []*In {
	type rc struct {
		note       string
		pods, ctrs [][2]int
		k, pad     int
	}
	cs := []rc{
		{"10 updates of 500KB: reply of 5 MB", run1(2, tiny), run1(10, tiny), 10, 500_000},
		{"8 updates of 500KB: reply of 4.0 MB fits", run1(2, tiny), run1(10, tiny), 8, 500_000},
		{"split state, then a reply of 5 MB", run1(5, kb), run1(30, 300_000), 10, 500_000},
		{"split state, reply of 3 MB fits", run1(5, kb), run1(30, 300_000), 6, 500_000},
		{"200 updates of 1KB", run1(3, tiny), run1(300, kb), 200, 1000},
	}
	if thorough {
		cs = append(cs,
			rc{"1 update of 5 MB", run1(1, tiny), run1(3, tiny), 1, 5_000_000},
			rc{"3000 updates of 2KB: reply of 6 MB", run1(2, tiny), run1(3000, tiny), 3000, 2000},
			rc{"3000 updates of 1KB: reply of 3.6 MB fits", run1(2, tiny), run1(3000, tiny), 3000, 1000},
		)
	}
	var out []*In
	for _, c := range cs {
		in := mk("reply", c.note, c.pods, c.ctrs)
		in.Updates, in.UpdPad, in.ReqTimeoutMs = c.k, c.pad, 6000
		out = append(out, in)
	}
	// within a few bytes of the limit: 4 updates, the last pad chosen so that the marshalled
	// SynchronizeResponse has limit+d bytes (the ttrpc Response around it adds a few more)
	// (measured: the ttrpc Response adds 5 bytes, so -5 is the largest reply that gets through)
	ds := []int{-64, -5, -4, 40}
	if thorough {
		ds = []int{-64, -20, -8, -6, -5, -4, -3, 0, 8, 40}
	}
	for _, d := range ds {
		in := mk("reply", fmt.Sprintf("reply payload of limit%+d bytes", d), run1(1+rng.Intn(3), tiny), run1(4+rng.Intn(5), tiny))
		in.Updates, in.ReqTimeoutMs = 1, 6000
		in.UpdPad = ttrpcLimit - 400
		for k := 0; k < 6; k++ {
			n := proto.Size(mkUpdate(0, "c0", in.UpdPad))
			sz := 1 + protowire.SizeVarint(uint64(n)) + n
			if sz == ttrpcLimit+d {
				break
			}
			in.UpdPad += ttrpcLimit + d - sz
		}
		out = append(out, in)
	}
	// a late reply to ONE message of a split synchronization (an I/O stall; the connection
	// stays alive): the stub has collected that chunk, the runtime's call times out. The
	// runtime must give up - re-sending would deliver objects twice.
	for _, st := range []struct {
		pods, ctrs [][2]int
		at         int
	}{{run1(2, tiny), run1(40, 200_000), 1}, {run1(5, kb), run1(30, 300_000), 2}, {run1(40, kb), run1(25, 300_000), 1},
		{run1(3, tiny), run1(60, 150_000), 3}, {run1(2, tiny), run1(3, kb), 1}} {
		in := mk("reply", fmt.Sprintf("reply to message %d comes after the request timeout", st.at), st.pods, st.ctrs)
		in.StallAt, in.ReqTimeoutMs = st.at, 700
		out = append(out, in)
	}
	// a handler that answers with the status ResourceExhausted: recalcObjsPerSyncMsg reports it
	// with the very text of a refused request
	for _, st := range [][2][][2]int{{run1(2, tiny), run1(3, kb)}, {run1(5, kb), run1(30, 300_000)},
		{run1(5, kb), run1(20, kb)}, {run1(40, kb), run1(25, 300_000)}} {
		in := mk("reply", "handler answers ResourceExhausted", st[0], st[1])
		in.Handler = "exhausted"
		out = append(out, in)
	}
	return out
}

// preinstalled: plugins launched by Adaptation.Start and synchronized by its `syncPlugins`.
func preinstalled(rng *rand.Rand, n int) []*In {
	states := []struct {
		note       string
		pods, ctrs [][2]int
	}{
		{"single message", run1(2, tiny), run1(3, kb)},
		{"split, transmissible", run1(5, kb), run1(30, 300_000)},
		{"split, minimum chunk fits", run1(3, tiny), run1(12, 500_000)},
		{"not transmissible (4 x 1MiB)", run1(3, tiny), run1(12, mb)},
		{"2 pods + 40 x 300KB", run1(2, tiny), run1(40, 300_000)},
		{"empty state", nil, nil},
		{"many small", run1(300, kb), run1(900, kb)},
		{"growing sizes", run1(20, kb), [][2]int{{40, 20_000}, {20, 200_000}, {6, mbDec}}},
	}
	combos := [][]PluginIn{
		{{"10", "a", "record", 2}},
		{{"10", "a", "error", 0}, {"20", "b", "record", 1}},
		{{"10", "a", "record", 1}, {"20", "b", "none", 0}, {"30", "c", "record", 2}},
		{{"05", "a", "none", 0}, {"50", "b", "error", 0}},
		{{"10", "a", "record", 0}, {"10", "b", "record", 3}},
	}
	var out []*In
	for i := 0; i < n; i++ {
		st := states[i%len(states)]
		in := mk("pre", st.note, st.pods, st.ctrs)
		in.Kind = "pre"
		in.Handler = ""
		in.Plugins = combos[rng.Intn(len(combos))]
		if i < len(combos) {
			in.Plugins = combos[i]
		}
		out = append(out, in)
	}
	return out
}

func generate(o *hx.Opts) []*In {
	var out []*In
	out = append(out, witnesses()...)
	tab := fewLarge()
	rng := o.Rand(1)
	nFew := o.N(200, len(tab))
	if nFew >= len(tab) {
		out = append(out, tab...)
	} else {
		for _, i := range rng.Perm(len(tab))[:nFew] {
			out = append(out, tab[i])
		}
	}
	for i, in := range out {
		// a third of the table with spare slice capacity (append-grown slices)
		if in.Stream == "few-large" && i%3 == 2 {
			in.Slack = 5
		}
	}
	budget := 48 << 20
	if o.Thorough() {
		budget = 96 << 20
	}
	r2 := o.Rand(2)
	for i := 0; i < o.N(400, 2500); i++ {
		out = append(out, random(r2, budget))
	}
	out = append(out, huge(o)...)
	out = append(out, boundary(o.Rand(3))...)
	out = append(out, handlers(o.Rand(4))...)
	out = append(out, unsendable(o.Rand(5))...)
	out = append(out, preinstalled(o.Rand(6), o.N(16, 80))...)
	out = append(out, restart(o.Rand(7), o.N(16, 120))...)
	out = append(out, replies(o.Rand(8), o.Thorough())...)
	return out
}
