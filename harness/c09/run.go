// Package c09 is the correspondence harness for property C09 (placeholder).
package c09

import (
	"errors"

	"verifh/internal/hx"
	"verifh/internal/lineio"
)

func Run(o *hx.Opts, w *lineio.Writer) error {
	return errors.New("C09 harness not implemented")
}
