package c09

import (
	"context"
	"os"
	"path/filepath"
	"strings"
	"sync"
	"time"

	nri "github.com/containerd/nri/pkg/adaptation"
	"github.com/containerd/nri/pkg/api"
	"github.com/containerd/nri/pkg/stub"
	"github.com/containerd/ttrpc"
	"google.golang.org/protobuf/proto"
)

// The restart stream: ONE stub object, two registrations. The first session's split
// synchronization is abandoned after the stub has collected at least one chunk (the runtime
// gives up on the tail of the state, or the exchange is cut by an RPC error); the runtime's
// state then changes, the same stub is started again (the usual reconnect-from-onClose
// pattern) and must be synchronized exactly once with exactly the second state. The
// observation of the case is the SECOND session (judged like a "sync" case) plus a summary of
// the first.
func runCaseRestart(in *In, dir string) *Obs {
	obs := emptyObs()
	obs.Outcome, obs.Alive = "harness", true
	if in.First == nil {
		obs.Detail = "restart case without first session"
		return obs
	}
	in1 := *in
	in1.Pods, in1.Ctrs = in.First.Pods, in.First.Ctrs
	pods1, ctrs1 := buildState(&in1)
	pods2, ctrs2 := buildState(in)
	sizesInto(obs, in)

	var mu sync.Mutex
	curPods, curCtrs := pods1, ctrs1
	armed := false
	syncC := make(chan syncResult, 4)
	syncCalls := 0
	syncFn := func(ctx context.Context, cb nri.SyncCB) error {
		mu.Lock()
		isPlugin := armed
		p, c := curPods, curCtrs
		if isPlugin {
			syncCalls++
		}
		mu.Unlock()
		ups, err := cb(ctx, p, c)
		if isPlugin {
			syncC <- syncResult{ups, err}
		}
		return err
	}
	updateFn := func(context.Context, []*nri.ContainerUpdate) ([]*nri.ContainerUpdate, error) { return nil, nil }

	rec := &recorder{nObjs: len(pods1) + len(ctrs1), cutAfter: in.First.CutAfter}
	pl := &plugin{mode: in.Handler, updates: in.Updates, updPad: in.UpdPad, pods: pods1, ctrs: ctrs1}
	obs.UpdSizes = updSizes(in, in.Updates)
	var pimpl interface{} = syncPlugin{pl}
	if in.Handler == "none" {
		pimpl = noSyncPlugin{pl}
	}
	sock := filepath.Join(dir, "n.sock")
	empty := filepath.Join(dir, "empty")
	os.MkdirAll(empty, 0o755)
	nri.SetPluginRequestTimeout(reqTimeout())
	r, err := nri.New("verif-c09", "0", syncFn, updateFn,
		nri.WithPluginPath(empty), nri.WithPluginConfigPath(empty), nri.WithSocketPath(sock),
		nri.WithTTRPCOptions([]ttrpc.ClientOpts{ttrpc.WithUnaryClientInterceptor(rec.clientIcpt)}, nil))
	if err != nil {
		obs.Detail = "adaptation.New: " + err.Error()
		return obs
	}
	if err := r.Start(); err != nil {
		obs.Detail = "adaptation.Start: " + err.Error()
		return obs
	}
	mu.Lock()
	armed = true
	mu.Unlock()

	closedC := make(chan struct{}, 8)
	st, err := stub.New(pimpl, stub.WithPluginName("c09"), stub.WithPluginIdx("10"), stub.WithSocketPath(sock),
		stub.WithOnClose(func() {
			select {
			case closedC <- struct{}{}:
			default:
			}
		}),
		stub.WithTTRPCOptions(nil, []ttrpc.ServerOpt{ttrpc.WithUnaryServerInterceptor(rec.serverIcpt)}))
	if err != nil {
		obs.Detail = "stub.New: " + err.Error()
		r.Stop()
		return obs
	}

	// ---- first session
	first := &FirstObs{Plan: []ChunkObs{}, Calls: []CallObs{}}
	obs.First = first
	if err := st.Start(context.Background()); err != nil {
		rec.note("first stub.Start: %v", err)
	}
	select {
	case res := <-syncC:
		if res.err == nil {
			first.Outcome = "synced"
		} else {
			first.Outcome = "failed"
			first.ErrKind = classifyErr(res.err, false)
			if strings.Contains(res.err.Error(), "connection cut mid-synchronization") {
				first.ErrKind = "cut"
			}
		}
	case <-time.After(reqTimeout() + 10*time.Second):
		first.Outcome = "timeout"
		obs.Outcome = "timeout"
		obs.Detail = "first session: the runtime's SyncFn did not return"
		return obs
	}
	if first.Outcome == "synced" {
		st.Stop() // end the session ourselves
	}
	select {
	case <-closedC:
		first.Closed = true
	case <-time.After(10 * time.Second):
		st.Stop()
	}
	// let the runtime finish the registration attempt (activation or not) before going on
	b := r.BlockPluginSync()
	b.Unblock()
	rec.Lock()
	first.Plan = append(first.Plan, rec.plan...)
	rec.plan, rec.attempts, rec.cutAfter, rec.runaway = nil, nil, 0, false
	rec.nObjs = len(pods2) + len(ctrs2)
	rec.Unlock()
	pl.Lock()
	first.Calls = append(first.Calls, pl.calls...)
	pl.calls, pl.returned, pl.gotRun = nil, nil, false
	pl.pods, pl.ctrs = pods2, ctrs2
	pl.Unlock()

	// ---- the runtime's state changes; the same stub registers again
	mu.Lock()
	curPods, curCtrs = pods2, ctrs2
	syncCalls = 0
	mu.Unlock()
	for len(closedC) > 0 {
		<-closedC
	}
	startErr := make(chan error, 1)
	go func() { startErr <- st.Start(context.Background()) }()
	var res syncResult
	select {
	case res = <-syncC:
	case <-time.After(reqTimeout() + 10*time.Second):
		obs.Outcome = "timeout"
		obs.Detail = "second session: the runtime's SyncFn did not return"
		fill(obs, rec, pl, &mu, &syncCalls)
		return obs
	}
	select {
	case e := <-startErr:
		if e != nil {
			rec.note("second stub.Start: %v", e)
		}
	case <-time.After(10 * time.Second):
		rec.note("second stub.Start still blocked 10s after synchronization ended")
	}
	b = r.BlockPluginSync()
	b.Unblock()
	evctx, evcancel := context.WithTimeout(context.Background(), 10*time.Second)
	if e := r.RunPodSandbox(evctx, &api.StateChangeEvent{Pod: &api.PodSandbox{Id: "probe", Name: "probe"}}); e != nil {
		rec.note("RunPodSandbox: %v", e)
	}
	evcancel()
	st.Stop()
	r.Stop()

	fill(obs, rec, pl, &mu, &syncCalls)
	if res.err == nil {
		obs.Outcome = "synced"
	} else {
		obs.Outcome = "failed"
		obs.ErrKind = classifyErr(res.err, obs.Runaway)
		rec.note("sync error: %.200s", res.err.Error())
		obs.Detail = strings.Join(rec.detail, "; ")
	}
	for _, u := range res.ups {
		obs.RtUpdates = append(obs.RtUpdates, idxOf(u.GetContainerId(), 'c'))
	}
	obs.UpdBad = updBad(res.ups, in.UpdPad)
	_ = proto.Size
	return obs
}
