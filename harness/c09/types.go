// Package c09 is the correspondence harness for property C09 (synchronisation delivers the
// runtime's complete state however it must be split).
//
// Every case runs the real Adaptation and a real stub plugin over a unix socket inside a
// re-exec'd worker process (a defect of the sender panics the runtime; a panic must be an
// observation, not a harness failure). The runtime's SyncFn supplies the generated pods
// and containers; the chunk plan is recorded at both ends with public ttrpc options only:
// a unary client interceptor on the runtime's ttrpc client (every attempt, including the
// ones the transport refuses as oversized) and a unary server interceptor on the stub's
// ttrpc server (every SynchronizeRequest that reached the plugin end). Nothing in /repo is
// hooked.
package c09

// In is the generated input of one case. Object lists are run-length encoded as
// [count, pad] pairs: `count` objects whose padding annotation is `pad` bytes long.
type In struct {
	Kind         string     `json:"kind"`           // "sync" (one external plugin) | "pre" (pre-installed plugins) | "restart" (one stub, two sessions; pods/ctrs are the SECOND session's state)
	First        *FirstIn   `json:"first"`          // kind "restart": the first, abandoned session
	Pods         [][2]int   `json:"pods"`           // runs of [count, pad]
	Ctrs         [][2]int   `json:"ctrs"`           // runs of [count, pad]
	Handler      string     `json:"handler"`        // "record" | "none" | "error"
	Updates      int        `json:"updates"`        // container updates the handler returns (first k containers)
	UpdPad       int        `json:"upd_pad"`        // padding bytes in each returned update (a Unified entry): makes the REPLY large
	StallAt      int        `json:"stall_at"`       // > 0: the reply to the k-th message that reaches the plugin (if it says More) comes later than the request timeout
	ReqTimeoutMs int        `json:"req_timeout_ms"` // request timeout for this case (0 = the harness default)
	Slack        int        `json:"slack"`          // spare capacity of the slices the runtime's SyncFn passes (0 = cap == len)
	Limit        int        `json:"limit"`          // ttrpc's maximum message length
	MinObjs      int        `json:"min_objs"`       // documented minimum objects per message of the sender
	Plugins      []PluginIn `json:"plugins"`        // kind "pre": the pre-installed plugins (launched by Adaptation.Start)
	Stream       string     `json:"stream"`         // which generator stream produced the case
	Note         string     `json:"note"`
}

// FirstIn describes the first session of a "restart" case: the state the runtime holds then,
// and how the session ends. CutAfter = 0: on its own (the state is chosen so that the split
// synchronization fails after some chunks got through); CutAfter = k > 0: the k+1-th
// SynchronizeRequest is answered with an RPC error at the plugin end (as a lost connection
// would), after k chunks were collected by the stub.
type FirstIn struct {
	Pods     [][2]int `json:"pods"`
	Ctrs     [][2]int `json:"ctrs"`
	CutAfter int      `json:"cut_after"`
}

// FirstObs is what the first session of a "restart" case looked like.
type FirstObs struct {
	Outcome string     `json:"outcome"` // "failed" | "synced" | "timeout"
	ErrKind string     `json:"err_kind"`
	Plan    []ChunkObs `json:"plan"`   // chunks the stub collected/handled in the first session
	Calls   []CallObs  `json:"calls"`  // handler calls during the first session
	Closed  bool       `json:"closed"` // the stub's onClose fired before the restart
}

// PluginIn describes one pre-installed plugin of a "pre" case.
type PluginIn struct {
	Idx     string `json:"idx"` // two digits
	Name    string `json:"name"`
	Handler string `json:"handler"` // "record" | "none" | "error"
	Updates int    `json:"updates"`
}

// PluginObs is what one pre-installed plugin process recorded (written to a file after every
// event, because Adaptation kills a plugin whose synchronization failed with SIGKILL).
type PluginObs struct {
	Name      string     `json:"name"`
	Started   bool       `json:"started"` // stub.Start returned nil (registered and configured)
	Plan      []ChunkObs `json:"plan"`
	Calls     []CallObs  `json:"calls"`
	Returned  []int      `json:"returned"`
	Activated bool       `json:"activated"`
	Runaway   bool       `json:"runaway"`
}

// Runs is a run-length encoded list of indices: [start, len] pairs of consecutive indices.
type Runs [][2]int

// Attempt is one Synchronize call seen at the runtime end (client interceptor).
type Attempt struct {
	Pods    Runs   `json:"pods"`
	Ctrs    Runs   `json:"ctrs"`
	More    bool   `json:"more"`
	Size    int    `json:"size"`     // length of the marshalled SynchronizeRequest
	Res     string `json:"res"`      // "ok" | "oversized" | "err"
	Len     int    `json:"len"`      // RejectedLength() of the OversizedMessageErr (0 otherwise)
	RMore   bool   `json:"rmore"`    // reply.More (res = ok)
	RUpdate int    `json:"rupdates"` // len(reply.Update) (res = ok)
}

// ChunkObs is one SynchronizeRequest seen at the plugin end (server interceptor).
type ChunkObs struct {
	Pods Runs `json:"pods"`
	Ctrs Runs `json:"ctrs"`
	More bool `json:"more"`
	Size int  `json:"size"` // proto.Size of the decoded request
}

// CallObs is one invocation of the plugin's Synchronize handler.
type CallObs struct {
	Pods Runs `json:"pods"`
	Ctrs Runs `json:"ctrs"`
	Bad  int  `json:"bad"` // objects whose content differs from what the runtime supplied
}

// Obs is the canonical observation of the real code.
type Obs struct {
	Outcome   string      `json:"outcome"`   // "synced" | "failed" | "crashed" | "timeout" | "harness"
	Panic     string      `json:"panic"`     // first panic line (crashed)
	ErrKind   string      `json:"err_kind"`  // failed: "too-large" | "no-split" | "deadline" | "handler" | "runaway" | "closed" | "other"
	PodSizes  [][2]int    `json:"pod_sizes"` // runs of [count, encoded size]
	CtrSizes  [][2]int    `json:"ctr_sizes"`
	Attempts  []Attempt   `json:"attempts"`
	Plan      []ChunkObs  `json:"plan"`
	Calls     []CallObs   `json:"calls"`
	Returned  []int       `json:"returned"`        // container indices the handler's updates name
	RtUpdates []int       `json:"runtime_updates"` // container indices of the updates the runtime's SyncFn received
	UpdBad    int         `json:"upd_bad"`         // received updates that are not proto.Equal to what the handler returned for that container
	UpdSizes  [][2]int    `json:"upd_sizes"`       // runs of [count, encoded size] of the updates the handler is set to return
	Activated bool        `json:"activated"`       // the plugin received a later RunPodSandbox event
	Alive     bool        `json:"alive"`           // the runtime process survived the case
	Runaway   bool        `json:"runaway"`         // the harness cut the exchange off: more chunks than objects
	SyncCalls int         `json:"sync_calls"`      // times the runtime's SyncFn was invoked
	Plugins   []PluginObs `json:"plugins"`         // kind "pre"
	First     *FirstObs   `json:"first"`           // kind "restart"
	Detail    string      `json:"detail"`          // free text for humans (never compared)
}

type workerReq struct {
	ID string `json:"id"`
	In *In    `json:"in"`
}

type workerRsp struct {
	ID  string `json:"id"`
	Obs *Obs   `json:"obs"`
}

const (
	ttrpcLimit  = 4 << 20
	minObjs     = 8
	workerEnv   = "VERIFH_C09_WORKER"
	pluginEnv   = "VERIFH_C09_PLUGIN"
	timeoutEnv  = "VERIFH_C09_REQ_TIMEOUT_MS"
	maxObjBytes = ttrpcLimit - 512 // "just under the limit": the whole message still fits
)
