package c09

import (
	"context"
	"encoding/json"
	"fmt"
	"io"
	"os"
	"path/filepath"
	"sort"
	"strings"
	"sync"
	"time"

	nri "github.com/containerd/nri/pkg/adaptation"
	"github.com/containerd/nri/pkg/api"
	"github.com/containerd/nri/pkg/stub"
	"github.com/containerd/ttrpc"
	"github.com/sirupsen/logrus"
)

// The pre-installed path: Adaptation.Start launches every executable NN-name in the
// plugin directory with a pre-connected socket and synchronizes them through the closure
// `syncPlugins` (pkg/adaptation/adaptation.go). The plugin executables are two-line shell
// scripts that exec this very binary in "plugin mode"; each plugin process records what
// reached it into a file after every event (a plugin whose synchronization failed is
// killed with SIGKILL at once, so nothing can be written at exit).

type pluginCtl struct {
	In      *In    `json:"in"`
	Name    string `json:"name"`
	Handler string `json:"handler"`
	Updates int    `json:"updates"`
	Result  string `json:"result"`
}

// pluginMain is the body of a pre-installed plugin process.
func pluginMain(ctlPath string) error {
	logrus.SetOutput(io.Discard)
	b, err := os.ReadFile(ctlPath)
	if err != nil {
		return err
	}
	var ctl pluginCtl
	if err := json.Unmarshal(b, &ctl); err != nil {
		return err
	}
	pods, ctrs := buildState(ctl.In)
	rec := &recorder{nObjs: len(pods) + len(ctrs)}
	pl := &plugin{mode: ctl.Handler, updates: ctl.Updates, updPad: ctl.In.UpdPad, pods: pods, ctrs: ctrs}
	var started bool
	var mu sync.Mutex
	flush := func() {
		mu.Lock()
		defer mu.Unlock()
		res := PluginObs{Name: ctl.Name, Started: started, Plan: []ChunkObs{}, Calls: []CallObs{}, Returned: []int{}}
		rec.Lock()
		res.Plan = append(res.Plan, rec.plan...)
		res.Runaway = rec.runaway
		rec.Unlock()
		pl.Lock()
		res.Calls = append(res.Calls, pl.calls...)
		res.Returned = append(res.Returned, pl.returned...)
		res.Activated = pl.gotRun
		pl.Unlock()
		out, _ := json.Marshal(res)
		tmp := ctl.Result + ".tmp"
		if os.WriteFile(tmp, out, 0o644) == nil {
			os.Rename(tmp, ctl.Result)
		}
	}
	rec.onChange, pl.onChange = flush, flush
	var pimpl interface{} = syncPlugin{pl}
	if ctl.Handler == "none" {
		pimpl = noSyncPlugin{pl}
	}
	done := make(chan struct{})
	var once sync.Once
	st, err := stub.New(pimpl,
		stub.WithOnClose(func() { once.Do(func() { close(done) }) }),
		stub.WithTTRPCOptions(nil, []ttrpc.ServerOpt{ttrpc.WithUnaryServerInterceptor(rec.serverIcpt)}))
	if err != nil {
		return err
	}
	flush()
	if err := st.Start(context.Background()); err != nil {
		flush()
		return nil
	}
	mu.Lock()
	started = true
	mu.Unlock()
	flush()
	select {
	case <-done:
	case <-time.After(reqTimeout() + 60*time.Second):
	}
	flush()
	return nil
}

func runCasePre(in *In, dir string) *Obs {
	obs := emptyObs()
	obs.Outcome, obs.Alive = "harness", true
	pods, ctrs := buildState(in)
	sizesInto(obs, in)
	self, err := os.Executable()
	if err != nil {
		obs.Detail = err.Error()
		return obs
	}
	pdir := filepath.Join(dir, "plugins")
	empty := filepath.Join(dir, "empty")
	os.MkdirAll(pdir, 0o755)
	os.MkdirAll(empty, 0o755)
	results := map[string]string{}
	for _, p := range in.Plugins {
		full := p.Idx + "-" + p.Name
		ctl := pluginCtl{In: in, Name: full, Handler: p.Handler, Updates: p.Updates, Result: filepath.Join(dir, "res-"+full+".json")}
		results[full] = ctl.Result
		cb, _ := json.Marshal(ctl)
		ctlPath := filepath.Join(dir, "ctl-"+full+".json")
		if err := os.WriteFile(ctlPath, cb, 0o644); err != nil {
			obs.Detail = err.Error()
			return obs
		}
		outDir := filepath.Join(dir, "p-"+full)
		script := fmt.Sprintf("#!/bin/sh\n%s=%s exec %s C09 -out %s\n", pluginEnv, ctlPath, self, outDir)
		if err := os.WriteFile(filepath.Join(pdir, full), []byte(script), 0o755); err != nil {
			obs.Detail = err.Error()
			return obs
		}
	}

	var mu sync.Mutex
	var syncCalls int
	var rtUpdates []*api.ContainerUpdate
	var syncErr error
	syncFn := func(ctx context.Context, cb nri.SyncCB) error {
		ups, err := cb(ctx, pods, ctrs)
		mu.Lock()
		syncCalls++
		rtUpdates = append(rtUpdates, ups...)
		if err != nil {
			syncErr = err
		}
		mu.Unlock()
		return err
	}
	updateFn := func(context.Context, []*nri.ContainerUpdate) ([]*nri.ContainerUpdate, error) { return nil, nil }
	nri.SetPluginRequestTimeout(reqTimeout())
	r, err := nri.New("verif-c09", "0", syncFn, updateFn,
		nri.WithPluginPath(pdir), nri.WithPluginConfigPath(empty), nri.WithSocketPath(filepath.Join(dir, "n.sock")))
	if err != nil {
		obs.Detail = "adaptation.New: " + err.Error()
		return obs
	}
	startC := make(chan error, 1)
	go func() { startC <- r.Start() }()
	select {
	case err = <-startC:
	case <-time.After(reqTimeout() + 10*time.Second):
		obs.Outcome = "timeout"
		obs.Detail = "Adaptation.Start did not return"
		return obs
	}
	if err != nil {
		obs.Outcome = "failed"
		obs.ErrKind = "start"
		obs.Detail = "adaptation.Start: " + err.Error()
	} else {
		obs.Outcome = "synced"
		evctx, evcancel := context.WithTimeout(context.Background(), 10*time.Second)
		if e := r.RunPodSandbox(evctx, &api.StateChangeEvent{Pod: &api.PodSandbox{Id: "probe", Name: "probe"}}); e != nil {
			obs.Detail = "RunPodSandbox: " + e.Error()
		}
		evcancel()
	}
	r.Stop() // kills the launched plugins
	mu.Lock()
	obs.SyncCalls = syncCalls
	for _, u := range rtUpdates {
		obs.RtUpdates = append(obs.RtUpdates, idxOf(u.GetContainerId(), 'c'))
	}
	obs.UpdBad = updBad(rtUpdates, in.UpdPad)
	if syncErr != nil {
		obs.ErrKind = "syncfn"
	}
	mu.Unlock()
	var names []string
	for n := range results {
		names = append(names, n)
	}
	sort.Strings(names)
	for _, n := range names {
		po := PluginObs{Name: n, Plan: []ChunkObs{}, Calls: []CallObs{}, Returned: []int{}}
		if b, err := os.ReadFile(results[n]); err == nil {
			if e := json.Unmarshal(b, &po); e != nil {
				obs.Detail += "; result of " + n + ": " + e.Error()
			}
		} else {
			obs.Detail += "; no result from " + n
		}
		if po.Runaway {
			obs.Runaway = true
		}
		obs.Plugins = append(obs.Plugins, po)
	}
	obs.Detail = strings.TrimPrefix(obs.Detail, "; ")
	return obs
}
