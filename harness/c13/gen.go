package c13

// Case generators: a systematic table (family × pattern × key present/absent, every scalar),
// a random stream mixing every field with small key alphabets, and a stream of inputs that
// lie outside the property's stated domain (guards), on which only model == code is checked.

import (
	"fmt"
	"math"
	"math/rand"
	"strings"
)

var (
	annKeys  = []string{"k0", "k1", "k2", "k3"}
	annVals  = []string{"a0", "a1", "", "x=y", "-v"}
	envNames = []string{"FOO", "BAR", "BAZ", "QUX"}
	envVals  = []string{"1", "two", "", "x=y", "a b", "-z"}
	mntDests = []string{"/", "/a", "/a/b", "/a/b/c", "/b", "/a-b", "/a/c", "/etc/x", "/b/c/d/e", "/a.b"}
	mntSrcs  = []string{"/src/0", "/src/1", "/tmp", "/", "tmpfs", "", hostShared, hostSlave, hostPrivate}
	// mount sources under the private mount namespace bin/check sets up for this check
	// (shared, slave of it, private); elsewhere they measure as private like any other path
	hostShared  = "/run/verifmnt/sh"
	hostSlave   = "/run/verifmnt/sl"
	hostPrivate = "/run/verifmnt/pr"
	mntTypes    = []string{"bind", "tmpfs", ""}
	mntOpts     = []string{"ro", "rw", "rbind", "nosuid", "rprivate", "relabel"}
	devPaths    = []string{"/dev/a", "/dev/b", "/dev/c", "/dev/d"}
	devTypes    = []string{"c", "b", "u", "p", ""}
	hookPaths   = []string{"/bin/h0", "/bin/h1", "/usr/bin/h2"}
	rlTypes     = []string{"RLIMIT_NOFILE", "RLIMIT_NPROC", "RLIMIT_CORE"}
	pageSizes   = []string{"2MB", "1GB", "64KB"}
	uniKeys     = []string{"memory.high", "cpu.weight", "io.max", "pids.max"}
	uniVals     = []string{"max", "100", "", "8:0 rbps=1"}
	cdiNames    = []string{"vendor.com/dev=d0", "vendor.com/dev=d1", "x.org/net=eth0"}
	argWords    = []string{"sh", "-c", "sleep 1", "x", "--flag=1"}
)

func defaultExt() ExtJ {
	return ExtJ{
		Blockio: map[string]uint16{"gold": 10, "silver": 20, "bronze": 30},
		Rdt:     map[string]string{"gold": "clos-gold", "silver": "clos-silver"},
		CDIBad:  []string{"vendor.com/dev=broken"},
	}
}

func pick(r *rand.Rand, xs []string) string { return xs[r.Intn(len(xs))] }

func rU64(r *rand.Rand) uint64 {
	switch r.Intn(6) {
	case 0:
		return 0
	case 1:
		return math.MaxUint64
	case 2:
		return uint64(math.MaxInt64) + 1
	default:
		return uint64(r.Intn(100000))
	}
}

func rI64(r *rand.Rand) int64 {
	switch r.Intn(7) {
	case 0:
		return 0
	case 1:
		return math.MaxInt64
	case 2:
		return math.MinInt64
	case 3:
		return -1
	default:
		return int64(r.Intn(200000)) - 1000
	}
}

func rNZ(r *rand.Rand) int64 {
	for {
		if v := rI64(r); v != 0 {
			return v
		}
	}
}

func subset(r *rand.Rand, xs []string, p float64) []string {
	var o []string
	for _, x := range xs {
		if r.Float64() < p {
			o = append(o, x)
		}
	}
	r.Shuffle(len(o), func(i, j int) { o[i], o[j] = o[j], o[i] })
	return o
}

func rStrs(r *rand.Rand, xs []string, max int) []string {
	n := r.Intn(max + 1)
	o := []string{}
	for i := 0; i < n; i++ {
		o = append(o, pick(r, xs))
	}
	return o
}

func genMount(r *rand.Rand, dest string) MountJ {
	m := MountJ{Destination: dest, Type: pick(r, mntTypes), Source: pick(r, mntSrcs), Options: []string{}}
	for _, o := range mntOpts {
		if r.Intn(4) == 0 {
			m.Options = append(m.Options, o)
		}
	}
	if r.Intn(40) == 0 {
		// needs a shared host mount under the source: an error class on hosts without one
		m.Options = append(m.Options, pick(r, []string{"rshared", "rslave"}))
	} else if strings.HasPrefix(m.Source, "/run/verifmnt/") && r.Intn(2) == 0 {
		// sources that bin/check's private mount namespace makes shared / slave / private: the
		// branches of AdjustMounts that raise the rootfs propagation can succeed
		m.Options = append(m.Options, pick(r, []string{"rshared", "rslave", "rslave", "rprivate"}))
	}
	return m
}

func genDevice(r *rand.Rand, path string) DeviceJ {
	d := DeviceJ{Path: path, Type: pick(r, devTypes), Major: int64(r.Intn(300)), Minor: int64(r.Intn(300))}
	if r.Intn(2) == 0 {
		d.FileMode = pu32(uint32([]int{0o666, 0o600, 0o444, 0o20000000 | 0o660, 0}[r.Intn(5)]))
	}
	if r.Intn(3) == 0 {
		d.UID = pu32(uint32(r.Intn(3)))
	}
	if r.Intn(3) == 0 {
		d.GID = pu32(uint32(r.Intn(3) * 1000))
	}
	return d
}

func genHook(r *rand.Rand) HookJ {
	h := HookJ{Path: pick(r, hookPaths), Args: rStrs(r, argWords, 2), Env: rStrs(r, []string{"A=1", "B=2"}, 2)}
	if r.Intn(2) == 0 {
		h.Timeout = p64(int64(r.Intn(60)))
	}
	return h
}

func genHookList(r *rand.Rand, p int) []HookJ {
	o := []HookJ{}
	for r.Intn(p) == 0 && len(o) < 2 {
		o = append(o, genHook(r))
	}
	return o
}

func genHooks(r *rand.Rand, p int) HooksJ {
	return HooksJ{genHookList(r, p), genHookList(r, p), genHookList(r, p), genHookList(r, p), genHookList(r, p), genHookList(r, p)}
}

func genCPU(r *rand.Rand, p float64) CPUJ {
	c := CPUJ{}
	if r.Float64() < p {
		c.Shares = pu64(rU64(r))
	}
	if r.Float64() < p {
		c.Quota = p64(rI64(r))
	}
	if r.Float64() < p {
		c.Period = pu64(rU64(r))
	}
	if r.Float64() < p {
		c.RealtimeRuntime = p64(rI64(r))
	}
	if r.Float64() < p {
		c.RealtimePeriod = pu64(rU64(r))
	}
	if r.Float64() < p {
		c.Cpus = pick(r, []string{"0-3", "1", "0,2"})
	}
	if r.Float64() < p {
		c.Mems = pick(r, []string{"0", "0-1"})
	}
	return c
}

func genMem(r *rand.Rand, p float64, zeroLimit bool) MemJ {
	m := MemJ{}
	if r.Float64() < p {
		if zeroLimit {
			m.Limit = p64(rI64(r))
		} else {
			m.Limit = p64(rNZ(r))
		}
	}
	if r.Float64() < p {
		m.Reservation = p64(rI64(r))
	}
	if r.Float64() < p {
		m.Swap = p64(rI64(r))
	}
	if r.Float64() < p/2 {
		m.Kernel = p64(rI64(r))
	}
	if r.Float64() < p/2 {
		m.KernelTCP = p64(rI64(r))
	}
	if r.Float64() < p/2 {
		m.Swappiness = pu64(rU64(r))
	}
	if r.Float64() < p/2 {
		b := r.Intn(2) == 0
		m.DisableOOMKiller = &b
	}
	if r.Float64() < p/2 {
		b := r.Intn(2) == 0
		m.UseHierarchy = &b
	}
	return m
}

func genShape(r *rand.Rand) ShapeJ {
	b := func() bool { return r.Intn(2) == 0 }
	return ShapeJ{b(), b(), b(), b(), b(), r.Intn(4) == 0, b(), false}
}

// genSpec: a spec inside the property's domain (NAME=value env entries with distinct
// non-empty names, distinct clean absolute mount destinations, distinct device paths).
func genSpec(r *rand.Rand) SpecJ {
	s := SpecJ{Annotations: map[string]string{}, Unified: map[string]string{}, Shape: genShape(r)}
	for _, k := range subset(r, annKeys, 0.5) {
		s.Annotations[k] = pick(r, annVals)
	}
	if r.Intn(8) == 0 {
		s.Annotations[pick(r, []string{"", "-k0", "-"})] = "odd"
	}
	s.Args = rStrs(r, argWords, 3)
	s.Env = []string{}
	for _, n := range subset(r, envNames, 0.5) {
		s.Env = append(s.Env, n+"="+pick(r, envVals))
	}
	s.Rlimits = []RlimitJ{}
	for _, t := range subset(r, rlTypes, 0.3) {
		s.Rlimits = append(s.Rlimits, RlimitJ{t, rU64(r), rU64(r)})
	}
	if r.Intn(3) == 0 {
		s.Oom = p64(int64(r.Intn(2001) - 1000))
	}
	s.Mounts = []MountJ{}
	for _, d := range subset(r, mntDests, 0.4) {
		s.Mounts = append(s.Mounts, genMount(r, d))
	}
	s.Devices = []DeviceJ{}
	for _, p := range subset(r, devPaths, 0.5) {
		s.Devices = append(s.Devices, genDevice(r, p))
	}
	s.DevRules = []DevRuleJ{}
	if r.Intn(2) == 0 {
		s.DevRules = append(s.DevRules, DevRuleJ{Allow: false, Access: "rwm"})
	}
	if r.Intn(3) == 0 {
		s.DevRules = append(s.DevRules, DevRuleJ{Allow: true, Type: "c", Major: p64(1), Minor: p64(int64(r.Intn(9))), Access: "rw"})
	}
	s.CPU = genCPU(r, 0.3)
	s.Memory = genMem(r, 0.3, true)
	s.Hugepages = []HugeJ{}
	for _, p := range subset(r, pageSizes, 0.4) {
		s.Hugepages = append(s.Hugepages, HugeJ{p, rU64(r)})
	}
	for _, k := range subset(r, uniKeys, 0.4) {
		s.Unified[k] = pick(r, uniVals)
	}
	if r.Intn(3) == 0 {
		s.Pids = p64(rI64(r))
	}
	if r.Intn(5) == 0 {
		w := uint16(r.Intn(1000))
		s.Blockio = &w
	}
	if r.Intn(5) == 0 {
		s.Rdt = pstr("clos-old")
	}
	s.CgroupsPath = pick(r, []string{"", "/cg/orig", "sys.slice:pfx:name"})
	s.RootfsPropagation = pick(r, []string{"", "", "rprivate", "rslave", "rshared"})
	s.Hooks = genHooks(r, 4)
	s.CDI = []string{}
	return s
}

// opsFor returns a sequence of operations on one key: 's' = set, 'r' = remove.
var patterns = []string{"s", "r", "rs", "sr", "ss", "rsr", "srs", "rr"}

func genPattern(r *rand.Rand) string {
	// plain set / remove / remove-then-set dominate; the rest keeps collisions frequent
	switch v := r.Intn(20); {
	case v < 6:
		return "s"
	case v < 10:
		return "r"
	case v < 14:
		return "rs"
	case v < 16:
		return "sr"
	case v < 17:
		return "ss"
	case v < 18:
		return "rsr"
	case v < 19:
		return "srs"
	default:
		return "rr"
	}
}

type keyedOp struct {
	key string
	set bool
}

// interleave merges the per-key operation sequences randomly, keeping each key's own order.
func interleave(r *rand.Rand, seqs [][]keyedOp) []keyedOp {
	var out []keyedOp
	for {
		var live []int
		for i, s := range seqs {
			if len(s) > 0 {
				live = append(live, i)
			}
		}
		if len(live) == 0 {
			return out
		}
		i := live[r.Intn(len(live))]
		out = append(out, seqs[i][0])
		seqs[i] = seqs[i][1:]
	}
}

func keyedOps(r *rand.Rand, keys []string, p float64, fixed map[string]string) []keyedOp {
	var seqs [][]keyedOp
	for _, k := range keys {
		pat, ok := fixed[k]
		if !ok {
			if len(fixed) > 0 || r.Float64() >= p {
				continue
			}
			pat = genPattern(r)
		}
		var s []keyedOp
		for _, c := range pat {
			s = append(s, keyedOp{k, c == 's'})
		}
		seqs = append(seqs, s)
	}
	return interleave(r, seqs)
}

type adjOpts struct {
	pFamily   float64           // probability that a family is touched at all
	zeroLimit bool              // may request memory limit 0 (finding C13:memory-limit-zero)
	setRemove bool              // may produce set-then-remove orders in list families
	ann       map[string]string // fixed patterns per key (systematic stream)
	env       map[string]string
	mnt       map[string]string
	dev       map[string]string
}

func filterPat(ops []keyedOp, allowSetRemove bool) []keyedOp {
	if allowSetRemove {
		return ops
	}
	// drop removals that come after a set of the same key
	seen := map[string]bool{}
	var o []keyedOp
	for _, op := range ops {
		if op.set {
			seen[op.key] = true
		} else if seen[op.key] {
			continue
		}
		o = append(o, op)
	}
	return o
}

func genAdj(r *rand.Rand, o adjOpts) AdjJ {
	a := AdjJ{Mounts: []MountJ{}, Env: []KVJ{}, Rlimits: []RlimitJ{}, CDI: []string{}, Args: []string{}}
	on := func(fixed map[string]string) bool { return len(fixed) > 0 || r.Float64() < o.pFamily }
	if on(o.ann) {
		a.Annotations = map[string]string{}
		// a map cannot hold an order: "set and remove" of one key = both entries present
		for _, op := range keyedOps(r, annKeys, 0.45, o.ann) {
			if op.set {
				a.Annotations[op.key] = pick(r, annVals)
			} else {
				a.Annotations["-"+op.key] = ""
			}
		}
		if r.Intn(10) == 0 && len(o.ann) == 0 && o.pFamily > 0 {
			a.Annotations[pick(r, []string{"", "-", "--k0"})] = "odd"
		}
	}
	if on(o.env) {
		for _, op := range filterPat(keyedOps(r, envNames, 0.45, o.env), o.setRemove) {
			if op.set {
				a.Env = append(a.Env, KVJ{op.key, pick(r, envVals)})
			} else {
				a.Env = append(a.Env, KVJ{"-" + op.key, ""})
			}
		}
	}
	if on(o.mnt) {
		for _, op := range filterPat(keyedOps(r, mntDests, 0.25, o.mnt), o.setRemove) {
			if op.set {
				a.Mounts = append(a.Mounts, genMount(r, op.key))
			} else {
				a.Mounts = append(a.Mounts, MountJ{Destination: "-" + op.key, Options: []string{}})
			}
		}
	}
	lin := &LinuxJ{Devices: []DeviceJ{}}
	useLin := false
	if on(o.dev) {
		useLin = true
		for _, op := range filterPat(keyedOps(r, devPaths, 0.45, o.dev), o.setRemove) {
			if op.set {
				lin.Devices = append(lin.Devices, genDevice(r, op.key))
			} else {
				lin.Devices = append(lin.Devices, DeviceJ{Path: "-" + op.key})
			}
		}
	}
	if r.Float64() < o.pFamily {
		switch r.Intn(4) {
		case 0:
			a.Args = rStrs(r, argWords, 3)
		case 1:
			a.Args = append([]string{""}, append(rStrs(r, argWords, 2), pick(r, argWords))...) // UpdateArgs(non-empty)
		case 2:
			a.Args = append(rStrs(r, argWords, 2), "", "tail") // "" elsewhere is an ordinary argument
			if a.Args[0] == "" {
				a.Args = append([]string{"x"}, a.Args...)
			}
		}
	}
	if r.Float64() < o.pFamily {
		h := genHooks(r, 3)
		a.Hooks = &h
	}
	if r.Float64() < o.pFamily {
		for _, t := range rStrs(r, rlTypes, 3) {
			a.Rlimits = append(a.Rlimits, RlimitJ{t, rU64(r), rU64(r)})
		}
	}
	if r.Float64() < o.pFamily {
		a.CDI = rStrs(r, cdiNames, 3)
		if r.Intn(25) == 0 {
			a.CDI = append(a.CDI, "vendor.com/dev=broken")
		}
	}
	if r.Float64() < o.pFamily {
		useLin = true
		lin.CgroupsPath = pick(r, []string{"", "/cg/new", "a.slice:b:c"})
	}
	if r.Float64() < o.pFamily {
		useLin = true
		lin.Oom = p64(int64(r.Intn(2001) - 1000))
	}
	if r.Float64() < o.pFamily+0.2 {
		useLin = true
		res := &ResJ{Hugepages: []HugeJ{}}
		if r.Intn(2) == 0 {
			c := genCPU(r, 0.5)
			res.CPU = &c
		}
		if r.Intn(2) == 0 {
			m := genMem(r, 0.6, o.zeroLimit && r.Intn(6) == 0)
			res.Memory = &m
		}
		if r.Intn(2) == 0 {
			for _, p := range rStrs(r, pageSizes, 3) {
				res.Hugepages = append(res.Hugepages, HugeJ{p, rU64(r)})
			}
		}
		if r.Intn(2) == 0 {
			res.Unified = map[string]string{}
			for _, k := range subset(r, uniKeys, 0.5) {
				res.Unified[k] = pick(r, uniVals)
			}
		}
		if r.Intn(3) == 0 {
			res.Pids = p64(rI64(r))
		}
		if r.Intn(3) == 0 {
			res.Blockio = pstr(pick(r, []string{"gold", "silver", "bronze", "", "gold", "silver", "bronze", "", "gold", "nosuch"}))
		}
		if r.Intn(3) == 0 {
			res.Rdt = pstr(pick(r, []string{"gold", "silver", "", "gold", "silver", "", "gold", "silver", "nosuch"}))
		}
		lin.Resources = res
	}
	if useLin || r.Intn(4) == 0 {
		a.Linux = lin
	}
	return a
}

// ---- systematic table -------------------------------------------------------------------

func baseSpec() SpecJ {
	r := rand.New(rand.NewSource(4242))
	s := genSpec(r)
	s.Annotations = map[string]string{"k0": "a0", "k1": "a1"}
	s.Env = []string{"FOO=1", "BAR=two"}
	s.Mounts = []MountJ{{"/b", "bind", "/src/0", []string{"ro"}}, {"/a/b", "bind", "/src/1", []string{}}, {"/a", "tmpfs", "tmpfs", []string{}}}
	s.Devices = []DeviceJ{{Path: "/dev/a", Type: "c", Major: 1, Minor: 3}, {Path: "/dev/b", Type: "b", Major: 8, Minor: 0}}
	s.Args = []string{"orig", "cmd"}
	s.Hugepages = []HugeJ{{"2MB", 5}}
	s.Unified = map[string]string{"memory.high": "max"}
	s.Shape = ShapeJ{}
	return s
}

func emptyAdj() AdjJ {
	return AdjJ{Mounts: []MountJ{}, Env: []KVJ{}, Rlimits: []RlimitJ{}, CDI: []string{}, Args: []string{}}
}

type namedIn struct {
	id string
	in In
}

func systematic(seed int64) []namedIn {
	var out []namedIn
	r := rand.New(rand.NewSource(seed*7 + 13))
	add := func(id string, spec SpecJ, a AdjJ) {
		out = append(out, namedIn{"sys-" + id, In{Kind: "sys", Spec: spec, Adjust: a, Ext: defaultExt(), Runs: 30}})
	}
	keys := map[string][2]string{"ann": {"k0", "k3"}, "env": {"FOO", "QUX"}, "mnt": {"/a", "/c"}, "dev": {"/dev/a", "/dev/d"}}
	for _, fam := range []string{"ann", "env", "mnt", "dev"} {
		for _, pat := range patterns {
			for i, which := range []string{"present", "absent"} {
				k := keys[fam][i]
				o := adjOpts{pFamily: 0, setRemove: true}
				fixed := map[string]string{k: pat}
				switch fam {
				case "ann":
					o.ann = fixed
				case "env":
					o.env = fixed
				case "mnt":
					o.mnt = fixed
				case "dev":
					o.dev = fixed
				}
				a := genAdj(r, o)
				// only the family under test
				b := emptyAdj()
				switch fam {
				case "ann":
					b.Annotations = a.Annotations
				case "env":
					b.Env = a.Env
				case "mnt":
					b.Mounts = a.Mounts
				case "dev":
					b.Linux = &LinuxJ{Devices: a.Linux.Devices}
				}
				add(fmt.Sprintf("%s-%s-%s", fam, pat, which), baseSpec(), b)
			}
		}
	}
	// every scalar on its own, on a populated and on an empty spec
	scalars := map[string]func(*ResJ, *LinuxJ, *AdjJ){
		"cpu-shares":    func(x *ResJ, _ *LinuxJ, _ *AdjJ) { x.CPU = &CPUJ{Shares: pu64(rU64(r))} },
		"cpu-quota":     func(x *ResJ, _ *LinuxJ, _ *AdjJ) { x.CPU = &CPUJ{Quota: p64(rI64(r))} },
		"cpu-period":    func(x *ResJ, _ *LinuxJ, _ *AdjJ) { x.CPU = &CPUJ{Period: pu64(rU64(r))} },
		"cpu-rtruntime": func(x *ResJ, _ *LinuxJ, _ *AdjJ) { x.CPU = &CPUJ{RealtimeRuntime: p64(rI64(r))} },
		"cpu-rtperiod":  func(x *ResJ, _ *LinuxJ, _ *AdjJ) { x.CPU = &CPUJ{RealtimePeriod: pu64(rU64(r))} },
		"cpu-cpus":      func(x *ResJ, _ *LinuxJ, _ *AdjJ) { x.CPU = &CPUJ{Cpus: "2-3"} },
		"cpu-mems":      func(x *ResJ, _ *LinuxJ, _ *AdjJ) { x.CPU = &CPUJ{Mems: "1"} },
		"cpu-empty":     func(x *ResJ, _ *LinuxJ, _ *AdjJ) { x.CPU = &CPUJ{} },
		"cpu-zeroes":    func(x *ResJ, _ *LinuxJ, _ *AdjJ) { x.CPU = &CPUJ{Shares: pu64(0), Quota: p64(0), Period: pu64(0)} },
		"mem-limit":     func(x *ResJ, _ *LinuxJ, _ *AdjJ) { x.Memory = &MemJ{Limit: p64(rNZ(r))} },
		"mem-others": func(x *ResJ, _ *LinuxJ, _ *AdjJ) {
			x.Memory = &MemJ{Reservation: p64(5), Swap: p64(6), Kernel: p64(7), KernelTCP: p64(8), Swappiness: pu64(9)}
		},
		"mem-empty":  func(x *ResJ, _ *LinuxJ, _ *AdjJ) { x.Memory = &MemJ{} },
		"huge-old":   func(x *ResJ, _ *LinuxJ, _ *AdjJ) { x.Hugepages = []HugeJ{{"2MB", rU64(r)}} },
		"huge-new":   func(x *ResJ, _ *LinuxJ, _ *AdjJ) { x.Hugepages = []HugeJ{{"1GB", rU64(r)}} },
		"huge-twice": func(x *ResJ, _ *LinuxJ, _ *AdjJ) { x.Hugepages = []HugeJ{{"1GB", 1}, {"2MB", 2}, {"1GB", 3}} },
		"unified": func(x *ResJ, _ *LinuxJ, _ *AdjJ) {
			x.Unified = map[string]string{"memory.high": "1", "cpu.weight": "2", "io.max": "3"}
		},
		"pids":        func(x *ResJ, _ *LinuxJ, _ *AdjJ) { x.Pids = p64(rI64(r)) },
		"pids-zero":   func(x *ResJ, _ *LinuxJ, _ *AdjJ) { x.Pids = p64(0) },
		"blockio":     func(x *ResJ, _ *LinuxJ, _ *AdjJ) { x.Blockio = pstr("silver") },
		"blockio-clr": func(x *ResJ, _ *LinuxJ, _ *AdjJ) { x.Blockio = pstr("") },
		"blockio-bad": func(x *ResJ, _ *LinuxJ, _ *AdjJ) { x.Blockio = pstr("nosuch") },
		"rdt":         func(x *ResJ, _ *LinuxJ, _ *AdjJ) { x.Rdt = pstr("gold") },
		"rdt-clr":     func(x *ResJ, _ *LinuxJ, _ *AdjJ) { x.Rdt = pstr("") },
		"rdt-bad":     func(x *ResJ, _ *LinuxJ, _ *AdjJ) { x.Rdt = pstr("nosuch") },
		"res-empty":   func(x *ResJ, _ *LinuxJ, _ *AdjJ) {},
		"cgroups":     func(_ *ResJ, l *LinuxJ, _ *AdjJ) { l.CgroupsPath = "/cg/new"; l.Resources = nil },
		"oom":         func(_ *ResJ, l *LinuxJ, _ *AdjJ) { l.Oom = p64(-999); l.Resources = nil },
		"oom-zero":    func(_ *ResJ, l *LinuxJ, _ *AdjJ) { l.Oom = p64(0); l.Resources = nil },
		"linux-empty": func(_ *ResJ, l *LinuxJ, _ *AdjJ) { l.Resources = nil },
		"args":        func(_ *ResJ, _ *LinuxJ, a *AdjJ) { a.Args = []string{"new", "cmd", "line"}; a.Linux = nil },
		"args-update": func(_ *ResJ, _ *LinuxJ, a *AdjJ) { a.Args = []string{"", "new", "cmd"}; a.Linux = nil },
		"args-inner":  func(_ *ResJ, _ *LinuxJ, a *AdjJ) { a.Args = []string{"new", "", "cmd"}; a.Linux = nil },
		"hooks": func(_ *ResJ, _ *LinuxJ, a *AdjJ) {
			a.Hooks = &HooksJ{[]HookJ{{"/p", []string{"p"}, []string{}, p64(1)}}, []HookJ{{"/cr", []string{}, []string{"A=1"}, nil}}, []HookJ{{"/cc", []string{}, []string{}, nil}},
				[]HookJ{{"/sc", []string{}, []string{}, nil}}, []HookJ{{"/ps", []string{}, []string{}, nil}}, []HookJ{{"/pp", []string{}, []string{}, p64(0)}}}
			a.Linux = nil
		},
		"hooks-empty": func(_ *ResJ, _ *LinuxJ, a *AdjJ) { a.Hooks = &HooksJ{}; a.Linux = nil },
		"rlimits": func(_ *ResJ, _ *LinuxJ, a *AdjJ) {
			a.Rlimits = []RlimitJ{{"RLIMIT_NOFILE", 10, 5}, {"RLIMIT_NOFILE", 20, 6}, {"RLIMIT_CORE", 0, 0}}
			a.Linux = nil
		},
		"cdi": func(_ *ResJ, _ *LinuxJ, a *AdjJ) {
			a.CDI = []string{"vendor.com/dev=d1", "vendor.com/dev=d0", "vendor.com/dev=d1"}
			a.Linux = nil
		},
		"cdi-bad": func(_ *ResJ, _ *LinuxJ, a *AdjJ) {
			a.CDI = []string{"vendor.com/dev=d1", "vendor.com/dev=broken"}
			a.Linux = nil
		},
		"mnt-prop": func(_ *ResJ, _ *LinuxJ, a *AdjJ) {
			a.Mounts = []MountJ{{"/p", "bind", "/src/0", []string{"rprivate"}}, {"/q", "bind", "/src/1", []string{"ro"}}}
			a.Linux = nil
		},
		"mnt-rshared": func(_ *ResJ, _ *LinuxJ, a *AdjJ) {
			a.Mounts = []MountJ{{"/p", "bind", "/src/0", []string{"rshared"}}}
			a.Linux = nil
		},
		"mnt-rslave-sticky": func(_ *ResJ, _ *LinuxJ, a *AdjJ) {
			a.Mounts = []MountJ{{"/p", "bind", "/src/0", []string{"rprivate"}}, {"/q", "bind", "/src/1", []string{"rslave", "rprivate"}}, {"/r", "bind", "/", []string{"rslave"}}}
			a.Linux = nil
		},
		"mnt-host-rshared": func(_ *ResJ, _ *LinuxJ, a *AdjJ) {
			a.Mounts = []MountJ{{"/p", "bind", hostShared, []string{"rshared"}}}
			a.Linux = nil
		},
		"mnt-host-rslave": func(_ *ResJ, _ *LinuxJ, a *AdjJ) {
			a.Mounts = []MountJ{{"/p", "bind", hostSlave, []string{"rslave"}}}
			a.Linux = nil
		},
		"mnt-host-rslave-of-shared": func(_ *ResJ, _ *LinuxJ, a *AdjJ) {
			a.Mounts = []MountJ{{"/p", "bind", hostShared + "/d", []string{"ro", "rslave"}}}
			a.Linux = nil
		},
		"mnt-host-rshared-of-slave": func(_ *ResJ, _ *LinuxJ, a *AdjJ) {
			a.Mounts = []MountJ{{"/p", "bind", hostSlave, []string{"rshared"}}}
			a.Linux = nil
		},
		"mnt-host-rshared-then-rslave": func(_ *ResJ, _ *LinuxJ, a *AdjJ) {
			a.Mounts = []MountJ{{"/p", "bind", hostShared, []string{"rshared"}}, {"/q", "bind", hostSlave, []string{"rslave"}}}
			a.Linux = nil
		},
		"mnt-host-rslave-then-rshared": func(_ *ResJ, _ *LinuxJ, a *AdjJ) {
			a.Mounts = []MountJ{{"/q", "bind", hostSlave, []string{"rslave"}}, {"/p", "bind", hostShared, []string{"rshared"}}}
			a.Linux = nil
		},
		"mnt-host-sticky": func(_ *ResJ, _ *LinuxJ, a *AdjJ) {
			a.Mounts = []MountJ{{"/p", "bind", hostShared, []string{"rslave"}}, {"/q", "bind", hostShared + "/d", []string{"ro"}}, {"/r", "bind", hostPrivate, []string{"rw"}}}
			a.Linux = nil
		},
		"mnt-host-private-rslave": func(_ *ResJ, _ *LinuxJ, a *AdjJ) {
			a.Mounts = []MountJ{{"/p", "bind", hostPrivate, []string{"rslave"}}}
			a.Linux = nil
		},
		"nothing": func(_ *ResJ, _ *LinuxJ, a *AdjJ) { a.Linux = nil },
	}
	names := make([]string, 0, len(scalars))
	for n := range scalars {
		names = append(names, n)
	}
	sortStrings(names)
	for _, n := range names {
		for _, sp := range []struct {
			tag  string
			spec SpecJ
		}{{"base", baseSpec()}, {"empty", SpecJ{Shape: ShapeJ{true, true, true, true, true, false, false, false}}}, {"nolinux", SpecJ{Shape: ShapeJ{true, true, true, true, true, false, true, false}}}, {"nolinux-raw", SpecJ{Shape: ShapeJ{true, true, true, true, true, true, true, false}}}, {"rand", genSpec(r)}} {
			a := emptyAdj()
			res := &ResJ{Hugepages: []HugeJ{}}
			a.Linux = &LinuxJ{Devices: []DeviceJ{}, Resources: res}
			scalars[n](res, a.Linux, &a)
			add(n+"-"+sp.tag, sp.spec, a)
		}
	}
	// externals not configured: the corresponding adjustments are skipped silently
	for i, ext := range []ExtJ{{NoInjector: true}, {NoBlockio: true}, {NoRdt: true}} {
		a := emptyAdj()
		a.CDI = []string{"vendor.com/dev=d0"}
		a.Linux = &LinuxJ{Devices: []DeviceJ{}, Resources: &ResJ{Hugepages: []HugeJ{}, Blockio: pstr("gold"), Rdt: pstr("gold")}}
		e := defaultExt()
		e.NoInjector, e.NoBlockio, e.NoRdt = ext.NoInjector, ext.NoBlockio, ext.NoRdt
		out = append(out, namedIn{fmt.Sprintf("sys-noext-%d", i), In{Kind: "sys", Spec: baseSpec(), Adjust: a, Ext: e, Runs: 30}})
	}
	return out
}

// ---- the runtime's callbacks: WithAnnotationFilter / WithResourceChecker --------------------

var (
	filterKinds = []string{"nop", "drop", "reject"}
	filterArgs  = []string{"k", "k1", "-", "-k0", "internal/", "", "k3"}
	checkKinds  = []string{"ok", "fail", "failPidsGt", "capShares", "setPids", "clearUnified"}
)

func genCallbacks(r *rand.Rand, e *ExtJ) {
	if r.Intn(3) > 0 {
		e.Filter = &CallbackJ{Kind: pick(r, filterKinds), Arg: pick(r, filterArgs)}
	}
	if e.Filter == nil || r.Intn(3) > 0 {
		k := pick(r, checkKinds)
		if k == "fail" && r.Intn(2) == 0 {
			k = "ok"
		}
		e.Check = &CallbackJ{Kind: k, N: []int64{0, 1, 100, 512, 50000, -1}[r.Intn(6)]}
	}
}

// optionCases: the systematic part — each callback kind against an adjustment with / without a
// resources section, with an earlier (CDI) and a later (block-I/O class, mount propagation)
// failure, the filter letting through / dropping / refusing set and removal entries.
func optionCases() []namedIn {
	var out []namedIn
	add := func(id string, spec SpecJ, a AdjJ, e ExtJ) {
		out = append(out, namedIn{"opt-" + id, In{Kind: "opts", Spec: spec, Adjust: a, Ext: e, Runs: 10}})
	}
	i64 := func(v int64) *int64 { return &v }
	u64 := func(v uint64) *uint64 { return &v }
	full := func() AdjJ {
		a := emptyAdj()
		a.Annotations = map[string]string{"k0": "new", "-k1": "", "k3": "v3", "internal/x": "1"}
		a.Mounts = []MountJ{{"/c", "bind", "/src/0", []string{"ro"}}}
		a.Env = []KVJ{{"QUX", "1"}}
		a.Rlimits = []RlimitJ{{"RLIMIT_NOFILE", 10, 5}}
		a.Linux = &LinuxJ{Devices: []DeviceJ{}, Resources: &ResJ{Hugepages: []HugeJ{{"1GB", 2}},
			CPU: &CPUJ{Shares: u64(2048)}, Pids: i64(77), Unified: map[string]string{"cpu.weight": "100"}}}
		return a
	}
	for _, fk := range []string{"", "nop", "drop", "reject"} {
		for _, fa := range []string{"k", "-", "internal/", "zzz"} {
			if fk == "" && fa != "k" {
				continue
			}
			for _, ck := range []string{"", "ok", "fail", "failPidsGt", "capShares", "setPids", "clearUnified"} {
				if fk == "" && ck == "" {
					continue
				}
				e := defaultExt()
				if fk != "" {
					e.Filter = &CallbackJ{Kind: fk, Arg: fa}
				}
				if ck != "" {
					e.Check = &CallbackJ{Kind: ck, N: 512}
				}
				id := fmt.Sprintf("%s-%s-%s", fk, strings.ReplaceAll(fa, "/", "_"), ck)
				add("full-"+id, baseSpec(), full(), e)
				if fa == "k" {
					// no resources section at all / a Linux section without resources / an empty resources section
					a1 := full()
					a1.Linux = nil
					add("nolinux-"+id, baseSpec(), a1, e)
					a2 := full()
					a2.Linux.Resources = nil
					a2.Linux.Oom = i64(5)
					add("nores-"+id, baseSpec(), a2, e)
					a3 := full()
					a3.Linux.Resources = &ResJ{Hugepages: []HugeJ{}}
					add("emptyres-"+id, baseSpec(), a3, e)
					add("emptyres-emptyspec-"+id, SpecJ{Shape: ShapeJ{true, true, true, true, true, false, false, false}}, a3, e)
					add("emptyres-nolinux-"+id, SpecJ{Shape: ShapeJ{true, true, true, true, true, false, true, false}}, a3, e)
					add("emptyres-nolinux-raw-"+id, SpecJ{Shape: ShapeJ{true, true, true, true, true, true, true, false}}, a3, e)
					// an earlier failure (CDI): the checker must not run; a later one (block-I/O class): it has run
					a4 := full()
					a4.CDI = []string{"vendor.com/dev=broken"}
					add("cdifail-"+id, baseSpec(), a4, e)
					a5 := full()
					a5.Linux.Resources.Blockio = pstr("no-such-class")
					add("biofail-"+id, baseSpec(), a5, e)
					a6 := full()
					a6.Linux.Resources.Blockio = pstr("gold")
					a6.Linux.Resources.Rdt = pstr("silver")
					add("classes-"+id, baseSpec(), a6, e)
					// thresholds of the checkers
					a7 := full()
					a7.Linux.Resources.Pids = i64(512)
					a7.Linux.Resources.CPU.Shares = u64(512)
					add("at-threshold-"+id, baseSpec(), a7, e)
					a8 := full()
					a8.Linux.Resources.Pids = nil
					a8.Linux.Resources.CPU = nil
					sp := baseSpec()
					sp.Pids = i64(9999)
					sp.CPU.Shares = u64(4096)
					add("original-values-"+id, sp, a8, e)
				}
			}
		}
	}
	return out
}

func sortStrings(s []string) {
	for i := 1; i < len(s); i++ {
		for j := i; j > 0 && s[j] < s[j-1]; j-- {
			s[j], s[j-1] = s[j-1], s[j]
		}
	}
}

// ---- unclean (but absolute) mount destinations: inside the domain -------------------------

// uncleanOf writes a cleaned absolute destination in a form filepath.Clean would change.
func uncleanOf(r *rand.Rand, d string) string {
	if d == "/" {
		return pick(r, []string{"//", "/.", "/./", "/x/.."})
	}
	switch r.Intn(6) {
	case 0:
		return d + "/" // the realistic one: a volume mountPath "/data/"
	case 1:
		return "/" + d
	case 2:
		return d + "/."
	case 3:
		return "/." + d
	case 4:
		return "/zz/.." + d
	default:
		return d + "//"
	}
}

// uncleanCase: a random case in which some original mounts and some mounts of the adjustment are
// written uncleanly (trailing slash, doubled slash, dot components). Destinations stay distinct
// as strings, so the case is inside the property's domain: everything is judged, and "parents
// first" is demanded of every CLEANED parent, whatever its children look like.
func uncleanCase(r *rand.Rand) In {
	s := genSpec(r)
	a := genAdj(r, adjOpts{pFamily: 0.3, setRemove: true, mnt: nil})
	seen := map[string]bool{}
	for _, m := range s.Mounts {
		seen[m.Destination] = true
	}
	fresh := func(d string) (string, bool) {
		for t := 0; t < 8; t++ {
			u := uncleanOf(r, d)
			if !seen[u] {
				seen[u] = true
				return u, true
			}
		}
		return "", false
	}
	// rewrite or add original mounts
	for i := range s.Mounts {
		if r.Intn(3) == 0 {
			if u, ok := fresh(s.Mounts[i].Destination); ok {
				delete(seen, s.Mounts[i].Destination)
				s.Mounts[i].Destination = u
			}
		}
	}
	for n := r.Intn(3); n > 0; n-- {
		if u, ok := fresh(pick(r, mntDests)); ok {
			s.Mounts = append(s.Mounts, genMount(r, u))
		}
	}
	if len(s.Mounts) > 9 {
		s.Mounts = s.Mounts[:9]
	}
	// the adjustment: sets of unclean destinations, removals of unclean originals, and always at
	// least one mount so that the list is re-sorted
	for n := 1 + r.Intn(3); n > 0; n-- {
		switch r.Intn(4) {
		case 0:
			if len(s.Mounts) > 0 {
				a.Mounts = append(a.Mounts, MountJ{Destination: "-" + s.Mounts[r.Intn(len(s.Mounts))].Destination, Options: []string{}})
				break
			}
			fallthrough
		case 1:
			a.Mounts = append(a.Mounts, genMount(r, pick(r, mntDests)))
		default:
			a.Mounts = append(a.Mounts, genMount(r, uncleanOf(r, pick(r, mntDests))))
		}
	}
	r.Shuffle(len(a.Mounts), func(i, j int) { a.Mounts[i], a.Mounts[j] = a.Mounts[j], a.Mounts[i] })
	return In{Kind: "unclean", Spec: s, Adjust: a, Ext: defaultExt(), Runs: 10}
}

// ---- inputs outside the stated domain -----------------------------------------------------

func excluded(r *rand.Rand, i int) In {
	s := genSpec(r)
	a := genAdj(r, adjOpts{pFamily: 0.3, setRemove: false})
	switch i % 8 {
	case 0: // original env entries that are not NAME=value / empty name / duplicate names
		s.Env = append(s.Env, pick(r, []string{"NOEQ", "=novalue", "FOO=dup", "BAR"}))
		r.Shuffle(len(s.Env), func(i, j int) { s.Env[i], s.Env[j] = s.Env[j], s.Env[i] })
		if len(a.Env) == 0 {
			a.Env = []KVJ{{pick(r, envNames), "v"}}
		}
	case 1: // adjustment env keys with '=' or empty
		a.Env = append(a.Env, KVJ{pick(r, []string{"", "A=B", "-", "-A=B", "=x"}), "val"})
	case 2: // mount destinations that are not cleaned, some not even absolute (judged like any other case
		// since the review: only a PARENT has to be a cleaned path for "parents first")
		bad := []string{"//", "/%", "/a/", "a/b", "/a/../b", "", "/a//b", "/./a", ".."}
		s.Mounts = append(s.Mounts, genMount(r, pick(r, bad)))
		a.Mounts = append(a.Mounts, genMount(r, pick(r, bad)))
	case 3: // duplicate mount destinations in the original
		if len(s.Mounts) > 6 {
			s.Mounts = s.Mounts[:6] // ties + more than 12 elements would leave sort.Sort's insertion-sort range
		}
		if len(s.Mounts) > 0 {
			s.Mounts = append(s.Mounts, genMount(r, s.Mounts[0].Destination))
		} else {
			s.Mounts = []MountJ{genMount(r, "/a"), genMount(r, "/a")}
		}
		// the removal goes first: set-then-remove orders are exercised (and judged) in the random stream
		a.Mounts = append([]MountJ{{Destination: "-" + s.Mounts[0].Destination, Options: []string{}}}, a.Mounts...)
	case 4: // duplicate device paths in the original
		s.Devices = append(s.Devices, genDevice(r, "/dev/a"), genDevice(r, "/dev/a"))
		if a.Linux == nil {
			a.Linux = &LinuxJ{Devices: []DeviceJ{}}
		}
		if r.Intn(2) == 0 {
			a.Linux.Devices = append([]DeviceJ{{Path: "-/dev/a"}}, a.Linux.Devices...)
		} else {
			a.Linux.Devices = append(a.Linux.Devices, genDevice(r, "/dev/a"))
		}
	case 5: // bare UpdateArgs marker
		a.Args = []string{""}
	case 6: // the pathological pair of DESIGN §6 #11 (in the domain; its unclean parent "//" is exempt)
		s.Mounts = []MountJ{genMount(r, "/%"), genMount(r, "//")}
		a.Mounts = []MountJ{genMount(r, "/zz")}
	case 7: // keys that themselves start with the marker
		a.Mounts = append(a.Mounts, MountJ{Destination: "--/a", Options: []string{}})
		if a.Linux == nil {
			a.Linux = &LinuxJ{Devices: []DeviceJ{}}
		}
		a.Linux.Devices = append(a.Linux.Devices, DeviceJ{Path: "--/dev/a"})
		a.Env = append(a.Env, KVJ{"--FOO", ""})
	}
	return In{Kind: "excl", Spec: s, Adjust: a, Ext: defaultExt(), Runs: 10}
}
