package c13

// JSON vocabulary shared by the harness and the Lean driver (lean/Driver/C13.lean), and the
// conversions between it and the real types (rspec.Spec, api.ContainerAdjustment).
//
// SpecJ is both the generated input spec and the canonical observation of the spec held by
// the generator after Adjust: exactly the fields the Lean model `Nri.Oci.Spec` covers,
// flattened; nil and empty identified; maps as JSON objects (encoding/json sorts the keys).

import (
	"encoding/json"
	"os"

	"github.com/containerd/nri/pkg/api"
	rspec "github.com/opencontainers/runtime-spec/specs-go"
)

type MountJ struct {
	Destination string   `json:"destination"`
	Type        string   `json:"type"`
	Source      string   `json:"source"`
	Options     []string `json:"options"`
}

type DeviceJ struct {
	Path     string  `json:"path"`
	Type     string  `json:"type"`
	Major    int64   `json:"major"`
	Minor    int64   `json:"minor"`
	FileMode *uint32 `json:"fileMode"`
	UID      *uint32 `json:"uid"`
	GID      *uint32 `json:"gid"`
}

type DevRuleJ struct {
	Allow  bool   `json:"allow"`
	Type   string `json:"type"`
	Major  *int64 `json:"major"`
	Minor  *int64 `json:"minor"`
	Access string `json:"access"`
}

type HookJ struct {
	Path    string   `json:"path"`
	Args    []string `json:"args"`
	Env     []string `json:"env"`
	Timeout *int64   `json:"timeout"`
}

type HooksJ struct {
	Prestart        []HookJ `json:"prestart"`
	CreateRuntime   []HookJ `json:"createRuntime"`
	CreateContainer []HookJ `json:"createContainer"`
	StartContainer  []HookJ `json:"startContainer"`
	Poststart       []HookJ `json:"poststart"`
	Poststop        []HookJ `json:"poststop"`
}

type RlimitJ struct {
	Type string `json:"type"`
	Hard uint64 `json:"hard"`
	Soft uint64 `json:"soft"`
}

type HugeJ struct {
	PageSize string `json:"pageSize"`
	Limit    uint64 `json:"limit"`
}

type CPUJ struct {
	Shares          *uint64 `json:"shares"`
	Quota           *int64  `json:"quota"`
	Period          *uint64 `json:"period"`
	RealtimeRuntime *int64  `json:"realtimeRuntime"`
	RealtimePeriod  *uint64 `json:"realtimePeriod"`
	Cpus            string  `json:"cpus"`
	Mems            string  `json:"mems"`
}

type MemJ struct {
	Limit            *int64  `json:"limit"`
	Reservation      *int64  `json:"reservation"`
	Swap             *int64  `json:"swap"`
	Kernel           *int64  `json:"kernel"`
	KernelTCP        *int64  `json:"kernelTCP"`
	Swappiness       *uint64 `json:"swappiness"`
	DisableOOMKiller *bool   `json:"disableOOMKiller"`
	UseHierarchy     *bool   `json:"useHierarchy"`
}

// Shape selects, for sections that are empty, whether the Go pointer is nil or points to an
// empty value (exercises the initConfig* paths; invisible in the canonical observation).
type ShapeJ struct {
	NilAnnotations bool `json:"nilAnnotations"`
	NilResources   bool `json:"nilResources"`
	NilCPU         bool `json:"nilCPU"`
	NilMemory      bool `json:"nilMemory"`
	NilHooks       bool `json:"nilHooks"`
	RawGenerator   bool `json:"rawGenerator"` // &rgen.Generator{Config: spec} (as the repo's test) instead of NewFromSpec
	// NilLinux: the spec has NO linux section at all (effective only when every modelled field
	// of that section is empty): every Adjust* that touches it must create it first
	NilLinux bool `json:"nilLinux"`
	// NilProcess: likewise for the process section (args, env, rlimits, OOM score all empty).
	// NOT generated: outside the domain (checks/C13.json assumptions) - AdjustRlimits and, with a
	// generator not made by NewFromSpec, runtime-tools' own AddProcessEnv panic without a process
	// section; kept for replays and experiments
	NilProcess bool `json:"nilProcess"`
}

type SpecJ struct {
	Annotations       map[string]string `json:"annotations"`
	Args              []string          `json:"args"`
	Env               []string          `json:"env"`
	Rlimits           []RlimitJ         `json:"rlimits"`
	Oom               *int64            `json:"oom"`
	Mounts            []MountJ          `json:"mounts"`
	Devices           []DeviceJ         `json:"devices"`
	DevRules          []DevRuleJ        `json:"devRules"`
	CPU               CPUJ              `json:"cpu"`
	Memory            MemJ              `json:"memory"`
	Hugepages         []HugeJ           `json:"hugepages"`
	Unified           map[string]string `json:"unified"`
	Pids              *int64            `json:"pids"`
	Blockio           *uint16           `json:"blockio"`
	Rdt               *string           `json:"rdt"`
	CgroupsPath       string            `json:"cgroupsPath"`
	RootfsPropagation string            `json:"rootfsPropagation"`
	Hooks             HooksJ            `json:"hooks"`
	CDI               []string          `json:"cdi"`
	Shape             ShapeJ            `json:"shape"`
}

type KVJ struct {
	Key   string `json:"key"`
	Value string `json:"value"`
}

type ResJ struct {
	Memory    *MemJ             `json:"memory"`
	CPU       *CPUJ             `json:"cpu"`
	Hugepages []HugeJ           `json:"hugepages"`
	Blockio   *string           `json:"blockio"`
	Rdt       *string           `json:"rdt"`
	Unified   map[string]string `json:"unified"`
	Pids      *int64            `json:"pids"`
}

type LinuxJ struct {
	Devices     []DeviceJ `json:"devices"`
	Resources   *ResJ     `json:"resources"`
	CgroupsPath string    `json:"cgroupsPath"`
	Oom         *int64    `json:"oom"`
}

type AdjJ struct {
	Annotations map[string]string `json:"annotations"`
	Mounts      []MountJ          `json:"mounts"`
	Env         []KVJ             `json:"env"`
	Hooks       *HooksJ           `json:"hooks"`
	Linux       *LinuxJ           `json:"linux"`
	Rlimits     []RlimitJ         `json:"rlimits"`
	CDI         []string          `json:"cdi"`
	Args        []string          `json:"args"`
}

// ExtJ describes the external functions handed to the generator.
type ExtJ struct {
	Blockio    map[string]uint16 `json:"blockio"`  // class -> tag (Weight); other classes fail
	Rdt        map[string]string `json:"rdt"`      // class -> ClosID; other classes fail
	CDIBad     []string          `json:"cdiBad"`   // names that make the injector fail
	HostProp   map[string]string `json:"hostProp"` // mount source -> getPropagation() of this host (measured)
	NoInjector bool              `json:"noInjector"`
	NoBlockio  bool              `json:"noBlockio"`
	NoRdt      bool              `json:"noRdt"`
	// the runtime's callbacks (generate.WithAnnotationFilter / WithResourceChecker); nil = option not given
	Filter *CallbackJ `json:"filter,omitempty"`
	Check  *CallbackJ `json:"check,omitempty"`
}

// CallbackJ describes one of the two callbacks by a small vocabulary the Lean driver interprets
// the same way (lean/Driver/C13.lean: filterOf, checkerOf).
//
//	filter: nop | drop (entries whose raw key starts with Arg) | reject (error when such a key is present)
//	check:  ok | fail | failPidsGt (error when pids limit > N) | capShares (cpu shares := min(shares, N))
//	        | setPids (pids limit := N) | clearUnified (unified := empty)
type CallbackJ struct {
	Kind string `json:"kind"`
	Arg  string `json:"arg"`
	N    int64  `json:"n"`
}

type In struct {
	Kind   string `json:"kind"` // stream the case came from
	Spec   SpecJ  `json:"spec"`
	Adjust AdjJ   `json:"adjust"`
	Ext    ExtJ   `json:"ext"`
	Runs   int    `json:"runs"`
}

type OutJ struct {
	Err  string `json:"err"` // "" | cdi | blockio | rdt | filter | check | other | panic
	Spec SpecJ  `json:"spec"`
	N    int    `json:"n"` // how many of the runs gave exactly this
	// the resource checker callback: how often it ran and the spec as it stood when it ran
	CheckCalls int    `json:"checkCalls"`
	CheckSaw   *SpecJ `json:"checkSaw,omitempty"`
	CheckNil   bool   `json:"checkNil"` // the checker was handed a nil *LinuxResources
	// the annotation filter callback: how often it ran
	FilterCalls int `json:"filterCalls"`
}

type Obs struct {
	Outs     []OutJ `json:"outs"` // distinct results over all runs, sorted by their JSON
	Runs     int    `json:"runs"`
	RestSame bool   `json:"restSame"` // the unmodelled rest of the spec is byte-identical before/after in every run
	Panic    string `json:"panic"`
}

// ---------------------------------------------------------------------------------------

func ns(s []string) []string {
	if s == nil {
		return []string{}
	}
	return s
}

func cp(s []string) []string {
	if len(s) == 0 {
		return nil
	}
	return append([]string(nil), s...)
}

func hookToOCI(h HookJ) rspec.Hook {
	o := rspec.Hook{Path: h.Path, Args: cp(h.Args), Env: cp(h.Env)}
	if h.Timeout != nil {
		t := int(*h.Timeout)
		o.Timeout = &t
	}
	return o
}

func hooksToOCI(hs []HookJ) []rspec.Hook {
	var o []rspec.Hook
	for _, h := range hs {
		o = append(o, hookToOCI(h))
	}
	return o
}

func (h HooksJ) empty() bool {
	return len(h.Prestart)+len(h.CreateRuntime)+len(h.CreateContainer)+len(h.StartContainer)+len(h.Poststart)+len(h.Poststop) == 0
}

func (c CPUJ) empty() bool {
	return c.Shares == nil && c.Quota == nil && c.Period == nil && c.RealtimeRuntime == nil && c.RealtimePeriod == nil && c.Cpus == "" && c.Mems == ""
}

func (m MemJ) empty() bool {
	return m.Limit == nil && m.Reservation == nil && m.Swap == nil && m.Kernel == nil && m.KernelTCP == nil && m.Swappiness == nil && m.DisableOOMKiller == nil && m.UseHierarchy == nil
}

func dupMap(m map[string]string) map[string]string {
	o := make(map[string]string, len(m))
	for k, v := range m {
		o[k] = v
	}
	return o
}

func p64(v int64) *int64    { return &v }
func pu64(v uint64) *uint64 { return &v }
func pu32(v uint32) *uint32 { return &v }
func pstr(v string) *string { return &v }

func cpI64(p *int64) *int64 {
	if p == nil {
		return nil
	}
	return p64(*p)
}
func cpU64(p *uint64) *uint64 {
	if p == nil {
		return nil
	}
	return pu64(*p)
}
func cpBool(p *bool) *bool {
	if p == nil {
		return nil
	}
	b := *p
	return &b
}

// restMarker fills fields of the spec the model does NOT cover; they must come out of Adjust
// byte-identical (checked through blankCovered + JSON).
func restMarker(s *rspec.Spec) {
	s.Version = "1.1.0"
	s.Hostname = "verif-host"
	s.Root = &rspec.Root{Path: "rootfs", Readonly: true}
	s.Process.Cwd = "/work"
	s.Process.User = rspec.User{UID: 1000, GID: 1000, AdditionalGids: []uint32{4, 24}}
	s.Process.NoNewPrivileges = true
	s.Process.Capabilities = &rspec.LinuxCapabilities{Bounding: []string{"CAP_CHOWN", "CAP_KILL"}}
	s.Linux.Namespaces = []rspec.LinuxNamespace{{Type: rspec.PIDNamespace}, {Type: rspec.NetworkNamespace, Path: "/proc/1/ns/net"}}
	s.Linux.Sysctl = map[string]string{"net.ipv4.ip_forward": "1"}
	s.Linux.MaskedPaths = []string{"/proc/kcore"}
	s.Linux.MountLabel = "label"
}

// ToSpec builds a fresh rspec.Spec (with Process and Linux sections) from the JSON form.
func (j *SpecJ) ToSpec() *rspec.Spec {
	s := &rspec.Spec{Process: &rspec.Process{}, Linux: &rspec.Linux{}}
	restMarker(s)
	if len(j.Annotations) > 0 || !j.Shape.NilAnnotations {
		s.Annotations = dupMap(j.Annotations)
	}
	s.Process.Args = cp(j.Args)
	s.Process.Env = cp(j.Env)
	for _, r := range j.Rlimits {
		s.Process.Rlimits = append(s.Process.Rlimits, rspec.POSIXRlimit{Type: r.Type, Hard: r.Hard, Soft: r.Soft})
	}
	if j.Oom != nil {
		v := int(*j.Oom)
		s.Process.OOMScoreAdj = &v
	}
	for _, m := range j.Mounts {
		s.Mounts = append(s.Mounts, rspec.Mount{Destination: m.Destination, Type: m.Type, Source: m.Source, Options: cp(m.Options)})
	}
	for _, d := range j.Devices {
		o := rspec.LinuxDevice{Path: d.Path, Type: d.Type, Major: d.Major, Minor: d.Minor}
		if d.FileMode != nil {
			fm := os.FileMode(*d.FileMode)
			o.FileMode = &fm
		}
		if d.UID != nil {
			o.UID = pu32(*d.UID)
		}
		if d.GID != nil {
			o.GID = pu32(*d.GID)
		}
		s.Linux.Devices = append(s.Linux.Devices, o)
	}
	s.Linux.CgroupsPath = j.CgroupsPath
	s.Linux.RootfsPropagation = j.RootfsPropagation
	if j.Rdt != nil {
		s.Linux.IntelRdt = &rspec.LinuxIntelRdt{ClosID: *j.Rdt}
	}
	resEmpty := len(j.DevRules) == 0 && j.CPU.empty() && j.Memory.empty() && len(j.Hugepages) == 0 &&
		len(j.Unified) == 0 && j.Pids == nil && j.Blockio == nil
	if !resEmpty || !j.Shape.NilResources {
		r := &rspec.LinuxResources{}
		for _, d := range j.DevRules {
			r.Devices = append(r.Devices, rspec.LinuxDeviceCgroup{Allow: d.Allow, Type: d.Type, Major: cpI64(d.Major), Minor: cpI64(d.Minor), Access: d.Access})
		}
		if !j.CPU.empty() || !j.Shape.NilCPU {
			c := j.CPU
			r.CPU = &rspec.LinuxCPU{Shares: cpU64(c.Shares), Quota: cpI64(c.Quota), Period: cpU64(c.Period),
				RealtimeRuntime: cpI64(c.RealtimeRuntime), RealtimePeriod: cpU64(c.RealtimePeriod), Cpus: c.Cpus, Mems: c.Mems}
			b := uint64(7)
			r.CPU.Burst = &b // unmodelled neighbour field
		}
		if !j.Memory.empty() || !j.Shape.NilMemory {
			m := j.Memory
			r.Memory = &rspec.LinuxMemory{Limit: cpI64(m.Limit), Reservation: cpI64(m.Reservation), Swap: cpI64(m.Swap),
				Kernel: cpI64(m.Kernel), KernelTCP: cpI64(m.KernelTCP), Swappiness: cpU64(m.Swappiness),
				DisableOOMKiller: cpBool(m.DisableOOMKiller), UseHierarchy: cpBool(m.UseHierarchy)}
		}
		for _, h := range j.Hugepages {
			r.HugepageLimits = append(r.HugepageLimits, rspec.LinuxHugepageLimit{Pagesize: h.PageSize, Limit: h.Limit})
		}
		if len(j.Unified) > 0 {
			r.Unified = dupMap(j.Unified)
		}
		if j.Pids != nil {
			r.Pids = &rspec.LinuxPids{Limit: *j.Pids}
		}
		if j.Blockio != nil {
			w := *j.Blockio
			r.BlockIO = &rspec.LinuxBlockIO{Weight: &w}
		}
		s.Linux.Resources = r
	}
	if !j.Hooks.empty() || !j.Shape.NilHooks {
		s.Hooks = &rspec.Hooks{
			Prestart: hooksToOCI(j.Hooks.Prestart), CreateRuntime: hooksToOCI(j.Hooks.CreateRuntime),
			CreateContainer: hooksToOCI(j.Hooks.CreateContainer), StartContainer: hooksToOCI(j.Hooks.StartContainer),
			Poststart: hooksToOCI(j.Hooks.Poststart), Poststop: hooksToOCI(j.Hooks.Poststop),
		}
	}
	if j.Shape.NilLinux && len(j.Devices) == 0 && j.CgroupsPath == "" && j.RootfsPropagation == "" && j.Rdt == nil && resEmpty {
		s.Linux = nil
	}
	if j.Shape.NilProcess && len(j.Args) == 0 && len(j.Env) == 0 && len(j.Rlimits) == 0 && j.Oom == nil {
		s.Process = nil
	}
	return s
}

func hooksFromOCI(hs []rspec.Hook) []HookJ {
	o := []HookJ{}
	for _, h := range hs {
		j := HookJ{Path: h.Path, Args: ns(append([]string(nil), h.Args...)), Env: ns(append([]string(nil), h.Env...))}
		if h.Timeout != nil {
			j.Timeout = p64(int64(*h.Timeout))
		}
		o = append(o, j)
	}
	return o
}

// FromSpec canonicalises the covered part of a spec. cdi = names recorded by the injector.
func FromSpec(s *rspec.Spec, cdi []string, shape ShapeJ) SpecJ {
	j := SpecJ{Annotations: map[string]string{}, Args: []string{}, Env: []string{}, Rlimits: []RlimitJ{}, Mounts: []MountJ{},
		Devices: []DeviceJ{}, DevRules: []DevRuleJ{}, Hugepages: []HugeJ{}, Unified: map[string]string{}, CDI: ns(cdi), Shape: shape,
		Hooks: HooksJ{Prestart: []HookJ{}, CreateRuntime: []HookJ{}, CreateContainer: []HookJ{}, StartContainer: []HookJ{}, Poststart: []HookJ{}, Poststop: []HookJ{}}}
	for k, v := range s.Annotations {
		j.Annotations[k] = v
	}
	if p := s.Process; p != nil {
		j.Args = ns(append([]string(nil), p.Args...))
		j.Env = ns(append([]string(nil), p.Env...))
		for _, r := range p.Rlimits {
			j.Rlimits = append(j.Rlimits, RlimitJ{r.Type, r.Hard, r.Soft})
		}
		if p.OOMScoreAdj != nil {
			j.Oom = p64(int64(*p.OOMScoreAdj))
		}
	}
	for _, m := range s.Mounts {
		j.Mounts = append(j.Mounts, MountJ{m.Destination, m.Type, m.Source, ns(append([]string(nil), m.Options...))})
	}
	if l := s.Linux; l != nil {
		for _, d := range l.Devices {
			o := DeviceJ{Path: d.Path, Type: d.Type, Major: d.Major, Minor: d.Minor}
			if d.FileMode != nil {
				o.FileMode = pu32(uint32(*d.FileMode))
			}
			if d.UID != nil {
				o.UID = pu32(*d.UID)
			}
			if d.GID != nil {
				o.GID = pu32(*d.GID)
			}
			j.Devices = append(j.Devices, o)
		}
		j.CgroupsPath = l.CgroupsPath
		j.RootfsPropagation = l.RootfsPropagation
		if l.IntelRdt != nil {
			j.Rdt = pstr(l.IntelRdt.ClosID)
		}
		if r := l.Resources; r != nil {
			for _, d := range r.Devices {
				j.DevRules = append(j.DevRules, DevRuleJ{d.Allow, d.Type, cpI64(d.Major), cpI64(d.Minor), d.Access})
			}
			if c := r.CPU; c != nil {
				j.CPU = CPUJ{cpU64(c.Shares), cpI64(c.Quota), cpU64(c.Period), cpI64(c.RealtimeRuntime), cpU64(c.RealtimePeriod), c.Cpus, c.Mems}
			}
			if m := r.Memory; m != nil {
				j.Memory = MemJ{cpI64(m.Limit), cpI64(m.Reservation), cpI64(m.Swap), cpI64(m.Kernel), cpI64(m.KernelTCP), cpU64(m.Swappiness), cpBool(m.DisableOOMKiller), cpBool(m.UseHierarchy)}
			}
			for _, h := range r.HugepageLimits {
				j.Hugepages = append(j.Hugepages, HugeJ{h.Pagesize, h.Limit})
			}
			for k, v := range r.Unified {
				j.Unified[k] = v
			}
			if r.Pids != nil {
				j.Pids = p64(r.Pids.Limit)
			}
			if r.BlockIO != nil {
				w := uint16(0)
				if r.BlockIO.Weight != nil {
					w = *r.BlockIO.Weight
				}
				j.Blockio = &w
			}
		}
	}
	if h := s.Hooks; h != nil {
		j.Hooks = HooksJ{hooksFromOCI(h.Prestart), hooksFromOCI(h.CreateRuntime), hooksFromOCI(h.CreateContainer),
			hooksFromOCI(h.StartContainer), hooksFromOCI(h.Poststart), hooksFromOCI(h.Poststop)}
	}
	return j
}

// blankCovered zeroes every field FromSpec reads, so that what is left is "the rest".
// a process section that holds nothing = no process section (NilProcess shapes)
var emptyProcessJSON = func() string { b, _ := json.Marshal(&rspec.Process{}); return string(b) }()

func blankCovered(s *rspec.Spec) {
	s.Annotations = nil
	s.Mounts = nil
	s.Hooks = nil
	if p := s.Process; p != nil {
		p.Args, p.Env, p.Rlimits, p.OOMScoreAdj = nil, nil, nil, nil
		if b, err := json.Marshal(p); err == nil && string(b) == emptyProcessJSON {
			s.Process = nil
		}
	}
	if l := s.Linux; l != nil {
		l.Devices, l.CgroupsPath, l.RootfsPropagation, l.IntelRdt = nil, "", "", nil
		if r := l.Resources; r != nil {
			r.Devices, r.HugepageLimits, r.Unified, r.Pids, r.BlockIO = nil, nil, nil, nil, nil
			if c := r.CPU; c != nil {
				c.Shares, c.Quota, c.Period, c.RealtimeRuntime, c.RealtimePeriod, c.Cpus, c.Mems = nil, nil, nil, nil, nil, "", ""
				if *c == (rspec.LinuxCPU{}) {
					r.CPU = nil
				}
			}
			r.Memory = nil // every LinuxMemory field but CheckBeforeUpdate is covered; that one is never set here
			if r.CPU == nil && r.Network == nil && len(r.Rdma) == 0 {
				l.Resources = nil
			}
		}
		// a linux section that holds nothing (any more) = no linux section (NilLinux shapes:
		// Adjust may have had to create it)
		if b, err := json.Marshal(l); err == nil && string(b) == "{}" {
			s.Linux = nil
		}
	}
}

func hookToNRI(h HookJ) *api.Hook {
	o := &api.Hook{Path: h.Path, Args: cp(h.Args), Env: cp(h.Env)}
	if h.Timeout != nil {
		o.Timeout = &api.OptionalInt{Value: *h.Timeout}
	}
	return o
}

func hooksToNRI(hs []HookJ) []*api.Hook {
	var o []*api.Hook
	for _, h := range hs {
		o = append(o, hookToNRI(h))
	}
	return o
}

// ToNRI builds a fresh api.ContainerAdjustment (fresh maps => fresh iteration order).
func (j *AdjJ) ToNRI() *api.ContainerAdjustment {
	a := &api.ContainerAdjustment{}
	if j.Annotations != nil {
		a.Annotations = dupMap(j.Annotations)
	}
	for _, m := range j.Mounts {
		a.Mounts = append(a.Mounts, &api.Mount{Destination: m.Destination, Type: m.Type, Source: m.Source, Options: cp(m.Options)})
	}
	for _, e := range j.Env {
		a.Env = append(a.Env, &api.KeyValue{Key: e.Key, Value: e.Value})
	}
	if h := j.Hooks; h != nil {
		a.Hooks = &api.Hooks{Prestart: hooksToNRI(h.Prestart), CreateRuntime: hooksToNRI(h.CreateRuntime),
			CreateContainer: hooksToNRI(h.CreateContainer), StartContainer: hooksToNRI(h.StartContainer),
			Poststart: hooksToNRI(h.Poststart), Poststop: hooksToNRI(h.Poststop)}
	}
	for _, r := range j.Rlimits {
		a.Rlimits = append(a.Rlimits, &api.POSIXRlimit{Type: r.Type, Hard: r.Hard, Soft: r.Soft})
	}
	for _, n := range j.CDI {
		a.CDIDevices = append(a.CDIDevices, &api.CDIDevice{Name: n})
	}
	a.Args = cp(j.Args)
	if l := j.Linux; l != nil {
		a.Linux = &api.LinuxContainerAdjustment{CgroupsPath: l.CgroupsPath}
		for _, d := range l.Devices {
			o := &api.LinuxDevice{Path: d.Path, Type: d.Type, Major: d.Major, Minor: d.Minor}
			if d.FileMode != nil {
				o.FileMode = &api.OptionalFileMode{Value: *d.FileMode}
			}
			if d.UID != nil {
				o.Uid = &api.OptionalUInt32{Value: *d.UID}
			}
			if d.GID != nil {
				o.Gid = &api.OptionalUInt32{Value: *d.GID}
			}
			a.Linux.Devices = append(a.Linux.Devices, o)
		}
		if l.Oom != nil {
			a.Linux.OomScoreAdj = &api.OptionalInt{Value: *l.Oom}
		}
		if r := l.Resources; r != nil {
			o := &api.LinuxResources{}
			if m := r.Memory; m != nil {
				o.Memory = &api.LinuxMemory{}
				if m.Limit != nil {
					o.Memory.Limit = &api.OptionalInt64{Value: *m.Limit}
				}
				if m.Reservation != nil {
					o.Memory.Reservation = &api.OptionalInt64{Value: *m.Reservation}
				}
				if m.Swap != nil {
					o.Memory.Swap = &api.OptionalInt64{Value: *m.Swap}
				}
				if m.Kernel != nil {
					o.Memory.Kernel = &api.OptionalInt64{Value: *m.Kernel}
				}
				if m.KernelTCP != nil {
					o.Memory.KernelTcp = &api.OptionalInt64{Value: *m.KernelTCP}
				}
				if m.Swappiness != nil {
					o.Memory.Swappiness = &api.OptionalUInt64{Value: *m.Swappiness}
				}
				if m.DisableOOMKiller != nil {
					o.Memory.DisableOomKiller = &api.OptionalBool{Value: *m.DisableOOMKiller}
				}
				if m.UseHierarchy != nil {
					o.Memory.UseHierarchy = &api.OptionalBool{Value: *m.UseHierarchy}
				}
			}
			if c := r.CPU; c != nil {
				o.Cpu = &api.LinuxCPU{Cpus: c.Cpus, Mems: c.Mems}
				if c.Shares != nil {
					o.Cpu.Shares = &api.OptionalUInt64{Value: *c.Shares}
				}
				if c.Quota != nil {
					o.Cpu.Quota = &api.OptionalInt64{Value: *c.Quota}
				}
				if c.Period != nil {
					o.Cpu.Period = &api.OptionalUInt64{Value: *c.Period}
				}
				if c.RealtimeRuntime != nil {
					o.Cpu.RealtimeRuntime = &api.OptionalInt64{Value: *c.RealtimeRuntime}
				}
				if c.RealtimePeriod != nil {
					o.Cpu.RealtimePeriod = &api.OptionalUInt64{Value: *c.RealtimePeriod}
				}
			}
			for _, h := range r.Hugepages {
				o.HugepageLimits = append(o.HugepageLimits, &api.HugepageLimit{PageSize: h.PageSize, Limit: h.Limit})
			}
			if r.Blockio != nil {
				o.BlockioClass = &api.OptionalString{Value: *r.Blockio}
			}
			if r.Rdt != nil {
				o.RdtClass = &api.OptionalString{Value: *r.Rdt}
			}
			if r.Unified != nil {
				o.Unified = dupMap(r.Unified)
			}
			if r.Pids != nil {
				o.Pids = &api.LinuxPids{Limit: *r.Pids}
			}
			a.Linux.Resources = o
		}
	}
	return a
}
