package c13

// Execution of one case against the real generator: Runs fresh applications of
// generate.SpecGenerator(...).Adjust to fresh copies of the spec and of the adjustment.

import (
	"bufio"
	"encoding/json"
	"errors"
	"fmt"
	"os"
	"path/filepath"
	"sort"
	"strings"

	"github.com/containerd/nri/pkg/api"
	xgen "github.com/containerd/nri/pkg/runtime-tools/generate"
	rspec "github.com/opencontainers/runtime-spec/specs-go"
	rgen "github.com/opencontainers/runtime-tools/generate"
	"google.golang.org/protobuf/proto"
)

var (
	errCDI     = errors.New("verif: cdi injector failed")
	errBlockIO = errors.New("verif: blockio resolver failed")
	errRdt     = errors.New("verif: rdt resolver failed")
	errFilter  = errors.New("verif: annotation filter refused")
	errCheck   = errors.New("verif: resource checker refused")
)

// hostMounts is this host's mount table: mount point -> propagation as getPropagation reads it.
type hostMount struct {
	point string
	prop  string
}

var hostTable []hostMount

func loadHostTable() {
	hostTable = nil
	f, err := os.Open("/proc/self/mountinfo")
	if err != nil {
		return
	}
	defer f.Close()
	sc := bufio.NewScanner(f)
	for sc.Scan() {
		fs := strings.Fields(sc.Text())
		if len(fs) < 7 {
			continue
		}
		prop := ""
		for _, o := range fs[6:] {
			if o == "-" {
				break
			}
			if prop == "" && strings.HasPrefix(o, "shared:") {
				prop = "rshared"
			} else if prop == "" && strings.HasPrefix(o, "master:") {
				prop = "rslave"
			}
		}
		hostTable = append(hostTable, hostMount{fs[4], prop})
	}
}

// hostPropagation measures what helpers_linux.go getPropagation(source) answers on this host:
// the propagation of the longest mount point that is a parent of the cleaned source.
func hostPropagation(src string) string {
	if hostTable == nil {
		loadHostTable()
	}
	dir := filepath.Clean(src)
	best, prop := -1, ""
	for _, m := range hostTable {
		if strings.HasPrefix(dir, m.point) { // mountinfo.ParentsFilter is a plain string-prefix test
			if len(m.point) > best {
				best, prop = len(m.point), m.prop
			}
		}
	}
	return prop
}

func fillHostProp(in *In) {
	in.Ext.HostProp = map[string]string{}
	for _, m := range in.Adjust.Mounts {
		in.Ext.HostProp[m.Source] = hostPropagation(m.Source)
	}
}

func classify(err error) string {
	switch {
	case err == nil:
		return ""
	case errors.Is(err, errCDI):
		return "cdi"
	case errors.Is(err, errBlockIO):
		return "blockio"
	case errors.Is(err, errRdt):
		return "rdt"
	case errors.Is(err, errFilter):
		return "filter"
	case errors.Is(err, errCheck):
		return "check"
	default:
		return "other"
	}
}

func restJSON(s *rspec.Spec) string {
	b, err := json.Marshal(s)
	if err != nil {
		return "marshal-error:" + err.Error()
	}
	var c rspec.Spec
	if err := json.Unmarshal(b, &c); err != nil {
		return "unmarshal-error:" + err.Error()
	}
	blankCovered(&c)
	b, _ = json.Marshal(&c)
	return string(b)
}

// applyOnce runs the real generator once. wire=true sends the adjustment through a protobuf
// marshal/unmarshal first, as it arrives from a plugin.
func applyOnce(in *In, wire bool) (out OutJ, restSame bool, panicked string) {
	defer func() {
		if r := recover(); r != nil {
			panicked = strings.SplitN(fmt.Sprint(r), "\n", 2)[0]
			out = OutJ{Err: "panic"}
		}
	}()
	spec := in.Spec.ToSpec()
	before := restJSON(spec)
	adj := in.Adjust.ToNRI()
	if wire {
		b, err := proto.Marshal(adj)
		if err != nil {
			panic("proto.Marshal: " + err.Error())
		}
		adj = &api.ContainerAdjustment{}
		if err := proto.Unmarshal(b, adj); err != nil {
			panic("proto.Unmarshal: " + err.Error())
		}
	}
	var cdi []string
	var opts []xgen.GeneratorOption
	if !in.Ext.NoInjector {
		opts = append(opts, xgen.WithCDIDeviceInjector(func(_ *rspec.Spec, names []string) error {
			for _, n := range names {
				for _, b := range in.Ext.CDIBad {
					if n == b {
						return errCDI
					}
				}
			}
			cdi = append(cdi, names...)
			return nil
		}))
	}
	if !in.Ext.NoBlockio {
		opts = append(opts, xgen.WithBlockIOResolver(func(class string) (*rspec.LinuxBlockIO, error) {
			w, ok := in.Ext.Blockio[class]
			if !ok {
				return nil, errBlockIO
			}
			return &rspec.LinuxBlockIO{Weight: &w}, nil
		}))
	}
	if !in.Ext.NoRdt {
		opts = append(opts, xgen.WithRdtResolver(func(class string) (*rspec.LinuxIntelRdt, error) {
			c, ok := in.Ext.Rdt[class]
			if !ok {
				return nil, errRdt
			}
			return &rspec.LinuxIntelRdt{ClosID: c}, nil
		}))
	}
	filterCalls, checkCalls := 0, 0
	checkNil := false
	var checkSaw *SpecJ
	var rg *rgen.Generator
	if f := in.Ext.Filter; f != nil {
		opts = append(opts, xgen.WithAnnotationFilter(func(ann map[string]string) (map[string]string, error) {
			filterCalls++
			switch f.Kind {
			case "drop":
				out := map[string]string{}
				for k, v := range ann {
					if !strings.HasPrefix(k, f.Arg) {
						out[k] = v
					}
				}
				return out, nil
			case "reject":
				for k := range ann {
					if strings.HasPrefix(k, f.Arg) {
						return nil, errFilter
					}
				}
			}
			return ann, nil
		}))
	}
	if c := in.Ext.Check; c != nil {
		opts = append(opts, xgen.WithResourceChecker(func(r *rspec.LinuxResources) error {
			checkCalls++
			if r == nil {
				checkNil = true
			}
			if checkSaw == nil {
				// the whole spec as it stands when the checker runs (r is rg.Config.Linux.Resources)
				snap := FromSpec(rg.Config, cdi, in.Spec.Shape)
				checkSaw = &snap
			}
			switch c.Kind {
			case "fail":
				return errCheck
			case "failPidsGt":
				if r != nil && r.Pids != nil && r.Pids.Limit > c.N {
					return errCheck
				}
			case "capShares":
				if c.N >= 0 && r != nil && r.CPU != nil && r.CPU.Shares != nil && *r.CPU.Shares > uint64(c.N) {
					v := uint64(c.N)
					r.CPU.Shares = &v
				}
			case "setPids":
				if r != nil {
					r.Pids = &rspec.LinuxPids{Limit: c.N}
				}
			case "clearUnified":
				if r != nil {
					r.Unified = nil
				}
			}
			return nil
		}))
	}
	if in.Spec.Shape.RawGenerator {
		rg = &rgen.Generator{Config: spec}
	} else {
		g := rgen.NewFromSpec(spec)
		rg = &g
	}
	g := xgen.SpecGenerator(rg, opts...)
	err := g.Adjust(adj)
	out = OutJ{Err: classify(err), CheckCalls: checkCalls, CheckSaw: checkSaw, CheckNil: checkNil, FilterCalls: filterCalls}
	if err == nil {
		out.Spec = FromSpec(rg.Config, cdi, in.Spec.Shape)
		restSame = restJSON(rg.Config) == before
	} else {
		out.Spec = FromSpec(&rspec.Spec{}, nil, in.Spec.Shape) // on error only the class is compared
		restSame = true
	}
	return out, restSame, ""
}

// Execute applies the case in.Runs times and collects the distinct results.
func Execute(in *In) Obs {
	if in.Runs <= 0 {
		in.Runs = 30
	}
	fillHostProp(in)
	obs := Obs{Runs: in.Runs, RestSame: true, Outs: []OutJ{}}
	seen := map[string]int{}
	for i := 0; i < in.Runs; i++ {
		out, same, p := applyOnce(in, i%2 == 1)
		if p != "" && obs.Panic == "" {
			obs.Panic = p
		}
		if !same {
			obs.RestSame = false
		}
		b, _ := json.Marshal(out)
		k := string(b)
		if idx, ok := seen[k]; ok {
			obs.Outs[idx].N++
			continue
		}
		seen[k] = len(obs.Outs)
		out.N = 1
		obs.Outs = append(obs.Outs, out)
	}
	sort.Slice(obs.Outs, func(i, j int) bool {
		a, _ := json.Marshal(obs.Outs[i].Spec)
		b, _ := json.Marshal(obs.Outs[j].Spec)
		if string(a) != string(b) {
			return string(a) < string(b)
		}
		return obs.Outs[i].Err < obs.Outs[j].Err
	})
	return obs
}
