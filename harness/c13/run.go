// Package c13 is the correspondence harness for property C13: applying a container
// adjustment to an OCI spec through the real generator
// (pkg/runtime-tools/generate: SpecGenerator(...).Adjust, on top of the real runtime-tools
// generator), each case applied many times with fresh generator, spec and adjustment so that
// any dependence on map iteration order shows up as more than one distinct result.
package c13

import (
	"encoding/json"
	"fmt"
	"runtime"
	"sync"

	"verifh/internal/hx"
	"verifh/internal/lineio"
)

func runAll(cases []namedIn, w *lineio.Writer) {
	// cases are independent; results are written in input order
	type res struct {
		obs Obs
	}
	out := make([]res, len(cases))
	var wg sync.WaitGroup
	workers := runtime.NumCPU()
	if workers > 4 {
		workers = 4
	}
	ch := make(chan int)
	for k := 0; k < workers; k++ {
		wg.Add(1)
		go func() {
			defer wg.Done()
			for i := range ch {
				out[i].obs = Execute(&cases[i].in)
			}
		}()
	}
	for i := range cases {
		ch <- i
	}
	close(ch)
	wg.Wait()
	for i := range cases {
		w.Put(&lineio.Case{ID: cases[i].id, In: cases[i].in, Obs: out[i].obs})
	}
}

func Run(o *hx.Opts, w *lineio.Writer) error {
	loadHostTable()
	if o.Replay != "" {
		cs, err := hx.ReplayCases(o.Replay)
		if err != nil {
			return err
		}
		var cases []namedIn
		for _, c := range cs {
			var in In
			if err := json.Unmarshal(c.In, &in); err != nil {
				return fmt.Errorf("replay case %s: %w", c.ID, err)
			}
			cases = append(cases, namedIn{c.ID, in})
		}
		runAll(cases, w)
		return nil
	}
	// generated lazily and executed in batches so that the thorough tier stays small in memory
	var cases []namedIn
	flush := func(force bool) {
		if len(cases) >= 2000 || (force && len(cases) > 0) {
			runAll(cases, w)
			cases = cases[:0]
		}
	}
	cases = append(cases, systematic(o.Seed)...)
	cases = append(cases, optionCases()...)
	ro := o.Rand(1300013)
	for i := 0; i < o.N(2500, 20000); i++ {
		in := In{Kind: "opts", Spec: genSpec(ro), Ext: defaultExt(), Runs: 10,
			Adjust: genAdj(ro, adjOpts{pFamily: 0.45, zeroLimit: true, setRemove: true})}
		genCallbacks(ro, &in.Ext)
		cases = append(cases, namedIn{fmt.Sprintf("opts-%d", i), in})
		flush(false)
	}
	r := o.Rand(13)
	n := o.N(12000, 100000)
	for i := 0; i < n; i++ {
		in := In{Kind: "rand", Spec: genSpec(r), Ext: defaultExt(), Runs: 30,
			Adjust: genAdj(r, adjOpts{pFamily: 0.45, zeroLimit: true, setRemove: true})}
		cases = append(cases, namedIn{fmt.Sprintf("rand-%d", i), in})
		flush(false)
	}
	rx := o.Rand(1313)
	ru := o.Rand(131313)
	for i := 0; i < o.N(1500, 12000); i++ {
		cases = append(cases, namedIn{fmt.Sprintf("unclean-%d", i), uncleanCase(ru)})
		flush(false)
	}
	for i := 0; i < o.N(1200, 8000); i++ {
		cases = append(cases, namedIn{fmt.Sprintf("excl-%d", i), excluded(rx, i)})
		flush(false)
	}
	flush(true)
	return nil
}
