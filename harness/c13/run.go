// Package c13 is the correspondence harness for property C13 (placeholder).
package c13

import (
	"errors"

	"verifh/internal/hx"
	"verifh/internal/lineio"
)

func Run(o *hx.Opts, w *lineio.Writer) error {
	return errors.New("C13 harness not implemented")
}
