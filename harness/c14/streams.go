package c14

import (
	"fmt"
	"strings"

	"verifh/internal/hx"
)

type putFn func(id string, in interface{}) error

var eventNames = []string{"RunPodSandbox", "StopPodSandbox", "RemovePodSandbox", "CreateContainer", "PostCreateContainer",
	"StartContainer", "PostStartContainer", "UpdateContainer", "PostUpdateContainer", "StopContainer", "RemoveContainer",
	"UpdatePodSandbox", "PostUpdatePodSandbox"}

func genParse(o *hx.Opts, put putFn) {
	// systematic: every name in three spellings, the group words, "all", blanks, junk
	n := 0
	p := func(ev ...string) { put(id("parse", n), parseIn{"parse", ev}); n++ }
	p()
	p("")
	for _, nm := range eventNames {
		p(nm)
		p(strings.ToLower(nm))
		p(strings.ToUpper(nm))
		p(" " + nm + " ")
		p("\t" + nm + "\n")
		p(nm + ",")
		p("," + nm)
		p(nm + "x")
	}
	for _, w := range []string{"all", "ALL", "pod", "Pod", "podsandbox", "PodSandbox", "container", "Container", " all", "all ", " pod", "container ",
		"pods", "sandbox", "unknown", "unknown(0x2000)", ",", ",,", " ", "all,pod", "pod,container", "container,RunPodSandbox", "é", "İ", "K",
		// non-ASCII (outside the model's domain; recorded): U+0130 lower-cases to 'i', U+0131 does not,
		// U+2003 and U+00A0 are trimmed by strings.TrimSpace
		"StartContaİner", "StartContaıner", "\u2003StartContainer", "StartContainer\u00a0", "RunPodSandbox,StopContaİner"} {
		p(w)
	}
	p("RunPodSandbox", "StopContainer")
	p("RunPodSandbox,StopContainer", "pod")
	p("RunPodSandbox", "bogus")
	r := o.Rand(141)
	words := append([]string{"all", "pod", "podsandbox", "container", "bogus", "", " "}, eventNames...)
	for i := 0; i < o.N(2000, 20000); i++ {
		var args []string
		for a, na := 0, 1+r.Intn(2); a < na; a++ {
			var parts []string
			for k, nk := 0, 1+r.Intn(4); k < nk; k++ {
				w := words[r.Intn(len(words))]
				switch r.Intn(5) {
				case 0:
					w = strings.ToLower(w)
				case 1:
					w = strings.ToUpper(w)
				case 2:
					w = " " + w
				}
				parts = append(parts, w)
			}
			args = append(args, strings.Join(parts, ","))
		}
		p(args...)
	}
}

func genConversions(o *hx.Opts, put putFn) {
	// ---- resources: systematic, both directions
	for i, j := range sysRes(true) {
		put(id("res_oci-sys", i), resIn{Kind: "res_oci", Res: j})
	}
	for i, j := range sysRes(false) {
		put(id("res_nri-sys", i), resIn{Kind: "res_nri", Res: j})
	}
	put("res_oci-nil", resIn{Kind: "res_oci", Res: nil})
	put("res_nri-nil", resIn{Kind: "res_nri", Res: nil})
	r := g{o.Rand(142)}
	for i := 0; i < o.N(12000, 150000); i++ {
		in := resIn{Kind: "res_oci", Res: r.res(true)}
		if r.r.Intn(3) == 0 {
			in.Ann = r.kvMap(3)
		}
		put(id("res_oci", i), in)
		put(id("res_nri", i), resIn{Kind: "res_nri", Res: r.res(false)})
	}

	// ---- mounts
	put("mounts_oci-nil", mountsIn{Kind: "mounts_oci", Mounts: []*jMount{}, Nil: true})
	put("mounts_oci-empty", mountsIn{Kind: "mounts_oci", Mounts: []*jMount{}})
	put("mounts_nri-empty", mountsIn{Kind: "mounts_nri", Mounts: []*jMount{}})
	k := 0
	for _, s := range strPool {
		m := &jMount{Destination: s, Type: "bind", Source: "/src", Options: []string{s}}
		put(id("mounts_oci-sys", k), mountsIn{Kind: "mounts_oci", Mounts: []*jMount{m}})
		put(id("mounts_nri-sys", k), mountsIn{Kind: "mounts_nri", Mounts: []*jMount{m}})
		put(id("mounts_nri-sysq", k), mountsIn{Kind: "mounts_nri", Mounts: []*jMount{m}, Query: pStr("")})
		k++
	}
	// propagation query: every order of the three propagation options, with and without a query pointer
	props := []string{"rprivate", "rshared", "rslave", "ro"}
	for a := range props {
		for b := range props {
			for c := range props {
				m := &jMount{Destination: "/d", Type: "bind", Source: "/s", Options: []string{props[a], props[b], props[c]}}
				put(id("mounts_nri-prop", k), mountsIn{Kind: "mounts_nri", Mounts: []*jMount{m}, Query: pStr("init")})
				put(id("mounts_nri-propnil", k), mountsIn{Kind: "mounts_nri", Mounts: []*jMount{m}})
				k++
			}
		}
	}
	for i := 0; i < o.N(4000, 50000); i++ {
		var ms, ns []*jMount
		for a, n := 0, r.r.Intn(4); a < n; a++ {
			ms = append(ms, r.mount(true))
			ns = append(ns, r.mount(false))
		}
		if ms == nil {
			ms, ns = []*jMount{}, []*jMount{}
		}
		put(id("mounts_oci", i), mountsIn{Kind: "mounts_oci", Mounts: ms})
		in := mountsIn{Kind: "mounts_nri", Mounts: ns}
		if r.r.Intn(2) == 0 {
			in.Query = pStr(r.str())
		}
		put(id("mounts_nri", i), in)
	}

	// ---- devices
	put("devices_oci-nil", devsIn{Kind: "devices_oci", Devices: []*jDev{}, Nil: true})
	put("devices_oci-empty", devsIn{Kind: "devices_oci", Devices: []*jDev{}})
	put("devices_nri-empty", devsIn{Kind: "devices_nri", Devices: []*jDev{}})
	put("devices_nri-nilelem", devsIn{Kind: "devices_nri", Devices: []*jDev{nil, {Path: "/dev/x", Type: "c", Major: 1, Minor: 2}, nil}})
	k = 0
	for _, v := range u32Bounds {
		for f := 0; f < 3; f++ {
			d := &jDev{Path: "/dev/d", Type: "c", Major: 1, Minor: 3}
			switch f {
			case 0:
				d.FileMode = pU32(v)
			case 1:
				d.Uid = pU32(v)
			case 2:
				d.Gid = pU32(v)
			}
			put(id("devices_oci-sys", k), devsIn{Kind: "devices_oci", Devices: []*jDev{d}})
			put(id("devices_nri-sys", k), devsIn{Kind: "devices_nri", Devices: []*jDev{d}})
			k++
		}
	}
	for _, v := range i64Bounds {
		d := &jDev{Path: "/dev/d", Type: "b", Major: v, Minor: -v}
		put(id("devices_oci-sys", k), devsIn{Kind: "devices_oci", Devices: []*jDev{d}})
		put(id("devices_nri-sys", k), devsIn{Kind: "devices_nri", Devices: []*jDev{d}})
		k++
	}
	for i := 0; i < o.N(4000, 50000); i++ {
		ds, ns := []*jDev{}, []*jDev{}
		for a, n := 0, r.r.Intn(4); a < n; a++ {
			ds = append(ds, r.dev())
			ns = append(ns, r.dev())
		}
		put(id("devices_oci", i), devsIn{Kind: "devices_oci", Devices: ds})
		put(id("devices_nri", i), devsIn{Kind: "devices_nri", Devices: ns})
	}

	// ---- hooks
	put("hooks_oci-nil", hooksIn{Kind: "hooks_oci"})
	put("hooks_nri-nil", hooksIn{Kind: "hooks_nri"})
	k = 0
	for _, v := range i64Bounds {
		h := &jHooks{Prestart: []*jHook{{Path: "/bin/h", Args: []string{"h", "a"}, Env: []string{"K=V"}, Timeout: pI64(v)}},
			CreateRuntime: []*jHook{}, CreateContainer: []*jHook{}, StartContainer: []*jHook{}, Poststart: []*jHook{},
			Poststop: []*jHook{{Path: "/bin/p", Args: []string{}, Env: []string{}, ArgsNil: true, EnvNil: true}}}
		put(id("hooks_oci-sys", k), hooksIn{Kind: "hooks_oci", Hooks: h})
		put(id("hooks_nri-sys", k), hooksIn{Kind: "hooks_nri", Hooks: h, Extra: h})
		k++
	}
	for i := 0; i < o.N(4000, 50000); i++ {
		put(id("hooks_oci", i), hooksIn{Kind: "hooks_oci", Hooks: r.hooks()})
		in := hooksIn{Kind: "hooks_nri", Hooks: r.hooks()}
		if r.r.Intn(3) != 0 {
			in.Extra = r.hooks()
		}
		put(id("hooks_nri", i), in)
	}

	// ---- env: entries with '=' (in the property's domain); keys without '='
	put("env_oci-nil", envIn{Kind: "env_oci", Env: []string{}, KVs: []*jKV{}, Nil: true})
	put("env_oci-empty", envIn{Kind: "env_oci", Env: []string{}, KVs: []*jKV{}})
	put("env_nri-empty", envIn{Kind: "env_nri", Env: []string{}, KVs: []*jKV{}})
	k = 0
	for _, a := range strPool {
		for _, b := range []string{"", "v", "a=b", "=", "==x"} {
			put(id("env_oci-sys", k), envIn{Kind: "env_oci", Env: []string{a + "=" + b}, KVs: []*jKV{}})
			if !strings.Contains(a, "=") {
				put(id("env_nri-sys", k), envIn{Kind: "env_nri", Env: []string{}, KVs: []*jKV{{Key: a, Value: b}}})
			}
			k++
		}
	}
	for i := 0; i < o.N(4000, 50000); i++ {
		var env []string
		kvs := []*jKV{}
		for a, n := 0, r.r.Intn(5); a < n; a++ {
			env = append(env, r.str()+"="+r.str())
			kvs = append(kvs, &jKV{Key: strings.ReplaceAll(r.str(), "=", "_"), Value: r.str()})
		}
		if env == nil {
			env = []string{}
		}
		put(id("env_oci", i), envIn{Kind: "env_oci", Env: env, KVs: []*jKV{}})
		put(id("env_nri", i), envIn{Kind: "env_nri", Env: []string{}, KVs: kvs})
	}

	// ---- helpers
	put("helpers-nil", helpIn{Kind: "helpers", Strs: []string{}, Nil: true, Map: [][2]string{}})
	put("helpers-empty", helpIn{Kind: "helpers", Strs: []string{}, Map: [][2]string{}, Empty: true})
	for i, s := range strPool {
		put(id("helpers-sys", i), helpIn{Kind: "helpers", Strs: []string{s}, Map: [][2]string{{s, s}}, Key: s})
		put(id("helpers-sysm", i), helpIn{Kind: "helpers", Strs: []string{s, s}, Map: [][2]string{}, Key: "-" + s})
	}
	for i := 0; i < o.N(1500, 10000); i++ {
		put(id("helpers", i), helpIn{Kind: "helpers", Strs: r.strList(5), Map: r.kvMap(5), Key: r.str()})
	}
}

func genCtor(o *hx.Opts, put putFn) {
	for i, c := range sysCtor() {
		put(id("ctor-sys", i), c)
	}
	r := g{o.Rand(143)}
	for i := 0; i < o.N(8000, 100000); i++ {
		put(id("ctor", i), r.ctor())
	}
}

func genAlias(o *hx.Opts, put putFn) {
	full := sysRes(false)
	fullN := full[len(full)-1]
	fullO := sysRes(true)
	fullOci := fullO[len(fullO)-1]
	put("alias-copy-full", aliasIn{Kind: "alias", What: "copy", Res: fullN})
	put("alias-copy-zero", aliasIn{Kind: "alias", What: "copy", Res: full[len(full)-2]})
	put("alias-copy-empty", aliasIn{Kind: "alias", What: "copy", Res: emptyRes()})
	put("alias-copy-nil", aliasIn{Kind: "alias", What: "copy"})
	put("alias-tooci-full", aliasIn{Kind: "alias", What: "tooci", Res: fullN})
	put("alias-fromoci-full", aliasIn{Kind: "alias", What: "fromoci", Res: fullOci})
	m := []*jMount{{Destination: "/d", Type: "bind", Source: "/s", Options: []string{"ro", "rprivate"}}, {Destination: "/e", Options: []string{"x"}}}
	put("alias-mounts_from", aliasIn{Kind: "alias", What: "mounts_from", Mounts: m})
	put("alias-mount_to", aliasIn{Kind: "alias", What: "mount_to", Mounts: m})
	d := []*jDev{{Path: "/dev/a", Type: "c", Major: 1, Minor: 2, FileMode: pU32(0o644), Uid: pU32(1), Gid: pU32(2)}, {Path: "/dev/b", Type: "b"}}
	put("alias-devices_from", aliasIn{Kind: "alias", What: "devices_from", Devs: d})
	put("alias-device_to", aliasIn{Kind: "alias", What: "device_to", Devs: d})
	h := &jHooks{Prestart: []*jHook{{Path: "/h", Args: []string{"a", "b"}, Env: []string{"K=V"}, Timeout: pI64(3)}},
		CreateRuntime: []*jHook{{Path: "/c", Args: []string{"c"}, Env: []string{}}}, CreateContainer: []*jHook{}, StartContainer: []*jHook{},
		Poststart: []*jHook{}, Poststop: []*jHook{{Path: "/p", Args: []string{}, Env: []string{"E=1", "F=2"}}}}
	put("alias-hooks_from", aliasIn{Kind: "alias", What: "hooks_from", Hooks: h})
	put("alias-hook_to", aliasIn{Kind: "alias", What: "hook_to", Hooks: h})
	put("alias-dupslice", aliasIn{Kind: "alias", What: "dupslice", Strs: []string{"a", "b", "c"}})
	put("alias-dupmap", aliasIn{Kind: "alias", What: "dupmap", Map: [][2]string{{"a", "1"}, {"b", "2"}}})
	put("alias-env_from", aliasIn{Kind: "alias", What: "env_from", Strs: []string{"A=1", "B=2"}})
	put("alias-get", aliasIn{Kind: "alias", What: "get"})
	r := g{o.Rand(144)}
	for i := 0; i < o.N(400, 5000); i++ {
		put(id("alias-copy", i), aliasIn{Kind: "alias", What: "copy", Res: r.res(false)})
		if i%3 == 0 {
			put(id("alias-tooci", i), aliasIn{Kind: "alias", What: "tooci", Res: r.res(false)})
			put(id("alias-fromoci", i), aliasIn{Kind: "alias", What: "fromoci", Res: r.res(true)})
		}
	}
}

// genExcluded: inputs outside the property's stated domain; only Impl ≈ Model is enforced and
// what the real code does there is recorded.
func genExcluded(o *hx.Opts, put putFn) {
	r := g{o.Rand(145)}
	// nil elements in []*T slices (in-process callers only; protobuf never produces them)
	for i := 0; i < o.N(20, 500); i++ {
		j := r.res(false)
		switch i % 3 {
		case 0:
			j.Hugepages = append(j.Hugepages, nil)
		case 1:
			j.Devices = append([]*jDevCg{nil}, j.Devices...)
		case 2:
			j.Hugepages = append([]*jHp{nil}, j.Hugepages...)
			j.Devices = append(j.Devices, nil)
		}
		j.HugepagesNil, j.DevicesNil = false, false
		put(id("x-res_nri-nilelem", i), resIn{Kind: "res_nri", Res: j})
	}
	put("x-mounts_nri-nilelem", mountsIn{Kind: "mounts_nri", Mounts: []*jMount{{Destination: "/a", Options: []string{}}, nil}})
	put("x-env_nri-nilelem", envIn{Kind: "env_nri", Env: []string{}, KVs: []*jKV{nil}})
	nilHook := &jHooks{Prestart: []*jHook{nil}, CreateRuntime: []*jHook{}, CreateContainer: []*jHook{}, StartContainer: []*jHook{}, Poststart: []*jHook{}, Poststop: []*jHook{}}
	put("x-hooks_nri-nilelem", hooksIn{Kind: "hooks_nri", Hooks: nilHook})
	// env entries without '=' and keys containing '='
	k := 0
	for _, s := range strPool {
		put(id("x-env_oci-noeq", k), envIn{Kind: "env_oci", Env: []string{s}, KVs: []*jKV{}})
		put(id("x-env_nri-eqkey", k), envIn{Kind: "env_nri", Env: []string{}, KVs: []*jKV{{Key: s + "=k", Value: "v"}}})
		k++
	}
	for i := 0; i < o.N(200, 5000); i++ {
		var env []string
		for a, n := 0, 1+r.r.Intn(4); a < n; a++ {
			if r.r.Intn(2) == 0 {
				env = append(env, strings.ReplaceAll(r.str(), "=", ""))
			} else {
				env = append(env, r.str()+"="+r.str())
			}
		}
		put(id("x-env_oci-mixed", i), envIn{Kind: "env_oci", Env: env, KVs: []*jKV{}})
	}
	// event numbers outside 1..14
	for _, e := range []int32{0, -1, -5, 16, 31, 32, 33, 34, 40, 64, 65} {
		for _, m := range []uint32{0, 0x1fff, 0x7fffffff} {
			put(fmt.Sprintf("x-bits-%d-%d", e, m), bitsIn{"bits", m, e})
		}
	}
}
