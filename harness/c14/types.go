package c14

// JSON shapes exchanged with the Lean driver, and neutral conversions between them and the
// real pkg/api and runtime-spec types. The conversions here never call the code under test
// (no Get(), no api.Int64(...)): an optional is read by looking at the pointer and `.Value`.

import (
	"os"
	"sort"

	"github.com/containerd/nri/pkg/api"
	rspec "github.com/opencontainers/runtime-spec/specs-go"
)

type jMem struct {
	Limit             *int64  `json:"limit"`
	Reservation       *int64  `json:"reservation"`
	Swap              *int64  `json:"swap"`
	Kernel            *int64  `json:"kernel"`
	KernelTcp         *int64  `json:"kernelTcp"`
	Swappiness        *uint64 `json:"swappiness"`
	DisableOom        *bool   `json:"disableOom"`
	UseHierarchy      *bool   `json:"useHierarchy"`
	CheckBeforeUpdate *bool   `json:"checkBeforeUpdate"` // OCI only
}

type jCpu struct {
	Shares    *uint64 `json:"shares"`
	Quota     *int64  `json:"quota"`
	Burst     *uint64 `json:"burst"` // OCI only
	Period    *uint64 `json:"period"`
	RtRuntime *int64  `json:"rtRuntime"`
	RtPeriod  *uint64 `json:"rtPeriod"`
	Cpus      string  `json:"cpus"`
	Mems      string  `json:"mems"`
	Idle      *int64  `json:"idle"` // OCI only
}

type jHp struct {
	PageSize string `json:"pageSize"`
	Limit    uint64 `json:"limit"`
}

type jDevCg struct {
	Allow  bool   `json:"allow"`
	Type   string `json:"type"`
	Major  *int64 `json:"major"`
	Minor  *int64 `json:"minor"`
	Access string `json:"access"`
}

// jRes is used for both representations; fields one side does not have stay null/empty.
type jRes struct {
	Memory       *jMem       `json:"memory"`
	Cpu          *jCpu       `json:"cpu"`
	Hugepages    []*jHp      `json:"hugepages"` // null element = nil pointer in a []*T (NRI side only)
	Unified      [][2]string `json:"unified"`   // sorted by key
	Devices      []*jDevCg   `json:"devices"`
	Pids         *int64      `json:"pids"`
	BlockioClass *string     `json:"blockioClass"` // NRI only
	RdtClass     *string     `json:"rdtClass"`     // NRI only
	Uncarried    []string    `json:"uncarried"`    // OCI only: populated fields among blockIO, network, rdma
	HugepagesNil bool        `json:"hugepagesNil"`
	UnifiedNil   bool        `json:"unifiedNil"`
	DevicesNil   bool        `json:"devicesNil"`
	UnifiedEmpty bool        `json:"unifiedEmpty"` // input only: build an empty non-nil map
}

func sortedMap(m map[string]string) [][2]string {
	out := make([][2]string, 0, len(m))
	for k, v := range m {
		out = append(out, [2]string{k, v})
	}
	sort.Slice(out, func(i, j int) bool { return out[i][0] < out[j][0] })
	return out
}

func toMap(kv [][2]string, emptyNonNil bool) map[string]string {
	if len(kv) == 0 {
		if emptyNonNil {
			return map[string]string{}
		}
		return nil
	}
	m := make(map[string]string, len(kv))
	for _, e := range kv {
		m[e[0]] = e[1]
	}
	return m
}

func cpI64(p *int64) *int64 {
	if p == nil {
		return nil
	}
	v := *p
	return &v
}
func cpU64(p *uint64) *uint64 {
	if p == nil {
		return nil
	}
	v := *p
	return &v
}
func cpU32(p *uint32) *uint32 {
	if p == nil {
		return nil
	}
	v := *p
	return &v
}
func cpBool(p *bool) *bool {
	if p == nil {
		return nil
	}
	v := *p
	return &v
}
func cpStr(p *string) *string {
	if p == nil {
		return nil
	}
	v := *p
	return &v
}

// ---- OCI resources

func (j *jRes) toOCI() *rspec.LinuxResources {
	if j == nil {
		return nil
	}
	o := &rspec.LinuxResources{}
	if m := j.Memory; m != nil {
		o.Memory = &rspec.LinuxMemory{
			Limit: cpI64(m.Limit), Reservation: cpI64(m.Reservation), Swap: cpI64(m.Swap),
			Kernel: cpI64(m.Kernel), KernelTCP: cpI64(m.KernelTcp), Swappiness: cpU64(m.Swappiness),
			DisableOOMKiller: cpBool(m.DisableOom), UseHierarchy: cpBool(m.UseHierarchy),
			CheckBeforeUpdate: cpBool(m.CheckBeforeUpdate),
		}
	}
	if c := j.Cpu; c != nil {
		o.CPU = &rspec.LinuxCPU{
			Shares: cpU64(c.Shares), Quota: cpI64(c.Quota), Burst: cpU64(c.Burst), Period: cpU64(c.Period),
			RealtimeRuntime: cpI64(c.RtRuntime), RealtimePeriod: cpU64(c.RtPeriod),
			Cpus: c.Cpus, Mems: c.Mems, Idle: cpI64(c.Idle),
		}
	}
	if j.Hugepages != nil && !j.HugepagesNil {
		o.HugepageLimits = []rspec.LinuxHugepageLimit{}
	}
	for _, h := range j.Hugepages {
		o.HugepageLimits = append(o.HugepageLimits, rspec.LinuxHugepageLimit{Pagesize: h.PageSize, Limit: h.Limit})
	}
	if j.Devices != nil && !j.DevicesNil {
		o.Devices = []rspec.LinuxDeviceCgroup{}
	}
	for _, d := range j.Devices {
		o.Devices = append(o.Devices, rspec.LinuxDeviceCgroup{Allow: d.Allow, Type: d.Type,
			Major: cpI64(d.Major), Minor: cpI64(d.Minor), Access: d.Access})
	}
	if j.Pids != nil {
		o.Pids = &rspec.LinuxPids{Limit: *j.Pids}
	}
	o.Unified = toMap(j.Unified, j.UnifiedEmpty)
	for _, u := range j.Uncarried {
		switch u {
		case "blockIO":
			w := uint16(500)
			o.BlockIO = &rspec.LinuxBlockIO{Weight: &w}
		case "network":
			c := uint32(7)
			o.Network = &rspec.LinuxNetwork{ClassID: &c}
		case "rdma":
			h := uint32(3)
			o.Rdma = map[string]rspec.LinuxRdma{"mlx5_0": {HcaHandles: &h}}
		}
	}
	return o
}

func ociToJ(o *rspec.LinuxResources) *jRes {
	if o == nil {
		return nil
	}
	j := &jRes{Hugepages: []*jHp{}, Devices: []*jDevCg{}, Uncarried: []string{}}
	if m := o.Memory; m != nil {
		j.Memory = &jMem{Limit: cpI64(m.Limit), Reservation: cpI64(m.Reservation), Swap: cpI64(m.Swap),
			Kernel: cpI64(m.Kernel), KernelTcp: cpI64(m.KernelTCP), Swappiness: cpU64(m.Swappiness),
			DisableOom: cpBool(m.DisableOOMKiller), UseHierarchy: cpBool(m.UseHierarchy),
			CheckBeforeUpdate: cpBool(m.CheckBeforeUpdate)}
	}
	if c := o.CPU; c != nil {
		j.Cpu = &jCpu{Shares: cpU64(c.Shares), Quota: cpI64(c.Quota), Burst: cpU64(c.Burst), Period: cpU64(c.Period),
			RtRuntime: cpI64(c.RealtimeRuntime), RtPeriod: cpU64(c.RealtimePeriod), Cpus: c.Cpus, Mems: c.Mems,
			Idle: cpI64(c.Idle)}
	}
	for _, h := range o.HugepageLimits {
		j.Hugepages = append(j.Hugepages, &jHp{PageSize: h.Pagesize, Limit: h.Limit})
	}
	j.HugepagesNil = o.HugepageLimits == nil
	for _, d := range o.Devices {
		j.Devices = append(j.Devices, &jDevCg{Allow: d.Allow, Type: d.Type, Major: cpI64(d.Major), Minor: cpI64(d.Minor), Access: d.Access})
	}
	j.DevicesNil = o.Devices == nil
	if o.Pids != nil {
		v := o.Pids.Limit
		j.Pids = &v
	}
	j.Unified = sortedMap(o.Unified)
	j.UnifiedNil = o.Unified == nil
	if o.BlockIO != nil {
		j.Uncarried = append(j.Uncarried, "blockIO")
	}
	if o.Network != nil {
		j.Uncarried = append(j.Uncarried, "network")
	}
	if o.Rdma != nil {
		j.Uncarried = append(j.Uncarried, "rdma")
	}
	return j
}

// ---- NRI resources

func oI64(p *int64) *api.OptionalInt64 {
	if p == nil {
		return nil
	}
	return &api.OptionalInt64{Value: *p}
}
func oU64(p *uint64) *api.OptionalUInt64 {
	if p == nil {
		return nil
	}
	return &api.OptionalUInt64{Value: *p}
}
func oU32(p *uint32) *api.OptionalUInt32 {
	if p == nil {
		return nil
	}
	return &api.OptionalUInt32{Value: *p}
}
func oBool(p *bool) *api.OptionalBool {
	if p == nil {
		return nil
	}
	return &api.OptionalBool{Value: *p}
}
func oStr(p *string) *api.OptionalString {
	if p == nil {
		return nil
	}
	return &api.OptionalString{Value: *p}
}
func rI64(o *api.OptionalInt64) *int64 {
	if o == nil {
		return nil
	}
	v := o.Value
	return &v
}
func rU64(o *api.OptionalUInt64) *uint64 {
	if o == nil {
		return nil
	}
	v := o.Value
	return &v
}
func rU32(o *api.OptionalUInt32) *uint32 {
	if o == nil {
		return nil
	}
	v := o.Value
	return &v
}
func rBool(o *api.OptionalBool) *bool {
	if o == nil {
		return nil
	}
	v := o.Value
	return &v
}
func rStr(o *api.OptionalString) *string {
	if o == nil {
		return nil
	}
	v := o.Value
	return &v
}

func (j *jRes) toNRI() *api.LinuxResources {
	if j == nil {
		return nil
	}
	r := &api.LinuxResources{}
	if m := j.Memory; m != nil {
		r.Memory = &api.LinuxMemory{Limit: oI64(m.Limit), Reservation: oI64(m.Reservation), Swap: oI64(m.Swap),
			Kernel: oI64(m.Kernel), KernelTcp: oI64(m.KernelTcp), Swappiness: oU64(m.Swappiness),
			DisableOomKiller: oBool(m.DisableOom), UseHierarchy: oBool(m.UseHierarchy)}
	}
	if c := j.Cpu; c != nil {
		r.Cpu = &api.LinuxCPU{Shares: oU64(c.Shares), Quota: oI64(c.Quota), Period: oU64(c.Period),
			RealtimeRuntime: oI64(c.RtRuntime), RealtimePeriod: oU64(c.RtPeriod), Cpus: c.Cpus, Mems: c.Mems}
	}
	if j.Hugepages != nil && !j.HugepagesNil {
		r.HugepageLimits = []*api.HugepageLimit{}
	}
	for _, h := range j.Hugepages {
		if h == nil {
			r.HugepageLimits = append(r.HugepageLimits, nil)
			continue
		}
		r.HugepageLimits = append(r.HugepageLimits, &api.HugepageLimit{PageSize: h.PageSize, Limit: h.Limit})
	}
	if j.Devices != nil && !j.DevicesNil {
		r.Devices = []*api.LinuxDeviceCgroup{}
	}
	for _, d := range j.Devices {
		if d == nil {
			r.Devices = append(r.Devices, nil)
			continue
		}
		r.Devices = append(r.Devices, &api.LinuxDeviceCgroup{Allow: d.Allow, Type: d.Type, Major: oI64(d.Major),
			Minor: oI64(d.Minor), Access: d.Access})
	}
	if j.Pids != nil {
		r.Pids = &api.LinuxPids{Limit: *j.Pids}
	}
	r.Unified = toMap(j.Unified, j.UnifiedEmpty)
	r.BlockioClass = oStr(j.BlockioClass)
	r.RdtClass = oStr(j.RdtClass)
	return r
}

func nriToJ(r *api.LinuxResources) *jRes {
	if r == nil {
		return nil
	}
	j := &jRes{Hugepages: []*jHp{}, Devices: []*jDevCg{}, Uncarried: []string{}}
	if m := r.Memory; m != nil {
		j.Memory = &jMem{Limit: rI64(m.Limit), Reservation: rI64(m.Reservation), Swap: rI64(m.Swap),
			Kernel: rI64(m.Kernel), KernelTcp: rI64(m.KernelTcp), Swappiness: rU64(m.Swappiness),
			DisableOom: rBool(m.DisableOomKiller), UseHierarchy: rBool(m.UseHierarchy)}
	}
	if c := r.Cpu; c != nil {
		j.Cpu = &jCpu{Shares: rU64(c.Shares), Quota: rI64(c.Quota), Period: rU64(c.Period),
			RtRuntime: rI64(c.RealtimeRuntime), RtPeriod: rU64(c.RealtimePeriod), Cpus: c.Cpus, Mems: c.Mems}
	}
	for _, h := range r.HugepageLimits {
		if h == nil {
			j.Hugepages = append(j.Hugepages, nil)
			continue
		}
		j.Hugepages = append(j.Hugepages, &jHp{PageSize: h.PageSize, Limit: h.Limit})
	}
	j.HugepagesNil = r.HugepageLimits == nil
	for _, d := range r.Devices {
		if d == nil {
			j.Devices = append(j.Devices, nil)
			continue
		}
		j.Devices = append(j.Devices, &jDevCg{Allow: d.Allow, Type: d.Type, Major: rI64(d.Major), Minor: rI64(d.Minor), Access: d.Access})
	}
	j.DevicesNil = r.Devices == nil
	if r.Pids != nil {
		v := r.Pids.Limit
		j.Pids = &v
	}
	j.Unified = sortedMap(r.Unified)
	j.UnifiedNil = r.Unified == nil
	j.BlockioClass = rStr(r.BlockioClass)
	j.RdtClass = rStr(r.RdtClass)
	return j
}

// ---- mounts

type jMount struct {
	Destination string   `json:"destination"`
	Type        string   `json:"type"`
	Source      string   `json:"source"`
	Options     []string `json:"options"`
	OptionsNil  bool     `json:"optionsNil"`
	IdMapped    bool     `json:"idMapped"` // OCI only: UID/GID mappings populated
}

func strs(s []string) []string {
	if s == nil {
		return []string{}
	}
	return append([]string{}, s...)
}

func strsIn(s []string, isNil bool) []string {
	if isNil && len(s) == 0 {
		return nil
	}
	return append([]string{}, s...)
}

func (j *jMount) toOCI() rspec.Mount {
	m := rspec.Mount{Destination: j.Destination, Type: j.Type, Source: j.Source, Options: strsIn(j.Options, j.OptionsNil)}
	if j.IdMapped {
		m.UIDMappings = []rspec.LinuxIDMapping{{ContainerID: 0, HostID: 1000, Size: 1}}
		m.GIDMappings = []rspec.LinuxIDMapping{{ContainerID: 0, HostID: 1000, Size: 1}}
	}
	return m
}
func ociMountToJ(m rspec.Mount) *jMount {
	return &jMount{Destination: m.Destination, Type: m.Type, Source: m.Source, Options: strs(m.Options),
		OptionsNil: m.Options == nil, IdMapped: m.UIDMappings != nil || m.GIDMappings != nil}
}
func (j *jMount) toNRI() *api.Mount {
	if j == nil {
		return nil
	}
	return &api.Mount{Destination: j.Destination, Type: j.Type, Source: j.Source, Options: strsIn(j.Options, j.OptionsNil)}
}
func nriMountToJ(m *api.Mount) *jMount {
	if m == nil {
		return nil
	}
	return &jMount{Destination: m.Destination, Type: m.Type, Source: m.Source, Options: strs(m.Options), OptionsNil: m.Options == nil}
}

// ---- devices

type jDev struct {
	Path     string  `json:"path"`
	Type     string  `json:"type"`
	Major    int64   `json:"major"`
	Minor    int64   `json:"minor"`
	FileMode *uint32 `json:"fileMode"`
	Uid      *uint32 `json:"uid"`
	Gid      *uint32 `json:"gid"`
}

func (j *jDev) toOCI() rspec.LinuxDevice {
	d := rspec.LinuxDevice{Path: j.Path, Type: j.Type, Major: j.Major, Minor: j.Minor, UID: cpU32(j.Uid), GID: cpU32(j.Gid)}
	if j.FileMode != nil {
		fm := os.FileMode(*j.FileMode)
		d.FileMode = &fm
	}
	return d
}
func ociDevToJ(d rspec.LinuxDevice) *jDev {
	j := &jDev{Path: d.Path, Type: d.Type, Major: d.Major, Minor: d.Minor, Uid: cpU32(d.UID), Gid: cpU32(d.GID)}
	if d.FileMode != nil {
		v := uint32(*d.FileMode)
		j.FileMode = &v
	}
	return j
}
func (j *jDev) toNRI() *api.LinuxDevice {
	if j == nil {
		return nil
	}
	d := &api.LinuxDevice{Path: j.Path, Type: j.Type, Major: j.Major, Minor: j.Minor, Uid: oU32(j.Uid), Gid: oU32(j.Gid)}
	if j.FileMode != nil {
		d.FileMode = &api.OptionalFileMode{Value: *j.FileMode}
	}
	return d
}
func nriDevToJ(d *api.LinuxDevice) *jDev {
	if d == nil {
		return nil
	}
	j := &jDev{Path: d.Path, Type: d.Type, Major: d.Major, Minor: d.Minor, Uid: rU32(d.Uid), Gid: rU32(d.Gid)}
	if d.FileMode != nil {
		v := d.FileMode.Value
		j.FileMode = &v
	}
	return j
}

// ---- hooks

type jHook struct {
	Path    string   `json:"path"`
	Args    []string `json:"args"`
	ArgsNil bool     `json:"argsNil"`
	Env     []string `json:"env"`
	EnvNil  bool     `json:"envNil"`
	Timeout *int64   `json:"timeout"`
}

type jHooks struct {
	Prestart        []*jHook `json:"prestart"`
	CreateRuntime   []*jHook `json:"createRuntime"`
	CreateContainer []*jHook `json:"createContainer"`
	StartContainer  []*jHook `json:"startContainer"`
	Poststart       []*jHook `json:"poststart"`
	Poststop        []*jHook `json:"poststop"`
	Nils            []bool   `json:"nils"` // obs only: which of the six slices are nil
}

func (j *jHook) toOCI() rspec.Hook {
	h := rspec.Hook{Path: j.Path, Args: strsIn(j.Args, j.ArgsNil), Env: strsIn(j.Env, j.EnvNil)}
	if j.Timeout != nil {
		t := int(*j.Timeout)
		h.Timeout = &t
	}
	return h
}
func ociHookToJ(h rspec.Hook) *jHook {
	j := &jHook{Path: h.Path, Args: strs(h.Args), ArgsNil: h.Args == nil, Env: strs(h.Env), EnvNil: h.Env == nil}
	if h.Timeout != nil {
		t := int64(*h.Timeout)
		j.Timeout = &t
	}
	return j
}
func (j *jHook) toNRI() *api.Hook {
	if j == nil {
		return nil
	}
	h := &api.Hook{Path: j.Path, Args: strsIn(j.Args, j.ArgsNil), Env: strsIn(j.Env, j.EnvNil)}
	if j.Timeout != nil {
		h.Timeout = &api.OptionalInt{Value: *j.Timeout}
	}
	return h
}
func nriHookToJ(h *api.Hook) *jHook {
	if h == nil {
		return nil
	}
	j := &jHook{Path: h.Path, Args: strs(h.Args), ArgsNil: h.Args == nil, Env: strs(h.Env), EnvNil: h.Env == nil}
	if h.Timeout != nil {
		t := h.Timeout.Value
		j.Timeout = &t
	}
	return j
}

func ociHookSlice(js []*jHook) []rspec.Hook {
	var out []rspec.Hook
	for _, j := range js {
		out = append(out, j.toOCI())
	}
	return out
}
func nriHookSlice(js []*jHook) []*api.Hook {
	var out []*api.Hook
	for _, j := range js {
		out = append(out, j.toNRI())
	}
	return out
}
func ociHookSliceToJ(hs []rspec.Hook) []*jHook {
	out := []*jHook{}
	for _, h := range hs {
		out = append(out, ociHookToJ(h))
	}
	return out
}
func nriHookSliceToJ(hs []*api.Hook) []*jHook {
	out := []*jHook{}
	for _, h := range hs {
		out = append(out, nriHookToJ(h))
	}
	return out
}

func (j *jHooks) toOCI() *rspec.Hooks {
	if j == nil {
		return nil
	}
	return &rspec.Hooks{Prestart: ociHookSlice(j.Prestart), CreateRuntime: ociHookSlice(j.CreateRuntime),
		CreateContainer: ociHookSlice(j.CreateContainer), StartContainer: ociHookSlice(j.StartContainer),
		Poststart: ociHookSlice(j.Poststart), Poststop: ociHookSlice(j.Poststop)}
}
func (j *jHooks) toNRI() *api.Hooks {
	if j == nil {
		return nil
	}
	return &api.Hooks{Prestart: nriHookSlice(j.Prestart), CreateRuntime: nriHookSlice(j.CreateRuntime),
		CreateContainer: nriHookSlice(j.CreateContainer), StartContainer: nriHookSlice(j.StartContainer),
		Poststart: nriHookSlice(j.Poststart), Poststop: nriHookSlice(j.Poststop)}
}
func nriHooksToJ(h *api.Hooks) *jHooks {
	if h == nil {
		return nil
	}
	return &jHooks{Prestart: nriHookSliceToJ(h.Prestart), CreateRuntime: nriHookSliceToJ(h.CreateRuntime),
		CreateContainer: nriHookSliceToJ(h.CreateContainer), StartContainer: nriHookSliceToJ(h.StartContainer),
		Poststart: nriHookSliceToJ(h.Poststart), Poststop: nriHookSliceToJ(h.Poststop),
		Nils: []bool{h.Prestart == nil, h.CreateRuntime == nil, h.CreateContainer == nil, h.StartContainer == nil,
			h.Poststart == nil, h.Poststop == nil}}
}

// ---- env

type jKV struct {
	Key   string `json:"key"`
	Value string `json:"value"`
}
