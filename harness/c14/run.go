// Package c14 is the correspondence harness for property C14: NRI/OCI conversions, Copy,
// optional constructors and the event-mask print/parse round trip, through the exported
// functions of pkg/api.
package c14

import (
	"encoding/json"
	"fmt"

	"github.com/containerd/nri/pkg/api"

	"verifh/internal/hx"
	"verifh/internal/lineio"
)

type maskIn struct {
	Kind string `json:"kind"`
	Mask uint32 `json:"mask"`
}

type maskObs struct {
	Pretty string `json:"pretty"`
	Parsed uint32 `json:"parsed"`
	PErr   bool   `json:"perr"`
}

func runMask(in maskIn) maskObs {
	m := api.EventMask(int32(in.Mask))
	o := maskObs{Pretty: m.PrettyString()}
	p, err := api.ParseEventMask(o.Pretty)
	if err != nil {
		o.PErr = true
	} else {
		o.Parsed = uint32(int32(p))
	}
	return o
}

// parse cases: arbitrary strings handed to ParseEventMask (groups, "all", spaces, case,
// unknown names, several arguments), and the Set/Clear/IsSet algebra.
type parseIn struct {
	Kind   string   `json:"kind"`
	Events []string `json:"events"`
}

type parseObs struct {
	Mask uint32 `json:"mask"`
	Err  bool   `json:"err"`
	// MustParseEventMask on the same arguments: the same mask, or a panic exactly when
	// ParseEventMask reports an error
	MustMask  uint32 `json:"must_mask"`
	MustPanic bool   `json:"must_panic"`
}

func runParse(in parseIn) parseObs {
	var o parseObs
	func() {
		defer func() {
			if recover() != nil {
				o.MustPanic = true
			}
		}()
		o.MustMask = uint32(int32(api.MustParseEventMask(in.Events...)))
	}()
	m, err := api.ParseEventMask(in.Events...)
	if err != nil {
		o.Err = true
		return o
	}
	o.Mask = uint32(int32(m))
	return o
}

type bitsIn struct {
	Kind  string `json:"kind"`
	Mask  uint32 `json:"mask"`
	Event int32  `json:"event"`
}

type bitsObs struct {
	IsSet   bool   `json:"isSet"`
	Set     uint32 `json:"set"`
	Cleared uint32 `json:"cleared"`
	Valid   uint32 `json:"valid"`
	Panic   string `json:"panic"`
}

func runBits(in bitsIn) (o bitsObs) {
	defer func() {
		if r := recover(); r != nil {
			o = bitsObs{Panic: firstLine(r)}
		}
	}()
	m := api.EventMask(int32(in.Mask))
	o = bitsObs{IsSet: m.IsSet(api.Event(in.Event)), Valid: uint32(int32(api.ValidEvents))}
	s := m
	s.Set(api.Event(in.Event))
	c := m
	c.Clear(api.Event(in.Event))
	o.Set, o.Cleared = uint32(int32(s)), uint32(int32(c))
	return o
}

// execute one case given its raw "in" object
func execCase(raw json.RawMessage) (interface{}, interface{}, error) {
	var k struct {
		Kind string `json:"kind"`
	}
	if err := json.Unmarshal(raw, &k); err != nil {
		return nil, nil, err
	}
	dec := func(v interface{}) error { return json.Unmarshal(raw, v) }
	switch k.Kind {
	case "mask":
		var in maskIn
		if err := dec(&in); err != nil {
			return nil, nil, err
		}
		return in, runMask(in), nil
	case "parse":
		var in parseIn
		if err := dec(&in); err != nil {
			return nil, nil, err
		}
		return in, runParse(in), nil
	case "bits":
		var in bitsIn
		if err := dec(&in); err != nil {
			return nil, nil, err
		}
		return in, runBits(in), nil
	case "res_oci":
		var in resIn
		if err := dec(&in); err != nil {
			return nil, nil, err
		}
		return in, runResOci(in), nil
	case "res_nri":
		var in resIn
		if err := dec(&in); err != nil {
			return nil, nil, err
		}
		return in, runResNri(in), nil
	case "mounts_oci":
		var in mountsIn
		if err := dec(&in); err != nil {
			return nil, nil, err
		}
		return in, runMountsOci(in), nil
	case "mounts_nri":
		var in mountsIn
		if err := dec(&in); err != nil {
			return nil, nil, err
		}
		return in, runMountsNri(in), nil
	case "devices_oci":
		var in devsIn
		if err := dec(&in); err != nil {
			return nil, nil, err
		}
		return in, runDevsOci(in), nil
	case "devices_nri":
		var in devsIn
		if err := dec(&in); err != nil {
			return nil, nil, err
		}
		return in, runDevsNri(in), nil
	case "hooks_oci":
		var in hooksIn
		if err := dec(&in); err != nil {
			return nil, nil, err
		}
		return in, runHooksOci(in), nil
	case "hooks_nri":
		var in hooksIn
		if err := dec(&in); err != nil {
			return nil, nil, err
		}
		return in, runHooksNri(in), nil
	case "env_oci":
		var in envIn
		if err := dec(&in); err != nil {
			return nil, nil, err
		}
		return in, runEnvOci(in), nil
	case "env_nri":
		var in envIn
		if err := dec(&in); err != nil {
			return nil, nil, err
		}
		return in, runEnvNri(in), nil
	case "helpers":
		var in helpIn
		if err := dec(&in); err != nil {
			return nil, nil, err
		}
		return in, runHelpers(in), nil
	case "ctor":
		var in ctorIn
		if err := dec(&in); err != nil {
			return nil, nil, err
		}
		return in, runCtor(in), nil
	case "alias":
		var in aliasIn
		if err := dec(&in); err != nil {
			return nil, nil, err
		}
		return in, runAlias(in), nil
	case "platform":
		return map[string]interface{}{"kind": "platform"}, map[string]interface{}{"intSize": intSize()}, nil
	}
	return nil, nil, fmt.Errorf("unknown case kind %q", k.Kind)
}

func Run(o *hx.Opts, w *lineio.Writer) error {
	if o.Replay != "" {
		cases, err := hx.ReplayCases(o.Replay)
		if err != nil {
			return err
		}
		for _, c := range cases {
			in, obs, err := execCase(c.In)
			if err != nil {
				return err
			}
			w.Put(&lineio.Case{ID: c.ID, In: in, Obs: obs})
		}
		return nil
	}
	// every generated case goes through its JSON form, exactly as a replay would
	put := func(id string, in interface{}) error {
		raw, err := json.Marshal(in)
		if err != nil {
			return err
		}
		in2, obs, err := execCase(raw)
		if err != nil {
			return err
		}
		return w.Put(&lineio.Case{ID: id, In: in2, Obs: obs})
	}
	put("platform", map[string]string{"kind": "platform"})

	// ---- event masks: all 8191 valid masks, exhaustively, plus the empty mask
	for m := uint32(0); m <= 0x1fff; m++ {
		put(fmt.Sprintf("mask-%d", m), maskIn{"mask", m})
	}
	// masks with invalid bits (outside the property's domain; correspondence only)
	r := o.Rand(14)
	for i := 0; i < o.N(200, 5000); i++ {
		put(id("maskx", i), maskIn{"mask", r.Uint32() & 0x7fffffff})
	}
	genParse(o, put)
	// IsSet/Set/Clear: every event number 0..15 against boundary and random masks
	for e := int32(0); e <= 15; e++ {
		for _, m := range []uint32{0, 1, 0x1fff, 0x2000, 0x7fffffff, 0x1555, 0x0aaa} {
			put(fmt.Sprintf("bits-%d-%d", e, m), bitsIn{"bits", m, e})
		}
		for i := 0; i < o.N(8, 200); i++ {
			put(fmt.Sprintf("bitsr-%d-%d", e, i), bitsIn{"bits", r.Uint32() & 0x7fffffff, e})
		}
	}

	genConversions(o, put)
	genCtor(o, put)
	genAlias(o, put)
	genExcluded(o, put)
	return nil
}
