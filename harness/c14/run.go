// Package c14 is the correspondence harness for property C14: NRI/OCI conversions, Copy,
// optional constructors and the event-mask print/parse round trip, through the exported
// functions of pkg/api.
package c14

import (
	"encoding/json"
	"fmt"

	"github.com/containerd/nri/pkg/api"

	"verifh/internal/hx"
	"verifh/internal/lineio"
)

type maskIn struct {
	Kind string `json:"kind"`
	Mask uint32 `json:"mask"`
}

type maskObs struct {
	Pretty string `json:"pretty"`
	Parsed uint32 `json:"parsed"`
	PErr   bool   `json:"perr"`
}

func runMask(in maskIn) maskObs {
	m := api.EventMask(int32(in.Mask))
	o := maskObs{Pretty: m.PrettyString()}
	p, err := api.ParseEventMask(o.Pretty)
	if err != nil {
		o.PErr = true
	} else {
		o.Parsed = uint32(int32(p))
	}
	return o
}

func Run(o *hx.Opts, w *lineio.Writer) error {
	if o.Replay != "" {
		cases, err := hx.ReplayCases(o.Replay)
		if err != nil {
			return err
		}
		for _, c := range cases {
			var k struct {
				Kind string `json:"kind"`
			}
			if err := json.Unmarshal(c.In, &k); err != nil {
				return err
			}
			switch k.Kind {
			case "mask":
				var in maskIn
				if err := json.Unmarshal(c.In, &in); err != nil {
					return err
				}
				w.Put(&lineio.Case{ID: c.ID, In: in, Obs: runMask(in)})
			default:
				return fmt.Errorf("unknown case kind %q", k.Kind)
			}
		}
		return nil
	}
	// all 8191 valid masks, exhaustively, plus the empty mask
	for m := uint32(0); m <= 0x1fff; m++ {
		in := maskIn{"mask", m}
		w.Put(&lineio.Case{ID: fmt.Sprintf("mask-%d", m), In: in, Obs: runMask(in)})
	}
	// masks with invalid bits (outside the property's domain; correspondence only)
	r := o.Rand(14)
	for i := 0; i < o.N(200, 5000); i++ {
		m := r.Uint32() & 0x7fffffff
		in := maskIn{"mask", m}
		w.Put(&lineio.Case{ID: fmt.Sprintf("maskx-%d", i), In: in, Obs: runMask(in)})
	}
	return nil
}
