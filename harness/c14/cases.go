package c14

// One run function per case kind: builds the real values from the JSON input, calls the
// exported functions of pkg/api, and returns the canonical observation. A panic of the code
// under test is an observation ("panic": first line), never a harness failure.

import (
	"fmt"
	"strconv"
	"strings"

	"github.com/containerd/nri/pkg/api"
	rspec "github.com/opencontainers/runtime-spec/specs-go"
)

func firstLine(r interface{}) string {
	s := fmt.Sprint(r)
	if i := strings.IndexByte(s, '\n'); i >= 0 {
		s = s[:i]
	}
	if strings.Contains(s, "nil pointer dereference") {
		return "nil-deref"
	}
	return "panic: " + s
}

func guard(p *string, f func()) {
	defer func() {
		if r := recover(); r != nil {
			*p = firstLine(r)
		}
	}()
	f()
}

// ---- resources, OCI -> NRI -> OCI

type resIn struct {
	Kind string      `json:"kind"`
	Res  *jRes       `json:"res"`
	Ann  [][2]string `json:"ann"` // second argument of FromOCILinuxResources (ignored by it)
}

type resOciObs struct {
	Nri   *jRes  `json:"nri"`
	Back  *jRes  `json:"back"`
	Panic string `json:"panic"`
}

func runResOci(in resIn) (o resOciObs) {
	guard(&o.Panic, func() {
		src := in.Res.toOCI()
		n := api.FromOCILinuxResources(src, toMap(in.Ann, false))
		o.Nri = nriToJ(n)
		o.Back = ociToJ(n.ToOCI())
	})
	return
}

// ---- resources, NRI -> OCI -> NRI, and Copy

type resNriObs struct {
	Oci       *jRes  `json:"oci"`
	Back      *jRes  `json:"back"`
	OciPanic  string `json:"ociPanic"`
	Copy      *jRes  `json:"copy"`
	CopyPanic string `json:"copyPanic"`
}

func runResNri(in resIn) (o resNriObs) {
	guard(&o.OciPanic, func() {
		src := in.Res.toNRI()
		oc := src.ToOCI()
		o.Oci = ociToJ(oc)
		o.Back = nriToJ(api.FromOCILinuxResources(oc, nil))
	})
	guard(&o.CopyPanic, func() {
		src := in.Res.toNRI()
		c := src.Copy()
		o.Copy = nriToJ(c)
	})
	return
}

// ---- mounts

type mountsIn struct {
	Kind   string    `json:"kind"`
	Mounts []*jMount `json:"mounts"`
	Nil    bool      `json:"nil"`   // pass a nil slice (only with no mounts)
	Query  *string   `json:"query"` // mounts_nri: initial content of the propagation query; null = nil pointer
}

type mountsObs struct {
	Out    []*jMount `json:"out"`
	OutNil bool      `json:"outNil"`
	Back   []*jMount `json:"back"`
	Query  *string   `json:"query"`
	Panic  string    `json:"panic"`
}

func runMountsOci(in mountsIn) (o mountsObs) {
	o.Out, o.Back = []*jMount{}, []*jMount{}
	guard(&o.Panic, func() {
		var src []rspec.Mount
		if !in.Nil {
			src = []rspec.Mount{}
		}
		for _, m := range in.Mounts {
			src = append(src, m.toOCI())
		}
		n := api.FromOCIMounts(src)
		o.OutNil = n == nil
		for _, m := range n {
			o.Out = append(o.Out, nriMountToJ(m))
			o.Back = append(o.Back, ociMountToJ(m.ToOCI(nil)))
		}
	})
	return
}

func runMountsNri(in mountsIn) (o mountsObs) {
	o.Out, o.Back = []*jMount{}, []*jMount{}
	guard(&o.Panic, func() {
		q := cpStr(in.Query)
		var oc []rspec.Mount
		for _, jm := range in.Mounts {
			m := jm.toNRI()
			oc = append(oc, m.ToOCI(q))
		}
		for _, m := range oc {
			o.Out = append(o.Out, ociMountToJ(m))
		}
		o.Query = cpStr(q)
		b := api.FromOCIMounts(oc)
		o.OutNil = b == nil
		for _, m := range b {
			o.Back = append(o.Back, nriMountToJ(m))
		}
	})
	return
}

// ---- devices

type devsIn struct {
	Kind    string  `json:"kind"`
	Devices []*jDev `json:"devices"`
	Nil     bool    `json:"nil"`
}

type devsObs struct {
	Out    []*jDev  `json:"out"`
	OutNil bool     `json:"outNil"`
	Back   []*jDev  `json:"back"`
	Access []string `json:"access"` // devices_nri: AccessString() of each non-nil device ("" for nil)
	Panic  string   `json:"panic"`
}

func runDevsOci(in devsIn) (o devsObs) {
	o.Out, o.Back, o.Access = []*jDev{}, []*jDev{}, []string{}
	guard(&o.Panic, func() {
		var src []rspec.LinuxDevice
		if !in.Nil {
			src = []rspec.LinuxDevice{}
		}
		for _, d := range in.Devices {
			src = append(src, d.toOCI())
		}
		n := api.FromOCILinuxDevices(src)
		o.OutNil = n == nil
		for _, d := range n {
			o.Out = append(o.Out, nriDevToJ(d))
			o.Back = append(o.Back, ociDevToJ(d.ToOCI()))
		}
	})
	return
}

func runDevsNri(in devsIn) (o devsObs) {
	o.Out, o.Back, o.Access = []*jDev{}, []*jDev{}, []string{}
	guard(&o.Panic, func() {
		var oc []rspec.LinuxDevice
		for _, jd := range in.Devices {
			d := jd.toNRI() // nil element -> nil receiver: ToOCI handles it explicitly
			oc = append(oc, d.ToOCI())
			if d != nil {
				o.Access = append(o.Access, d.AccessString())
			} else {
				o.Access = append(o.Access, "")
			}
		}
		for _, d := range oc {
			o.Out = append(o.Out, ociDevToJ(d))
		}
		b := api.FromOCILinuxDevices(oc)
		o.OutNil = b == nil
		for _, d := range b {
			o.Back = append(o.Back, nriDevToJ(d))
		}
	})
	return
}

// ---- hooks

type hooksIn struct {
	Kind  string  `json:"kind"`
	Hooks *jHooks `json:"hooks"`
	Extra *jHooks `json:"extra"` // hooks_nri: argument of Append (null = nil)
}

type hooksObs struct {
	Out      *jHooks `json:"out"`
	Back     *jHooks `json:"back"`
	NonEmpty bool    `json:"nonEmpty"` // (*Hooks).Hooks() != nil on the NRI value
	Appended *jHooks `json:"appended"` // hooks_nri: receiver after Append(extra)
	Panic    string  `json:"panic"`
}

func hooksEachToOCI(h *api.Hooks) *jHooks {
	if h == nil {
		return nil
	}
	conv := func(hs []*api.Hook) []*jHook {
		out := []*jHook{}
		for _, x := range hs {
			out = append(out, ociHookToJ(x.ToOCI()))
		}
		return out
	}
	return &jHooks{Prestart: conv(h.Prestart), CreateRuntime: conv(h.CreateRuntime), CreateContainer: conv(h.CreateContainer),
		StartContainer: conv(h.StartContainer), Poststart: conv(h.Poststart), Poststop: conv(h.Poststop)}
}

func runHooksOci(in hooksIn) (o hooksObs) {
	guard(&o.Panic, func() {
		n := api.FromOCIHooks(in.Hooks.toOCI())
		o.Out = nriHooksToJ(n)
		o.NonEmpty = n.Hooks() != nil
		o.Back = hooksEachToOCI(n)
	})
	return
}

func runHooksNri(in hooksIn) (o hooksObs) {
	guard(&o.Panic, func() {
		n := in.Hooks.toNRI()
		o.NonEmpty = n.Hooks() != nil
		o.Out = hooksEachToOCI(n)
		oc := o.Out.toOCI()
		o.Back = nriHooksToJ(api.FromOCIHooks(oc))
		if n != nil {
			recv := in.Hooks.toNRI()
			o.Appended = nriHooksToJ(recv.Append(in.Extra.toNRI()))
		}
	})
	return
}

// ---- env

type envIn struct {
	Kind string   `json:"kind"`
	Env  []string `json:"env"` // env_oci
	KVs  []*jKV   `json:"kvs"` // env_nri
	Nil  bool     `json:"nil"` // env_oci: pass nil
}

type envObs struct {
	KVs    []*jKV   `json:"kvs"`
	Env    []string `json:"env"`
	OutNil bool     `json:"outNil"`
	Panic  string   `json:"panic"`
}

func kvsToJ(kvs []*api.KeyValue) []*jKV {
	out := []*jKV{}
	for _, kv := range kvs {
		if kv == nil {
			out = append(out, nil)
			continue
		}
		out = append(out, &jKV{Key: kv.Key, Value: kv.Value})
	}
	return out
}

func runEnvOci(in envIn) (o envObs) {
	o.KVs, o.Env = []*jKV{}, []string{}
	guard(&o.Panic, func() {
		var src []string
		if !in.Nil {
			src = append([]string{}, in.Env...)
		}
		n := api.FromOCIEnv(src)
		o.OutNil = n == nil
		o.KVs = kvsToJ(n)
		for _, kv := range n {
			o.Env = append(o.Env, kv.ToOCI())
		}
	})
	return
}

func runEnvNri(in envIn) (o envObs) {
	o.KVs, o.Env = []*jKV{}, []string{}
	guard(&o.Panic, func() {
		for _, j := range in.KVs {
			var kv *api.KeyValue
			if j != nil {
				kv = &api.KeyValue{Key: j.Key, Value: j.Value}
			}
			o.Env = append(o.Env, kv.ToOCI())
		}
		n := api.FromOCIEnv(o.Env)
		o.OutNil = n == nil
		o.KVs = kvsToJ(n)
	})
	return
}

// ---- helpers.go

type helpIn struct {
	Kind  string      `json:"kind"`
	Strs  []string    `json:"strs"`
	Nil   bool        `json:"nil"`
	Map   [][2]string `json:"map"`
	Empty bool        `json:"empty"` // map: empty but non-nil
	Key   string      `json:"key"`
}

type helpObs struct {
	Strs     []string    `json:"strs"`
	StrsNil  bool        `json:"strsNil"`
	Map      [][2]string `json:"map"`
	MapNil   bool        `json:"mapNil"`
	Unmarked string      `json:"unmarked"`
	IsMarked bool        `json:"isMarked"`
	Marked   string      `json:"marked"`
	Cleared  string      `json:"cleared"`
	Panic    string      `json:"panic"`
}

func runHelpers(in helpIn) (o helpObs) {
	o.Strs, o.Map = []string{}, [][2]string{}
	guard(&o.Panic, func() {
		d := api.DupStringSlice(strsIn(in.Strs, in.Nil))
		o.Strs, o.StrsNil = strs(d), d == nil
		m := api.DupStringMap(toMap(in.Map, in.Empty))
		o.Map, o.MapNil = sortedMap(m), m == nil
		o.Unmarked, o.IsMarked = api.IsMarkedForRemoval(in.Key)
		o.Marked = api.MarkForRemoval(in.Key)
		o.Cleared = api.ClearRemovalMarker(in.Key)
	})
	return
}

// ---- aliasing (measured)

type aliasIn struct {
	Kind   string      `json:"kind"`
	What   string      `json:"what"` // copy | fromoci | tooci | mounts_from | mount_to | devices_from | device_to | hooks_from | hook_to | dupslice | dupmap | env_from | get
	Res    *jRes       `json:"res"`
	Mounts []*jMount   `json:"mounts"`
	Devs   []*jDev     `json:"devices"`
	Hooks  *jHooks     `json:"hooks"`
	Strs   []string    `json:"strs"`
	Map    [][2]string `json:"map"`
}

func runAlias(in aliasIn) (o aliasObs) {
	o = aliasObs{Probes: []probe{}, Shared: []string{}}
	guard(&o.Panic, func() {
		switch in.What {
		case "copy":
			a := in.Res.toNRI()
			b := a.Copy()
			o = aliasCheck(a, b)
		case "fromoci":
			a := in.Res.toOCI()
			b := api.FromOCILinuxResources(a, nil)
			o = aliasCheck(a, b)
		case "tooci":
			a := in.Res.toNRI()
			b := a.ToOCI()
			o = aliasCheck(a, b)
		case "mounts_from":
			var a []rspec.Mount
			for _, m := range in.Mounts {
				a = append(a, m.toOCI())
			}
			b := api.FromOCIMounts(a)
			o = aliasCheck(&a, &b)
		case "mount_to":
			a := in.Mounts[0].toNRI()
			b := a.ToOCI(nil)
			o = aliasCheck(a, &b)
		case "devices_from":
			var a []rspec.LinuxDevice
			for _, d := range in.Devs {
				a = append(a, d.toOCI())
			}
			b := api.FromOCILinuxDevices(a)
			o = aliasCheck(&a, &b)
		case "device_to":
			a := in.Devs[0].toNRI()
			b := a.ToOCI()
			o = aliasCheck(a, &b)
		case "hooks_from":
			a := in.Hooks.toOCI()
			b := api.FromOCIHooks(a)
			o = aliasCheck(a, b)
		case "hook_to":
			a := in.Hooks.Prestart[0].toNRI()
			b := a.ToOCI()
			o = aliasCheck(a, &b)
		case "dupslice":
			a := append([]string{}, in.Strs...)
			b := api.DupStringSlice(a)
			o = aliasCheck(&a, &b)
		case "dupmap":
			a := toMap(in.Map, true)
			b := api.DupStringMap(a)
			o = aliasCheck(&a, &b)
		case "env_from":
			a := append([]string{}, in.Strs...)
			b := api.FromOCIEnv(a)
			o = aliasCheck(&a, &b)
		case "get":
			// Get() must hand out a pointer to a copy: mutate through it, the optional stays
			a := &api.LinuxMemory{Limit: &api.OptionalInt64{Value: 5}, Swappiness: &api.OptionalUInt64{Value: 6},
				DisableOomKiller: &api.OptionalBool{Value: true}}
			type gets struct {
				L *int64
				S *uint64
				D *bool
			}
			b := &gets{a.Limit.Get(), a.Swappiness.Get(), a.DisableOomKiller.Get()}
			o = aliasCheck(a, b)
		default:
			panic("unknown alias target " + in.What)
		}
	})
	return
}

func intSize() int { return strconv.IntSize }
