package c14

// "Copies share no state" is a statement about Go memory. It is MEASURED here, not proved:
// a differential mutation test (mutate every location reachable from one value through
// exported fields, pointers, slices and maps; the other value's snapshot must not change;
// both directions) plus an address-disjointness sweep over the two object graphs.

import (
	"encoding/json"
	"fmt"
	"reflect"
	"sort"
)

type probe struct {
	Path   string `json:"path"`
	Dir    string `json:"dir"` // "a" = mutated the source, watched the derived value; "b" = the converse
	Leaked bool   `json:"leaked"`
}

func snapshot(v interface{}) string {
	b, err := json.Marshal(v)
	if err != nil {
		return "marshal-error:" + err.Error()
	}
	return string(b)
}

// walk calls f(path, mutate) for every mutable location reachable from v (which must be
// addressable). mutate() changes the location in place and returns the undo.
func walk(v reflect.Value, path string, f func(path string, mutate func() func())) {
	switch v.Kind() {
	case reflect.Bool:
		if v.CanSet() {
			f(path, func() func() { old := v.Bool(); v.SetBool(!old); return func() { v.SetBool(old) } })
		}
	case reflect.Int, reflect.Int8, reflect.Int16, reflect.Int32, reflect.Int64:
		if v.CanSet() {
			f(path, func() func() { old := v.Int(); v.SetInt(old ^ 0x55); return func() { v.SetInt(old) } })
		}
	case reflect.Uint, reflect.Uint8, reflect.Uint16, reflect.Uint32, reflect.Uint64:
		if v.CanSet() {
			f(path, func() func() { old := v.Uint(); v.SetUint(old ^ 0x55); return func() { v.SetUint(old) } })
		}
	case reflect.String:
		if v.CanSet() {
			f(path, func() func() { old := v.String(); v.SetString(old + "~mut"); return func() { v.SetString(old) } })
		}
	case reflect.Ptr:
		if v.CanSet() {
			// replace the pointer itself: visible to the other side iff the struct/array holding it is shared
			f(path+"(ptr)", func() func() {
				old := reflect.ValueOf(v.Interface())
				nv := reflect.New(v.Type().Elem())
				mutateZero(nv.Elem())
				v.Set(nv)
				return func() { v.Set(old) }
			})
		}
		if !v.IsNil() {
			walk(v.Elem(), path, f)
		}
	case reflect.Struct:
		t := v.Type()
		for i := 0; i < v.NumField(); i++ {
			if t.Field(i).PkgPath != "" { // unexported (protobuf internals)
				continue
			}
			walk(v.Field(i), path+"."+t.Field(i).Name, f)
		}
	case reflect.Slice:
		for i := 0; i < v.Len(); i++ {
			walk(v.Index(i), fmt.Sprintf("%s[%d]", path, i), f)
		}
		if v.CanSet() {
			f(path+"(slice)", func() func() {
				old := reflect.ValueOf(v.Interface())
				nv := reflect.MakeSlice(v.Type(), v.Len()+1, v.Len()+1)
				v.Set(nv)
				return func() { v.Set(old) }
			})
		}
	case reflect.Map:
		if v.IsNil() {
			if v.CanSet() {
				f(path+"(map)", func() func() {
					old := reflect.ValueOf(v.Interface())
					v.Set(reflect.MakeMap(v.Type()))
					return func() { v.Set(old) }
				})
			}
			return
		}
		if v.Type().Key().Kind() == reflect.String && v.Type().Elem().Kind() == reflect.String {
			keys := v.MapKeys()
			sort.Slice(keys, func(i, j int) bool { return keys[i].String() < keys[j].String() })
			for ki, k := range keys {
				k := k
				f(fmt.Sprintf("%s[k%d]", path, ki), func() func() {
					old := v.MapIndex(k)
					v.SetMapIndex(k, reflect.ValueOf(old.String()+"~mut"))
					return func() { v.SetMapIndex(k, old) }
				})
				f(fmt.Sprintf("%s[k%d](delete)", path, ki), func() func() {
					old := v.MapIndex(k)
					v.SetMapIndex(k, reflect.Value{})
					return func() { v.SetMapIndex(k, old) }
				})
			}
			f(path+"(insert)", func() func() {
				nk := reflect.ValueOf("~new-key~")
				v.SetMapIndex(nk, reflect.ValueOf("x"))
				return func() { v.SetMapIndex(nk, reflect.Value{}) }
			})
		}
	}
}

// mutateZero makes a freshly allocated value differ from the zero value where that is easy,
// so that replacing a pointer by it is visible in a snapshot.
func mutateZero(v reflect.Value) {
	switch v.Kind() {
	case reflect.Bool:
		v.SetBool(true)
	case reflect.Int, reflect.Int8, reflect.Int16, reflect.Int32, reflect.Int64:
		v.SetInt(0x55)
	case reflect.Uint, reflect.Uint8, reflect.Uint16, reflect.Uint32, reflect.Uint64:
		v.SetUint(0x55)
	case reflect.String:
		v.SetString("~mut")
	case reflect.Struct:
		t := v.Type()
		for i := 0; i < v.NumField(); i++ {
			if t.Field(i).PkgPath != "" {
				continue
			}
			switch v.Field(i).Kind() {
			case reflect.Bool, reflect.Int, reflect.Int32, reflect.Int64, reflect.Uint, reflect.Uint32, reflect.Uint64, reflect.String:
				mutateZero(v.Field(i))
			}
		}
	}
}

// addrs collects the identities of every pointer target, map and slice backing array reachable
// from v through exported fields.
func addrs(v reflect.Value, path string, out map[uintptr]string) {
	switch v.Kind() {
	case reflect.Ptr:
		if !v.IsNil() {
			if v.Type().Elem().Size() > 0 {
				out[v.Pointer()] = path
			}
			addrs(v.Elem(), path, out)
		}
	case reflect.Struct:
		t := v.Type()
		for i := 0; i < v.NumField(); i++ {
			if t.Field(i).PkgPath != "" {
				continue
			}
			addrs(v.Field(i), path+"."+t.Field(i).Name, out)
		}
	case reflect.Slice:
		if v.Cap() > 0 && v.Type().Elem().Size() > 0 {
			out[v.Pointer()] = path + "(backing)"
		}
		for i := 0; i < v.Len(); i++ {
			addrs(v.Index(i), fmt.Sprintf("%s[%d]", path, i), out)
		}
	case reflect.Map:
		if !v.IsNil() {
			out[v.Pointer()] = path + "(map)"
		}
	}
}

type aliasObs struct {
	Probes []probe  `json:"probes"`
	Shared []string `json:"shared"` // address-disjointness: locations reachable from both values
	Panic  string   `json:"panic"`
}

// aliasCheck runs the differential mutation in both directions. a and b must be pointers
// (to a struct, a slice, a map …); snapA/snapB produce the comparable snapshot of each side.
func aliasCheck(a, b interface{}) aliasObs {
	o := aliasObs{Probes: []probe{}, Shared: []string{}}
	va, vb := reflect.ValueOf(a), reflect.ValueOf(b)
	run := func(mut reflect.Value, other interface{}, dir string) {
		if mut.Kind() != reflect.Ptr || mut.IsNil() {
			return
		}
		walk(mut.Elem(), "", func(path string, mutate func() func()) {
			before := snapshot(other)
			undo := mutate()
			after := snapshot(other)
			undo()
			o.Probes = append(o.Probes, probe{Path: path, Dir: dir, Leaked: before != after})
		})
	}
	run(va, b, "a")
	run(vb, a, "b")
	ma, mb := map[uintptr]string{}, map[uintptr]string{}
	addrs(va, "", ma)
	addrs(vb, "", mb)
	// the two roots themselves are distinct by construction; drop them
	if va.Kind() == reflect.Ptr && !va.IsNil() {
		delete(ma, va.Pointer())
	}
	if vb.Kind() == reflect.Ptr && !vb.IsNil() {
		delete(mb, vb.Pointer())
	}
	for p, pa := range ma {
		if pb, ok := mb[p]; ok {
			o.Shared = append(o.Shared, pa+" == "+pb)
		}
	}
	sort.Strings(o.Shared)
	return o
}
