package c14

// Generators: a systematic stream that enumerates the finite dimensions completely (every
// optional scalar × {unset, zero, each boundary value}; every section nil / empty / full;
// every constructor × every dynamic argument type × nil / boundary values), a random stream,
// and an excluded stream (nil elements in []*T slices, keys containing '=', entries without
// '=', overflowing casts, unaccepted argument types).

import (
	"fmt"
	"math"
	"math/rand"
)

var i64Bounds = []int64{0, 1, -1, math.MaxInt64, math.MinInt64, math.MaxInt32, math.MinInt32, 1 << 32, (1 << 53) + 1, -(1 << 53) - 1, 4096, 9223372036854771712}
var u64Bounds = []uint64{0, 1, math.MaxUint64, 1 << 63, (1 << 63) - 1, 1 << 32, (1 << 53) + 1, 100, 1024}
var u32Bounds = []uint32{0, 1, math.MaxUint32, 1 << 31, 0o644, 0o777, 0o4755, 0x80000000 | 0o755, 1000, 65534}
var strPool = []string{"", "a", "0-3", "0,2-5", "2MB", "1GB", "x=y", "=", "a=", "=b", "-rm", "--", " sp ", "é日本", "rprivate", "rshared", "rslave", "ro", "bind", "memory.high", "io.max", "c", "b", "rwm", "/dev/null", "/a/b", "A,B", "tab\t", "q\"uote", "<&>"}

func pI64(v int64) *int64   { return &v }
func pU64(v uint64) *uint64 { return &v }
func pU32(v uint32) *uint32 { return &v }
func pBool(v bool) *bool    { return &v }
func pStr(v string) *string { return &v }

type g struct{ r *rand.Rand }

func (g g) i64() int64 {
	switch g.r.Intn(4) {
	case 0:
		return i64Bounds[g.r.Intn(len(i64Bounds))]
	case 1:
		return int64(g.r.Intn(2000)) - 1000
	default:
		return int64(g.r.Uint64())
	}
}
func (g g) u64() uint64 {
	switch g.r.Intn(4) {
	case 0:
		return u64Bounds[g.r.Intn(len(u64Bounds))]
	case 1:
		return uint64(g.r.Intn(2000))
	default:
		return g.r.Uint64()
	}
}
func (g g) u32() uint32 {
	switch g.r.Intn(3) {
	case 0:
		return u32Bounds[g.r.Intn(len(u32Bounds))]
	default:
		return g.r.Uint32()
	}
}
func (g g) str() string {
	if g.r.Intn(5) == 0 {
		n := g.r.Intn(6)
		b := make([]rune, n)
		alpha := []rune("abcXYZ019=-,/ .é世")
		for i := range b {
			b[i] = alpha[g.r.Intn(len(alpha))]
		}
		return string(b)
	}
	return strPool[g.r.Intn(len(strPool))]
}

// optional: 1/3 unset, 1/6 zero, rest a value
func (g g) oI64() *int64 {
	switch g.r.Intn(6) {
	case 0, 1:
		return nil
	case 2:
		return pI64(0)
	}
	return pI64(g.i64())
}
func (g g) oU64() *uint64 {
	switch g.r.Intn(6) {
	case 0, 1:
		return nil
	case 2:
		return pU64(0)
	}
	return pU64(g.u64())
}
func (g g) oU32() *uint32 {
	switch g.r.Intn(6) {
	case 0, 1:
		return nil
	case 2:
		return pU32(0)
	}
	return pU32(g.u32())
}
func (g g) oBool() *bool {
	switch g.r.Intn(3) {
	case 0:
		return nil
	case 1:
		return pBool(false)
	}
	return pBool(true)
}
func (g g) oStr() *string {
	switch g.r.Intn(4) {
	case 0:
		return nil
	case 1:
		return pStr("")
	}
	return pStr(g.str())
}
func (g g) strList(max int) []string {
	n := g.r.Intn(max + 1)
	out := []string{}
	for i := 0; i < n; i++ {
		out = append(out, g.str())
	}
	return out
}
func (g g) kvMap(max int) [][2]string {
	n := g.r.Intn(max + 1)
	m := map[string]string{}
	for i := 0; i < n; i++ {
		m[g.str()] = g.str()
	}
	return sortedMap(m)
}

func (g g) mem(oci bool) *jMem {
	m := &jMem{Limit: g.oI64(), Reservation: g.oI64(), Swap: g.oI64(), Kernel: g.oI64(), KernelTcp: g.oI64(),
		Swappiness: g.oU64(), DisableOom: g.oBool(), UseHierarchy: g.oBool()}
	if oci {
		m.CheckBeforeUpdate = g.oBool()
	}
	return m
}
func (g g) cpu(oci bool) *jCpu {
	c := &jCpu{Shares: g.oU64(), Quota: g.oI64(), Period: g.oU64(), RtRuntime: g.oI64(), RtPeriod: g.oU64(),
		Cpus: g.str(), Mems: g.str()}
	if oci {
		c.Burst, c.Idle = g.oU64(), g.oI64()
	}
	return c
}
func (g g) devCg() *jDevCg {
	return &jDevCg{Allow: g.r.Intn(2) == 0, Type: []string{"a", "b", "c", ""}[g.r.Intn(4)], Major: g.oI64(), Minor: g.oI64(),
		Access: []string{"rwm", "r", "", "rw"}[g.r.Intn(4)]}
}

// res: a random resources value; oci selects which side's extra fields may be populated.
func (g g) res(oci bool) *jRes {
	j := &jRes{Hugepages: []*jHp{}, Devices: []*jDevCg{}, Unified: [][2]string{}, Uncarried: []string{}}
	if g.r.Intn(4) != 0 {
		j.Memory = g.mem(oci)
	}
	if g.r.Intn(4) != 0 {
		j.Cpu = g.cpu(oci)
	}
	for i, n := 0, g.r.Intn(4); i < n; i++ {
		j.Hugepages = append(j.Hugepages, &jHp{PageSize: g.str(), Limit: g.u64()})
	}
	for i, n := 0, g.r.Intn(4); i < n; i++ {
		j.Devices = append(j.Devices, g.devCg())
	}
	if g.r.Intn(3) != 0 {
		j.Pids = pI64(g.i64())
	}
	j.Unified = g.kvMap(4)
	j.HugepagesNil = len(j.Hugepages) == 0 && g.r.Intn(2) == 0
	j.DevicesNil = len(j.Devices) == 0 && g.r.Intn(2) == 0
	j.UnifiedEmpty = len(j.Unified) == 0 && g.r.Intn(2) == 0
	if oci {
		for _, u := range []string{"blockIO", "network", "rdma"} {
			if g.r.Intn(4) == 0 {
				j.Uncarried = append(j.Uncarried, u)
			}
		}
	} else {
		j.BlockioClass, j.RdtClass = g.oStr(), g.oStr()
	}
	return j
}

func emptyRes() *jRes {
	return &jRes{Hugepages: []*jHp{}, Devices: []*jDevCg{}, Unified: [][2]string{}, Uncarried: []string{}}
}

// sysRes enumerates, one dimension at a time: every optional scalar of Memory and CPU at
// unset / zero / every boundary value (the section otherwise unset), sections nil and empty,
// and each collection empty / one / several entries.
func sysRes(oci bool) []*jRes {
	var out []*jRes
	add := func(f func(j *jRes)) { j := emptyRes(); f(j); out = append(out, j) }
	add(func(j *jRes) {})
	add(func(j *jRes) { j.Memory = &jMem{} })
	add(func(j *jRes) { j.Cpu = &jCpu{} })
	add(func(j *jRes) { j.Memory, j.Cpu = &jMem{}, &jCpu{} })
	add(func(j *jRes) { j.HugepagesNil, j.DevicesNil = true, true })
	add(func(j *jRes) { j.UnifiedEmpty = true })
	for _, v := range i64Bounds {
		v := v
		add(func(j *jRes) { j.Memory = &jMem{Limit: pI64(v)} })
		add(func(j *jRes) { j.Memory = &jMem{Reservation: pI64(v)} })
		add(func(j *jRes) { j.Memory = &jMem{Swap: pI64(v)} })
		add(func(j *jRes) { j.Memory = &jMem{Kernel: pI64(v)} })
		add(func(j *jRes) { j.Memory = &jMem{KernelTcp: pI64(v)} })
		add(func(j *jRes) { j.Cpu = &jCpu{Quota: pI64(v)} })
		add(func(j *jRes) { j.Cpu = &jCpu{RtRuntime: pI64(v)} })
		add(func(j *jRes) { j.Pids = pI64(v) })
		add(func(j *jRes) {
			j.Devices = []*jDevCg{{Allow: true, Type: "c", Major: pI64(v), Minor: nil, Access: "rwm"}}
		})
		add(func(j *jRes) {
			j.Devices = []*jDevCg{{Allow: false, Type: "b", Major: nil, Minor: pI64(v), Access: "r"}}
		})
		if oci {
			add(func(j *jRes) { j.Cpu = &jCpu{Idle: pI64(v)} })
		}
	}
	for _, v := range u64Bounds {
		v := v
		add(func(j *jRes) { j.Memory = &jMem{Swappiness: pU64(v)} })
		add(func(j *jRes) { j.Cpu = &jCpu{Shares: pU64(v)} })
		add(func(j *jRes) { j.Cpu = &jCpu{Period: pU64(v)} })
		add(func(j *jRes) { j.Cpu = &jCpu{RtPeriod: pU64(v)} })
		add(func(j *jRes) { j.Hugepages = []*jHp{{PageSize: "2MB", Limit: v}} })
		if oci {
			add(func(j *jRes) { j.Cpu = &jCpu{Burst: pU64(v)} })
		}
	}
	for _, b := range []bool{false, true} {
		b := b
		add(func(j *jRes) { j.Memory = &jMem{DisableOom: pBool(b)} })
		add(func(j *jRes) { j.Memory = &jMem{UseHierarchy: pBool(b)} })
		if oci {
			add(func(j *jRes) { j.Memory = &jMem{CheckBeforeUpdate: pBool(b)} })
		}
	}
	for _, s := range strPool {
		s := s
		add(func(j *jRes) { j.Cpu = &jCpu{Cpus: s} })
		add(func(j *jRes) { j.Cpu = &jCpu{Mems: s} })
		add(func(j *jRes) { j.Hugepages = []*jHp{{PageSize: s, Limit: 1}} })
		add(func(j *jRes) { j.Unified = [][2]string{{s, "v"}} })
		add(func(j *jRes) { j.Unified = sortedMap(map[string]string{"k": s, "k2": s + "x"}) })
		if !oci {
			add(func(j *jRes) { j.BlockioClass = pStr(s) })
			add(func(j *jRes) { j.RdtClass = pStr(s) })
		}
	}
	// every scalar set to zero at once / every scalar set to a non-zero value at once
	add(func(j *jRes) {
		j.Memory = &jMem{Limit: pI64(0), Reservation: pI64(0), Swap: pI64(0), Kernel: pI64(0), KernelTcp: pI64(0),
			Swappiness: pU64(0), DisableOom: pBool(false), UseHierarchy: pBool(false)}
		j.Cpu = &jCpu{Shares: pU64(0), Quota: pI64(0), Period: pU64(0), RtRuntime: pI64(0), RtPeriod: pU64(0)}
		j.Pids = pI64(0)
		j.Hugepages = []*jHp{{PageSize: "", Limit: 0}}
		j.Devices = []*jDevCg{{Major: pI64(0), Minor: pI64(0)}}
		if !oci {
			j.BlockioClass, j.RdtClass = pStr(""), pStr("")
		}
	})
	add(func(j *jRes) {
		j.Memory = &jMem{Limit: pI64(1), Reservation: pI64(2), Swap: pI64(3), Kernel: pI64(4), KernelTcp: pI64(5),
			Swappiness: pU64(6), DisableOom: pBool(true), UseHierarchy: pBool(true)}
		j.Cpu = &jCpu{Shares: pU64(7), Quota: pI64(8), Period: pU64(9), RtRuntime: pI64(10), RtPeriod: pU64(11), Cpus: "0-1", Mems: "0"}
		j.Pids = pI64(12)
		j.Hugepages = []*jHp{{PageSize: "2MB", Limit: 13}, {PageSize: "1GB", Limit: 14}, {PageSize: "2MB", Limit: 15}}
		j.Devices = []*jDevCg{{Allow: true, Type: "c", Major: pI64(16), Minor: pI64(17), Access: "rwm"}, {Allow: false, Type: "a", Access: "rwm"}}
		j.Unified = [][2]string{{"io.max", "a"}, {"memory.high", "b"}, {"memory.low", "c"}}
		if oci {
			j.Uncarried = []string{"blockIO", "network", "rdma"}
			j.Memory.CheckBeforeUpdate = pBool(true)
			j.Cpu.Burst, j.Cpu.Idle = pU64(18), pI64(1)
		} else {
			j.BlockioClass, j.RdtClass = pStr("gold"), pStr("silver")
		}
	})
	return out
}

func (g g) mount(oci bool) *jMount {
	m := &jMount{Destination: g.str(), Type: g.str(), Source: g.str(), Options: g.strList(5)}
	m.OptionsNil = len(m.Options) == 0 && g.r.Intn(2) == 0
	if oci && g.r.Intn(5) == 0 {
		m.IdMapped = true
	}
	return m
}
func (g g) dev() *jDev {
	return &jDev{Path: g.str(), Type: []string{"c", "b", "p", "u", ""}[g.r.Intn(5)], Major: g.i64(), Minor: g.i64(),
		FileMode: g.oU32(), Uid: g.oU32(), Gid: g.oU32()}
}
func (g g) hook() *jHook {
	h := &jHook{Path: g.str(), Args: g.strList(3), Env: g.strList(3), Timeout: g.oI64()}
	h.ArgsNil = len(h.Args) == 0 && g.r.Intn(2) == 0
	h.EnvNil = len(h.Env) == 0 && g.r.Intn(2) == 0
	return h
}
func (g g) hookList(max int) []*jHook {
	out := []*jHook{}
	for i, n := 0, g.r.Intn(max+1); i < n; i++ {
		out = append(out, g.hook())
	}
	return out
}
func (g g) hooks() *jHooks {
	if g.r.Intn(3) == 0 {
		// sparse: most lists empty, so that Hooks() sees each "first non-empty list" position
		h := &jHooks{Prestart: []*jHook{}, CreateRuntime: []*jHook{}, CreateContainer: []*jHook{}, StartContainer: []*jHook{}, Poststart: []*jHook{}, Poststop: []*jHook{}}
		switch g.r.Intn(7) {
		case 0:
			h.Prestart = []*jHook{g.hook()}
		case 1:
			h.CreateRuntime = []*jHook{g.hook()}
		case 2:
			h.CreateContainer = []*jHook{g.hook()}
		case 3:
			h.StartContainer = []*jHook{g.hook()}
		case 4:
			h.Poststart = []*jHook{g.hook()}
		case 5:
			h.Poststop = []*jHook{g.hook()}
		}
		return h
	}
	return &jHooks{Prestart: g.hookList(2), CreateRuntime: g.hookList(2), CreateContainer: g.hookList(2),
		StartContainer: g.hookList(2), Poststart: g.hookList(2), Poststop: g.hookList(2)}
}

// ctor cases: complete table constructor × argument type × {nil (pointers), each boundary value}
func sysCtor() []ctorIn {
	var out []ctorIn
	for _, c := range ctorOrder {
		for _, a := range ctorArgs[c] {
			if isPtrArg(a) {
				out = append(out, ctorIn{Kind: "ctor", Ctor: c, Arg: a, Nil: true})
			}
			if a == "nil" { // the literal X(nil): one case, the value fields play no role
				out = append(out, ctorIn{Kind: "ctor", Ctor: c, Arg: a})
				continue
			}
			switch c {
			case "String":
				for _, s := range strPool {
					out = append(out, ctorIn{Kind: "ctor", Ctor: c, Arg: a, S: s})
				}
			case "Bool":
				for _, b := range []bool{false, true} {
					out = append(out, ctorIn{Kind: "ctor", Ctor: c, Arg: a, B: b})
				}
			case "Int", "Int64", "UInt64":
				for _, v := range i64Bounds {
					out = append(out, ctorIn{Kind: "ctor", Ctor: c, Arg: a, I: v, U: uint64(v)})
				}
				for _, v := range u64Bounds {
					out = append(out, ctorIn{Kind: "ctor", Ctor: c, Arg: a, I: int64(v), U: v})
				}
			case "Int32":
				for _, v := range []int64{0, 1, -1, math.MaxInt32, math.MinInt32, 4096} {
					out = append(out, ctorIn{Kind: "ctor", Ctor: c, Arg: a, I: v, U: uint64(v)})
				}
			case "UInt32", "FileMode":
				for _, v := range u32Bounds {
					out = append(out, ctorIn{Kind: "ctor", Ctor: c, Arg: a, I: int64(v), U: uint64(v)})
				}
			}
		}
	}
	return out
}

func (g g) ctor() ctorIn {
	c := ctorOrder[g.r.Intn(len(ctorOrder))]
	as := ctorArgs[c]
	a := as[g.r.Intn(len(as))]
	in := ctorIn{Kind: "ctor", Ctor: c, Arg: a, Nil: isPtrArg(a) && g.r.Intn(4) == 0}
	switch c {
	case "String":
		in.S = g.str()
	case "Bool":
		in.B = g.r.Intn(2) == 0
	case "Int", "Int64", "UInt64":
		in.I = g.i64()
		in.U = uint64(in.I)
	case "Int32":
		in.I = int64(int32(g.r.Uint32()))
		in.U = uint64(in.I)
	case "UInt32", "FileMode":
		in.U = uint64(g.u32())
		in.I = int64(in.U)
	}
	return in
}

func id(prefix string, i int) string { return fmt.Sprintf("%s-%d", prefix, i) }
