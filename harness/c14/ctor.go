package c14

// The optional-value constructors of optional.go, called with every dynamic type their type
// switches distinguish (and a few they do not), plus the matching Get().

import (
	"os"
	"strings"

	"google.golang.org/protobuf/proto"

	"github.com/containerd/nri/pkg/api"
)

// ctorIn: Ctor ∈ String, Int, Int32, UInt32, Int64, UInt64, Bool, FileMode.
// Arg names the dynamic type handed to the constructor:
//
//	"T" the native type, "*T" pointer to it, "*Opt" the optional wrapper itself,
//	for Int64/UInt64 additionally "int","uint","int64","uint64","*int64","*uint64",
//	for FileMode "os.FileMode","*os.FileMode","uint32";
//	"other:<type>" = a type the switch does not list;
//	"nil" = the untyped nil interface value, X(nil) (in the property's domain: nil ↦ unset).
//
// Nil = the pointer argument is nil. I/U/B/S carry the value (I for signed, U for unsigned).
type ctorIn struct {
	Kind string `json:"kind"`
	Ctor string `json:"ctor"`
	Arg  string `json:"arg"`
	Nil  bool   `json:"nil"`
	I    int64  `json:"i"`
	U    uint64 `json:"u"`
	B    bool   `json:"b"`
	S    string `json:"s"`
}

// ctorObs: Set = the constructor returned non-nil; value in the field matching the wrapper's
// type. GetSet/Get* = what Get() returned on that result (nil receiver included).
type ctorObs struct {
	Set    bool   `json:"set"`
	I      int64  `json:"i"`
	U      uint64 `json:"u"`
	B      bool   `json:"b"`
	S      string `json:"s"`
	GetSet bool   `json:"getSet"`
	GetI   int64  `json:"getI"`
	GetU   uint64 `json:"getU"`
	GetB   bool   `json:"getB"`
	GetS   string `json:"getS"`
	Panic  string `json:"panic"`
}

func runCtor(in ctorIn) (o ctorObs) {
	defer func() {
		if r := recover(); r != nil {
			o = ctorObs{Panic: firstLine(r)}
		}
	}()
	var arg interface{} // stays the untyped nil for Arg "nil" (and the legacy "other:nil")
	if strings.HasPrefix(in.Arg, "other:*Optional") {
		// the wrapper of ANOTHER optional type (no constructor lists it): it has been through the
		// reflection codec once, as a message that arrived over ttRPC has
		arg = foreignWrapper(strings.TrimPrefix(in.Arg, "other:*"), in)
	}
	switch in.Ctor {
	case "String":
		switch in.Arg {
		case "T":
			arg = in.S
		case "*T":
			var p *string
			if !in.Nil {
				s := in.S
				p = &s
			}
			arg = p
		case "*Opt":
			var p *api.OptionalString
			if !in.Nil {
				p = &api.OptionalString{Value: in.S}
			}
			arg = p
		case "other:[]byte":
			arg = []byte(in.S)
		case "other:nil":
			arg = nil
		}
		r := api.String(arg)
		if r != nil {
			o.Set, o.S = true, r.Value
		}
		if g := r.Get(); g != nil {
			o.GetSet, o.GetS = true, *g
		}
	case "Int":
		switch in.Arg {
		case "T":
			arg = int(in.I)
		case "*T":
			var p *int
			if !in.Nil {
				v := int(in.I)
				p = &v
			}
			arg = p
		case "*Opt":
			var p *api.OptionalInt
			if !in.Nil {
				p = &api.OptionalInt{Value: in.I}
			}
			arg = p
		case "other:int64":
			arg = in.I
		case "other:int32":
			arg = int32(in.I)
		}
		r := api.Int(arg)
		if r != nil {
			o.Set, o.I = true, r.Value
		}
		if g := r.Get(); g != nil {
			o.GetSet, o.GetI = true, int64(*g)
		}
	case "Int32":
		switch in.Arg {
		case "T":
			arg = int32(in.I)
		case "*T":
			var p *int32
			if !in.Nil {
				v := int32(in.I)
				p = &v
			}
			arg = p
		case "*Opt":
			var p *api.OptionalInt32
			if !in.Nil {
				p = &api.OptionalInt32{Value: int32(in.I)}
			}
			arg = p
		case "other:int":
			arg = int(in.I)
		}
		r := api.Int32(arg)
		if r != nil {
			o.Set, o.I = true, int64(r.Value)
		}
		if g := r.Get(); g != nil {
			o.GetSet, o.GetI = true, int64(*g)
		}
	case "UInt32":
		switch in.Arg {
		case "T":
			arg = uint32(in.U)
		case "*T":
			var p *uint32
			if !in.Nil {
				v := uint32(in.U)
				p = &v
			}
			arg = p
		case "*Opt":
			var p *api.OptionalUInt32
			if !in.Nil {
				p = &api.OptionalUInt32{Value: uint32(in.U)}
			}
			arg = p
		case "other:int":
			arg = int(in.U)
		}
		r := api.UInt32(arg)
		if r != nil {
			o.Set, o.U = true, uint64(r.Value)
		}
		if g := r.Get(); g != nil {
			o.GetSet, o.GetU = true, uint64(*g)
		}
	case "Int64", "UInt64":
		switch in.Arg {
		case "int":
			arg = int(in.I)
		case "uint":
			arg = uint(in.U)
		case "int64":
			arg = in.I
		case "uint64":
			arg = in.U
		case "*int64":
			var p *int64
			if !in.Nil {
				v := in.I
				p = &v
			}
			arg = p
		case "*uint64":
			var p *uint64
			if !in.Nil {
				v := in.U
				p = &v
			}
			arg = p
		case "*Opt":
			if in.Ctor == "Int64" {
				var p *api.OptionalInt64
				if !in.Nil {
					p = &api.OptionalInt64{Value: in.I}
				}
				arg = p
			} else {
				var p *api.OptionalUInt64
				if !in.Nil {
					p = &api.OptionalUInt64{Value: in.U}
				}
				arg = p
			}
		case "other:int32":
			arg = int32(in.I)
		case "other:uint32":
			arg = uint32(in.U)
		case "other:*int":
			v := int(in.I)
			arg = &v
		}
		if in.Ctor == "Int64" {
			r := api.Int64(arg)
			if r != nil {
				o.Set, o.I = true, r.Value
			}
			if g := r.Get(); g != nil {
				o.GetSet, o.GetI = true, *g
			}
		} else {
			r := api.UInt64(arg)
			if r != nil {
				o.Set, o.U = true, r.Value
			}
			if g := r.Get(); g != nil {
				o.GetSet, o.GetU = true, *g
			}
		}
	case "Bool":
		switch in.Arg {
		case "T":
			arg = in.B
		case "*T":
			var p *bool
			if !in.Nil {
				v := in.B
				p = &v
			}
			arg = p
		case "*Opt":
			var p *api.OptionalBool
			if !in.Nil {
				p = &api.OptionalBool{Value: in.B}
			}
			arg = p
		case "other:int":
			arg = 1
		}
		r := api.Bool(arg)
		if r != nil {
			o.Set, o.B = true, r.Value
		}
		if g := r.Get(); g != nil {
			o.GetSet, o.GetB = true, *g
		}
	case "FileMode":
		switch in.Arg {
		case "os.FileMode":
			arg = os.FileMode(uint32(in.U))
		case "*os.FileMode":
			var p *os.FileMode
			if !in.Nil {
				v := os.FileMode(uint32(in.U))
				p = &v
			}
			arg = p
		case "*Opt":
			var p *api.OptionalFileMode
			if !in.Nil {
				p = &api.OptionalFileMode{Value: uint32(in.U)}
			}
			arg = p
		case "uint32":
			arg = uint32(in.U)
		case "other:int":
			arg = int(in.U)
		}
		r := api.FileMode(arg)
		if r != nil {
			o.Set, o.U = true, uint64(r.Value)
		}
		if g := r.Get(); g != nil {
			o.GetSet, o.GetU = true, uint64(uint32(*g))
		}
	}
	return o
}

// foreignWrapper builds the optional wrapper of type `name` (nil when in.Nil).
func foreignWrapper(name string, in ctorIn) interface{} {
	var m proto.Message
	switch name {
	case "OptionalString":
		if in.Nil {
			return (*api.OptionalString)(nil)
		}
		m = &api.OptionalString{Value: in.S}
	case "OptionalInt":
		if in.Nil {
			return (*api.OptionalInt)(nil)
		}
		m = &api.OptionalInt{Value: in.I}
	case "OptionalInt32":
		if in.Nil {
			return (*api.OptionalInt32)(nil)
		}
		m = &api.OptionalInt32{Value: int32(in.I)}
	case "OptionalUInt32":
		if in.Nil {
			return (*api.OptionalUInt32)(nil)
		}
		m = &api.OptionalUInt32{Value: uint32(in.U)}
	case "OptionalInt64":
		if in.Nil {
			return (*api.OptionalInt64)(nil)
		}
		m = &api.OptionalInt64{Value: in.I}
	case "OptionalUInt64":
		if in.Nil {
			return (*api.OptionalUInt64)(nil)
		}
		m = &api.OptionalUInt64{Value: in.U}
	case "OptionalBool":
		if in.Nil {
			return (*api.OptionalBool)(nil)
		}
		m = &api.OptionalBool{Value: in.B}
	case "OptionalFileMode":
		if in.Nil {
			return (*api.OptionalFileMode)(nil)
		}
		m = &api.OptionalFileMode{Value: uint32(in.U)}
	default:
		return nil
	}
	_, _ = proto.Marshal(m)
	return m
}

var wrapperOf = map[string]string{"String": "OptionalString", "Int": "OptionalInt", "Int32": "OptionalInt32", "UInt32": "OptionalUInt32",
	"Int64": "OptionalInt64", "UInt64": "OptionalUInt64", "Bool": "OptionalBool", "FileMode": "OptionalFileMode"}

func init() {
	// every constructor is also handed the wrapper of every OTHER optional type
	for c := range ctorArgs {
		for _, o := range ctorOrder {
			if o != c {
				ctorArgs[c] = append(ctorArgs[c], "other:*"+wrapperOf[o])
			}
		}
	}
}

var ctorArgs = map[string][]string{
	"String":   {"T", "*T", "*Opt", "nil", "other:[]byte"},
	"Int":      {"T", "*T", "*Opt", "nil", "other:int64", "other:int32"},
	"Int32":    {"T", "*T", "*Opt", "nil", "other:int"},
	"UInt32":   {"T", "*T", "*Opt", "nil", "other:int"},
	"Int64":    {"int", "uint", "int64", "uint64", "*int64", "*uint64", "*Opt", "nil", "other:int32", "other:uint32", "other:*int"},
	"UInt64":   {"int", "uint", "int64", "uint64", "*int64", "*uint64", "*Opt", "nil", "other:int32", "other:uint32", "other:*int"},
	"Bool":     {"T", "*T", "*Opt", "nil", "other:int"},
	"FileMode": {"os.FileMode", "*os.FileMode", "*Opt", "uint32", "nil", "other:int"},
}

var ctorOrder = []string{"String", "Int", "Int32", "UInt32", "Int64", "UInt64", "Bool", "FileMode"}

func isPtrArg(a string) bool { return len(a) > 0 && a[0] == '*' }
