// Package c03 is the correspondence harness for property C03 (placeholder).
package c03

import (
	"errors"

	"verifh/internal/hx"
	"verifh/internal/lineio"
)

func Run(o *hx.Opts, w *lineio.Writer) error {
	return errors.New("C03 harness not implemented")
}
