// Package c05 is the correspondence harness for property C05; the machinery is shared
// with the other response-merging properties (package merge).
package c05

import (
	"verifh/internal/hx"
	"verifh/internal/lineio"
	"verifh/merge"
)

func Run(o *hx.Opts, w *lineio.Writer) error { return merge.Run(o, w, 5) }
