// Package c05 is the correspondence harness for property C05 (placeholder).
package c05

import (
	"errors"

	"verifh/internal/hx"
	"verifh/internal/lineio"
)

func Run(o *hx.Opts, w *lineio.Writer) error {
	return errors.New("C05 harness not implemented")
}
