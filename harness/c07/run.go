// Package c07 is the correspondence harness for property C07 (placeholder).
package c07

import (
	"errors"

	"verifh/internal/hx"
	"verifh/internal/lineio"
)

func Run(o *hx.Opts, w *lineio.Writer) error {
	return errors.New("C07 harness not implemented")
}
