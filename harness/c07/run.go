// Package c07 is the correspondence harness for property C07: failing plugins cannot stall,
// crash or corrupt a request; handler errors veto it.
//
// Every case runs a real Adaptation with three real plugins (indices 10/20/30; test bed in
// verifh/c06/rt); the connection of ONE of them goes through rt.FaultConn. After a clean
// warm-up request the fault is armed, the request under test is issued and timed, then a
// further request shows who is still being invoked. Cases run in worker subprocesses: a panic
// or a hang of the runtime is the case's observation.
//
// Streams:
//
//	calib   – clean exchanges, measuring the bytes each request type moves per direction
//	cut     – socket closed after k bytes, k over the WHOLE exchange in both directions
//	corrupt – byte k inverted, both directions
//	stall   – bytes after k silently swallowed, socket left open
//	event   – orderly stop / abrupt close before, during, after the call; handler hanging
//	          past the timeout; handler slow but in time; handler returning an error
//
// each × faulty plugin first/middle/last × create/update/stop/state change/update pod.
package c07

import (
	"context"
	"encoding/json"
	"errors"
	"fmt"
	"github.com/containerd/nri/pkg/api"
	"io"
	"os"
	"path/filepath"
	"sync"
	"time"

	"github.com/containerd/nri/pkg/adaptation"
	"github.com/containerd/ttrpc"
	"google.golang.org/grpc/codes"
	"google.golang.org/grpc/status"

	"verifh/c06/rt"
	"verifh/internal/hx"
	"verifh/internal/lineio"
)

type Fault struct {
	Kind string `json:"kind"` // none|cut|corrupt|stall|stop-before|kill-before|kill-during|kill-after|hang|slow|herr
	Dir  string `json:"dir"`  // r2p | p2r | ""
	Off  int64  `json:"off"`
	// As (kind herr): which error value the handler returns over its healthy connection
	// ("" = a plain errors.New). Several LOOK like transport or timeout failures.
	As string `json:"as"`
	// Upd: the plugin has an unsolicited UpdateContainers call on its way to the runtime (issued
	// from inside the handler, so it queues behind the request in progress) when it fails
	Upd bool `json:"upd"`
}

// HandlerErrs are the error values a handler may return; the text each must leave in the error
// the request fails with is handlerErrText.
var HandlerErrs = []string{"ctx-deadline", "ctx-canceled", "st-deadline", "st-unavailable", "st-exhausted",
	"st-canceled", "ttrpc-closed", "ttrpc-server-closed", "ttrpc-protocol", "unexpected-eof", "eof", "proto-text"}

func handlerErr(as, veto string) error {
	switch as {
	case "ctx-deadline":
		return context.DeadlineExceeded
	case "ctx-canceled":
		return context.Canceled
	case "st-deadline":
		return status.Error(codes.DeadlineExceeded, veto)
	case "st-unavailable":
		return status.Error(codes.Unavailable, veto)
	case "st-exhausted":
		return status.Error(codes.ResourceExhausted, veto)
	case "st-canceled":
		return status.Error(codes.Canceled, veto)
	case "ttrpc-closed":
		return ttrpc.ErrClosed
	case "ttrpc-server-closed":
		return ttrpc.ErrServerClosed
	case "ttrpc-protocol":
		return ttrpc.ErrProtocol
	case "unexpected-eof":
		return io.ErrUnexpectedEOF
	case "eof":
		return io.EOF
	case "proto-text":
		return errors.New("proto: cannot parse invalid wire-format data (" + veto + ")")
	}
	return errors.New(veto)
}

type In struct {
	Kind  string `json:"kind"` // "fault" | "calib" | "multi"
	Ev    int    `json:"ev"`
	Pos   int    `json:"pos"` // position of the faulty plugin: 0,1,2
	N     int    `json:"n"`   // number of plugins
	Fault Fault  `json:"fault"`
	Raw   bool   `json:"raw"` // faulty plugin speaks the protocol without the stub
	// Faults (kind "multi"): one fault per plugin, all armed for the same request.
	Faults    []Fault `json:"faults"`
	TimeoutMs int     `json:"timeout_ms"`
	SlackMs   int     `json:"slack_ms"`
}

type Inv struct {
	P string `json:"p"`
	R string `json:"r"`
	E int    `json:"e"`
}

type ReqObs struct {
	Res    rt.Result `json:"res"`
	Log    []Inv     `json:"log"`
	WallMs int64     `json:"wall_ms"`
}

type Obs struct {
	Warm    ReqObs `json:"warm"`
	Fault   ReqObs `json:"fault"`
	Next    ReqObs `json:"next"`
	R2P     int64  `json:"r2p"` // bytes of the clean warm-up exchange at the faulty plugin
	P2R     int64  `json:"p2r"`
	Fired   bool   `json:"fired"`
	Closed  []bool `json:"closed"` // plugin side noticed the loss of its connection (at the end)
	Retries int    `json:"retries"`
	// handshake stream: the plugin under test was activated; why the plugin connecting after it was not
	Activated bool   `json:"activated"`
	LateErr   string `json:"late_err"`
	Fail      string `json:"fail"`
	Panic     string `json:"panic"`
}

var names = []string{"a", "b", "c", "d", "e"}

func invs(st []rt.Stamp) []Inv {
	out := make([]Inv, 0, len(st))
	for _, s := range st {
		out = append(out, Inv{s.Plugin, s.Req, s.Ev})
	}
	return out
}

var timeoutMu sync.Mutex

func runOnce(dir string, in *In) (obs Obs) {
	obs.Closed = []bool{}
	r, err := rt.NewRuntime(dir, nil)
	if err != nil {
		obs.Fail = "runtime: " + err.Error()
		return
	}
	defer r.Close()
	T := time.Duration(in.TimeoutMs) * time.Millisecond
	release := make(chan struct{})
	defer close(release)
	var fc *rt.FaultConn
	hook := func(p *rt.Plugin, ev int, req string) error {
		if req != "fault" {
			return nil
		}
		if in.Fault.Upd {
			go p.UpdateContainers([]*api.ContainerUpdate{{ContainerId: "other"}})
			time.Sleep(3 * time.Millisecond) // let it reach the runtime and queue behind this request
		}
		switch in.Fault.Kind {
		case "herr":
			return handlerErr(in.Fault.As, "veto:"+p.Name+":"+req+":"+fmt.Sprint(ev))
		case "hang":
			select {
			case <-release:
			case <-time.After(8 * time.Second):
			}
		case "slow":
			time.Sleep(T / 3)
		case "kill-during":
			fc.Kill()
		}
		return nil
	}
	n := in.N
	if n == 0 {
		n = 3
	}
	var plugins []*rt.Plugin
	for i := 0; i < n; i++ {
		spec := rt.Spec{Idx: fmt.Sprintf("%02d", 10*(i+1)), Name: names[i], Mask: 0}
		opts := rt.ConnectOpts{}
		var get func() *rt.FaultConn
		if i == in.Pos {
			spec.Raw = in.Raw
			opts.Hook = hook
			opts.Dial, get = rt.FaultDialer()
		}
		p, err := r.Connect(spec, opts)
		if err != nil {
			obs.Fail = "reg: " + err.Error()
			return
		}
		if get != nil {
			fc = get()
		}
		plugins = append(plugins, p)
	}
	r.Rec.Take()
	do := func(id string) ReqObs {
		t0 := time.Now()
		// the caller's own, much longer deadline only keeps a runtime without per-plugin
		// deadlines from hanging the campaign; such a request is over the wall-clock bound anyway
		ctx, cancel := context.WithTimeout(context.Background(), 10*time.Second)
		res := r.DoCtx(ctx, in.Ev, id)
		cancel()
		return ReqObs{Res: res, WallMs: time.Since(t0).Milliseconds(), Log: invs(r.Rec.Take())}
	}
	// all three requests run under the short request timeout (the deadline travels in the
	// request, so its size depends on it)
	timeoutMu.Lock()
	adaptation.SetPluginRequestTimeout(T)
	defer func() {
		adaptation.SetPluginRequestTimeout(adaptation.DefaultPluginRequestTimeout)
		timeoutMu.Unlock()
	}()
	// clean exchange, measured
	fc.Reset()
	obs.Warm = do("warm.")
	obs.R2P, obs.P2R = fc.Counts()
	if in.Kind == "calib" {
		obs.Fault = ReqObs{Log: []Inv{}, Res: rt.Result{Items: []string{}}}
		obs.Next = obs.Fault
		return
	}
	// the request under test, under the short request timeout
	faulty := plugins[in.Pos]
	switch in.Fault.Kind {
	case "cut", "corrupt", "stall":
		fc.Arm(in.Fault.Kind, in.Fault.Dir, in.Fault.Off)
	case "stop-before":
		faulty.Stop()
	case "kill-before":
		fc.Kill()
	default:
		fc.Reset()
	}
	obs.Fault = do("fault")
	obs.Fired = fc.Fired()
	switch in.Fault.Kind {
	case "cut", "corrupt", "stall":
		fc.Reset()
	case "kill-after":
		fc.Kill()
	}
	obs.Next = do("next.")
	for _, p := range plugins {
		obs.Closed = append(obs.Closed, p.Closed())
	}
	return
}

// runMulti: every plugin has its own fault (possibly "none"), all armed for the one request.
func runMulti(dir string, in *In) (obs Obs) {
	obs.Closed = []bool{}
	r, err := rt.NewRuntime(dir, nil)
	if err != nil {
		obs.Fail = "runtime: " + err.Error()
		return
	}
	defer r.Close()
	T := time.Duration(in.TimeoutMs) * time.Millisecond
	release := make(chan struct{})
	defer close(release)
	n := len(in.Faults)
	fcs := make([]*rt.FaultConn, n)
	var plugins []*rt.Plugin
	for i := 0; i < n; i++ {
		i := i
		f := in.Faults[i]
		hook := func(p *rt.Plugin, ev int, req string) error {
			if req != "fault" {
				return nil
			}
			switch f.Kind {
			case "herr":
				return handlerErr(f.As, "veto:"+p.Name+":"+req+":"+fmt.Sprint(ev))
			case "hang":
				select {
				case <-release:
				case <-time.After(8 * time.Second):
				}
			case "slow":
				time.Sleep(T / 3)
			case "kill-during":
				fcs[i].Kill()
			}
			return nil
		}
		dial, get := rt.FaultDialer()
		p, err := r.Connect(rt.Spec{Idx: fmt.Sprintf("%02d", 10*(i+1)), Name: names[i], Mask: 0},
			rt.ConnectOpts{Hook: hook, Dial: dial})
		if err != nil {
			obs.Fail = "reg: " + err.Error()
			return
		}
		fcs[i] = get()
		plugins = append(plugins, p)
	}
	r.Rec.Take()
	do := func(id string) ReqObs {
		t0 := time.Now()
		ctx, cancel := context.WithTimeout(context.Background(), 10*time.Second)
		res := r.DoCtx(ctx, in.Ev, id)
		cancel()
		return ReqObs{Res: res, WallMs: time.Since(t0).Milliseconds(), Log: invs(r.Rec.Take())}
	}
	timeoutMu.Lock()
	adaptation.SetPluginRequestTimeout(T)
	defer func() {
		adaptation.SetPluginRequestTimeout(adaptation.DefaultPluginRequestTimeout)
		timeoutMu.Unlock()
	}()
	obs.Warm = do("warm.")
	for i, f := range in.Faults {
		switch f.Kind {
		case "cut", "stall":
			fcs[i].Arm(f.Kind, f.Dir, f.Off)
		case "stop-before":
			plugins[i].Stop()
		case "kill-before":
			fcs[i].Kill()
		default:
			fcs[i].Reset()
		}
	}
	obs.Fault = do("fault")
	for _, fc := range fcs {
		fc.Reset()
	}
	obs.Next = do("next.")
	for _, p := range plugins {
		obs.Closed = append(obs.Closed, p.Closed())
	}
	return
}

// healthyMissing: a plugin other than the faulty one was not invoked in the request under test
// or in the following one although nothing was done to it.
func healthyMissing(in *In, o *Obs) bool {
	if o.Fail != "" || in.Kind != "fault" {
		return false
	}
	n := in.N
	if n == 0 {
		n = 3
	}
	seen := func(l []Inv, name, req string) bool {
		for _, i := range l {
			if i.P == name && i.R == req {
				return true
			}
		}
		return false
	}
	failed := o.Fault.Res.Err != ""
	// faults that involve no waiting: a request that nevertheless took a whole timeout was held
	// up by the machine, not by the code (a defect that makes it wait repeats and is reported)
	switch in.Fault.Kind {
	case "none", "herr", "cut", "kill-before", "kill-during", "kill-after", "stop-before":
		if o.Fault.WallMs >= int64(in.TimeoutMs) || o.Next.WallMs >= int64(in.TimeoutMs) {
			return true
		}
	}
	for i := 0; i < n; i++ {
		if i == in.Pos {
			// a plugin that answered (normally, slowly but in time, or with its own error) stays
			switch in.Fault.Kind {
			case "none", "slow", "herr":
				if !seen(o.Next.Log, names[i], "next.") {
					return true
				}
			}
			continue
		}
		if !seen(o.Next.Log, names[i], "next.") {
			return true
		}
		// in the request under test everybody before the faulty plugin is invoked, and everybody
		// behind it unless the request was (legitimately or not) failed there
		if (i < in.Pos || !failed) && !seen(o.Fault.Log, names[i], "fault") {
			return true
		}
		// invoked but its answer did not make it in time
		if o.Next.Res.Err == "" && !contributes(in.Ev, names[i], "next.", o.Next.Res.Items) {
			return true
		}
		if !failed && !contributes(in.Ev, names[i], "fault", o.Fault.Res.Items) {
			return true
		}
	}
	return false
}

// contributes: the reply carries what plugin `name` answers to request `req` (true for
// request kinds without a reply body).
func contributes(ev int, name, req string, items []string) bool {
	var want string
	switch ev {
	case rt.EvCreate:
		want = name + "=" + req
	case rt.EvUpdate, rt.EvStop:
		want = fmt.Sprintf("%s/%s=%d", req, name, rt.MemFor(name, req))
	default:
		return true
	}
	for _, it := range items {
		if it == want {
			return true
		}
	}
	return false
}

// noisyMulti: a plugin whose fault is none/slow was not invoked by the following request.
func noisyMulti(in *In, o *Obs) bool {
	if o.Fail != "" {
		return false
	}
	for i, f := range in.Faults {
		if f.Kind != "none" && f.Kind != "slow" {
			continue
		}
		ok := false
		for _, l := range o.Next.Log {
			ok = ok || (l.P == names[i] && l.R == "next.")
		}
		if !ok || (o.Next.Res.Err == "" && !contributes(in.Ev, names[i], "next.", o.Next.Res.Items)) {
			return true
		}
	}
	return false
}

func runCase(dir string, in *In) Obs {
	var o Obs
	for try := 0; try < 3; try++ {
		d, err := os.MkdirTemp(dir, "c")
		if err != nil {
			return Obs{Fail: err.Error(), Closed: []bool{}}
		}
		if in.Kind == "handshake" {
			o = runHandshake(d, in)
			os.RemoveAll(d)
			o.Retries = try
			if !noisyHandshake(in, &o) {
				break
			}
			continue
		}
		if in.Kind == "multi" {
			o = runMulti(d, in)
			os.RemoveAll(d)
			o.Retries = try
			if !noisyMulti(in, &o) {
				break
			}
			continue
		}
		o = runOnce(d, in)
		os.RemoveAll(d)
		o.Retries = try
		// a HEALTHY plugin lost under the 150 ms timeout can be scheduling noise on a loaded
		// machine: repeat; a real defect repeats too and is then reported
		if !healthyMissing(in, &o) {
			break
		}
	}
	return o
}

// ---------------------------------------------------------------------------------------

var reqTypes = []int{rt.EvCreate, rt.EvUpdate, rt.EvStop, rt.EvStart, rt.EvUpdatePod}

const (
	timeoutMs = 200
	slackMs   = 2500
)

func mk(ev, pos int, f Fault, raw bool) *In {
	return &In{Kind: "fault", Ev: ev, Pos: pos, N: 3, Fault: f, Raw: raw, TimeoutMs: timeoutMs, SlackMs: slackMs}
}

func emit(w *lineio.Writer, jobs []*rt.Job) {
	for _, j := range jobs {
		if j.Skipped {
			continue
		}
		var obs interface{} = j.Obs
		switch {
		case j.Crashed:
			obs = Obs{Fail: "crashed", Panic: j.Panic, Closed: []bool{}}
		case j.Blocked:
			obs = Obs{Fail: "blocked", Closed: []bool{}}
		case j.Obs == nil:
			obs = Obs{Fail: "not run", Closed: []bool{}}
		}
		w.Put(&lineio.Case{ID: j.ID, In: j.In, Obs: obs})
	}
}

func Run(o *hx.Opts, w *lineio.Writer) error {
	rt.Quiet()
	if len(filepath.Join(o.Scratch, "w123456", "scratch", "c0123456789", "n123456.sock")) > 100 {
		d, err := os.MkdirTemp("", "c07-")
		if err != nil {
			return err
		}
		defer os.RemoveAll(d)
		o.Scratch = d
	}
	if rt.IsWorker(func(_ string, _ string, raw json.RawMessage) interface{} {
		in := &In{}
		if err := json.Unmarshal(raw, in); err != nil {
			return Obs{Fail: err.Error(), Closed: []bool{}}
		}
		return runCase(o.Scratch, in)
	}) {
		return nil
	}
	const par = 5
	if o.Replay != "" {
		cases, err := hx.ReplayCases(o.Replay)
		if err != nil {
			return err
		}
		var jobs []*rt.Job
		for _, c := range cases {
			in := &In{}
			if err := json.Unmarshal(c.In, in); err != nil {
				return err
			}
			jobs = append(jobs, &rt.Job{ID: c.ID, In: in})
		}
		err = rt.Dispatch(o.Scratch, "C07", "", jobs, 8, par, 20*time.Second)
		emit(w, jobs)
		return err
	}
	// calibration: how many bytes does each request type move at one plugin, per direction
	var calib []*rt.Job
	for _, ev := range reqTypes {
		for pos := 0; pos < 3; pos++ {
			for _, raw := range []bool{false, true} {
				if raw && pos != 1 {
					continue
				}
				calib = append(calib, &rt.Job{ID: fmt.Sprintf("calib-%d-%d-%v", ev, pos, raw),
					In: &In{Kind: "calib", Ev: ev, Pos: pos, N: 3, Raw: raw, TimeoutMs: timeoutMs, SlackMs: slackMs}})
			}
		}
	}
	// ... and how many bytes a clean registration handshake moves
	for pos := 0; pos < 3; pos++ {
		calib = append(calib, &rt.Job{ID: fmt.Sprintf("calib-hs-%d", pos),
			In: &In{Kind: "handshake", Ev: rt.EvCreate, Pos: pos, N: 3, Fault: Fault{Kind: "hs-none"}, TimeoutMs: timeoutMs, SlackMs: slackMs}})
	}
	if err := rt.Dispatch(o.Scratch, "C07", "", calib, 1, par, 20*time.Second); err != nil {
		emit(w, calib)
		return err
	}
	emit(w, calib)
	type lens struct{ r2p, p2r int64 }
	ln := map[string]lens{}
	for _, j := range calib {
		var ob Obs
		if j.Obs == nil || json.Unmarshal(j.Obs, &ob) != nil || ob.Fail != "" || ob.R2P == 0 || ob.P2R == 0 {
			return fmt.Errorf("calibration %s failed: %s", j.ID, ob.Fail)
		}
		in := j.In.(*In)
		if in.Kind == "handshake" {
			ln[fmt.Sprintf("hs-%d", in.Pos)] = lens{ob.R2P, ob.P2R}
			continue
		}
		ln[fmt.Sprintf("%d-%d-%v", in.Ev, in.Pos, in.Raw)] = lens{ob.R2P, ob.P2R}
	}
	rnd := o.Rand(701)
	var jobs []*rt.Job
	add := func(in *In) {
		jobs = append(jobs, &rt.Job{ID: fmt.Sprintf("%s%s-%s%d-e%d-p%d-%v-%d", in.Fault.Kind, in.Fault.As, in.Fault.Dir, in.Fault.Off, in.Ev, in.Pos, in.Raw, len(jobs)), In: in})
	}
	thorough := o.Thorough()
	for _, ev := range reqTypes {
		for pos := 0; pos < 3; pos++ {
			raw := false
			l := ln[fmt.Sprintf("%d-%d-%v", ev, pos, raw)]
			// events
			for _, k := range []string{"none", "stop-before", "kill-before", "kill-during", "kill-after", "hang", "slow", "herr"} {
				add(mk(ev, pos, Fault{Kind: k}, raw))
			}
			// … with an unsolicited update of the failing plugin queued behind the request
			for _, k := range []string{"none", "kill-during", "hang", "herr"} {
				add(mk(ev, pos, Fault{Kind: k, Upd: true}, raw))
			}
			// handler errors that LOOK like transport / timeout failures, over a healthy connection
			for _, as := range HandlerErrs {
				add(mk(ev, pos, Fault{Kind: "herr", As: as}, raw))
			}
			// byte-exact faults: every offset of the exchange for the middle plugin at quick tier
			// (other positions: a seeded stride), every offset everywhere at thorough tier
			for _, dir := range []string{"r2p", "p2r"} {
				total := l.r2p
				if dir == "p2r" {
					total = l.p2r
				}
				stride := int64(1)
				if !thorough && pos != 1 {
					stride = 5
				}
				phase := int64(rnd.Intn(int(stride)))
				for off := int64(0); off < total; off++ {
					if off%stride != phase && off > 10 && off != total-1 {
						continue
					}
					add(mk(ev, pos, Fault{Kind: "cut", Dir: dir, Off: off}, raw))
				}
				cstride := int64(7)
				if thorough {
					cstride = 1
				}
				cphase := int64(rnd.Intn(int(cstride)))
				for off := int64(0); off < total; off++ {
					if off%cstride != cphase && off > 18 {
						continue
					}
					if pos != 1 && !thorough && off > 18 {
						continue
					}
					add(mk(ev, pos, Fault{Kind: "corrupt", Dir: dir, Off: off}, raw))
				}
				for _, off := range []int64{0, 3, 8, 13, total / 2, total - 1} {
					if pos == 1 || thorough {
						add(mk(ev, pos, Fault{Kind: "stall", Dir: dir, Off: off}, raw))
					}
				}
			}
		}
		// the same through the raw plugin service (no stub on the plugin side), middle position
		lr := ln[fmt.Sprintf("%d-1-%v", ev, true)]
		for _, k := range []string{"kill-before", "kill-during", "hang", "herr"} {
			add(mk(ev, 1, Fault{Kind: k}, true))
		}
		for _, as := range HandlerErrs {
			add(mk(ev, 1, Fault{Kind: "herr", As: as}, true))
		}
		for _, dir := range []string{"r2p", "p2r"} {
			total := lr.r2p
			if dir == "p2r" {
				total = lr.p2r
			}
			stride := int64(6)
			if thorough {
				stride = 2
			}
			for off := int64(rnd.Intn(int(stride))); off < total; off += stride {
				add(mk(ev, 1, Fault{Kind: "cut", Dir: dir, Off: off}, true))
			}
		}
	}
	// faults during the registration handshake (before any request reaches the plugin)
	for pos := 0; pos < 3; pos++ {
		for _, ev := range reqTypes {
			if !thorough && ev != reqTypes[(pos+int(o.Seed))%len(reqTypes)] && ev != rt.EvCreate {
				continue
			}
			for _, k := range HsKinds {
				jobs = append(jobs, &rt.Job{ID: fmt.Sprintf("%s-e%d-p%d-%d", k, ev, pos, len(jobs)),
					In: &In{Kind: "handshake", Ev: ev, Pos: pos, N: 3, Fault: Fault{Kind: k}, TimeoutMs: timeoutMs, SlackMs: slackMs}})
			}
		}
		l := ln[fmt.Sprintf("hs-%d", pos)]
		for _, dir := range []string{"r2p", "p2r"} {
			total := l.r2p
			if dir == "p2r" {
				total = l.p2r
			}
			stride := int64(9)
			if thorough {
				stride = 2
			}
			for off := int64(rnd.Intn(int(stride))); off < total+stride; off += stride {
				jobs = append(jobs, &rt.Job{ID: fmt.Sprintf("hs-cut-%s%d-p%d-%d", dir, off, pos, len(jobs)),
					In: &In{Kind: "handshake", Ev: rt.EvCreate, Pos: pos, N: 3, Fault: Fault{Kind: "hs-cut", Dir: dir, Off: off}, TimeoutMs: timeoutMs, SlackMs: slackMs}})
			}
		}
	}
	// several faults in one request: 3..5 plugins, each with its own fault
	mkinds := []string{"none", "none", "slow", "herr", "hang", "kill-before", "stop-before", "kill-during", "cut", "cut", "stall"}
	for i := 0; i < o.N(150, 1500); i++ {
		n := 3 + rnd.Intn(3)
		in := &In{Kind: "multi", Ev: reqTypes[rnd.Intn(len(reqTypes))], N: n, TimeoutMs: timeoutMs, SlackMs: slackMs}
		herrs := 0
		for k := 0; k < n; k++ {
			f := Fault{Kind: mkinds[rnd.Intn(len(mkinds))]}
			if f.Kind == "herr" {
				herrs++
				if herrs > 1 || rnd.Intn(2) == 0 {
					f.Kind = "hang"
				} else if rnd.Intn(3) != 0 {
					f.As = HandlerErrs[rnd.Intn(len(HandlerErrs))]
				}
			}
			if f.Kind == "cut" || f.Kind == "stall" {
				f.Dir = []string{"r2p", "p2r"}[rnd.Intn(2)]
				f.Off = int64(rnd.Intn(18)) // inside both headers: shorter than every exchange
			}
			in.Faults = append(in.Faults, f)
		}
		jobs = append(jobs, &rt.Job{ID: fmt.Sprintf("multi-%d", i), In: in})
	}
	// the runtime's reaction to a reply cut in the middle of a frame depends on which of two
	// goroutines notices first: repeat those points
	reps := o.N(40, 150)
	var race []*rt.Job
	addRace := func(in *In) {
		race = append(race, &rt.Job{ID: fmt.Sprintf("race-%s%d-e%d-p%d-%d", in.Fault.Dir, in.Fault.Off, in.Ev, in.Pos, len(race)), In: in})
	}
	for _, ev := range reqTypes {
		for pos := 0; pos < 3; pos++ {
			l := ln[fmt.Sprintf("%d-%d-%v", ev, pos, false)]
			for rep := 0; rep < reps; rep++ {
				for _, off := range []int64{1 + int64(rnd.Intn(7)), 9 + int64(rnd.Intn(9)), 18 + int64(rnd.Intn(int(l.p2r-18)+1))%l.p2r} {
					if off >= l.p2r {
						off = l.p2r - 1
					}
					addRace(mk(ev, pos, Fault{Kind: "cut", Dir: "p2r", Off: off}, false))
				}
			}
		}
	}
	if o.Budget > 1 {
		// failing-input search: random extra points
		for i := 0; i < 200*o.Budget; i++ {
			ev := reqTypes[rnd.Intn(len(reqTypes))]
			pos := rnd.Intn(3)
			l := ln[fmt.Sprintf("%d-%d-%v", ev, pos, false)]
			dir, total := "r2p", l.r2p
			if rnd.Intn(2) == 0 {
				dir, total = "p2r", l.p2r
			}
			add(mk(ev, pos, Fault{Kind: []string{"cut", "corrupt"}[rnd.Intn(2)], Dir: dir, Off: int64(rnd.Intn(int(total)))}, false))
		}
	}
	err := rt.Dispatch(o.Scratch, "C07", "", jobs, 25, par, 20*time.Second)
	emit(w, jobs)
	// two OS threads: the window in which both wake-up reasons are pending is widest
	err2 := rt.Dispatch(o.Scratch, "C07", "", race, 100, par, 20*time.Second, "GOMAXPROCS=2")
	emit(w, race)
	if err == nil {
		err = err2
	}
	return err
}
