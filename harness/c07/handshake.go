package c07

// Stream "handshake": the fault hits a plugin BEFORE any request reaches it - while it
// registers, is configured or is synchronised ("at any point before or during a request").
//
// Two healthy plugins are active (indices of the three positions other than Pos). A third one
// connects with index position Pos and fails its handshake in one of these ways:
//
//	hs-none            control: the handshake is clean, the plugin is activated
//	hs-kill-configure  the plugin's socket is closed inside its Configure handler
//	hs-err-configure   Configure returns an error
//	hs-hang-configure  Configure does not answer within the request timeout
//	hs-kill-sync / hs-err-sync / hs-hang-sync   the same inside Synchronize
//	hs-cut             the socket is closed after Off bytes in direction Dir of the handshake
//
// Then the runtime - as containerd does: every request bracketed by BlockPluginSync/Unblock -
// relays request "fault", a further healthy plugin "e" (index 50) connects, and request
// "next." is relayed. The failed plugin must be invisible: both requests complete in time with
// the contributions of exactly the healthy plugins (plus "e" in the second), nothing hangs,
// and the plugin that connected after the failure is synchronised and activated.

import (
	"context"
	"errors"
	"fmt"
	"time"

	"github.com/containerd/nri/pkg/adaptation"

	"verifh/c06/rt"
)

var HsKinds = []string{"hs-none", "hs-kill-configure", "hs-err-configure", "hs-hang-configure",
	"hs-kill-sync", "hs-err-sync", "hs-hang-sync"}

func runHandshake(dir string, in *In) (obs Obs) {
	obs.Closed = []bool{}
	T := time.Duration(in.TimeoutMs) * time.Millisecond
	timeoutMu.Lock()
	adaptation.SetPluginRequestTimeout(T)
	defer func() {
		adaptation.SetPluginRequestTimeout(adaptation.DefaultPluginRequestTimeout)
		timeoutMu.Unlock()
	}()
	r, err := rt.NewRuntime(dir, nil)
	if err != nil {
		obs.Fail = "runtime: " + err.Error()
		return
	}
	defer r.Close()
	release := make(chan struct{})
	defer close(release)
	n := in.N
	if n == 0 {
		n = 3
	}
	for i := 0; i < n; i++ {
		if i == in.Pos {
			continue
		}
		if _, err := r.Connect(rt.Spec{Idx: fmt.Sprintf("%02d", 10*(i+1)), Name: names[i]}, rt.ConnectOpts{}); err != nil {
			obs.Fail = "reg: " + err.Error()
			return
		}
	}
	r.Rec.Take()
	// every request the way a runtime issues it: under a plugin-sync block
	do := func(id string) (ReqObs, bool) {
		t0 := time.Now()
		done := make(chan ReqObs, 1)
		go func() {
			b := r.A.BlockPluginSync()
			ctx, cancel := context.WithTimeout(context.Background(), 10*time.Second)
			res := r.DoCtx(ctx, in.Ev, id)
			cancel()
			b.Unblock()
			done <- ReqObs{Res: res, WallMs: time.Since(t0).Milliseconds(), Log: invs(r.Rec.Take())}
		}()
		select {
		case o := <-done:
			return o, true
		case <-time.After(12 * time.Second):
			return ReqObs{Log: []Inv{}, Res: rt.Result{Items: []string{}}}, false
		}
	}
	var ok bool
	if obs.Warm, ok = do("warm."); !ok {
		obs.Fail = "blocked"
		return
	}
	// the plugin whose handshake fails
	var get func() *rt.FaultConn
	opts := rt.ConnectOpts{}
	// hs-hang-*: not waited out - the request under test is issued while the runtime is still
	// waiting for the hanging handler (it holds the exclusive sync section until its timeout)
	if in.Fault.Kind == "hs-cut" {
		opts.Dial, get = rt.ArmedDialer("cut", in.Fault.Dir, in.Fault.Off)
	} else {
		opts.Dial, get = rt.ArmedDialer("", "", 0)
	}
	stageOf := map[string]string{"hs-kill-configure": "configure", "hs-err-configure": "configure", "hs-hang-configure": "configure",
		"hs-kill-sync": "synchronize", "hs-err-sync": "synchronize", "hs-hang-sync": "synchronize"}
	opts.HsHook = func(p *rt.Plugin, stage string) error {
		if stageOf[in.Fault.Kind] != stage {
			return nil
		}
		switch in.Fault.Kind {
		case "hs-kill-configure", "hs-kill-sync":
			if fc := get(); fc != nil {
				fc.Kill()
			}
		case "hs-err-configure", "hs-err-sync":
			return errors.New("handshake refused by " + p.Name)
		case "hs-hang-configure", "hs-hang-sync":
			select {
			case <-release:
			case <-time.After(8 * time.Second):
			}
		}
		return nil
	}
	// no activation probes while the outcome is open: WaitActive's probe requests would hammer the
	// healthy plugins under the short request timeout for as long as the handshake stays undecided
	opts.NoWait = true
	hang := in.Fault.Kind == "hs-hang-configure" || in.Fault.Kind == "hs-hang-sync"
	fp, cerr := r.Connect(rt.Spec{Idx: fmt.Sprintf("%02d", 10*(in.Pos+1)), Name: names[in.Pos]}, opts)
	if cerr == nil && !hang {
		// Start succeeded (the plugin was configured). A failing synchronisation makes the runtime
		// close the connection, which the plugin end notices; a clean one leaves it open.
		settle := 400 * time.Millisecond
		if in.Fault.Kind != "hs-none" && in.Fault.Kind != "hs-cut" {
			settle = T + 1500*time.Millisecond
		}
		for t0 := time.Now(); time.Since(t0) < settle && !fp.Closed(); {
			time.Sleep(2 * time.Millisecond)
		}
		if !fp.Closed() {
			cerr = r.WaitActive(fp, 1500*time.Millisecond)
		} else {
			cerr = errors.New("connection closed during the handshake")
		}
	} else if cerr == nil {
		cerr = errors.New("not waited for")
	}
	obs.Activated = cerr == nil
	if fc := get(); fc != nil {
		// from here on the connection is clean: a cut that has not fired yet never will
		obs.Fired = fc.Fired()
		obs.R2P, obs.P2R = fc.Counts()
		fc.Reset()
	}
	r.Rec.Take()
	if obs.Fault, ok = do("fault"); !ok {
		obs.Fail = "blocked"
		return
	}
	// a plugin that connects AFTER the failed one must be synchronised and activated
	if _, err := r.Connect(rt.Spec{Idx: "50", Name: "e"}, rt.ConnectOpts{Wait: 5 * time.Second}); err != nil {
		obs.LateErr = err.Error()
	}
	r.Rec.Take()
	if obs.Next, ok = do("next."); !ok {
		obs.Fail = "blocked"
		return
	}
	return
}

// noisyHandshake: a healthy plugin missing from a request that took a whole timeout is
// scheduling noise of a loaded machine (the case is repeated; a defect repeats too).
func noisyHandshake(in *In, o *Obs) bool {
	if o.Fail != "" {
		return false
	}
	count := func(l []Inv, req string) int {
		k := 0
		for _, i := range l {
			if i.R == req {
				k++
			}
		}
		return k
	}
	n := in.N
	if n == 0 {
		n = 3
	}
	// (also when the request itself was fast: the plugin may have been lost to an activation probe)
	return count(o.Fault.Log, "fault") < n-1 || count(o.Next.Log, "next.") < n
}
