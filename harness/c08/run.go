// Package c08 is the correspondence harness for property C08 (placeholder).
package c08

import (
	"errors"

	"verifh/internal/hx"
	"verifh/internal/lineio"
)

func Run(o *hx.Opts, w *lineio.Writer) error {
	return errors.New("C08 harness not implemented")
}
