// Package c08 is the correspondence harness for property C08: plugins register (stub.Start) on
// a real Adaptation while runtime goroutines create containers inside
// BlockPluginSync()/Unblock() and keep the runtime's own store inside the block; everything is
// logged with one global sequence counter and judged by the Lean driver (trace acceptance by
// the lock model + exactly-once / blocks-hold evaluated directly on the log).
package c08

import (
	"context"
	"encoding/json"
	"fmt"
	"os"
	"path/filepath"
	"runtime"
	"sort"
	"strconv"
	"strings"
	"sync"
	"sync/atomic"
	"time"

	"github.com/containerd/nri/pkg/adaptation"
	"github.com/containerd/nri/pkg/api"

	"verifh/c08/rt"
	"verifh/internal/hx"
	"verifh/internal/lineio"
)

// event kinds in the log
const (
	evBlock = iota
	evRelay
	evRecord
	evUnblock
	evSyncBegin
	evSnapshot
	evSyncRet
	evUnblockAgain // a second Unblock() of an already released block (documented as safe)
	// journal-only record kinds (what the plugins saw), see crashObs
	jPlugSync   // [_, stamp, p, n]
	jPlugSyncID // [_, n, p, id]
	jPlugGot    // [_, 0, p, c]
	jSnapID     // [_, 0, n, id]
	jPlugStart  // [_, 0, p, 0]   stub.Start returned nil
)

// In is one generated case: a schedule *generator* configuration (the schedule itself is the
// Go runtime's; the observed history is the observation).
type In struct {
	Kind      string `json:"kind"`       // race | hold
	Idx       int    `json:"idx"`        // case number within the run
	P         int    `json:"P"`          // registering plugins
	G         int    `json:"G"`          // creator goroutines
	Pre       int    `json:"pre"`        // containers created before any plugin connects
	Extra     int    `json:"extra"`      // creations per goroutine after every plugin synchronised
	Batch     int    `json:"batch"`      // max creations inside one block
	Order     string `json:"order"`      // relay-first | record-first | mixed
	Procs     int    `json:"procs"`      // GOMAXPROCS for the case
	MaxC      int    `json:"maxc"`       // hard cap on creations
	StaggerUs []int  `json:"stagger_us"` // delay before plugin i connects
	Indices   []int  `json:"indices"`    // two-digit plugin indices
	HoldMs    int    `json:"hold_ms"`    // kind hold: how long the block is held with plugins pending
	Contend   int    `json:"contend"`    // goroutines of plugin 0 issuing unsolicited updates (contends the adaptation mutex)
	DwellUs   int    `json:"dwell_us"`   // how long UpdateFn keeps the adaptation mutex
	SyncLagUs int    `json:"synclag_us"` // SyncFn dwells this long between snapshot delivery and returning
	FailSync  []int  `json:"fail_sync"`  // plugins whose Synchronize handler returns an error (never activated)
	DblPct    int    `json:"dbl_pct"`    // percentage of blocks released twice: `defer b.Unblock()` + an explicit early Unblock()
	Seed      int64  `json:"seed"`
	// Events goroutines send StartContainer events OUTSIDE any sync block (as a runtime does for
	// everything but creations) while plugins register; every plugin dwells EventDwellUs in its
	// handler, so that registrations complete while such an event is in flight
	Events       int `json:"events"`
	EventDwellUs int `json:"event_dwell_us"`
	// Quit (kind hold): one more plugin connects first, registers and is configured while the block
	// is held - its synchronisation is pending behind the block - and disconnects before the block
	// is released. The others must still be synchronised afterwards, later blocks must be granted.
	Quit bool `json:"quit"`
}

type SyncObs struct {
	S   int64   `json:"s"`   // stamp inside the plugin's Synchronize handler
	N   int64   `json:"n"`   // SyncFn invocation marker received
	Ids []int64 `json:"ids"` // container ids received
}

type PlugObs struct {
	P       int       `json:"p"`
	Started bool      `json:"started"` // stub.Start returned nil
	Err     string    `json:"err"`
	Syncs   []SyncObs `json:"syncs"`
	Got     []int64   `json:"got"` // ids of CreateContainer requests, in receipt order
}

type Obs struct {
	Status  string    `json:"status"` // ok | blocked | error | crashed (history = what the journal holds)
	Note    string    `json:"note"`
	Ev      [][]int64 `json:"ev"`    // [kind, seq, a, b], sorted by seq
	Snaps   [][]int64 `json:"snaps"` // per SyncFn invocation: ids handed to the callback
	Plugins []PlugObs `json:"plugins"`
	Store   []int64   `json:"store"` // the runtime's store at the end, in insertion order
	Creates int       `json:"creates"`
	WallMs  int64     `json:"wall_ms"`
}

type env struct {
	in      In
	rt      *rt.Runtime
	storeMu sync.Mutex
	store   []int64

	live     atomic.Bool // SyncFn invocations before Start() returned are the start-up one
	syncN    atomic.Int64
	syncDone atomic.Int64
	// Synchronize handlers of the case's own plugins that have run (a plugin that is not one of
	// them - the quitter of a hold case - may account for a SyncFn invocation of its own)
	plugSynced atomic.Int64
	logMu      sync.Mutex
	sev        [][]int64
	snaps      [][]int64

	nextB atomic.Int64
	nextC atomic.Int64
	errs  atomic.Int64
	note  atomic.Value

	pod *api.PodSandbox
	j   *rt.Journal
}

// app appends a log entry and mirrors it into the crash-surviving journal
func (e *env) app(log [][]int64, r []int64) [][]int64 {
	var x, y, z int64
	if len(r) > 1 {
		x = r[1]
	}
	if len(r) > 2 {
		y = r[2]
	}
	if len(r) > 3 {
		z = r[3]
	}
	e.j.Put(r[0], x, y, z)
	return append(log, r)
}

func cid(s string) int64 {
	n, err := strconv.ParseInt(strings.TrimPrefix(s, "c"), 10, 64)
	if err != nil {
		return -1
	}
	return n
}

func (e *env) syncFn(ctx context.Context, cb adaptation.SyncCB) error {
	if !e.live.Load() {
		_, err := cb(ctx, nil, nil)
		return err
	}
	n := e.syncN.Add(1) - 1
	sBegin := rt.Stamp() // requestPluginSync has returned
	e.storeMu.Lock()
	ids := append([]int64(nil), e.store...)
	sSnap := rt.Stamp()
	e.storeMu.Unlock()
	e.j.Put(evSyncBegin, sBegin, n, 0)
	e.j.Put(evSnapshot, sSnap, n, 0)
	for _, id := range ids {
		e.j.Put(jSnapID, 0, n, id)
	}
	pods := []*api.PodSandbox{rt.Pod(fmt.Sprintf("sync-%d", n))}
	ctrs := make([]*api.Container, 0, len(ids))
	for _, id := range ids {
		ctrs = append(ctrs, rt.Ctr(fmt.Sprintf("c%d", id), "pod0"))
	}
	_, err := cb(ctx, pods, ctrs)
	spin(e.in.SyncLagUs)
	bad := int64(0)
	if err != nil {
		bad = 1
	}
	sRet := rt.Stamp() // before finishedPluginSync
	e.j.Put(evSyncRet, sRet, n, bad)
	e.logMu.Lock()
	e.sev = append(e.sev, []int64{evSyncBegin, sBegin, n}, []int64{evSnapshot, sSnap, n}, []int64{evSyncRet, sRet, n, bad})
	for int64(len(e.snaps)) <= n {
		e.snaps = append(e.snaps, nil)
	}
	e.snaps[n] = ids
	e.logMu.Unlock()
	e.syncDone.Add(1)
	return err
}

// updateFn runs under the adaptation mutex (Adaptation.updateContainers); dwelling here makes
// that mutex contended, which widens every window that is only closed by it.
func (e *env) updateFn(context.Context, []*api.ContainerUpdate) ([]*api.ContainerUpdate, error) {
	spin(e.in.DwellUs)
	return nil, nil
}

func spin(us int) {
	if us <= 0 {
		return
	}
	t := time.Now()
	for time.Since(t) < time.Duration(us)*time.Microsecond {
	}
}

// synced: how many of the case's plugins have been synchronised (handler ran and SyncFn returned)
func (e *env) synced() int64 {
	a, b := e.syncDone.Load(), e.plugSynced.Load()
	if b < a {
		return b
	}
	return a
}

// one block with k creations inside; returns the log entries. With dbl the goroutine uses the
// pattern `b := BlockPluginSync(); defer b.Unblock(); …; b.Unblock()`: an explicit early
// release followed by the deferred one, which the API documents as safe.
func (e *env) blockWith(log [][]int64, k int, relayFirst func() bool, dbl bool) (out [][]int64) {
	bid := e.nextB.Add(1) - 1
	b := e.rt.A.BlockPluginSync()
	log = e.app(log, []int64{evBlock, rt.Stamp(), bid})
	if dbl {
		defer func() {
			out = e.app(out, []int64{evUnblockAgain, rt.Stamp(), bid})
			b.Unblock()
		}()
	}
	for i := 0; i < k; i++ {
		c := e.nextC.Add(1) - 1
		relay := func() {
			_, err := e.rt.A.CreateContainer(context.Background(), &api.CreateContainerRequest{
				Pod: e.pod, Container: rt.Ctr(fmt.Sprintf("c%d", c), "pod0"),
			})
			if err != nil {
				e.errs.Add(1)
				e.note.Store("CreateContainer: " + err.Error())
			}
			log = e.app(log, []int64{evRelay, rt.Stamp(), bid, c})
		}
		record := func() {
			e.storeMu.Lock()
			e.store = append(e.store, c)
			s := rt.Stamp()
			e.j.Put(evRecord, s, bid, c)
			e.storeMu.Unlock()
			log = append(log, []int64{evRecord, s, bid, c})
		}
		if relayFirst() {
			relay()
			record()
		} else {
			record()
			relay()
		}
	}
	log = e.app(log, []int64{evUnblock, rt.Stamp(), bid})
	b.Unblock()
	return log
}

func runCase(in In, dir string, j *rt.Journal) (obs Obs) {
	t0 := time.Now()
	obs.Status = "ok"
	defer func() {
		if r := recover(); r != nil {
			obs.Status = "error"
			obs.Note = fmt.Sprintf("panic: %v", r)
		}
		obs.WallMs = time.Since(t0).Milliseconds()
	}()
	if in.Procs > 0 {
		prev := runtime.GOMAXPROCS(in.Procs)
		defer runtime.GOMAXPROCS(prev)
	}
	e := &env{in: in, pod: rt.Pod("pod0"), j: j}
	e.note.Store("")
	r, err := rt.NewRuntime(dir, e.syncFn, e.updateFn)
	if err != nil {
		obs.Status, obs.Note = "error", "runtime: "+err.Error()
		return
	}
	e.rt = r
	e.live.Store(true)
	defer r.Stop()

	rnd := rt.NewRand(in.Seed)
	var rndMu sync.Mutex
	orderFn := func() bool {
		switch in.Order {
		case "relay-first":
			return true
		case "record-first":
			return false
		}
		rndMu.Lock()
		defer rndMu.Unlock()
		return rnd.Intn(2) == 0
	}
	dblFn := func() bool {
		if in.DblPct <= 0 {
			return false
		}
		rndMu.Lock()
		defer rndMu.Unlock()
		return rnd.Intn(100) < in.DblPct
	}
	batchFn := func() int {
		if in.Batch <= 1 {
			return 1
		}
		rndMu.Lock()
		defer rndMu.Unlock()
		return 1 + rnd.Intn(in.Batch)
	}

	var mainLog [][]int64
	for i := 0; i < in.Pre; i++ {
		mainLog = e.blockWith(mainLog, 1, orderFn, false)
	}

	// plugins
	plugs := make([]*rt.Plugin, in.P)
	pobs := make([]PlugObs, in.P)
	pmu := make([]sync.Mutex, in.P)
	for i := 0; i < in.P; i++ {
		i := i
		pobs[i].P = i
		h := rt.Hooks{
			Sync: func(pods []*api.PodSandbox, ctrs []*api.Container) error {
				s := rt.Stamp()
				n := int64(-1)
				for _, p := range pods {
					if strings.HasPrefix(p.Id, "sync-") {
						if v, err := strconv.ParseInt(p.Id[5:], 10, 64); err == nil {
							n = v
						}
					}
				}
				ids := make([]int64, 0, len(ctrs))
				for _, c := range ctrs {
					ids = append(ids, cid(c.Id))
				}
				e.plugSynced.Add(1)
				e.j.Put(jPlugSync, s, int64(i), n)
				for _, id := range ids {
					e.j.Put(jPlugSyncID, n, int64(i), id)
				}
				pmu[i].Lock()
				pobs[i].Syncs = append(pobs[i].Syncs, SyncObs{S: s, N: n, Ids: ids})
				pmu[i].Unlock()
				for _, f := range in.FailSync {
					if f == i {
						return fmt.Errorf("verif: plugin %d refuses the snapshot", i)
					}
				}
				return nil
			},
			Start: func(*api.PodSandbox, *api.Container) {
				if in.EventDwellUs > 0 {
					time.Sleep(time.Duration(in.EventDwellUs) * time.Microsecond)
				}
			},
			Create: func(_ *api.PodSandbox, c *api.Container) {
				e.j.Put(jPlugGot, 0, int64(i), cid(c.Id))
				pmu[i].Lock()
				pobs[i].Got = append(pobs[i].Got, cid(c.Id))
				pmu[i].Unlock()
			},
		}
		p, err := rt.NewPlugin(r.Sock, fmt.Sprintf("%02d", in.Indices[i]%100), fmt.Sprintf("p%d", i), h)
		if err != nil {
			obs.Status, obs.Note = "error", "plugin: "+err.Error()
			return
		}
		plugs[i] = p
	}
	defer func() {
		for _, p := range plugs {
			if p != nil {
				p.Stop()
			}
		}
	}()

	var stop, stopU atomic.Bool
	var wgP, wgC, wgU sync.WaitGroup
	defer func() { stopU.Store(true); wgU.Wait() }()
	startPlugins := func() {
		for i := range plugs {
			i := i
			wgP.Add(1)
			go func() {
				defer wgP.Done()
				if d := in.StaggerUs[i]; d > 0 {
					time.Sleep(time.Duration(d) * time.Microsecond)
				}
				if err := plugs[i].Start(); err != nil {
					pmu[i].Lock()
					pobs[i].Err = err.Error()
					pmu[i].Unlock()
					return
				}
				e.j.Put(jPlugStart, 0, int64(i), 0)
				pmu[i].Lock()
				pobs[i].Started = true
				pmu[i].Unlock()
				if i == 0 {
					for k := 0; k < in.Contend; k++ {
						wgU.Add(1)
						go func() {
							defer wgU.Done()
							upd := []*api.ContainerUpdate{{ContainerId: "c0"}}
							for !stopU.Load() {
								if _, err := plugs[0].Stub.UpdateContainers(upd); err != nil {
									return
								}
							}
						}()
					}
				}
			}()
		}
	}
	clogs := make([][][]int64, in.G)
	startCreators := func() {
		for k := 0; k < in.Events; k++ {
			wgU.Add(1)
			go func() {
				defer wgU.Done()
				ev := &api.StateChangeEvent{Pod: e.pod, Container: rt.Ctr("ev", "pod0")}
				for !stopU.Load() {
					if err := e.rt.A.StartContainer(context.Background(), ev); err != nil {
						e.errs.Add(1)
						e.note.Store("StartContainer: " + err.Error())
						return
					}
				}
			}()
		}
		for g := 0; g < in.G; g++ {
			g := g
			wgC.Add(1)
			go func() {
				defer wgC.Done()
				extra := 0
				for !stop.Load() {
					if e.nextC.Load() >= int64(in.MaxC) {
						return
					}
					if e.synced() >= int64(in.P) {
						if extra >= in.Extra {
							return
						}
						extra++
					}
					clogs[g] = e.blockWith(clogs[g], batchFn(), orderFn, dblFn())
				}
			}()
		}
	}

	deadline := 30 * time.Second
	switch in.Kind {
	case "hold":
		// a block is taken first and held while the plugins connect, register and get
		// configured; a container is created inside it; only then is it released
		bid := e.nextB.Add(1) - 1
		b := r.A.BlockPluginSync()
		mainLog = e.app(mainLog, []int64{evBlock, rt.Stamp(), bid})
		if in.Quit {
			if q, err := rt.NewPlugin(r.Sock, "00", "quitter", rt.Hooks{}); err == nil {
				qdone := make(chan struct{})
				go func() { q.Start(); close(qdone) }()
				select {
				case <-qdone: // registered and configured; its synchronisation waits for the block
				case <-time.After(3 * time.Second):
				}
				time.Sleep(2 * time.Millisecond)
				q.Stop()
			}
		}
		startPlugins()
		// the plugins connect meanwhile; registrations are accepted one at a time, so the
		// first one gets as far as requestPluginSync and waits there, the others wait
		// unaccepted (their stub.Start returns only after the block is released). The hold
		// stays far below the stubs' registration timeout (5 s).
		time.Sleep(time.Duration(in.HoldMs) * time.Millisecond)
		c := e.nextC.Add(1) - 1
		if _, err := r.A.CreateContainer(context.Background(), &api.CreateContainerRequest{
			Pod: e.pod, Container: rt.Ctr(fmt.Sprintf("c%d", c), "pod0")}); err != nil {
			e.errs.Add(1)
			e.note.Store("CreateContainer: " + err.Error())
		}
		mainLog = e.app(mainLog, []int64{evRelay, rt.Stamp(), bid, c})
		e.storeMu.Lock()
		e.store = append(e.store, c)
		s := rt.Stamp()
		e.storeMu.Unlock()
		mainLog = e.app(mainLog, []int64{evRecord, s, bid, c})
		mainLog = e.app(mainLog, []int64{evUnblock, rt.Stamp(), bid})
		b.Unblock()
		startCreators()
	default:
		startCreators()
		startPlugins()
	}

	done := make(chan struct{})
	go func() { wgC.Wait(); wgP.Wait(); close(done) }()
	select {
	case <-done:
	case <-time.After(deadline):
		stop.Store(true)
		obs.Status = "blocked"
		obs.Note = fmt.Sprintf("after %v: %d of %d plugins synchronised", deadline, e.synced(), in.P)
		select {
		case <-done:
		case <-time.After(5 * time.Second):
		}
	}
	if obs.Status == "ok" {
		if e.synced() < int64(in.P) {
			// creators stopped at the cap before every plugin synchronised: give the
			// registrations the time they need now that no block is being taken
			t := time.Now()
			for e.synced() < int64(in.P) && time.Since(t) < deadline {
				time.Sleep(time.Millisecond)
			}
			if e.synced() < int64(in.P) {
				obs.Status = "blocked"
				obs.Note = fmt.Sprintf("no block held for %v: %d of %d plugins synchronised", deadline, e.synced(), in.P)
			}
		}
		// wait for the last exclusive section to be left (activation happens inside it)
		fin := make(chan struct{})
		go func() { b := r.A.BlockPluginSync(); b.Unblock(); close(fin) }()
		select {
		case <-fin:
		case <-time.After(deadline):
			obs.Status, obs.Note = "blocked", "exclusive section never left"
		}
	}
	if e.errs.Load() > 0 && obs.Status == "ok" {
		obs.Status, obs.Note = "error", e.note.Load().(string)
	}

	// merge the logs
	e.logMu.Lock()
	all := append([][]int64(nil), e.sev...)
	obs.Snaps = e.snaps
	e.logMu.Unlock()
	all = append(all, mainLog...)
	for _, l := range clogs {
		all = append(all, l...)
	}
	sort.Slice(all, func(i, j int) bool { return all[i][1] < all[j][1] })
	obs.Ev = all
	if obs.Snaps == nil {
		obs.Snaps = [][]int64{}
	}
	for i := range obs.Snaps {
		if obs.Snaps[i] == nil {
			obs.Snaps[i] = []int64{}
		}
	}
	e.storeMu.Lock()
	obs.Store = append([]int64{}, e.store...)
	e.storeMu.Unlock()
	obs.Creates = len(obs.Store)
	for i := range pobs {
		pmu[i].Lock()
		po := pobs[i]
		if po.Syncs == nil {
			po.Syncs = []SyncObs{}
		}
		for k := range po.Syncs {
			if po.Syncs[k].Ids == nil {
				po.Syncs[k].Ids = []int64{}
			}
		}
		if po.Got == nil {
			po.Got = []int64{}
		}
		obs.Plugins = append(obs.Plugins, po)
		pmu[i].Unlock()
	}
	return
}

func generate(o *hx.Opts) []In {
	r := o.Rand(8)
	n := o.N(400, 12000)
	var out []In
	procsQuick := []int{2, 4, 8, 16}
	procsAll := []int{1, 2, 3, 4, 8, 16, 32}
	for i := 0; i < n; i++ {
		in := In{Kind: "race", Idx: i, Seed: r.Int63()}
		in.P = 1 + r.Intn(5)
		in.G = 1 + r.Intn(6)
		if i%4 == 0 {
			in.P, in.G = 4, 4
		}
		in.Pre = r.Intn(4)
		in.Extra = 2 + r.Intn(5)
		in.Batch = 1 + r.Intn(3)
		in.Order = []string{"relay-first", "record-first", "mixed", "mixed"}[r.Intn(4)]
		if o.Thorough() {
			in.Procs = procsAll[i%len(procsAll)]
		} else {
			in.Procs = procsQuick[i%len(procsQuick)]
		}
		in.MaxC = 1200
		for p := 0; p < in.P; p++ {
			d := 0
			switch r.Intn(3) {
			case 0:
				d = r.Intn(300)
			case 1:
				d = r.Intn(3000)
			}
			in.StaggerUs = append(in.StaggerUs, d)
			in.Indices = append(in.Indices, r.Intn(100))
		}
		if r.Intn(2) == 0 {
			in.Contend = 1 + r.Intn(3)
			in.DwellUs = []int{20, 50, 100, 200, 400}[r.Intn(5)]
		}
		if r.Intn(4) == 0 {
			in.SyncLagUs = []int{50, 200, 1000}[r.Intn(3)]
		}
		if i%3 == 1 {
			in.Events = 1 + r.Intn(2)
			in.EventDwellUs = []int{100, 500, 2000}[r.Intn(3)]
		}
		if r.Intn(3) == 0 {
			in.DblPct = []int{5, 20, 50}[r.Intn(3)]
		}
		in.FailSync = []int{}
		if r.Intn(8) == 0 && in.P > 1 {
			for p := 1; p < in.P; p++ { // plugin 0 (the contender) always succeeds
				if r.Intn(3) == 0 {
					in.FailSync = append(in.FailSync, p)
				}
			}
		}
		if i%10 == 9 {
			in.Kind = "hold"
			in.Quit = i%20 == 9
			in.HoldMs = 5 + r.Intn(40)
			in.G = 1 + r.Intn(3)
		}
		out = append(out, in)
	}
	return out
}

func replayRuns() int {
	if v := os.Getenv("VERIFH_REPLAY_RUNS"); v != "" {
		if n, err := strconv.Atoi(v); err == nil && n >= 1 {
			return n
		}
	}
	return 40
}

func workers() int {
	if v := os.Getenv("VERIFH_WORKERS"); v != "" {
		if n, err := strconv.Atoi(v); err == nil && n >= 1 {
			return n
		}
	}
	return 4
}

// crashObs rebuilds the observation of a case whose worker died from the journal: the history
// up to the crash, with status "crashed".
func crashObs(in In, c rt.Crashed) Obs {
	obs := Obs{Status: "crashed", Note: c.Note, Ev: [][]int64{}, Snaps: [][]int64{}, Store: []int64{}}
	idx, recs, err := rt.ReadJournal(filepath.Join(c.Scratch, "journal.bin"))
	for p := 0; p < in.P; p++ {
		obs.Plugins = append(obs.Plugins, PlugObs{P: p, Syncs: []SyncObs{}, Got: []int64{}})
	}
	if err != nil || idx != c.At {
		obs.Note += " (no journal for this case)"
		return obs
	}
	for _, r := range recs {
		switch r[0] {
		case evBlock, evUnblock, evUnblockAgain, evSyncBegin, evSnapshot:
			obs.Ev = append(obs.Ev, []int64{r[0], r[1], r[2]})
		case evRelay, evRecord, evSyncRet:
			obs.Ev = append(obs.Ev, []int64{r[0], r[1], r[2], r[3]})
		case jSnapID:
			for int64(len(obs.Snaps)) <= r[2] {
				obs.Snaps = append(obs.Snaps, []int64{})
			}
			obs.Snaps[r[2]] = append(obs.Snaps[r[2]], r[3])
		case jPlugSync:
			if p := int(r[2]); p >= 0 && p < len(obs.Plugins) {
				obs.Plugins[p].Syncs = append(obs.Plugins[p].Syncs, SyncObs{S: r[1], N: r[3], Ids: []int64{}})
			}
		case jPlugSyncID:
			if p := int(r[2]); p >= 0 && p < len(obs.Plugins) {
				for k := range obs.Plugins[p].Syncs {
					if obs.Plugins[p].Syncs[k].N == r[1] {
						obs.Plugins[p].Syncs[k].Ids = append(obs.Plugins[p].Syncs[k].Ids, r[3])
					}
				}
			}
		case jPlugGot:
			if p := int(r[2]); p >= 0 && p < len(obs.Plugins) {
				obs.Plugins[p].Got = append(obs.Plugins[p].Got, r[3])
			}
		case jPlugStart:
			if p := int(r[2]); p >= 0 && p < len(obs.Plugins) {
				obs.Plugins[p].Started = true
			}
		}
	}
	sort.Slice(obs.Ev, func(i, j int) bool { return obs.Ev[i][1] < obs.Ev[j][1] })
	for _, e := range obs.Ev {
		if e[0] == evRecord {
			obs.Store = append(obs.Store, e[3])
		}
	}
	for int64(len(obs.Snaps)) < int64(countKind(obs.Ev, evSyncBegin)) {
		obs.Snaps = append(obs.Snaps, []int64{})
	}
	obs.Creates = len(obs.Store)
	return obs
}

func countKind(ev [][]int64, k int64) int {
	n := 0
	for _, e := range ev {
		if e[0] == k && int(e[2])+1 > n {
			n = int(e[2]) + 1
		}
	}
	return n
}

func Run(o *hx.Opts, w *lineio.Writer) error {
	var cases []In
	if o.Replay != "" {
		rc, err := hx.ReplayCases(o.Replay)
		if err != nil {
			return err
		}
		for _, c := range rc {
			var in In
			if err := json.Unmarshal(c.In, &in); err != nil {
				return err
			}
			if in.Kind == "worker" {
				// the case a crashed worker was running is kept inside the crash line
				var wr struct {
					Input *In `json:"input"`
				}
				if json.Unmarshal(c.In, &wr) != nil || wr.Input == nil {
					continue
				}
				in = *wr.Input
			}
			// the schedule is the Go runtime's: a replayed configuration is re-run several
			// times (every run is judged) so that a schedule-dependent failure reproduces
			for k := 0; k < replayRuns(); k++ {
				cases = append(cases, in)
			}
		}
	} else {
		cases = generate(o)
	}
	var j *rt.Journal
	if os.Getenv("VERIFH_SHARD") != "" {
		j, _ = rt.OpenJournal(filepath.Join(o.Scratch, "journal.bin"), 1<<16)
	}
	id := func(in In, i int) string { return fmt.Sprintf("c08-%s-%d#%d", in.Kind, in.Idx, i) }
	return rt.Sharded(o, w, "C08", len(cases), workers(), func(i int) interface{} { return cases[i] }, func(i int) *lineio.Case {
		in := cases[i]
		if len(in.StaggerUs) < in.P || len(in.Indices) < in.P {
			return &lineio.Case{ID: id(in, i), In: in, Obs: Obs{Status: "error", Note: "malformed input"}}
		}
		dir := filepath.Join(o.Scratch, fmt.Sprintf("r%d", i))
		j.Reset(i)
		obs := runCase(in, dir, j)
		os.RemoveAll(dir)
		return &lineio.Case{ID: id(in, i), In: in, Obs: obs}
	}, func(c rt.Crashed) *lineio.Case {
		in := cases[c.At]
		return &lineio.Case{ID: id(in, c.At) + "-crashed", In: in, Obs: crashObs(in, c)}
	})
}
