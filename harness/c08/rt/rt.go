// Package rt is the shared helper of the C08 and C19 harnesses: a real adaptation.Adaptation
// listening on a real unix socket, real stub plugins connecting to it, runtime callbacks
// supplied by the caller, and ONE global atomic sequence counter for stamping observations.
//
// Stamping discipline (DESIGN.md §4): a stamp is taken AFTER an acquire returned and BEFORE a
// release is called, so an overlap of two stamped intervals in the log is a real overlap.
package rt

import (
	"context"
	"fmt"
	"os"
	"path/filepath"
	"sync"
	"sync/atomic"
	"time"

	"github.com/containerd/nri/pkg/adaptation"
	"github.com/containerd/nri/pkg/api"
	nrilog "github.com/containerd/nri/pkg/log"
	"github.com/containerd/nri/pkg/stub"
)

var seq atomic.Int64

// Stamp returns the next value of the global sequence counter.
func Stamp() int64 { return seq.Add(1) }

type silent struct{}

func (silent) Debugf(context.Context, string, ...interface{}) {}
func (silent) Infof(context.Context, string, ...interface{})  {}
func (silent) Warnf(context.Context, string, ...interface{})  {}
func (silent) Errorf(context.Context, string, ...interface{}) {}

var quietOnce sync.Once

// Quiet silences the repository's logger (it would otherwise print several lines per request).
func Quiet() {
	quietOnce.Do(func() {
		if os.Getenv("VERIFH_LOG") == "" {
			nrilog.Set(silent{})
		}
		// the checks are about locking, not about time-outs: on a loaded machine the
		// repository's 2 s request time-out would drop a starved (correct) plugin and turn
		// load into a false alarm. The harness's own deadlines (30 s per case) stay in force.
		adaptation.SetPluginRequestTimeout(2 * time.Minute)
		adaptation.SetPluginRegistrationTimeout(2 * time.Minute)
	})
}

// Runtime is a started Adaptation with the caller's callbacks.
type Runtime struct {
	A    *adaptation.Adaptation
	Dir  string
	Sock string
}

// NewRuntime creates and starts an Adaptation listening on dir/nri.sock (no pre-installed
// plugins: the plugin directory does not exist).
func NewRuntime(dir string, syncFn adaptation.SyncFn, updateFn adaptation.UpdateFn) (*Runtime, error) {
	Quiet()
	if err := os.MkdirAll(dir, 0o755); err != nil {
		return nil, err
	}
	sock := filepath.Join(dir, "nri.sock")
	if len(sock) >= 100 {
		return nil, fmt.Errorf("socket path too long (%d): %s", len(sock), sock)
	}
	a, err := adaptation.New("verif", "0", syncFn, updateFn,
		adaptation.WithPluginPath(filepath.Join(dir, "plugins")),
		adaptation.WithPluginConfigPath(filepath.Join(dir, "conf.d")),
		adaptation.WithSocketPath(sock),
	)
	if err != nil {
		return nil, err
	}
	if err := a.Start(); err != nil {
		return nil, err
	}
	return &Runtime{A: a, Dir: dir, Sock: sock}, nil
}

func (r *Runtime) Stop() {
	if r != nil && r.A != nil {
		r.A.Stop()
	}
}

// Hooks are the plugin-side observation points; nil hooks are no-ops.
type Hooks struct {
	Configure func() // runs inside the plugin's Configure handler (stub.Start is still in progress)
	Sync      func(pods []*api.PodSandbox, ctrs []*api.Container) error
	Pod       func(pod *api.PodSandbox) // RunPodSandbox, UpdatePodSandbox, StopPodSandbox
	Create    func(pod *api.PodSandbox, ctr *api.Container)
	Update    func(pod *api.PodSandbox, ctr *api.Container)
	Stop      func(pod *api.PodSandbox, ctr *api.Container)
	Start     func(pod *api.PodSandbox, ctr *api.Container)
}

// Plugin is an in-process plugin connected through the real stub. It implements Configure,
// Synchronize, CreateContainer, UpdateContainer, StopContainer, StartContainer, RunPodSandbox,
// UpdatePodSandbox and StopPodSandbox, so its stub subscribes to exactly those events.
type Plugin struct {
	Idx, Name string
	H         Hooks
	Stub      stub.Stub
	closed    chan struct{}
	once      sync.Once
}

func NewPlugin(sock, idx, name string, h Hooks, extra ...stub.Option) (*Plugin, error) {
	Quiet()
	p := &Plugin{Idx: idx, Name: name, H: h, closed: make(chan struct{})}
	opts := []stub.Option{
		stub.WithPluginName(name),
		stub.WithPluginIdx(idx),
		stub.WithSocketPath(sock),
		stub.WithOnClose(func() { p.once.Do(func() { close(p.closed) }) }),
	}
	s, err := stub.New(p, append(opts, extra...)...)
	if err != nil {
		return nil, err
	}
	p.Stub = s
	return p, nil
}

func (p *Plugin) Configure(context.Context, string, string, string) (api.EventMask, error) {
	if p.H.Configure != nil {
		p.H.Configure()
	}
	return 0, nil
}

func (p *Plugin) Synchronize(_ context.Context, pods []*api.PodSandbox, ctrs []*api.Container) ([]*api.ContainerUpdate, error) {
	if p.H.Sync != nil {
		return nil, p.H.Sync(pods, ctrs)
	}
	return nil, nil
}

func (p *Plugin) RunPodSandbox(_ context.Context, pod *api.PodSandbox) error {
	if p.H.Pod != nil {
		p.H.Pod(pod)
	}
	return nil
}

func (p *Plugin) UpdatePodSandbox(_ context.Context, pod *api.PodSandbox, _, _ *api.LinuxResources) error {
	if p.H.Pod != nil {
		p.H.Pod(pod)
	}
	return nil
}

func (p *Plugin) StopPodSandbox(_ context.Context, pod *api.PodSandbox) error {
	if p.H.Pod != nil {
		p.H.Pod(pod)
	}
	return nil
}

func (p *Plugin) CreateContainer(_ context.Context, pod *api.PodSandbox, ctr *api.Container) (*api.ContainerAdjustment, []*api.ContainerUpdate, error) {
	if p.H.Create != nil {
		p.H.Create(pod, ctr)
	}
	return nil, nil, nil
}

func (p *Plugin) UpdateContainer(_ context.Context, pod *api.PodSandbox, ctr *api.Container, _ *api.LinuxResources) ([]*api.ContainerUpdate, error) {
	if p.H.Update != nil {
		p.H.Update(pod, ctr)
	}
	return nil, nil
}

func (p *Plugin) StopContainer(_ context.Context, pod *api.PodSandbox, ctr *api.Container) ([]*api.ContainerUpdate, error) {
	if p.H.Stop != nil {
		p.H.Stop(pod, ctr)
	}
	return nil, nil
}

func (p *Plugin) StartContainer(_ context.Context, pod *api.PodSandbox, ctr *api.Container) error {
	if p.H.Start != nil {
		p.H.Start(pod, ctr)
	}
	return nil
}

// Start connects, registers and waits for configuration (stub.Start).
func (p *Plugin) Start() error { return p.Stub.Start(context.Background()) }

// Stop disconnects the plugin.
func (p *Plugin) Stop() {
	if p.Stub != nil {
		p.Stub.Stop()
	}
}

// Pod / Ctr build the minimal API objects the harnesses pass around.
func Pod(id string) *api.PodSandbox {
	return &api.PodSandbox{Id: id, Name: id, Uid: id, Namespace: "verif"}
}

func Ctr(id, pod string) *api.Container {
	return &api.Container{Id: id, PodSandboxId: pod, Name: id, State: api.ContainerState_CONTAINER_CREATED}
}
