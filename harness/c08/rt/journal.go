package rt

import (
	"encoding/binary"
	"os"
	"sync/atomic"
	"syscall"
)

// Journal is a crash-surviving event log: fixed-size records written into a MAP_SHARED file
// mapping with plain stores (no syscall per record). When the process is killed by a Go fatal
// error ("sync: RUnlock of unlocked RWMutex" cannot be recovered) the records written so far
// are in the page cache and the parent reads them back, so a crash still comes with the
// history that led to it.
//
// Layout: header (32 bytes: case index + 1, 3 spare words), then records of 4 little-endian
// int64: kind+1 (0 = empty slot; written LAST so a torn record is skipped), x, y, z.
type Journal struct {
	f    *os.File
	mem  []byte
	next atomic.Int64
	cap  int64
}

const recSize = 32

func OpenJournal(path string, records int) (*Journal, error) {
	f, err := os.OpenFile(path, os.O_RDWR|os.O_CREATE|os.O_TRUNC, 0o644)
	if err != nil {
		return nil, err
	}
	size := int64(records+1) * recSize
	if err := f.Truncate(size); err != nil {
		f.Close()
		return nil, err
	}
	mem, err := syscall.Mmap(int(f.Fd()), 0, int(size), syscall.PROT_READ|syscall.PROT_WRITE, syscall.MAP_SHARED)
	if err != nil {
		f.Close()
		return nil, err
	}
	return &Journal{f: f, mem: mem, cap: int64(records)}, nil
}

// Reset starts the log of case idx.
func (j *Journal) Reset(idx int) {
	if j == nil {
		return
	}
	clear(j.mem)
	j.next.Store(0)
	binary.LittleEndian.PutUint64(j.mem[0:], uint64(idx+1))
}

// Put appends one record (safe for concurrent use).
func (j *Journal) Put(kind, x, y, z int64) {
	if j == nil {
		return
	}
	n := j.next.Add(1) - 1
	if n >= j.cap {
		return
	}
	o := (n + 1) * recSize
	binary.LittleEndian.PutUint64(j.mem[o+8:], uint64(x))
	binary.LittleEndian.PutUint64(j.mem[o+16:], uint64(y))
	binary.LittleEndian.PutUint64(j.mem[o+24:], uint64(z))
	binary.LittleEndian.PutUint64(j.mem[o:], uint64(kind+1))
}

// ReadJournal returns the case index and the complete records of a journal file, in slot order.
func ReadJournal(path string) (idx int, recs [][4]int64, err error) {
	b, err := os.ReadFile(path)
	if err != nil {
		return -1, nil, err
	}
	if len(b) < recSize {
		return -1, nil, nil
	}
	idx = int(binary.LittleEndian.Uint64(b[0:])) - 1
	for o := recSize; o+recSize <= len(b); o += recSize {
		k := int64(binary.LittleEndian.Uint64(b[o:]))
		if k == 0 {
			continue
		}
		recs = append(recs, [4]int64{k - 1,
			int64(binary.LittleEndian.Uint64(b[o+8:])),
			int64(binary.LittleEndian.Uint64(b[o+16:])),
			int64(binary.LittleEndian.Uint64(b[o+24:]))})
	}
	return idx, recs, nil
}
