package rt

import (
	"bufio"
	"bytes"
	"context"
	"encoding/json"
	"fmt"
	"math/rand"
	"os"
	"os/exec"
	"path/filepath"
	"strconv"
	"strings"
	"sync"
	"time"

	"verifh/internal/hx"
	"verifh/internal/lineio"
)

// NewRand is a PRNG for one case, derived from the case's own seed (which itself came from the
// run seed), so a case replays with the same choices.
func NewRand(seed int64) *rand.Rand { return rand.New(rand.NewSource(seed)) }

type rawCase struct {
	ID  string          `json:"id"`
	In  json.RawMessage `json:"in"`
	Obs json.RawMessage `json:"obs"`
}

// Crashed describes a worker that died while running case At (index into the case list).
type Crashed struct {
	Shard   int
	At      int
	Note    string // first "fatal error:" / "panic:" line of the worker's output
	Scratch string // the dead worker's scratch directory (journals live there)
}

// Sharded runs cases 0..n-1 (case i = fn(i)) in W re-exec'd worker processes (case i goes to
// worker i mod W) and writes their case lines to w. A worker that crashes or is killed yields
// one extra case line for the case it was running — built by crash(c) if given, else
// {"in":{"kind":"worker",…},"obs":{"status":"crashed",…}} — and the worker is restarted on
// the rest of its share: a crash is an observation, not a harness failure.
//
// In a worker (VERIFH_SHARD=k/W, VERIFH_START=first index) it runs the worker's share and
// writes each line, flushed, to <scratch>/shard.jsonl.
func Sharded(o *hx.Opts, w *lineio.Writer, prop string, n, W int, input func(i int) interface{},
	fn func(i int) *lineio.Case, crash func(c Crashed) *lineio.Case) error {
	if sh := os.Getenv("VERIFH_SHARD"); sh != "" {
		var k, tot int
		if _, err := fmt.Sscanf(sh, "%d/%d", &k, &tot); err != nil || tot < 1 {
			return fmt.Errorf("bad VERIFH_SHARD %q", sh)
		}
		first := k
		if v, err := strconv.Atoi(os.Getenv("VERIFH_START")); err == nil && v > first {
			first = v
		}
		f, err := os.OpenFile(filepath.Join(o.Scratch, "shard.jsonl"), os.O_CREATE|os.O_WRONLY|os.O_APPEND, 0o644)
		if err != nil {
			return err
		}
		defer f.Close()
		for i := first; i < n; i += tot {
			os.WriteFile(filepath.Join(o.Scratch, "progress"), []byte(strconv.Itoa(i)), 0o644)
			c := fn(i)
			b, err := json.Marshal(c)
			if err != nil {
				return err
			}
			if _, err := f.Write(append(b, '\n')); err != nil {
				return err
			}
		}
		os.WriteFile(filepath.Join(o.Scratch, "progress"), []byte("done"), 0o644)
		return nil
	}
	if n == 0 {
		return nil
	}
	if W > n {
		W = n
	}
	if W < 1 {
		W = 1
	}
	limit := 12 * time.Minute
	if o.Thorough() {
		limit = 50 * time.Minute
	}
	ctx, cancel := context.WithTimeout(context.Background(), limit)
	defer cancel()
	crashes := make([][]*lineio.Case, W)
	var wg sync.WaitGroup
	for k := 0; k < W; k++ {
		k := k
		out := filepath.Join(o.Scratch, fmt.Sprintf("w%d", k))
		scratch := filepath.Join(out, "scratch")
		wg.Add(1)
		go func() {
			defer wg.Done()
			start := k
			for restarts := 0; restarts <= 40 && start < n; restarts++ {
				args := []string{prop, "-tier", o.Tier, "-seed", strconv.FormatInt(o.Seed, 10), "-out", out,
					"-budget", strconv.Itoa(o.Budget)}
				if o.Replay != "" {
					args = append(args, "-replay", o.Replay)
				}
				cmd := exec.CommandContext(ctx, os.Args[0], args...)
				cmd.Env = append(os.Environ(), fmt.Sprintf("VERIFH_SHARD=%d/%d", k, W), fmt.Sprintf("VERIFH_START=%d", start))
				var eb bytes.Buffer
				cmd.Stderr = &eb
				cmd.Stdout = &eb
				os.Remove(filepath.Join(scratch, "progress"))
				err := cmd.Run()
				at := -2
				if b, e := os.ReadFile(filepath.Join(scratch, "progress")); e == nil {
					if strings.TrimSpace(string(b)) == "done" {
						at = -1
					} else if v, e := strconv.Atoi(strings.TrimSpace(string(b))); e == nil {
						at = v
					}
				}
				if err == nil && at == -1 {
					return
				}
				note := firstPanicLine(eb.String())
				if err != nil {
					note = err.Error() + ": " + note
				}
				c := Crashed{Shard: k, At: at, Note: note, Scratch: scratch}
				var cl *lineio.Case
				if crash != nil && at >= 0 && at < n {
					cl = crash(c)
				}
				if cl == nil {
					var inp interface{}
					if at >= 0 && at < n && input != nil {
						inp = input(at)
					}
					cl = &lineio.Case{ID: fmt.Sprintf("%s-worker-%d-%d", prop, k, at),
						In:  map[string]interface{}{"kind": "worker", "shard": k, "case": at, "input": inp},
						Obs: map[string]interface{}{"status": "crashed", "note": note}}
				}
				crashes[k] = append(crashes[k], cl)
				if at < 0 || ctx.Err() != nil {
					return // died before its first case or ran out of time: do not loop
				}
				start = at + W
			}
		}()
	}
	wg.Wait()
	for k := 0; k < W; k++ {
		f, err := os.Open(filepath.Join(o.Scratch, fmt.Sprintf("w%d", k), "scratch", "shard.jsonl"))
		if err == nil {
			sc := bufio.NewScanner(f)
			sc.Buffer(make([]byte, 1<<20), 1<<30)
			for sc.Scan() {
				var rc rawCase
				if json.Unmarshal(sc.Bytes(), &rc) == nil && rc.In != nil {
					if err := w.Put(&lineio.Case{ID: rc.ID, In: rc.In, Obs: rc.Obs}); err != nil {
						f.Close()
						return err
					}
				}
			}
			f.Close()
		}
		for _, c := range crashes[k] {
			if err := w.Put(c); err != nil {
				return err
			}
		}
	}
	return nil
}

func firstPanicLine(s string) string {
	for _, l := range strings.Split(s, "\n") {
		if strings.HasPrefix(l, "panic:") || strings.HasPrefix(l, "fatal error:") || strings.HasPrefix(l, "fatal:") {
			return l
		}
	}
	ls := strings.Split(strings.TrimSpace(s), "\n")
	if len(ls) > 0 {
		l := ls[len(ls)-1]
		if len(l) > 300 {
			l = l[:300]
		}
		return l
	}
	return ""
}
