package rt

import (
	"bufio"
	"bytes"
	"context"
	"encoding/json"
	"fmt"
	"math/rand"
	"os"
	"os/exec"
	"path/filepath"
	"strconv"
	"strings"
	"sync"
	"time"

	"verifh/internal/hx"
	"verifh/internal/lineio"
)

// NewRand is a PRNG for one case, derived from the case's own seed (which itself came from the
// run seed), so a case replays with the same choices.
func NewRand(seed int64) *rand.Rand { return rand.New(rand.NewSource(seed)) }

type rawCase struct {
	ID  string          `json:"id"`
	In  json.RawMessage `json:"in"`
	Obs json.RawMessage `json:"obs"`
}

// Sharded runs cases 0..n-1 (case i = fn(i)) in W re-exec'd worker processes (case i goes to
// worker i mod W) and writes their case lines, in case order, to w. A worker that crashes or
// is killed yields one extra case line {"in":{"kind":"worker",…},"obs":{"status":"crashed",…}}
// naming the case it was running: a crash is an observation, not a harness failure.
//
// In a worker (VERIFH_SHARD=k/W) it runs the worker's share and writes each line, flushed, to
// <scratch>/shard.jsonl.
func Sharded(o *hx.Opts, w *lineio.Writer, prop string, n, W int, input func(i int) interface{}, fn func(i int) *lineio.Case) error {
	if sh := os.Getenv("VERIFH_SHARD"); sh != "" {
		var k, tot int
		if _, err := fmt.Sscanf(sh, "%d/%d", &k, &tot); err != nil || tot < 1 {
			return fmt.Errorf("bad VERIFH_SHARD %q", sh)
		}
		f, err := os.Create(filepath.Join(o.Scratch, "shard.jsonl"))
		if err != nil {
			return err
		}
		defer f.Close()
		for i := k; i < n; i += tot {
			os.WriteFile(filepath.Join(o.Scratch, "progress"), []byte(strconv.Itoa(i)), 0o644)
			c := fn(i)
			b, err := json.Marshal(c)
			if err != nil {
				return err
			}
			if _, err := f.Write(append(b, '\n')); err != nil {
				return err
			}
		}
		os.WriteFile(filepath.Join(o.Scratch, "progress"), []byte("done"), 0o644)
		return nil
	}
	if n == 0 {
		return nil
	}
	if W > n {
		W = n
	}
	if W < 1 {
		W = 1
	}
	limit := 12 * time.Minute
	if o.Thorough() {
		limit = 50 * time.Minute
	}
	ctx, cancel := context.WithTimeout(context.Background(), limit)
	defer cancel()
	type res struct {
		err    error
		stderr string
	}
	results := make([]res, W)
	var wg sync.WaitGroup
	for k := 0; k < W; k++ {
		k := k
		out := filepath.Join(o.Scratch, fmt.Sprintf("w%d", k))
		args := []string{prop, "-tier", o.Tier, "-seed", strconv.FormatInt(o.Seed, 10), "-out", out,
			"-budget", strconv.Itoa(o.Budget)}
		if o.Replay != "" {
			args = append(args, "-replay", o.Replay)
		}
		cmd := exec.CommandContext(ctx, os.Args[0], args...)
		cmd.Env = append(os.Environ(), fmt.Sprintf("VERIFH_SHARD=%d/%d", k, W))
		var eb bytes.Buffer
		cmd.Stderr = &eb
		cmd.Stdout = &eb
		wg.Add(1)
		go func() {
			defer wg.Done()
			err := cmd.Run()
			s := eb.String()
			if len(s) > 6000 {
				s = s[:3000] + "\n…\n" + s[len(s)-3000:]
			}
			results[k] = res{err, s}
		}()
	}
	wg.Wait()
	// collect
	lines := make([][]rawCase, W)
	for k := 0; k < W; k++ {
		f, err := os.Open(filepath.Join(o.Scratch, fmt.Sprintf("w%d", k), "scratch", "shard.jsonl"))
		if err != nil {
			continue
		}
		sc := bufio.NewScanner(f)
		sc.Buffer(make([]byte, 1<<20), 1<<30)
		for sc.Scan() {
			var rc rawCase
			if json.Unmarshal(sc.Bytes(), &rc) == nil && rc.In != nil {
				lines[k] = append(lines[k], rc)
			}
		}
		f.Close()
	}
	pos := make([]int, W)
	for i := 0; i < n; i++ {
		k := i % W
		if pos[k] < len(lines[k]) {
			rc := lines[k][pos[k]]
			pos[k]++
			if err := w.Put(&lineio.Case{ID: rc.ID, In: rc.In, Obs: rc.Obs}); err != nil {
				return err
			}
		}
	}
	for k := 0; k < W; k++ {
		expect := (n - k + W - 1) / W
		if results[k].err == nil && len(lines[k]) == expect {
			continue
		}
		at := -1
		if b, err := os.ReadFile(filepath.Join(o.Scratch, fmt.Sprintf("w%d", k), "scratch", "progress")); err == nil {
			if v, err := strconv.Atoi(strings.TrimSpace(string(b))); err == nil {
				at = v
			}
		}
		note := firstPanicLine(results[k].stderr)
		if results[k].err != nil {
			note = results[k].err.Error() + ": " + note
		}
		var inp interface{}
		if at >= 0 && at < n && input != nil {
			inp = input(at)
		}
		if err := w.Put(&lineio.Case{ID: fmt.Sprintf("%s-worker-%d", prop, k),
			In:  map[string]interface{}{"kind": "worker", "shard": k, "case": at, "input": inp},
			Obs: map[string]interface{}{"status": "crashed", "note": note, "got": len(lines[k]), "expected": expect}}); err != nil {
			return err
		}
	}
	return nil
}

func firstPanicLine(s string) string {
	for _, l := range strings.Split(s, "\n") {
		if strings.HasPrefix(l, "panic:") || strings.HasPrefix(l, "fatal error:") {
			return l
		}
	}
	ls := strings.Split(strings.TrimSpace(s), "\n")
	if len(ls) > 0 {
		l := ls[len(ls)-1]
		if len(l) > 300 {
			l = l[:300]
		}
		return l
	}
	return ""
}
