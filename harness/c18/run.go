// Package c18 is the correspondence harness for property C18 (placeholder).
package c18

import (
	"errors"

	"verifh/internal/hx"
	"verifh/internal/lineio"
)

func Run(o *hx.Opts, w *lineio.Writer) error {
	return errors.New("C18 harness not implemented")
}
