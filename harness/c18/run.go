// Package c18 is the correspondence harness for property C18: pre-installed plugins are
// discovered, launched, configured, ordered, skipped and reaped as documented. Each case is
// a generated plugin directory + drop-in directory under o.Scratch on which a real
// adaptation.Adaptation is started; the plugins are copies (hard links / symlinks) of the
// two-stage probe program in ./probe (syscall-only: reports inherited descriptors, environment,
// argv) and ./probe2 (stub-based plugin: records Configure and requests), built at run time,
// which misbehaves as its file name says.
package c18

import (
	"bufio"
	"context"
	"encoding/json"
	"fmt"
	"net"
	"os"
	"os/exec"
	"path/filepath"
	"sort"
	"strconv"
	"strings"
	"sync"
	"sync/atomic"
	"syscall"
	"time"

	"github.com/containerd/nri/pkg/adaptation"
	"github.com/containerd/nri/pkg/api"

	"verifh/internal/hx"
	"verifh/internal/lineio"
)

// ---------------------------------------------------------------- line protocol

type entryIn struct {
	Name    string `json:"name"`
	Kind    string `json:"kind"`    // file | dir | symlink
	Mode    uint32 `json:"mode"`    // permission bits (file, dir)
	Content string `json:"content"` // file: probe | text | script | wasm
	Target  string `json:"target"`  // symlink: probe (executable probe) | noexec (probe, mode 0644) | dir | missing | text
	Behave  string `json:"behave"`  // what a probe started under this name does: ok|exit|hang|drop|cfgfail|syncfail|die|idleclose|idleexit
}

type dropinIn struct {
	Name    string `json:"name"`
	Kind    string `json:"kind"` // file | dir
	Content string `json:"content"`
}

type dirIn struct {
	Kind       string     `json:"kind"` // "dir"
	Stream     string     `json:"stream"`
	Entries    []entryIn  `json:"entries"`
	Dropins    []dropinIn `json:"dropins"`
	Plan       []string   `json:"plan"`       // after Start: "r" = relay a CreateContainer, "idle" = let idle-acting probes act; then Stop
	NoDir      bool       `json:"nodir"`      // the plugin directory does not exist
	NoDropins  bool       `json:"nodropins"`  // the drop-in directory does not exist
	Root       bool       `json:"root"`       // the harness runs as root (any x bit suffices to exec)
	RegTimeout int        `json:"regtimeout"` // ms, the registration timeout in force
	// Restart: after Stop the SAME Adaptation is started again (plan replayed, stopped again);
	// the second session is observed like the first (obs.round2) and judged by the same rules
	Restart bool `json:"restart"`
}

type probeObs struct {
	File       string   `json:"file"`
	Argv       []string `json:"argv"` // base names
	Env        []string `json:"env"`  // sorted
	FDs        []string `json:"fds"`  // "n:kind", kind ∈ null socket pipe file other
	Configured bool     `json:"configured"`
	Config     string   `json:"config"`
	Runtime    string   `json:"runtime"` // name/version seen in Configure
	After      string   `json:"after"`   // gone | zombie | alive  (process table after Stop)
}

type logLine struct {
	Who string `json:"who"`
	Ev  string `json:"ev"`
	Arg string `json:"arg"`
}

type dirObs struct {
	Start  string     `json:"start"` // ok | invalid-name | config | other:<text>
	Log    []logLine  `json:"log"`   // start / configure / synchronize / create lines in file order
	Noise  []string   `json:"noise"` // other events logged by probes (stub-error, run-error, …)
	Probes []probeObs `json:"probes"`
	Stray  int        `json:"stray"` // live processes running a file of this case's plugin dir after Stop
	R1     string     `json:"r1"`    // "" or "error": did any relayed request fail
	R2     string     `json:"r2"`    // unused (kept for old replays)
	WallMs int64      `json:"wall_ms"`
	Round2 *dirObs    `json:"round2,omitempty"` // the session after a restart of the same Adaptation
}

func behaveOf(name string) string {
	base := name
	if len(base) >= 3 && base[2] == '-' {
		base = base[3:]
	}
	for _, m := range []string{"ok", "exit", "hang", "drop", "cfgfail", "syncfail", "die", "idleclose", "idleexit"} {
		if strings.HasPrefix(base, m) {
			return m
		}
	}
	return "ok"
}

// ---------------------------------------------------------------- probe binary

// masters holds one copy of each executable content (probe, script) per permission-bit
// pattern; plugin directory entries are hard links to them. All copies are made BEFORE the
// first runtime is started: a file that is still open for writing anywhere — including, for
// an instant, in a child forked by a concurrent os/exec — cannot be executed (ETXTBSY), and
// that must not be mistaken for NRI failing to launch a plugin.
type masters struct {
	dir string
	mu  sync.Mutex
	src string            // the built probe
	by  map[string]string // content:mode -> path
}

func harnessDir() (string, error) {
	if d := os.Getenv("VERIF_DIR"); d != "" {
		return filepath.Join(d, "harness"), nil
	}
	wd, _ := os.Getwd()
	for _, c := range []string{filepath.Join(wd, "harness"), wd, filepath.Join(wd, "..", "harness")} {
		if _, err := os.Stat(filepath.Join(c, "c18", "probe", "main.go")); err == nil {
			return c, nil
		}
	}
	return "", fmt.Errorf("cannot find the harness sources (set VERIF_DIR)")
}

func buildProbe(out, pkg string) error {
	hd, err := harnessDir()
	if err != nil {
		return err
	}
	args := []string{"build", "-tags", "verif", "-ldflags", "-s -w"}
	// a private module file next to the output (the harness's go.mod with the nri replacement
	// pointing at the repository under test), so that concurrent checks cannot interfere
	repo := os.Getenv("VERIF_REPO")
	if repo == "" {
		repo = "/repo"
	}
	if rp, err := filepath.EvalSymlinks(repo); err == nil {
		repo = rp
	}
	mod, err := os.ReadFile(filepath.Join(hd, "go.mod"))
	if err != nil {
		return err
	}
	mf := out + ".mod"
	if err := os.WriteFile(mf, []byte(strings.ReplaceAll(string(mod), "=> /repo", "=> "+repo)), 0o644); err != nil {
		return err
	}
	if sum, err := os.ReadFile(filepath.Join(repo, "go.sum")); err == nil {
		if err := os.WriteFile(out+".sum", sum, 0o644); err != nil {
			return err
		}
	}
	args = append(args, "-modfile", mf)
	args = append(args, "-o", out, pkg)
	ctx, cancel := context.WithTimeout(context.Background(), 10*time.Minute)
	defer cancel()
	cmd := exec.CommandContext(ctx, "go", args...)
	cmd.Dir = hd
	cmd.Env = append(os.Environ(), "GOFLAGS=-mod=mod", "GOPROXY=off", "GOSUMDB=off", "GOTOOLCHAIN=local", "CGO_ENABLED=0")
	if b, err := cmd.CombinedOutput(); err != nil {
		return fmt.Errorf("go build probe: %v\n%s", err, b)
	}
	return nil
}

func copyFile(src, dst string, mode os.FileMode) error {
	b, err := os.ReadFile(src)
	if err != nil {
		return err
	}
	if err := os.WriteFile(dst, b, 0o600); err != nil {
		return err
	}
	return os.Chmod(dst, mode)
}

// master returns the copy of `content` with exactly the given permission bits; it must have
// been prepared (see prepare) before any runtime was started.
func (m *masters) master(content string, mode uint32) (string, error) {
	m.mu.Lock()
	defer m.mu.Unlock()
	k := fmt.Sprintf("%s-%04o", content, mode)
	if p, ok := m.by[k]; ok {
		return p, nil
	}
	return "", fmt.Errorf("no master copy %s prepared", k)
}

func (m *masters) prepare(inputs []*dirIn) error {
	need := map[string]bool{"probe-0755": true, "probe-0644": true}
	for _, in := range inputs {
		for _, e := range in.Entries {
			if e.Kind == "file" && (e.Content == "probe" || e.Content == "script") {
				need[fmt.Sprintf("%s-%04o", e.Content, e.Mode)] = true
			}
		}
	}
	for k := range need {
		var content string
		var mode uint32
		i := strings.LastIndex(k, "-")
		content = k[:i]
		md, _ := strconv.ParseUint(k[i+1:], 8, 32)
		mode = uint32(md)
		p := filepath.Join(m.dir, k)
		if content == "probe" {
			if err := copyFile(m.src, p, os.FileMode(mode)); err != nil {
				return err
			}
		} else {
			if err := os.WriteFile(p, []byte("#!/bin/sh\nexit 0\n"), 0o600); err != nil {
				return err
			}
			if err := os.Chmod(p, os.FileMode(mode)); err != nil {
				return err
			}
		}
		m.by[k] = p
	}
	return nil
}

// ---------------------------------------------------------------- one case

var wasmHeader = []byte{0x00, 0x61, 0x73, 0x6d, 0x01, 0x00, 0x00, 0x00}

func populate(in *dirIn, base string, ms *masters) error {
	pdir, cdir, rdir := filepath.Join(base, "plugins"), filepath.Join(base, "conf.d"), filepath.Join(base, "reports")
	if err := os.MkdirAll(rdir, 0o755); err != nil {
		return err
	}
	if !in.NoDir {
		if err := os.MkdirAll(pdir, 0o755); err != nil {
			return err
		}
		for _, e := range in.Entries {
			p := filepath.Join(pdir, e.Name)
			switch e.Kind {
			case "dir":
				if err := os.Mkdir(p, 0o700); err != nil {
					return err
				}
				if err := os.Chmod(p, os.FileMode(e.Mode)); err != nil {
					return err
				}
			case "symlink":
				var target string
				switch e.Target {
				case "probe":
					t, err := ms.master("probe", 0o755)
					if err != nil {
						return err
					}
					target = t
				case "noexec":
					t, err := ms.master("probe", 0o644)
					if err != nil {
						return err
					}
					target = t
				case "dir":
					target = rdir
				case "text":
					target = filepath.Join(base, "notes.txt")
					if err := os.WriteFile(target, []byte("not a program\n"), 0o644); err != nil {
						return err
					}
				default:
					target = filepath.Join(base, "does-not-exist")
				}
				if err := os.Symlink(target, p); err != nil {
					return err
				}
			default:
				switch e.Content {
				case "probe", "script":
					t, err := ms.master(e.Content, e.Mode)
					if err != nil {
						return err
					}
					if err := os.Link(t, p); err != nil {
						return err
					}
				case "wasm":
					if err := os.WriteFile(p, wasmHeader, 0o600); err != nil {
						return err
					}
				default:
					if err := os.WriteFile(p, []byte("just text, no interpreter line\n"), 0o600); err != nil {
						return err
					}
				}
				if e.Content != "probe" && e.Content != "script" {
					if err := os.Chmod(p, os.FileMode(e.Mode)); err != nil {
						return err
					}
				}
			}
		}
	}
	if !in.NoDropins {
		if err := os.MkdirAll(cdir, 0o755); err != nil {
			return err
		}
		for _, d := range in.Dropins {
			p := filepath.Join(cdir, d.Name)
			if d.Kind == "dir" {
				if err := os.Mkdir(p, 0o755); err != nil {
					return err
				}
			} else if err := os.WriteFile(p, []byte(d.Content), 0o644); err != nil {
				return err
			}
		}
	}
	return nil
}

func fdKind(link string) string {
	switch {
	case link == "/dev/null":
		return "null"
	case strings.HasPrefix(link, "socket:"):
		return "socket"
	case strings.HasPrefix(link, "pipe:"):
		return "pipe"
	case strings.HasPrefix(link, "anon_inode:"):
		return "anon"
	case strings.HasPrefix(link, "/"):
		return "file"
	}
	return "other"
}

func procState(pid int) string {
	b, err := os.ReadFile("/proc/" + strconv.Itoa(pid) + "/stat")
	if err != nil {
		return "gone"
	}
	s := string(b)
	i := strings.LastIndex(s, ")")
	if i < 0 || i+2 >= len(s) {
		return "gone"
	}
	f := strings.Fields(s[i+2:])
	if len(f) < 2 {
		return "gone"
	}
	if ppid, _ := strconv.Atoi(f[1]); ppid != os.Getpid() {
		return "gone" // the pid was reused by somebody else's process
	}
	if f[0] == "Z" {
		return "zombie"
	}
	return "alive"
}

// live processes whose executable or argv[0] lies in dir
func strays(dir string, known map[int]bool) int {
	n := 0
	ents, _ := os.ReadDir("/proc")
	for _, e := range ents {
		pid, err := strconv.Atoi(e.Name())
		if err != nil || known[pid] {
			continue
		}
		b, err := os.ReadFile("/proc/" + e.Name() + "/cmdline")
		if err != nil || len(b) == 0 {
			continue
		}
		if strings.HasPrefix(string(b), dir+"/") {
			n++
		}
	}
	return n
}

func errClass(err error) string {
	if err == nil {
		return ""
	}
	s := err.Error()
	switch {
	case strings.Contains(s, "invalid plugin name"), strings.Contains(s, "invalid plugin index"):
		return "invalid-name"
	case strings.Contains(s, "failed to read configuration"):
		return "config"
	}
	if len(s) > 120 {
		s = s[:120]
	}
	return "other:" + s
}

var startMu sync.Mutex // adaptation.New spins up a wazero runtime; keep construction serial

func runCase(in *dirIn, base string, ms *masters) (dirObs, error) {
	o := dirObs{Log: []logLine{}, Noise: []string{}, Probes: []probeObs{}}
	if err := populate(in, base, ms); err != nil {
		return o, err
	}
	pdir, cdir, rdir := filepath.Join(base, "plugins"), filepath.Join(base, "conf.d"), filepath.Join(base, "reports")
	t0 := time.Now()
	syncFn := func(ctx context.Context, cb adaptation.SyncCB) error {
		_, err := cb(ctx, []*api.PodSandbox{{Id: "p0", Name: "p0"}}, []*api.Container{{Id: "c0", PodSandboxId: "p0", Name: "c0"}})
		return err
	}
	updateFn := func(context.Context, []*api.ContainerUpdate) ([]*api.ContainerUpdate, error) { return nil, nil }
	startMu.Lock()
	r, err := adaptation.New("verif-runtime", "v18", syncFn, updateFn,
		adaptation.WithPluginPath(pdir), adaptation.WithPluginConfigPath(cdir), adaptation.WithDisabledExternalConnections())
	startMu.Unlock()
	if err != nil {
		return o, err
	}
	round := func(o dirObs) dirObs {
		serr := r.Start()
		o.Start = "ok"
		if serr != nil {
			o.Start = errClass(serr)
		}
		req := func(id string) string {
			ctx, cancel := context.WithTimeout(context.Background(), 60*time.Second)
			defer cancel()
			_, err := r.CreateContainer(ctx, &api.CreateContainerRequest{
				Pod:       &api.PodSandbox{Id: "p0", Name: "p0"},
				Container: &api.Container{Id: id, PodSandboxId: "p0", Name: id},
			})
			if err != nil {
				return "error"
			}
			return ""
		}
		readStarts := func() map[string]*startRep {
			m := map[string]*startRep{}
			ents, _ := os.ReadDir(rdir)
			for _, e := range ents {
				if !strings.HasSuffix(e.Name(), ".start") || strings.HasPrefix(e.Name(), ".") {
					continue
				}
				b, err := os.ReadFile(filepath.Join(rdir, e.Name()))
				if err != nil {
					continue
				}
				sr := &startRep{}
				if json.Unmarshal(b, sr) == nil {
					m[sr.File] = sr
				}
			}
			return m
		}
		readLog := func() []logLine {
			var ls []logLine
			if f, err := os.Open(filepath.Join(rdir, "log")); err == nil {
				sc := bufio.NewScanner(f)
				for sc.Scan() {
					var l logLine
					if json.Unmarshal(sc.Bytes(), &l) == nil {
						ls = append(ls, l)
					}
				}
				f.Close()
			}
			return ls
		}
		if serr == nil {
			nreq, idled := 0, false
			for _, st := range in.Plan {
				switch st {
				case "r":
					nreq++
					if req(fmt.Sprintf("r%d", nreq)) != "" {
						o.R1 = "error"
					}
					// let the probes that die after their first request finish dying
					deadline := time.Now().Add(5 * time.Second)
					for time.Now().Before(deadline) {
						pending := false
						for f, sr := range readStarts() {
							if behaveOf(f) == "die" && procState(sr.Pid) == "alive" {
								pending = true
							}
						}
						if !pending {
							break
						}
						time.Sleep(5 * time.Millisecond)
					}
					time.Sleep(20 * time.Millisecond) // the runtime's close notification for the dead connection
				case "idle":
					if idled {
						continue
					}
					idled = true
					// the runtime is idle now: tell the probes that close / exit on their own to do so, wait
					// until each has, then give the runtime time to notice the closed connections
					os.WriteFile(filepath.Join(rdir, "idle"), nil, 0o644)
					deadline := time.Now().Add(10 * time.Second)
					for time.Now().Before(deadline) {
						done := map[string]bool{}
						for _, l := range readLog() {
							if l.Ev == "idle-closed" || l.Ev == "idle-exit" {
								done[l.Who] = true
							}
						}
						pending := false
						for f, sr := range readStarts() {
							switch behaveOf(f) {
							case "idleclose":
								if !done[f] && procState(sr.Pid) == "alive" {
									pending = true
								}
							case "idleexit":
								if procState(sr.Pid) == "alive" {
									pending = true
								}
							}
						}
						if !pending {
							break
						}
						time.Sleep(5 * time.Millisecond)
					}
					time.Sleep(150 * time.Millisecond)
				}
			}
		}
		r.Stop()
		starts := readStarts()
		// process table: dropped plugins are killed and reaped by a goroutine of the runtime; give it
		// time (up to 5 s while anything is still running, 1.5 s for exited-but-unreaped children)
		known := map[int]bool{}
		t1 := time.Now()
		for {
			alive, zombie := false, false
			for _, sr := range starts {
				known[sr.Pid] = true
				switch procState(sr.Pid) {
				case "alive":
					alive = true
				case "zombie":
					zombie = true
				}
			}
			el := time.Since(t1)
			if (!alive && !zombie) || (!alive && el > 1500*time.Millisecond) || el > 5*time.Second {
				break
			}
			time.Sleep(10 * time.Millisecond)
		}
		o.Stray = strays(pdir, known)
		for _, sr := range starts {
			p := probeObs{File: sr.File, Env: sr.Env, Argv: []string{}, FDs: []string{}, After: procState(sr.Pid)}
			if p.Env == nil {
				p.Env = []string{}
			}
			sort.Strings(p.Env)
			for _, a := range sr.Argv {
				p.Argv = append(p.Argv, filepath.Base(a))
			}
			for _, fd := range sr.FDs {
				p.FDs = append(p.FDs, fmt.Sprintf("%d:%s", fd.FD, fdKind(fd.Link)))
			}
			if b, err := os.ReadFile(filepath.Join(rdir, sr.File+".configure")); err == nil {
				var c struct {
					Config         string `json:"config"`
					RuntimeName    string `json:"runtime_name"`
					RuntimeVersion string `json:"runtime_version"`
				}
				if json.Unmarshal(b, &c) == nil {
					p.Configured, p.Config, p.Runtime = true, c.Config, c.RuntimeName+"/"+c.RuntimeVersion
				}
			}
			o.Probes = append(o.Probes, p)
		}
		// whatever the runtime left behind has been recorded; do not leave it behind ourselves
		for _, sr := range starts {
			if st := procState(sr.Pid); st == "alive" || st == "zombie" {
				syscall.Kill(sr.Pid, syscall.SIGKILL)
				var ws syscall.WaitStatus
				syscall.Wait4(sr.Pid, &ws, 0, nil)
			}
		}
		sort.Slice(o.Probes, func(i, j int) bool { return o.Probes[i].File < o.Probes[j].File })
		if f, err := os.Open(filepath.Join(rdir, "log")); err == nil {
			sc := bufio.NewScanner(f)
			for sc.Scan() {
				var l logLine
				if json.Unmarshal(sc.Bytes(), &l) != nil {
					continue
				}
				switch l.Ev {
				case "start", "configure", "synchronize", "create":
					o.Log = append(o.Log, l)
				default:
					o.Noise = append(o.Noise, l.Who+":"+l.Ev)
				}
			}
			f.Close()
		}
		sort.Strings(o.Noise)
		o.WallMs = time.Since(t0).Milliseconds()
		return o
	}
	o = round(o)
	if in.Restart && o.Start == "ok" {
		// second session of the same Adaptation: fresh reports, same directory and drop-ins
		ents, _ := os.ReadDir(rdir)
		for _, e := range ents {
			os.Remove(filepath.Join(rdir, e.Name()))
		}
		o2 := round(dirObs{Log: []logLine{}, Noise: []string{}, Probes: []probeObs{}})
		o.Round2 = &o2
	}
	return o, nil
}

type startRep struct {
	File string   `json:"file"`
	Argv []string `json:"argv"`
	Env  []string `json:"env"`
	FDs  []struct {
		FD   int    `json:"fd"`
		Link string `json:"link"`
	} `json:"fds"`
	Pid int `json:"pid"`
}

// ---------------------------------------------------------------- descriptors the "runtime" holds

// holdDescriptors opens files, sockets and a pipe in this process (the runtime of every
// case) and keeps them open for the whole run, so that a launched plugin inheriting any of
// them would show it in its descriptor list.
func holdDescriptors(dir string) (func(), int) {
	var closers []func()
	n := 0
	for i := 0; i < 4; i++ {
		if f, err := os.Create(filepath.Join(dir, fmt.Sprintf("held-%d", i))); err == nil {
			closers = append(closers, func() { f.Close() })
			n++
		}
	}
	if l, err := net.Listen("unix", filepath.Join(dir, "held.sock")); err == nil {
		closers = append(closers, func() { l.Close() })
		n++
		if c, err := net.Dial("unix", filepath.Join(dir, "held.sock")); err == nil {
			closers = append(closers, func() { c.Close() })
			n++
		}
	}
	if l, err := net.Listen("tcp", "127.0.0.1:0"); err == nil {
		closers = append(closers, func() { l.Close() })
		n++
	}
	if r, w, err := os.Pipe(); err == nil {
		closers = append(closers, func() { r.Close(); w.Close() })
		n += 2
	}
	if fds, err := syscall.Socketpair(syscall.AF_UNIX, syscall.SOCK_STREAM|syscall.SOCK_CLOEXEC, 0); err == nil {
		closers = append(closers, func() { syscall.Close(fds[0]); syscall.Close(fds[1]) })
		n += 2
	}
	return func() {
		for _, c := range closers {
			c()
		}
	}, n
}

// ---------------------------------------------------------------- Run

const regTimeout = 5 * time.Second

func Run(o *hx.Opts, w *lineio.Writer) error {
	var inputs []*dirIn
	var ids []string
	if o.Replay != "" {
		cases, err := hx.ReplayCases(o.Replay)
		if err != nil {
			return err
		}
		for _, c := range cases {
			in := &dirIn{}
			if err := json.Unmarshal(c.In, in); err != nil {
				return err
			}
			if in.Kind != "dir" {
				return fmt.Errorf("unknown case kind %q", in.Kind)
			}
			inputs = append(inputs, in)
			ids = append(ids, c.ID)
		}
	} else {
		inputs = generate(o)
		for i, in := range inputs {
			ids = append(ids, fmt.Sprintf("%s-%d", in.Stream, i))
		}
	}
	if len(inputs) == 0 {
		return nil
	}
	root := os.Geteuid() == 0
	for _, in := range inputs {
		in.Root = root
		if in.Plan == nil {
			in.Plan = []string{"r", "r"} // replays recorded before plans existed
		}
		in.RegTimeout = int(regTimeout / time.Millisecond)
		for i := range in.Entries {
			in.Entries[i].Behave = behaveOf(in.Entries[i].Name)
		}
	}
	bin := filepath.Join(o.Scratch, "bin")
	if err := os.MkdirAll(bin, 0o755); err != nil {
		return err
	}
	ms := &masters{dir: bin, src: filepath.Join(bin, "probe"), by: map[string]string{}}
	t0 := time.Now()
	if err := buildProbe(ms.src, "./c18/probe"); err != nil {
		return err
	}
	if err := buildProbe(filepath.Join(bin, "probe2"), "./c18/probe2"); err != nil {
		return err
	}
	if err := ms.prepare(inputs); err != nil {
		return err
	}
	tBuild := time.Since(t0)
	release, held := holdDescriptors(bin)
	defer release()
	adaptation.SetPluginRegistrationTimeout(regTimeout)
	adaptation.SetPluginRequestTimeout(30 * time.Second)

	nw := 8
	if len(inputs) < nw {
		nw = len(inputs)
	}
	obs := make([]dirObs, len(inputs))
	errs := make([]error, len(inputs))
	skipped := make([]bool, len(inputs))
	var nBlocked atomic.Int64
	var wg sync.WaitGroup
	t1 := time.Now()
	for k := 0; k < nw; k++ {
		wg.Add(1)
		go func(k int) {
			defer wg.Done()
			for i := k; i < len(inputs); i += nw {
				if nBlocked.Load() >= 3 {
					// circuit breaker: the implementation evidently hangs; what has been recorded
					// suffices as failing input, every further hanging case costs its full deadline
					skipped[i] = true
					continue
				}
				base := filepath.Join(o.Scratch, fmt.Sprintf("d%d", i))
				// a Start / request / Stop that never returns is an observation, not a harness failure
				type res struct {
					o   dirObs
					err error
				}
				ch := make(chan res, 1)
				go func() {
					o, err := runCase(inputs[i], base, ms)
					ch <- res{o, err}
				}()
				select {
				case r := <-ch:
					obs[i], errs[i] = r.o, r.err
					os.RemoveAll(filepath.Join(base, "plugins"))
				case <-time.After(2 * time.Minute):
					nBlocked.Add(1)
					obs[i] = dirObs{Start: "blocked", Log: []logLine{}, Noise: []string{}, Probes: []probeObs{}}
				}
			}
		}(k)
	}
	wg.Wait()
	for i, err := range errs {
		if err != nil {
			return fmt.Errorf("case %s: %w", ids[i], err)
		}
	}
	el := time.Since(t1)
	launched := 0
	for i, in := range inputs {
		if skipped[i] {
			continue
		}
		launched += len(obs[i].Probes)
		w.Put(&lineio.Case{ID: ids[i], In: in, Obs: obs[i]})
	}
	fmt.Fprintf(os.Stderr, "c18: probe built in %.1fs; %d directories, %d probe processes launched by Adaptation.Start, %d extra descriptors held by the runtime process, %d runtimes in parallel, %.1fs = %.1f directories/s\n",
		tBuild.Seconds(), len(inputs), launched, held, nw, el.Seconds(), float64(len(inputs))/el.Seconds())
	return nil
}
