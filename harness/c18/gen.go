package c18

import (
	"fmt"
	"math/rand"

	"verifh/internal/hx"
)

// Streams
//   kinds     a reference plugin next to ONE entry of every (kind, mode, content / link target) class
//   misnamed  a reference plugin next to one entry whose name is not NN-name, as executable file,
//             non-executable file, directory and symlink
//   dropin    every subset of {NN-name.conf, name.conf} (+ decoys), alone and with a second plugin
//             of the same base name under another index
//   fail      every failure mode at every position of a three-plugin directory
//   order     index order against name order, equal indices
//   rand      random directories (≤ 8 entries, ≤ 4 launched probes, ≤ 1 that hangs)
//   idle      a plugin that registered and synchronised and then, while the runtime is IDLE, closes its
//             connection but keeps running / exits — followed by Stop directly, or with requests
//             before / after; × position among healthy plugins
//   excl      outside the domain: a drop-in "file" that is a directory

var misnamed = []string{"README", "plugin", "1-ok", "123-ok", "ab-ok", "1a-ok", "10_ok", "-10-ok", " 10-ok", "10ok", "１０-ok", ".10-ok", "0-", "-"}

func probe(name string, mode uint32) entryIn {
	return entryIn{Name: name, Kind: "file", Mode: mode, Content: "probe"}
}

func generate(o *hx.Opts) []*dirIn {
	var out []*dirIn
	r := o.Rand(18)
	add := func(stream string, es []entryIn, ds []dropinIn) *dirIn {
		d := &dirIn{Kind: "dir", Stream: stream, Entries: es, Dropins: ds, Plan: []string{"r", "r"}}
		if d.Entries == nil {
			d.Entries = []entryIn{}
		}
		if d.Dropins == nil {
			d.Dropins = []dropinIn{}
		}
		out = append(out, d)
		return d
	}
	ref := probe("50-okref", 0o755)
	refCfg := dropinIn{Name: "okref.conf", Kind: "file", Content: "reference configuration\n"}

	// ---- kinds
	for _, m := range []uint32{0o755, 0o700, 0o100, 0o010, 0o001, 0o111, 0o644, 0o600, 0o444, 0o000, 0o666, 0o4755, 0o750} {
		add("kinds", []entryIn{ref, probe(fmt.Sprintf("10-okm%04o", m), m)}, []dropinIn{refCfg})
	}
	for _, m := range []uint32{0o755, 0o700, 0o000} {
		add("kinds", []entryIn{ref, {Name: "10-okdir", Kind: "dir", Mode: m}}, []dropinIn{refCfg})
	}
	for _, t := range []string{"probe", "noexec", "dir", "missing", "text"} {
		add("kinds", []entryIn{ref, {Name: "10-oklink" + t, Kind: "symlink", Target: t}}, []dropinIn{refCfg})
	}
	for _, c := range []string{"text", "script", "wasm"} {
		for _, m := range []uint32{0o755, 0o644} {
			add("kinds", []entryIn{ref, {Name: "10-ok" + c, Kind: "file", Mode: m, Content: c}}, []dropinIn{refCfg})
		}
	}
	add("kinds", nil, nil).NoDir = true
	add("kinds", nil, nil)
	add("kinds", []entryIn{ref}, nil).NoDropins = true
	add("kinds", []entryIn{probe("10-", 0o755), ref}, []dropinIn{{Name: "10-.conf", Kind: "file", Content: "for the nameless"}, refCfg})
	add("kinds", []entryIn{probe("10-ok-with-dashes-1", 0o755), ref}, []dropinIn{{Name: "ok-with-dashes-1.conf", Kind: "file", Content: "dashes"}})

	// ---- misnamed
	for _, n := range misnamed {
		add("misnamed", []entryIn{ref, probe(n, 0o755)}, []dropinIn{refCfg})
		add("misnamed", []entryIn{ref, probe(n, 0o644)}, []dropinIn{refCfg})
		add("misnamed", []entryIn{ref, {Name: n, Kind: "dir", Mode: 0o755}}, []dropinIn{refCfg})
		add("misnamed", []entryIn{ref, {Name: n, Kind: "symlink", Target: "probe"}}, []dropinIn{refCfg})
		add("misnamed", []entryIn{ref, {Name: n, Kind: "file", Mode: 0o755, Content: "text"}}, []dropinIn{refCfg})
	}

	// ---- dropin
	for mask := 0; mask < 4; mask++ {
		for _, second := range []bool{false, true} {
			for _, decoys := range []bool{false, true} {
				es := []entryIn{probe("10-okcfg", 0o755)}
				var ds []dropinIn
				if mask&1 != 0 {
					ds = append(ds, dropinIn{Name: "10-okcfg.conf", Kind: "file", Content: "specific: 10-okcfg\n"})
				}
				if mask&2 != 0 {
					ds = append(ds, dropinIn{Name: "okcfg.conf", Kind: "file", Content: "generic: okcfg\n"})
				}
				if second {
					es = append(es, probe("11-okcfg", 0o755))
					if r.Intn(2) == 0 {
						ds = append(ds, dropinIn{Name: "11-okcfg.conf", Kind: "file", Content: "specific: 11-okcfg\n"})
					}
				}
				if decoys {
					ds = append(ds, dropinIn{Name: "10-okcfg.conf.bak", Kind: "file", Content: "decoy bak"},
						dropinIn{Name: "10-okcfg.CONF", Kind: "file", Content: "decoy case"},
						dropinIn{Name: "10-okcfg", Kind: "file", Content: "decoy no extension"},
						dropinIn{Name: "okcf.conf", Kind: "file", Content: "decoy shorter"},
						dropinIn{Name: "okcfgx.conf", Kind: "file", Content: "decoy longer"},
						dropinIn{Name: "1-okcfg.conf", Kind: "file", Content: "decoy index"},
						dropinIn{Name: "12-okcfg.conf", Kind: "file", Content: "decoy other index"},
						dropinIn{Name: "conf", Kind: "file", Content: "decoy"})
				}
				add("dropin", es, ds)
			}
		}
	}
	add("dropin", []entryIn{probe("10-okcfg", 0o755)}, []dropinIn{{Name: "10-okcfg.conf", Kind: "file", Content: ""}, {Name: "okcfg.conf", Kind: "file", Content: "generic, hidden by an empty specific file"}})
	add("dropin", []entryIn{probe("10-okcfg", 0o755)}, []dropinIn{{Name: "okcfg.conf", Kind: "file", Content: "multi\nline\n\tконфиг ✓\n"}})

	// ---- fail
	for _, f := range []string{"exit", "hang", "drop", "cfgfail", "syncfail", "die", "script", "text", "wasm", "linkmissing"} {
		for pos := 0; pos < 3; pos++ {
			var es []entryIn
			var ds []dropinIn
			for i := 0; i < 3; i++ {
				idx := 10 * (i + 1)
				if i != pos {
					n := fmt.Sprintf("%02d-ok%d", idx, i)
					es = append(es, probe(n, 0o755))
					ds = append(ds, dropinIn{Name: fmt.Sprintf("ok%d.conf", i), Kind: "file", Content: fmt.Sprintf("config of ok%d", i)})
					continue
				}
				switch f {
				case "script", "text", "wasm":
					es = append(es, entryIn{Name: fmt.Sprintf("%02d-ok%s", idx, f), Kind: "file", Mode: 0o755, Content: f})
				case "linkmissing":
					es = append(es, entryIn{Name: fmt.Sprintf("%02d-oklink", idx), Kind: "symlink", Target: "missing"})
				default:
					es = append(es, probe(fmt.Sprintf("%02d-%s%d", idx, f, i), 0o755))
				}
			}
			add("fail", es, ds)
		}
	}
	// restart: the same Adaptation stopped and started again — healthy directories and every
	// failure mode (what was launched is launched again once, configured again, killed again)
	for i, f := range []string{"ok", "exit", "drop", "cfgfail", "syncfail", "die", "idleclose"} {
		es := []entryIn{probe("10-ok0", 0o755), probe(fmt.Sprintf("20-%s1", f), 0o755), probe("30-ok2", 0o755)}
		d := add("restart", es, []dropinIn{{Name: "ok0.conf", Kind: "file", Content: "config of ok0"}, {Name: "30-ok2.conf", Kind: "file", Content: "specific"}})
		d.Restart = true
		if i%2 == 1 {
			d.Plan = []string{"r"}
		}
	}
	// two failures of different kinds around one survivor
	add("fail", []entryIn{probe("10-exit0", 0o755), probe("20-ok1", 0o755), probe("30-die2", 0o755), probe("40-syncfail3", 0o755)}, nil)
	add("fail", []entryIn{probe("10-die0", 0o755), probe("11-die1", 0o755), probe("20-ok2", 0o755), probe("30-cfgfail3", 0o755)}, nil)
	add("fail", []entryIn{probe("10-exit0", 0o755), probe("20-exit1", 0o755), probe("30-exit2", 0o755)}, nil)

	// ---- idle
	idlePlans := [][]string{{"idle"}, {"idle", "r"}, {"r", "idle"}, {"r", "idle", "r"}, {"idle", "r", "r"}, {}}
	for _, b := range []string{"idleclose", "idleexit"} {
		for pi, pl := range idlePlans {
			pos := pi % 3
			var es []entryIn
			for i := 0; i < 3; i++ {
				if i == pos {
					es = append(es, probe(fmt.Sprintf("%02d-%s%d", 10*(i+1), b, i), 0o755))
				} else {
					es = append(es, probe(fmt.Sprintf("%02d-ok%d", 10*(i+1), i), 0o755))
				}
			}
			add("idle", es, nil).Plan = pl
		}
		add("idle", []entryIn{probe("10-"+b, 0o755)}, nil).Plan = []string{"idle"}
	}
	add("idle", []entryIn{probe("10-idleclose0", 0o755), probe("20-idleexit1", 0o755), probe("30-ok2", 0o755)}, nil).Plan = []string{"idle"}
	add("idle", []entryIn{probe("10-idleexit0", 0o755), probe("20-die1", 0o755), probe("30-idleclose2", 0o755), probe("40-ok3", 0o755)}, nil).Plan = []string{"r", "idle"}
	add("idle", []entryIn{probe("10-die0", 0o755), probe("20-ok1", 0o755)}, nil).Plan = []string{"r"}
	add("idle", []entryIn{probe("10-die0", 0o755), probe("20-ok1", 0o755)}, nil).Plan = []string{}
	add("idle", []entryIn{probe("10-exit0", 0o755), probe("20-idleclose1", 0o755), {Name: "30-oklink", Kind: "symlink", Target: "probe"}}, nil).Plan = []string{"idle"}

	// ---- order
	add("order", []entryIn{probe("90-okaaa", 0o755), probe("10-okzzz", 0o755), probe("50-okmmm", 0o755)}, nil)
	add("order", []entryIn{probe("10-okb", 0o755), probe("10-oka", 0o755), probe("09-okc", 0o755)}, nil)
	add("order", []entryIn{probe("00-okz", 0o755), probe("99-oka", 0o755), probe("09-okm", 0o755), probe("10-okn", 0o755)}, nil)
	add("order", []entryIn{probe("2 -ok", 0o644), probe("20-oka", 0o755), probe("19-okb", 0o755), probe("21-ok0", 0o755)}, nil)

	// the whole two-digit range, deliberately: 08 and 09 (not octal!) together with lower and higher
	// indices, every leading-zero index, equal indices under different names
	idxSets := [][]int{
		{9, 1, 10}, {8, 7, 9, 0}, {8, 9, 2, 5, 10, 11, 80, 99}, {0, 1, 2, 3, 4, 5, 6, 7, 8, 9},
		{8, 1}, {9, 7}, {1, 8, 9, 10}, {77, 8, 78, 9, 7, 79}, {19, 8, 18, 9, 20}, {99, 0, 50, 9},
	}
	for k, set := range idxSets {
		var es []entryIn
		for i, x := range set {
			// names chosen so that name order never agrees with index order by accident
			es = append(es, probe(fmt.Sprintf("%02d-ok%c%d", x, 'z'-rune(x%26), i), 0o755))
		}
		d := add("order", es, nil)
		if k%2 == 1 {
			d.Plan = []string{"r"}
		}
	}
	add("order", []entryIn{probe("08-okb", 0o755), probe("08-oka", 0o755), probe("07-okc", 0o755), probe("09-oka", 0o755), probe("09-okb", 0o755), probe("01-okz", 0o755)}, nil)
	add("order", []entryIn{probe("09-die0", 0o755), probe("03-ok1", 0o755), probe("08-idleexit2", 0o755), probe("10-ok3", 0o755), probe("05-exit4", 0o755)}, nil).Plan = []string{"r", "idle", "r"}

	{ // more than 12 plugins with few distinct indices: sort.Slice leaves insertion sort and may permute ties
		var es []entryIn
		for i := 0; i < 14; i++ {
			es = append(es, probe(fmt.Sprintf("%02d-ok%c", []int{30, 10, 20}[i%3], 'n'-rune(i)), 0o755))
		}
		add("order", es, nil)
	}

	// ---- rand
	for i, n := 0, o.N(200, 2500); i < n; i++ {
		out = append(out, randomDir(rand.New(rand.NewSource(r.Int63())), "rand"))
	}

	// ---- excl: a drop-in that is a directory
	add("excl", []entryIn{ref, probe("10-okcfg", 0o755)}, []dropinIn{refCfg, {Name: "10-okcfg.conf", Kind: "dir"}})
	add("excl", []entryIn{ref, probe("10-okcfg", 0o755)}, []dropinIn{refCfg, {Name: "okcfg.conf", Kind: "dir"}})
	add("excl", []entryIn{ref, probe("10-okcfg", 0o755)}, []dropinIn{refCfg, {Name: "10-okcfg.conf", Kind: "file", Content: "specific"}, {Name: "okcfg.conf", Kind: "dir"}})
	add("excl", []entryIn{ref, probe("10-okcfg", 0o644)}, []dropinIn{refCfg, {Name: "10-okcfg.conf", Kind: "dir"}})
	return out
}

func randomDir(r *rand.Rand, stream string) *dirIn {
	d := &dirIn{Kind: "dir", Stream: stream, Entries: []entryIn{}, Dropins: []dropinIn{}}
	d.Plan = [][]string{{"r", "r"}, {"r", "r"}, {"r", "r"}, {"idle"}, {"idle"}, {"r"}, {}, {"idle", "r"}, {"r", "idle"}, {"r", "idle", "r"}}[r.Intn(10)]
	used := map[string]bool{}
	launched, hangs := 0, 0
	n := 1 + r.Intn(8)
	misnamedExec := r.Intn(6) == 0 // most directories are clean; some hold a misnamed executable
	for i := 0; i < n; i++ {
		// biased to the corners of the two-digit range: leading zeros, 07/08/09/10, equal indices, extremes
		idx := fmt.Sprintf("%02d", []int{0, 1, 7, 8, 8, 9, 9, 10, 10, 11, 80, 99, r.Intn(10), r.Intn(100)}[r.Intn(14)])
		behave := "ok"
		switch x := r.Intn(20); {
		case x < 2:
			behave = "exit"
		case x < 4:
			behave = "die"
		case x < 5:
			behave = "cfgfail"
		case x < 6:
			behave = "syncfail"
		case x < 7 && hangs == 0:
			behave = "hang"
		case x < 9:
			behave = "idleclose"
		case x < 11:
			behave = "idleexit"
		case x < 12:
			behave = "drop"
		}
		name := fmt.Sprintf("%s-%s%c%d", idx, behave, 'a'+rune(r.Intn(3)), r.Intn(3))
		e := entryIn{Name: name, Kind: "file", Mode: 0o755, Content: "probe"}
		switch x := r.Intn(20); {
		case x < 2:
			e.Mode = []uint32{0o644, 0o600, 0o444, 0o000}[r.Intn(4)]
		case x < 3:
			e.Mode = []uint32{0o100, 0o010, 0o001, 0o711, 0o555}[r.Intn(5)]
		case x < 4:
			e = entryIn{Name: name, Kind: "dir", Mode: 0o755}
		case x < 5:
			e = entryIn{Name: name, Kind: "symlink", Target: []string{"probe", "noexec", "dir", "missing", "text"}[r.Intn(5)]}
		case x < 6:
			e.Content = []string{"text", "script", "wasm"}[r.Intn(3)]
		case x < 7:
			e.Name = misnamed[r.Intn(len(misnamed))]
			if !misnamedExec {
				e.Mode = 0o644
			}
		}
		if used[e.Name] {
			continue
		}
		willRun := (e.Kind == "file" && e.Content == "probe" && e.Mode&0o111 != 0) || (e.Kind == "symlink" && e.Target == "probe")
		if willRun && launched >= 4 {
			continue
		}
		if willRun {
			launched++
			if behaveOf(e.Name) == "hang" {
				hangs++
			}
		}
		used[e.Name] = true
		d.Entries = append(d.Entries, e)
		// drop-ins for this entry
		base := e.Name
		if len(base) >= 3 && base[2] == '-' {
			base = base[3:]
		}
		if r.Intn(2) == 0 {
			d.addDropin(e.Name+".conf", "specific for "+e.Name)
		}
		if r.Intn(2) == 0 {
			d.addDropin(base+".conf", "generic for "+base)
		}
	}
	if r.Intn(4) == 0 {
		d.addDropin("unrelated.conf", "nobody's")
	}
	if r.Intn(25) == 0 {
		d.NoDropins = true
	}
	return d
}

func (d *dirIn) addDropin(name, content string) {
	if name == ".conf" || name == "" {
		return
	}
	for _, x := range d.Dropins {
		if x.Name == name {
			return
		}
	}
	d.Dropins = append(d.Dropins, dropinIn{Name: name, Kind: "file", Content: content})
}
