// Command probe2 (stage 2) is what the C18 probe (../probe, stage 1) execs into once it has
// recorded the inherited descriptors: a stub-based NRI plugin that takes its name, index and
// connection from the environment the runtime prepared, and records
//
//	<plugin dir>/../reports/<file name>.configure  the Configure request
//	<plugin dir>/../reports/log                    one line per event (O_APPEND): configure,
//	                                               synchronize, create — the order of the lines is
//	                                               the order in which the runtime invoked the plugins
//
// Behaviour = the word the base name (after "NN-") starts with:
//
//	ok        register, configure, synchronize, answer every request
//	cfgfail   Configure returns an error
//	syncfail  Synchronize returns an error
//	die       as ok, but exit shortly after answering the first CreateContainer
//	idleclose as ok; once <reports>/idle exists (the harness creates it while the runtime is
//	          idle) close the connection to the runtime (stub.Stop) and KEEP RUNNING
//	idleexit  as ok; once <reports>/idle exists, exit
package main

import (
	"context"
	"encoding/json"
	"errors"
	"os"
	"path/filepath"
	"strconv"
	"strings"
	"time"

	"github.com/containerd/nri/pkg/api"
	"github.com/containerd/nri/pkg/stub"
)

type configureReport struct {
	Config         string `json:"config"`
	RuntimeName    string `json:"runtime_name"`
	RuntimeVersion string `json:"runtime_version"`
}

var (
	file    string // our file name in the plugin directory
	reports string
)

func writeJSON(name string, v interface{}) {
	b, _ := json.Marshal(v)
	tmp := filepath.Join(reports, "."+name+".tmp")
	if os.WriteFile(tmp, b, 0o644) == nil {
		os.Rename(tmp, filepath.Join(reports, name))
	}
}

func logEvent(ev, arg string) {
	b, _ := json.Marshal(map[string]string{"who": file, "ev": ev, "arg": arg})
	f, err := os.OpenFile(filepath.Join(reports, "log"), os.O_WRONLY|os.O_APPEND|os.O_CREATE, 0o644)
	if err != nil {
		return
	}
	f.Write(append(b, '\n'))
	f.Close()
}

func mode() string {
	base := file
	if len(base) >= 3 && base[2] == '-' {
		base = base[3:]
	}
	for _, m := range []string{"ok", "exit", "hang", "cfgfail", "syncfail", "die", "idleclose", "idleexit"} {
		if strings.HasPrefix(base, m) {
			return m
		}
	}
	return "ok"
}

type plugin struct {
	mode string
}

func (p *plugin) Configure(_ context.Context, config, runtime, version string) (api.EventMask, error) {
	writeJSON(file+".configure", configureReport{config, runtime, version})
	logEvent("configure", "")
	if p.mode == "cfgfail" {
		return 0, errors.New("probe: configuration refused")
	}
	return 0, nil
}

func (p *plugin) Synchronize(_ context.Context, pods []*api.PodSandbox, ctrs []*api.Container) ([]*api.ContainerUpdate, error) {
	logEvent("synchronize", strconv.Itoa(len(pods))+"/"+strconv.Itoa(len(ctrs)))
	if p.mode == "syncfail" {
		return nil, errors.New("probe: synchronization refused")
	}
	return nil, nil
}

func (p *plugin) CreateContainer(_ context.Context, _ *api.PodSandbox, c *api.Container) (*api.ContainerAdjustment, []*api.ContainerUpdate, error) {
	logEvent("create", c.GetId())
	if p.mode == "die" {
		go func() {
			time.Sleep(30 * time.Millisecond)
			os.Exit(4)
		}()
	}
	return nil, nil, nil
}

func main() {
	file = filepath.Base(os.Args[0])
	reports = filepath.Join(filepath.Dir(filepath.Dir(os.Args[0])), "reports")
	p := &plugin{mode: mode()}
	// name, index and connection come from the environment the runtime prepared
	var opts []stub.Option
	if p.mode == "idleclose" {
		// by default the stub exits the process when the connection goes away; this probe is the
		// plugin that loses its connection and keeps running
		opts = append(opts, stub.WithOnClose(func() {}))
	}
	s, err := stub.New(p, opts...)
	if err != nil {
		logEvent("stub-error", err.Error())
		os.Exit(5)
	}
	if p.mode == "idleclose" || p.mode == "idleexit" {
		go func() {
			for {
				if _, err := os.Stat(filepath.Join(reports, "idle")); err == nil {
					break
				}
				time.Sleep(5 * time.Millisecond)
			}
			if p.mode == "idleexit" {
				logEvent("idle-exit", "")
				os.Exit(0)
			}
			s.Stop()
			logEvent("idle-closed", "")
		}()
	}
	err = s.Run(context.Background())
	if p.mode == "idleclose" {
		// the connection is gone; stay around until somebody kills us
		for {
			time.Sleep(time.Hour)
		}
	}
	if err != nil {
		logEvent("run-error", err.Error())
		os.Exit(6)
	}
	logEvent("run-returned", "")
}
