// Command probe (stage 1) is the file the C18 harness installs under generated names in
// scratch plugin directories that a real adaptation.Adaptation then launches.
//
// It imports nothing but `syscall` and `strconv`: the Go `os` package creates an epoll
// descriptor and an eventfd during program initialisation, which would blur the one thing
// this stage exists to report — the descriptors a launched plugin INHERITS. At entry it
// writes <plugin dir>/../reports/<file name>.start (descriptors with their link targets,
// environment, argv, pid), appends a `start` line to <plugin dir>/../reports/log, and then,
// depending on the word its base name (after "NN-") starts with,
//
//	exit   exits at once with status 3, never connecting
//	hang   sleeps until killed, never registering
//	else   execs <plugin dir>/../../bin/probe2 (same argv, environment and descriptors, same
//	       pid), the stub-based plugin that registers and records Configure and the requests.
//
// The runtime hands a launched plugin exactly three environment variables, so the probe is
// steered by its file name alone and finds its report directory relative to argv[0].
package main

import (
	"strconv"
	"syscall"
)

func readAll(path string) []byte {
	fd, err := syscall.Open(path, syscall.O_RDONLY|syscall.O_CLOEXEC, 0)
	if err != nil {
		return nil
	}
	defer syscall.Close(fd)
	var out []byte
	buf := make([]byte, 4096)
	for {
		n, err := syscall.Read(fd, buf)
		if n <= 0 || err != nil {
			break
		}
		out = append(out, buf[:n]...)
	}
	return out
}

func quote(s string) string {
	b := []byte{'"'}
	for i := 0; i < len(s); i++ {
		c := s[i]
		switch {
		case c == '"' || c == '\\':
			b = append(b, '\\', c)
		case c < 0x20:
			const hex = "0123456789abcdef"
			b = append(b, '\\', 'u', '0', '0', hex[c>>4], hex[c&15])
		default:
			b = append(b, c)
		}
	}
	return string(append(b, '"'))
}

func quoteList(xs []string) string {
	s := "["
	for i, x := range xs {
		if i > 0 {
			s += ","
		}
		s += quote(x)
	}
	return s + "]"
}

func dir(p string) string {
	for i := len(p) - 1; i >= 0; i-- {
		if p[i] == '/' {
			if i == 0 {
				return "/"
			}
			return p[:i]
		}
	}
	return "."
}

func base(p string) string {
	for i := len(p) - 1; i >= 0; i-- {
		if p[i] == '/' {
			return p[i+1:]
		}
	}
	return p
}

func hasPrefix(s, p string) bool { return len(s) >= len(p) && s[:len(p)] == p }

func writeFile(path string, data string, flags int) {
	fd, err := syscall.Open(path, flags|syscall.O_WRONLY|syscall.O_CREAT|syscall.O_CLOEXEC, 0o644)
	if err != nil {
		return
	}
	syscall.Write(fd, []byte(data))
	syscall.Close(fd)
}

func main() {
	// 1. descriptors, before anything else is opened and left open
	fds := "["
	dfd, err := syscall.Open("/proc/self/fd", syscall.O_RDONLY|syscall.O_DIRECTORY|syscall.O_CLOEXEC, 0)
	if err == nil {
		var names []string
		buf := make([]byte, 16384)
		for {
			n, err := syscall.ReadDirent(dfd, buf)
			if err != nil || n <= 0 {
				break
			}
			_, _, names = syscall.ParseDirent(buf[:n], -1, names)
		}
		first := true
		for _, nm := range names {
			fd, err := strconv.Atoi(nm)
			if err != nil || fd == dfd {
				continue
			}
			lb := make([]byte, 4096)
			link := "?"
			if n, err := syscall.Readlink("/proc/self/fd/"+nm, lb); err == nil {
				link = string(lb[:n])
			}
			if !first {
				fds += ","
			}
			first = false
			fds += `{"fd":` + strconv.Itoa(fd) + `,"link":` + quote(link) + `}`
		}
		syscall.Close(dfd)
	}
	fds += "]"

	// 2. argv (no `os`: read it back from /proc) and environment
	var argv []string
	cl := readAll("/proc/self/cmdline")
	for start, i := 0, 0; i < len(cl); i++ {
		if cl[i] == 0 {
			argv = append(argv, string(cl[start:i]))
			start = i + 1
		}
	}
	if len(argv) == 0 {
		syscall.Exit(9)
	}
	env := syscall.Environ()
	file := base(argv[0])
	reports := dir(dir(argv[0])) + "/reports"

	rep := `{"file":` + quote(file) + `,"argv":` + quoteList(argv) + `,"env":` + quoteList(env) +
		`,"fds":` + fds + `,"pid":` + strconv.Itoa(syscall.Getpid()) + `,"ppid":` + strconv.Itoa(syscall.Getppid()) + `}`
	tmp := reports + "/." + file + ".start.tmp"
	writeFile(tmp, rep, syscall.O_TRUNC)
	syscall.Rename(tmp, reports+"/"+file+".start")
	writeFile(reports+"/log", `{"who":`+quote(file)+`,"ev":"start","arg":""}`+"\n", syscall.O_APPEND)

	// 3. behaviour
	b := file
	if len(b) >= 3 && b[2] == '-' {
		b = b[3:]
	}
	switch {
	case hasPrefix(b, "exit"):
		syscall.Exit(3)
	case hasPrefix(b, "drop"):
		// hangs up without ever registering, and stays alive: closes every descriptor it was
		// handed (the pre-connected socket among them), then sleeps
		for fd := 3; fd < 64; fd++ {
			syscall.Close(fd)
		}
		for {
			ts := syscall.Timespec{Sec: 3600}
			syscall.Nanosleep(&ts, nil)
		}
	case hasPrefix(b, "hang"):
		for {
			ts := syscall.Timespec{Sec: 3600}
			syscall.Nanosleep(&ts, nil)
		}
	}
	stage2 := dir(dir(dir(argv[0]))) + "/bin/probe2"
	err = syscall.Exec(stage2, argv, env)
	writeFile(reports+"/log", `{"who":`+quote(file)+`,"ev":"exec-error","arg":`+quote(err.Error())+`}`+"\n", syscall.O_APPEND)
	syscall.Exit(8)
}
