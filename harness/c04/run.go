// Package c04 is the correspondence harness for property C04 (placeholder).
package c04

import (
	"errors"

	"verifh/internal/hx"
	"verifh/internal/lineio"
)

func Run(o *hx.Opts, w *lineio.Writer) error {
	return errors.New("C04 harness not implemented")
}
