// verifh <property> -tier quick|thorough -seed N -out DIR [-replay FILE] [-budget K]
// drives the real containerd/nri code (module replaced by /repo's working tree) and writes
// DIR/cases.jsonl for the Lean driver.
package main

import (
	"flag"
	"fmt"
	"os"
	"path/filepath"

	"verifh/internal/hx"
	"verifh/internal/lineio"
	"verifh/c01"
	"verifh/c02"
	"verifh/c03"
	"verifh/c04"
	"verifh/c05"
	"verifh/c06"
	"verifh/c07"
	"verifh/c08"
	"verifh/c09"
	"verifh/c10"
	"verifh/c11"
	"verifh/c12"
	"verifh/c13"
	"verifh/c14"
	"verifh/c15"
	"verifh/c16"
	"verifh/c17"
	"verifh/c18"
	"verifh/c19"
	"verifh/c20"
)

var registry = map[string]hx.RunFn{
	"C01": c01.Run,
	"C02": c02.Run,
	"C03": c03.Run,
	"C04": c04.Run,
	"C05": c05.Run,
	"C06": c06.Run,
	"C07": c07.Run,
	"C08": c08.Run,
	"C09": c09.Run,
	"C10": c10.Run,
	"C11": c11.Run,
	"C12": c12.Run,
	"C13": c13.Run,
	"C14": c14.Run,
	"C15": c15.Run,
	"C16": c16.Run,
	"C17": c17.Run,
	"C18": c18.Run,
	"C19": c19.Run,
	"C20": c20.Run,
}

func main() {
	if len(os.Args) < 2 {
		fmt.Fprintln(os.Stderr, "usage: verifh Cxx -tier T -seed N -out DIR")
		os.Exit(2)
	}
	prop := os.Args[1]
	// worker re-exec: properties that run cases in subprocesses call themselves with
	// "worker" as first argument; dispatch is up to the package (see hx.Worker*).
	fs := flag.NewFlagSet(prop, flag.ExitOnError)
	o := &hx.Opts{}
	var out string
	fs.StringVar(&o.Tier, "tier", "quick", "quick|thorough")
	fs.Int64Var(&o.Seed, "seed", 1, "PRNG seed")
	fs.StringVar(&out, "out", "", "output directory")
	fs.StringVar(&o.Replay, "replay", "", "replay file")
	fs.IntVar(&o.Budget, "budget", 1, "case-count multiplier (failing-input search)")
	fs.Parse(os.Args[2:])
	run, ok := registry[prop]
	if !ok {
		fmt.Fprintf(os.Stderr, "unknown property %q\n", prop)
		os.Exit(2)
	}
	if out == "" {
		fmt.Fprintln(os.Stderr, "-out required")
		os.Exit(2)
	}
	o.Scratch = filepath.Join(out, "scratch")
	if err := os.MkdirAll(o.Scratch, 0o755); err != nil {
		fmt.Fprintln(os.Stderr, err)
		os.Exit(2)
	}
	w, err := lineio.Create(filepath.Join(out, "cases.jsonl"))
	if err != nil {
		fmt.Fprintln(os.Stderr, err)
		os.Exit(2)
	}
	rerr := run(o, w)
	if err := w.Close(); err != nil {
		fmt.Fprintln(os.Stderr, err)
		os.Exit(2)
	}
	if rerr != nil {
		fmt.Fprintf(os.Stderr, "verifh %s: %v\n", prop, rerr)
		os.Exit(3)
	}
}
