package c17

// A scripted plugin end: speaks the NRI plugin protocol by hand (real ttrpc over the real
// multiplexer, exported API only) so that it can register any name and index, answer
// Configure with any mask, or fall silent at any point of the handshake.

import (
	"context"
	"errors"
	stdnet "net"
	"sort"
	"strings"
	"sync"
	"sync/atomic"
	"time"

	"github.com/containerd/nri/pkg/api"
	"github.com/containerd/nri/pkg/net/multiplex"
	"github.com/containerd/nri/pkg/stub"
	"github.com/containerd/ttrpc"
	"google.golang.org/grpc/status"
)

// PlugIn scripts one connecting plugin.
type PlugIn struct {
	Name string `json:"name"`
	Idx  string `json:"idx"`
	// when RegisterPlugin is sent: now | short (a quarter of the registration timeout) |
	// late (2.5 × the timeout) | never | stub (not scripted by hand: a real stub.Stub around a
	// plugin implementing every handler, whose Configure returns Events)
	Reg string `json:"reg"`
	// early: the plugin hangs up right after connecting, without registering
	Close string `json:"close"`
	// after a rejected registration, register again on the same connection with a valid identity
	Retry bool `json:"retry"`
	// Configure: answer | short | late | never | error
	Cfg    string `json:"cfg"`
	Events uint32 `json:"events"`
	// Synchronize: answer | short | late | never | error
	Sync string `json:"sync"`
}

// PlugObs is what the plugin end saw.
type PlugObs struct {
	Reg         string  `json:"reg"`   // ok | empty-name | index-length | index-digits | failed | none
	Retry       string  `json:"retry"` // same, for the second attempt ("none" if not made)
	Configures  int     `json:"configures"`
	Syncs       int     `json:"syncs"`
	Events      []int32 `json:"events"` // lifecycle events relayed after the handshake phase, sorted
	Others      int     `json:"others"` // Shutdown or anything else
	Closed      bool    `json:"closed"` // the runtime closed the connection
	RegMsg      string  `json:"regmsg"` // error text of a rejected registration (not compared)
	HandshakeMs int64   `json:"handshakems"`
}

type plugEnd struct {
	in      PlugIn
	regTo   time.Duration
	reqTo   time.Duration
	mu      sync.Mutex
	obs     PlugObs
	conn    stdnet.Conn
	mux     multiplex.Mux
	rpcs    *ttrpc.Server
	rpcc    *ttrpc.Client
	st      stub.Stub
	stalled atomic.Bool   // went silent in some handler ("never"): answers nothing from then on
	closed  chan struct{} // connection went down
	synced  chan struct{} // Synchronize answered successfully
	quit    chan struct{} // harness teardown
	term    chan struct{} // the handshake reached a terminal state on this side
	// released: the runtime is through with this connection (synchronised, rejected, closed) and
	// its accept loop moves on; the next plugin's scripted registration delay counts from here,
	// which is when the runtime starts waiting for it
	released chan struct{}
	start    chan struct{} // the previous plugin's released (nil for the first)
	once     sync.Once
	sonce    sync.Once
	ronce    sync.Once
}

func newPlugEnd(in PlugIn, conn stdnet.Conn, regTo, reqTo time.Duration, quit chan struct{}) *plugEnd {
	return &plugEnd{in: in, conn: conn, regTo: regTo, reqTo: reqTo,
		closed: make(chan struct{}), synced: make(chan struct{}), quit: quit, term: make(chan struct{}),
		released: make(chan struct{}),
		obs:      PlugObs{Reg: "none", Retry: "none", Events: []int32{}}}
}

func (p *plugEnd) release()    { p.ronce.Do(func() { close(p.released) }) }
func (p *plugEnd) markClosed() { p.once.Do(func() { close(p.closed) }); p.release() }

// turn waits until the runtime's accept loop has reached this connection
func (p *plugEnd) turn() {
	if p.start == nil {
		return
	}
	select {
	case <-p.start:
	case <-p.closed:
	case <-p.quit:
	}
}

// wait sleeps for d, or returns false early when the connection or the harness goes away
func (p *plugEnd) wait(d time.Duration) bool {
	select {
	case <-time.After(d):
		return true
	case <-p.closed:
		return false
	case <-p.quit:
		return false
	}
}

func (p *plugEnd) stall() {
	select {
	case <-p.closed:
	case <-p.quit:
	}
}

func (p *plugEnd) answer(mode string, to time.Duration) error {
	switch mode {
	case "answer":
		return nil
	case "short":
		p.wait(to / 4)
		return nil
	case "late":
		p.wait(to*5/2 + 50*time.Millisecond)
		return nil
	case "never":
		p.stalled.Store(true)
		p.stall()
		return errors.New("stalled")
	case "error":
		return errors.New("scripted failure")
	}
	panic("bad answer mode " + mode)
}

func (p *plugEnd) Configure(_ context.Context, _ *api.ConfigureRequest) (*api.ConfigureResponse, error) {
	p.mu.Lock()
	p.obs.Configures++
	p.mu.Unlock()
	if err := p.answer(p.in.Cfg, p.reqTo); err != nil {
		return nil, err
	}
	return &api.ConfigureResponse{Events: int32(p.in.Events)}, nil
}

func (p *plugEnd) Synchronize(_ context.Context, req *api.SynchronizeRequest) (*api.SynchronizeResponse, error) {
	p.mu.Lock()
	p.obs.Syncs++
	p.mu.Unlock()
	if err := p.answer(p.in.Sync, p.reqTo); err != nil {
		return nil, err
	}
	if !req.More {
		defer p.sonce.Do(func() { close(p.synced); p.release() })
	}
	return &api.SynchronizeResponse{More: req.More}, nil
}

func (p *plugEnd) event(e int32) {
	p.mu.Lock()
	p.obs.Events = append(p.obs.Events, e)
	p.mu.Unlock()
}

func (p *plugEnd) Shutdown(context.Context, *api.Empty) (*api.Empty, error) {
	p.mu.Lock()
	p.obs.Others++
	p.mu.Unlock()
	if p.stalled.Load() {
		// a plugin that has gone silent answers nothing any more, whatever it is asked
		p.stall()
		return nil, errors.New("stalled")
	}
	return &api.Empty{}, nil
}
func (p *plugEnd) CreateContainer(context.Context, *api.CreateContainerRequest) (*api.CreateContainerResponse, error) {
	p.event(int32(api.Event_CREATE_CONTAINER))
	return &api.CreateContainerResponse{}, nil
}
func (p *plugEnd) UpdateContainer(context.Context, *api.UpdateContainerRequest) (*api.UpdateContainerResponse, error) {
	p.event(int32(api.Event_UPDATE_CONTAINER))
	return &api.UpdateContainerResponse{}, nil
}
func (p *plugEnd) StopContainer(context.Context, *api.StopContainerRequest) (*api.StopContainerResponse, error) {
	p.event(int32(api.Event_STOP_CONTAINER))
	return &api.StopContainerResponse{}, nil
}
func (p *plugEnd) UpdatePodSandbox(context.Context, *api.UpdatePodSandboxRequest) (*api.UpdatePodSandboxResponse, error) {
	p.event(int32(api.Event_UPDATE_POD_SANDBOX))
	return &api.UpdatePodSandboxResponse{}, nil
}
func (p *plugEnd) StateChange(_ context.Context, evt *api.StateChangeEvent) (*api.Empty, error) {
	p.event(int32(evt.Event))
	return &api.Empty{}, nil
}

func classifyReg(err error) (string, string) {
	if err == nil {
		return "ok", ""
	}
	if st, ok := status.FromError(err); ok {
		m := st.Message()
		switch {
		case strings.Contains(m, "empty"):
			return "empty-name", m
		case strings.Contains(m, "must be 2 digits"):
			return "index-length", m
		case strings.Contains(m, "[0-9][0-9]"):
			return "index-digits", m
		}
		return "failed", m
	}
	return "failed", err.Error()
}

// run plays the script; it returns when the handshake cannot progress any further on this
// side (synchronised, rejected, or the connection is gone).
func (p *plugEnd) run() {
	defer close(p.term)
	defer p.release()
	t0 := time.Now()
	defer func() {
		p.mu.Lock()
		p.obs.HandshakeMs = time.Since(t0).Milliseconds()
		p.mu.Unlock()
	}()
	if p.in.Close == "early" {
		p.conn.Close()
		// the runtime notices only when its accept loop gets to this connection
		if p.start != nil {
			select {
			case <-p.start:
			case <-p.quit:
			}
		}
		p.markClosed()
		return
	}
	if p.in.Reg == "stub" {
		p.runStub()
		return
	}
	p.mux = multiplex.Multiplex(p.conn)
	l, err := p.mux.Listen(multiplex.PluginServiceConn)
	if err != nil {
		p.markClosed()
		return
	}
	p.rpcs, err = ttrpc.NewServer()
	if err != nil {
		p.markClosed()
		return
	}
	api.RegisterPluginService(p.rpcs, p)
	go p.rpcs.Serve(context.Background(), l)
	rc, err := p.mux.Open(multiplex.RuntimeServiceConn)
	if err != nil {
		p.markClosed()
		return
	}
	p.rpcc = ttrpc.NewClient(rc, ttrpc.WithOnClose(p.markClosed))
	rt := api.NewRuntimeClient(p.rpcc)

	switch p.in.Reg {
	case "now":
	case "short":
		p.turn()
		if !p.wait(p.regTo / 4) {
			return
		}
	case "late":
		p.turn()
		p.wait(p.regTo*5/2 + 50*time.Millisecond)
	case "never":
		p.stall()
		return
	default:
		panic("bad reg mode " + p.in.Reg)
	}
	ctx, cancel := context.WithTimeout(context.Background(), 30*time.Second)
	_, err = rt.RegisterPlugin(ctx, &api.RegisterPluginRequest{PluginName: p.in.Name, PluginIdx: p.in.Idx})
	cancel()
	res, msg := classifyReg(err)
	p.mu.Lock()
	p.obs.Reg, p.obs.RegMsg = res, msg
	p.mu.Unlock()
	if res != "ok" {
		p.release()
		if p.in.Retry && res != "failed" {
			ctx, cancel := context.WithTimeout(context.Background(), 5*time.Second)
			_, err = rt.RegisterPlugin(ctx, &api.RegisterPluginRequest{PluginName: "retry", PluginIdx: "55"})
			cancel()
			r2, _ := classifyReg(err)
			p.mu.Lock()
			p.obs.Retry = r2
			p.mu.Unlock()
			// give a (wrongly) continuing handshake the chance to show itself
			p.wait(p.reqTo / 4)
		}
		return
	}
	select {
	case <-p.synced:
	case <-p.closed:
	case <-p.quit:
	}
}

func (p *plugEnd) snapshot() PlugObs {
	p.mu.Lock()
	defer p.mu.Unlock()
	o := p.obs
	o.Events = append([]int32{}, o.Events...)
	sort.Slice(o.Events, func(i, j int) bool { return o.Events[i] < o.Events[j] })
	select {
	case <-p.closed:
		o.Closed = true
	default:
	}
	return o
}

// fullPlugin implements every handler interface of pkg/stub and reports into the plugin end.
type fullPlugin struct{ p *plugEnd }

func (f fullPlugin) Configure(_ context.Context, _, _, _ string) (api.EventMask, error) {
	f.p.mu.Lock()
	f.p.obs.Configures++
	f.p.mu.Unlock()
	return api.EventMask(int32(f.p.in.Events)), nil
}
func (f fullPlugin) Synchronize(_ context.Context, _ []*api.PodSandbox, _ []*api.Container) ([]*api.ContainerUpdate, error) {
	f.p.mu.Lock()
	f.p.obs.Syncs++
	f.p.mu.Unlock()
	f.p.sonce.Do(func() { close(f.p.synced); f.p.release() })
	return nil, nil
}
func (f fullPlugin) ev(e api.Event) error { f.p.event(int32(e)); return nil }
func (f fullPlugin) RunPodSandbox(context.Context, *api.PodSandbox) error {
	return f.ev(api.Event_RUN_POD_SANDBOX)
}
func (f fullPlugin) UpdatePodSandbox(context.Context, *api.PodSandbox, *api.LinuxResources, *api.LinuxResources) error {
	return f.ev(api.Event_UPDATE_POD_SANDBOX)
}
func (f fullPlugin) PostUpdatePodSandbox(context.Context, *api.PodSandbox) error {
	return f.ev(api.Event_POST_UPDATE_POD_SANDBOX)
}
func (f fullPlugin) StopPodSandbox(context.Context, *api.PodSandbox) error {
	return f.ev(api.Event_STOP_POD_SANDBOX)
}
func (f fullPlugin) RemovePodSandbox(context.Context, *api.PodSandbox) error {
	return f.ev(api.Event_REMOVE_POD_SANDBOX)
}
func (f fullPlugin) CreateContainer(context.Context, *api.PodSandbox, *api.Container) (*api.ContainerAdjustment, []*api.ContainerUpdate, error) {
	return nil, nil, f.ev(api.Event_CREATE_CONTAINER)
}
func (f fullPlugin) PostCreateContainer(context.Context, *api.PodSandbox, *api.Container) error {
	return f.ev(api.Event_POST_CREATE_CONTAINER)
}
func (f fullPlugin) StartContainer(context.Context, *api.PodSandbox, *api.Container) error {
	return f.ev(api.Event_START_CONTAINER)
}
func (f fullPlugin) PostStartContainer(context.Context, *api.PodSandbox, *api.Container) error {
	return f.ev(api.Event_POST_START_CONTAINER)
}
func (f fullPlugin) UpdateContainer(context.Context, *api.PodSandbox, *api.Container, *api.LinuxResources) ([]*api.ContainerUpdate, error) {
	return nil, f.ev(api.Event_UPDATE_CONTAINER)
}
func (f fullPlugin) PostUpdateContainer(context.Context, *api.PodSandbox, *api.Container) error {
	return f.ev(api.Event_POST_UPDATE_CONTAINER)
}
func (f fullPlugin) StopContainer(context.Context, *api.PodSandbox, *api.Container) ([]*api.ContainerUpdate, error) {
	return nil, f.ev(api.Event_STOP_CONTAINER)
}
func (f fullPlugin) RemoveContainer(context.Context, *api.PodSandbox, *api.Container) error {
	return f.ev(api.Event_REMOVE_CONTAINER)
}

// runStub lets the repository's own stub do the talking.
func (p *plugEnd) runStub() {
	st, err := stub.New(fullPlugin{p}, stub.WithPluginName(p.in.Name), stub.WithPluginIdx(p.in.Idx),
		stub.WithConnection(p.conn), stub.WithOnClose(p.markClosed))
	if err != nil {
		p.mu.Lock()
		p.obs.Reg, p.obs.RegMsg = "failed", err.Error()
		p.mu.Unlock()
		p.markClosed()
		return
	}
	p.st = st
	startC := make(chan error, 1)
	go func() { startC <- st.Start(context.Background()) }()
	var serr error
	select {
	case serr = <-startC:
	case <-p.quit:
		return
	case <-time.After(60 * time.Second):
		serr = errors.New("stub.Start blocked")
	}
	p.mu.Lock()
	if serr == nil || p.obs.Configures > 0 {
		p.obs.Reg = "ok" // Configure is only ever sent to a registered plugin
	} else {
		p.obs.Reg, p.obs.RegMsg = "failed", serr.Error()
	}
	p.mu.Unlock()
	if serr != nil {
		p.release()
		return
	}
	select {
	case <-p.synced:
	case <-p.closed:
	case <-p.quit:
	}
}

func (p *plugEnd) shutdown() {
	if p.st != nil {
		done := make(chan struct{})
		go func() { p.st.Stop(); close(done) }()
		select {
		case <-done:
		case <-time.After(5 * time.Second):
		}
	}
	if p.rpcc != nil {
		p.rpcc.Close()
	}
	if p.rpcs != nil {
		p.rpcs.Close()
	}
	if p.mux != nil {
		p.mux.Close()
	}
	p.conn.Close()
}
