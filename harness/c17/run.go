// Package c17 is the correspondence harness for property C17 (placeholder).
package c17

import (
	"errors"

	"verifh/internal/hx"
	"verifh/internal/lineio"
)

func Run(o *hx.Opts, w *lineio.Writer) error {
	return errors.New("C17 harness not implemented")
}
