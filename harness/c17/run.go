// Package c17 is the correspondence harness for property C17: only well-formed, timely
// registrations are activated, and the socket is private.
//
// Three kinds of cases:
//
//	index – api.CheckPluginIndex on one string (exported function, in process);
//	chain – a real adaptation.Adaptation serving a real unix socket, and a list of scripted
//	        plugin ends (plugend.go) connecting to it in order; afterwards every lifecycle
//	        event is relayed once and each plugin end reports what it was sent;
//	dir   – adaptation.Start under a given umask with part of the socket path missing, then
//	        stat of every path component (one worker subprocess per case: umask is
//	        process-global).
//
// Chains run in worker subprocesses as well, because the registration and request timeouts are
// package-level settings (adaptation.SetPluginRegistrationTimeout / SetPluginRequestTimeout):
// one worker per pair of timeouts. Workers are this same binary, re-executed as
// `verifh C17 -tier worker:<kind> -replay <jobs> -out <dir>`.
package c17

import (
	"bufio"
	"context"
	"encoding/json"
	"fmt"
	"io"
	"math/rand"
	stdnet "net"
	"os"
	"os/exec"
	"path/filepath"
	"strings"
	"sync"
	"syscall"
	"time"

	"github.com/containerd/nri/pkg/adaptation"
	"github.com/containerd/nri/pkg/api"
	"github.com/sirupsen/logrus"

	"verifh/internal/hx"
	"verifh/internal/lineio"
)

// ---------------------------------------------------------------- case types

type IndexIn struct {
	Kind string `json:"kind"` // "index"
	Idx  string `json:"idx"`
}
type IndexObs struct {
	Res string `json:"res"` // ok | index-length | index-digits | other
}

type ChainIn struct {
	Kind    string   `json:"kind"` // "chain"
	RegToMs int      `json:"regtoms"`
	ReqToMs int      `json:"reqtoms"`
	Plugins []PlugIn `json:"plugins"`
}
type ChainObs struct {
	Done     string    `json:"done"` // ok | blocked | harness:<why>
	Plugins  []PlugObs `json:"plugins"`
	RelayErr []string  `json:"relayerr"` // errors returned while relaying the events
	Slow     bool      `json:"slow"`     // the machine stalled the process noticeably during the run
	MaxLagMs int64     `json:"maxlagms"`
	WallMs   int64     `json:"wallms"`
}

type DirIn struct {
	Kind     string   `json:"kind"`     // "dir"
	Umask    uint32   `json:"umask"`    // process umask while NRI starts
	Existing []uint32 `json:"existing"` // modes of the path components that exist already, outermost first
	Missing  int      `json:"missing"`  // number of further components that do not exist
	Disabled bool     `json:"disabled"` // WithDisabledExternalConnections
	// Order: where the disabling option stands among the options given to New: "" = last,
	// "first" = before every other option, "mid" = between the socket path and the plugin
	// paths, "twice" = first and last. Options are independent settings: the order must not matter.
	Order string `json:"order"`
}
type DirObs struct {
	Start   string   `json:"start"`  // ok | error
	Modes   []*int64 `json:"modes"`  // mode (12 permission bits) of every component afterwards; null = absent
	Socket  bool     `json:"socket"` // the socket file exists
	Connect string   `json:"connect"`
	Euid    int      `json:"euid"`
	Msg     string   `json:"msg"`
}

// ---------------------------------------------------------------- index

func runIndex(in IndexIn) IndexObs {
	err := api.CheckPluginIndex(in.Idx)
	switch {
	case err == nil:
		return IndexObs{"ok"}
	case strings.Contains(err.Error(), "must be 2 digits"):
		return IndexObs{"index-length"}
	case strings.Contains(err.Error(), "[0-9][0-9]"):
		return IndexObs{"index-digits"}
	}
	return IndexObs{"other"}
}

// ---------------------------------------------------------------- chain

func syncFn(ctx context.Context, cb adaptation.SyncCB) error {
	_, err := cb(ctx, []*api.PodSandbox{{Id: "pod0", Name: "pod0"}}, []*api.Container{{Id: "ctr0", PodSandboxId: "pod0", Name: "ctr0"}})
	return err
}

func updateFn(context.Context, []*api.ContainerUpdate) ([]*api.ContainerUpdate, error) {
	return nil, nil
}

// lagMeter notices when the process as a whole is being held up (overloaded machine):
// timing-dependent observations of such a run are not trustworthy.
type lagMeter struct {
	max  time.Duration
	stop chan struct{}
	done chan struct{}
}

func startLag() *lagMeter {
	m := &lagMeter{stop: make(chan struct{}), done: make(chan struct{})}
	go func() {
		defer close(m.done)
		const step = 5 * time.Millisecond
		last := time.Now()
		for {
			select {
			case <-m.stop:
				return
			case <-time.After(step):
			}
			now := time.Now()
			if lag := now.Sub(last) - step; lag > m.max {
				m.max = lag
			}
			last = now
		}
	}()
	return m
}
func (m *lagMeter) finish() time.Duration { close(m.stop); <-m.done; return m.max }

var sockSeq int
var sockMu sync.Mutex

func runChain(in ChainIn, scratch string) (obs ChainObs) {
	t0 := time.Now()
	obs = ChainObs{Done: "ok", Plugins: []PlugObs{}, RelayErr: []string{}}
	regTo := time.Duration(in.RegToMs) * time.Millisecond
	reqTo := time.Duration(in.ReqToMs) * time.Millisecond
	sockMu.Lock()
	sockSeq++
	dir := filepath.Join(scratch, fmt.Sprintf("c%d", sockSeq))
	sockMu.Unlock()
	if err := os.MkdirAll(filepath.Join(dir, "plugins"), 0o755); err != nil {
		obs.Done = "harness:" + err.Error()
		return
	}
	sock := filepath.Join(dir, "n.sock")
	if len(sock) > 100 {
		obs.Done = "harness: socket path too long: " + sock
		return
	}
	r, err := adaptation.New("verif", "0.0", syncFn, updateFn,
		adaptation.WithSocketPath(sock),
		adaptation.WithPluginPath(filepath.Join(dir, "plugins")),
		adaptation.WithPluginConfigPath(filepath.Join(dir, "conf")))
	if err != nil {
		obs.Done = "harness:" + err.Error()
		return
	}
	if err := r.Start(); err != nil {
		obs.Done = "harness:" + err.Error()
		return
	}
	lag := startLag()
	quit := make(chan struct{})
	var ends []*plugEnd
	// connect in order: the accept loop takes connections in the order they completed
	for _, pi := range in.Plugins {
		c, err := stdnet.Dial("unix", sock)
		if err != nil {
			obs.Done = "harness: dial: " + err.Error()
			break
		}
		e := newPlugEnd(pi, c, regTo, reqTo, quit)
		if len(ends) > 0 {
			e.start = ends[len(ends)-1].released
		}
		ends = append(ends, e)
	}
	for _, e := range ends {
		go e.run()
	}
	// every handshake ends within registration timeout + 2 × request timeout of its turn; allow
	// that for each connection, plus the late plugins' own sleeps, plus a generous margin
	deadline := time.Duration(len(ends))*(regTo+2*reqTo) + 5*(regTo+reqTo) + 10*time.Second
	timer := time.After(deadline)
	for _, e := range ends {
		select {
		case <-e.term:
		case <-timer:
			obs.Done = "blocked"
		}
		if obs.Done == "blocked" {
			break
		}
	}
	if obs.Done == "ok" {
		// a synchronised plugin is appended to the plugin list before the sync lock is released
		b := r.BlockPluginSync()
		b.Unblock()
		ctx, cancel := context.WithTimeout(context.Background(), 30*time.Second)
		pod := &api.PodSandbox{Id: "pod1", Name: "pod1", Namespace: "ns"}
		ctr := &api.Container{Id: "ctr1", PodSandboxId: "pod1", Name: "ctr1"}
		evt := func() *api.StateChangeEvent { return &api.StateChangeEvent{Pod: pod, Container: ctr} }
		note := func(what string, err error) {
			if err != nil {
				obs.RelayErr = append(obs.RelayErr, what+": "+err.Error())
			}
		}
		note("RunPodSandbox", r.RunPodSandbox(ctx, evt()))
		_, err := r.UpdatePodSandbox(ctx, &api.UpdatePodSandboxRequest{Pod: pod, OverheadLinuxResources: &api.LinuxResources{}, LinuxResources: &api.LinuxResources{}})
		note("UpdatePodSandbox", err)
		note("PostUpdatePodSandbox", r.PostUpdatePodSandbox(ctx, evt()))
		_, err = r.CreateContainer(ctx, &api.CreateContainerRequest{Pod: pod, Container: ctr})
		note("CreateContainer", err)
		note("PostCreateContainer", r.PostCreateContainer(ctx, evt()))
		note("StartContainer", r.StartContainer(ctx, evt()))
		note("PostStartContainer", r.PostStartContainer(ctx, evt()))
		_, err = r.UpdateContainer(ctx, &api.UpdateContainerRequest{Pod: pod, Container: ctr, LinuxResources: &api.LinuxResources{}})
		note("UpdateContainer", err)
		note("PostUpdateContainer", r.PostUpdateContainer(ctx, evt()))
		_, err = r.StopContainer(ctx, &api.StopContainerRequest{Pod: pod, Container: ctr})
		note("StopContainer", err)
		note("RemoveContainer", r.RemoveContainer(ctx, evt()))
		note("StopPodSandbox", r.StopPodSandbox(ctx, evt()))
		note("RemovePodSandbox", r.RemovePodSandbox(ctx, evt()))
		cancel()
		time.Sleep(30 * time.Millisecond) // let close notifications of rejected plugins arrive
	}
	for _, e := range ends {
		obs.Plugins = append(obs.Plugins, e.snapshot())
	}
	maxLag := lag.finish()
	obs.MaxLagMs = maxLag.Milliseconds()
	lim := regTo
	if reqTo < lim {
		lim = reqTo
	}
	obs.Slow = maxLag > lim/5
	close(quit)
	r.Stop()
	for _, e := range ends {
		e.shutdown()
	}
	obs.WallMs = time.Since(t0).Milliseconds()
	os.RemoveAll(dir)
	return
}

// ---------------------------------------------------------------- dir

func mode12(fi os.FileInfo) int64 {
	m := int64(fi.Mode().Perm())
	if fi.Mode()&os.ModeSetuid != 0 {
		m |= 0o4000
	}
	if fi.Mode()&os.ModeSetgid != 0 {
		m |= 0o2000
	}
	if fi.Mode()&os.ModeSticky != 0 {
		m |= 0o1000
	}
	return m
}

func runDir(in DirIn, scratch string) (obs DirObs) {
	obs = DirObs{Modes: []*int64{}, Euid: os.Geteuid(), Connect: "none"}
	base := filepath.Join(scratch, "d")
	if err := os.MkdirAll(base, 0o755); err != nil {
		obs.Start, obs.Msg = "error", "harness:"+err.Error()
		return
	}
	path := base
	var comps []string
	names := []string{"a", "b", "c", "d", "e"}
	n := 0
	for _, m := range in.Existing {
		path = filepath.Join(path, names[n])
		n++
		if err := os.Mkdir(path, 0o700); err != nil {
			obs.Start, obs.Msg = "error", "harness:"+err.Error()
			return
		}
		// chmod: independent of the harness's own umask, and able to set the special bits
		fm := os.FileMode(m & 0o777)
		if m&0o4000 != 0 {
			fm |= os.ModeSetuid
		}
		if m&0o2000 != 0 {
			fm |= os.ModeSetgid
		}
		if m&0o1000 != 0 {
			fm |= os.ModeSticky
		}
		if err := os.Chmod(path, fm); err != nil {
			obs.Start, obs.Msg = "error", "harness:"+err.Error()
			return
		}
		comps = append(comps, path)
	}
	for i := 0; i < in.Missing; i++ {
		path = filepath.Join(path, names[n])
		n++
		comps = append(comps, path)
	}
	sock := filepath.Join(path, "n.sock")
	var opts []adaptation.Option
	dis := func(when ...string) {
		for _, w := range when {
			if in.Disabled && in.Order == w {
				opts = append(opts, adaptation.WithDisabledExternalConnections())
			}
		}
	}
	dis("first", "twice")
	opts = append(opts, adaptation.WithSocketPath(sock))
	dis("mid")
	opts = append(opts, adaptation.WithPluginPath(filepath.Join(base, "no-plugins")),
		adaptation.WithPluginConfigPath(filepath.Join(base, "no-conf")))
	dis("", "twice")
	r, err := adaptation.New("verif", "0.0", syncFn, updateFn, opts...)
	if err != nil {
		obs.Start, obs.Msg = "error", "harness:"+err.Error()
		return
	}
	old := syscall.Umask(int(in.Umask))
	err = r.Start()
	syscall.Umask(old)
	if err != nil {
		obs.Start, obs.Msg = "error", err.Error()
	} else {
		obs.Start = "ok"
	}
	for _, c := range comps {
		fi, err := os.Lstat(c)
		if err != nil {
			obs.Modes = append(obs.Modes, nil)
			continue
		}
		m := mode12(fi)
		obs.Modes = append(obs.Modes, &m)
	}
	if _, err := os.Lstat(sock); err == nil {
		obs.Socket = true
	}
	c, err := stdnet.DialTimeout("unix", sock, 2*time.Second)
	switch {
	case err == nil:
		obs.Connect = "ok"
		c.Close()
	case os.IsNotExist(err) || strings.Contains(err.Error(), "no such file"):
		obs.Connect = "nofile"
	case strings.Contains(err.Error(), "refused"):
		obs.Connect = "refused"
	default:
		obs.Connect = "error"
	}
	r.Stop()
	return
}

// ---------------------------------------------------------------- workers

type job struct {
	ID string
	In json.RawMessage
}

func writeJobs(path string, jobs []job) error {
	f, err := os.Create(path)
	if err != nil {
		return err
	}
	w := bufio.NewWriter(f)
	enc := json.NewEncoder(w)
	for _, j := range jobs {
		if err := enc.Encode(map[string]interface{}{"id": j.ID, "in": j.In}); err != nil {
			return err
		}
	}
	if err := w.Flush(); err != nil {
		return err
	}
	return f.Close()
}

// spawn re-executes this binary as a worker and returns the case lines it wrote.
func spawn(kind string, jobs []job, dir string, timeout time.Duration) ([]lineio.Case, error) {
	if err := os.MkdirAll(dir, 0o755); err != nil {
		return nil, err
	}
	jf := filepath.Join(dir, "jobs.jsonl")
	if err := writeJobs(jf, jobs); err != nil {
		return nil, err
	}
	ctx, cancel := context.WithTimeout(context.Background(), timeout)
	defer cancel()
	cmd := exec.CommandContext(ctx, os.Args[0], "C17", "-tier", "worker:"+kind, "-replay", jf, "-out", dir)
	out, err := cmd.CombinedOutput()
	var res []lineio.Case
	if f, e := os.Open(filepath.Join(dir, "cases.jsonl")); e == nil {
		sc := bufio.NewScanner(f)
		sc.Buffer(make([]byte, 1<<20), 1<<28)
		for sc.Scan() {
			var c struct {
				ID  string          `json:"id"`
				In  json.RawMessage `json:"in"`
				Obs json.RawMessage `json:"obs"`
			}
			if json.Unmarshal(sc.Bytes(), &c) == nil && c.ID != "" {
				res = append(res, lineio.Case{ID: c.ID, In: c.In, Obs: c.Obs})
			}
		}
		f.Close()
	}
	if err != nil {
		first := strings.SplitN(strings.TrimSpace(string(out)), "\n", 2)[0]
		return res, fmt.Errorf("worker %s: %v: %s", kind, err, first)
	}
	return res, nil
}

func workerChain(o *hx.Opts, w *lineio.Writer) error {
	logrus.SetOutput(io.Discard)
	logrus.SetLevel(logrus.PanicLevel)
	cases, err := hx.ReplayCases(o.Replay)
	if err != nil {
		return err
	}
	var ins []ChainIn
	for _, c := range cases {
		var in ChainIn
		if err := json.Unmarshal(c.In, &in); err != nil {
			return err
		}
		ins = append(ins, in)
	}
	if len(ins) == 0 {
		return nil
	}
	for _, in := range ins {
		if in.RegToMs != ins[0].RegToMs || in.ReqToMs != ins[0].ReqToMs {
			return fmt.Errorf("one worker, one pair of timeouts")
		}
	}
	adaptation.SetPluginRegistrationTimeout(time.Duration(ins[0].RegToMs) * time.Millisecond)
	adaptation.SetPluginRequestTimeout(time.Duration(ins[0].ReqToMs) * time.Millisecond)
	par := 8
	sem := make(chan struct{}, par)
	var wg sync.WaitGroup
	for i := range ins {
		wg.Add(1)
		sem <- struct{}{}
		go func(i int) {
			defer wg.Done()
			defer func() { <-sem }()
			var obs ChainObs
			// a run during which the machine stalled the process is repeated (twice at most)
			for try := 0; try < 3; try++ {
				obs = runChain(ins[i], o.Scratch)
				if !obs.Slow {
					break
				}
			}
			w.Put(&lineio.Case{ID: cases[i].ID, In: ins[i], Obs: obs})
		}(i)
	}
	wg.Wait()
	return nil
}

func workerDir(o *hx.Opts, w *lineio.Writer) error {
	logrus.SetOutput(io.Discard)
	logrus.SetLevel(logrus.PanicLevel)
	cases, err := hx.ReplayCases(o.Replay)
	if err != nil {
		return err
	}
	for _, c := range cases {
		var in DirIn
		if err := json.Unmarshal(c.In, &in); err != nil {
			return err
		}
		w.Put(&lineio.Case{ID: c.ID, In: in, Obs: runDir(in, filepath.Join(o.Scratch, c.ID))})
	}
	return nil
}

// ---------------------------------------------------------------- generators

var idxShapes = []string{
	"", "0", "7", "00", "07", "42", "99", "10", "000", "007", "123", "1234", "-1", "+1", "1-", "1 ", " 1", "1a", "a1",
	"ab", "0x", "٣٤", "٣", "１２", "1１", "é", "éé", "½", "①②", "0\x00", "\t1", "1\n", "1.", ".5", "1e", "०१", "00 ",
	"٠٠", "𝟙𝟚", "߁߂", "  ", "--", "९९", "9９",
}

func randIdx(r *rand.Rand) string {
	switch r.Intn(5) {
	case 0:
		return idxShapes[r.Intn(len(idxShapes))]
	case 1:
		return fmt.Sprintf("%02d", r.Intn(100))
	case 2:
		al := []rune("0123456789 -+ax٣１é\t")
		n := r.Intn(4)
		b := make([]rune, n)
		for i := range b {
			b[i] = al[r.Intn(len(al))]
		}
		return string(b)
	case 3:
		return string([]rune{rune(0x30 + r.Intn(12) - 1), rune(0x30 + r.Intn(12) - 1)})
	default:
		return string([]rune{rune(r.Intn(0x3000) + 1), rune(r.Intn(0x80) + 1)})
	}
}

var nameShapes = []string{"p", "plugin", "", "a-b", "00-x", " ", "é☃", "-", "x y", "very-long-plugin-name-0123456789"}

func goodPlug(r *rand.Rand, events uint32) PlugIn {
	return PlugIn{Name: "good" + fmt.Sprint(r.Intn(100)), Idx: fmt.Sprintf("%02d", r.Intn(100)), Reg: "now",
		Cfg: "answer", Events: events, Sync: "answer"}
}

func maskShapes(r *rand.Rand) []uint32 {
	ms := []uint32{0, 0x1fff, 0x2000, 0x3fff, 0x80000000, 0xffffffff, 0x80000001, 0x1000, 0x0800, 1, 0x4000, 0x7fffffff}
	for b := uint(0); b < 32; b++ {
		ms = append(ms, 1<<b)
	}
	return ms
}

func randMask(r *rand.Rand) uint32 {
	switch r.Intn(4) {
	case 0:
		return r.Uint32() & 0x1fff
	case 1:
		return r.Uint32()
	case 2:
		return (r.Uint32() & 0x1fff) | 1<<uint(13+r.Intn(19))
	default:
		return 1 << uint(r.Intn(32))
	}
}

func genChains(o *hx.Opts, r *rand.Rand, regTo, reqTo int, shapeChains, stallChains int) []ChainIn {
	var out []ChainIn
	mk := func(ps []PlugIn) {
		// the last plugin of every chain is a well-behaved one: it must get through
		ps = append(ps, goodPlug(r, randMask(r)&0x1fff))
		out = append(out, ChainIn{Kind: "chain", RegToMs: regTo, ReqToMs: reqTo, Plugins: ps})
	}
	// 1. name/index shapes and masks, no stalls: every index shape with a good and an empty
	//    name; every mask shape with a good identity
	var quick []PlugIn
	for _, idx := range idxShapes {
		quick = append(quick, PlugIn{Name: nameShapes[r.Intn(2)], Idx: idx, Reg: "now", Cfg: "answer", Events: randMask(r), Sync: "answer", Retry: r.Intn(3) == 0})
	}
	for _, nm := range nameShapes {
		quick = append(quick, PlugIn{Name: nm, Idx: fmt.Sprintf("%02d", r.Intn(100)), Reg: "now", Cfg: "answer", Events: randMask(r), Sync: "answer", Retry: nm == ""})
		quick = append(quick, PlugIn{Name: nm, Idx: randIdx(r), Reg: "now", Cfg: "answer", Events: randMask(r), Sync: "answer"})
	}
	for _, m := range maskShapes(r) {
		quick = append(quick, PlugIn{Name: "m", Idx: fmt.Sprintf("%02d", r.Intn(100)), Reg: "now", Cfg: "answer", Events: m, Sync: "answer"})
	}
	for i := 0; i < shapeChains*12; i++ {
		quick = append(quick, PlugIn{Name: nameShapes[r.Intn(len(nameShapes))], Idx: randIdx(r), Reg: "now", Cfg: "answer", Events: randMask(r), Sync: "answer", Retry: r.Intn(6) == 0})
	}
	// plugins built on the repository's own stub (all handlers), asking for every kind of mask
	for i := 0; i < 6+shapeChains; i++ {
		quick = append(quick, PlugIn{Name: "stub" + fmt.Sprint(i), Idx: fmt.Sprintf("%02d", r.Intn(100)), Reg: "stub", Cfg: "answer", Events: randMask(r), Sync: "answer"})
	}
	quick = append(quick, PlugIn{Name: "stub0", Idx: "00", Reg: "stub", Cfg: "answer", Events: 0, Sync: "answer"})
	r.Shuffle(len(quick), func(i, j int) { quick[i], quick[j] = quick[j], quick[i] })
	for len(quick) > 0 {
		n := 12
		if n > len(quick) {
			n = len(quick)
		}
		mk(append([]PlugIn{}, quick[:n]...))
		quick = quick[n:]
	}
	// 2. every stall point on its own, each ahead of a good plugin
	stalls := []PlugIn{
		{Name: "s", Idx: "10", Reg: "never", Cfg: "answer", Sync: "answer"},
		{Name: "s", Idx: "10", Reg: "late", Cfg: "answer", Sync: "answer"},
		{Name: "s", Idx: "10", Reg: "short", Cfg: "answer", Events: 0x11, Sync: "answer"},
		{Name: "s", Idx: "10", Reg: "now", Close: "early", Cfg: "answer", Sync: "answer"},
		{Name: "s", Idx: "10", Reg: "now", Cfg: "never", Events: 0x1fff, Sync: "answer"},
		{Name: "s", Idx: "10", Reg: "now", Cfg: "late", Events: 0x1fff, Sync: "answer"},
		{Name: "s", Idx: "10", Reg: "now", Cfg: "short", Events: 0x101, Sync: "answer"},
		{Name: "s", Idx: "10", Reg: "now", Cfg: "error", Events: 0x1fff, Sync: "answer"},
		{Name: "s", Idx: "10", Reg: "now", Cfg: "answer", Events: 0x1fff, Sync: "never"},
		{Name: "s", Idx: "10", Reg: "now", Cfg: "answer", Events: 0x1fff, Sync: "late"},
		{Name: "s", Idx: "10", Reg: "now", Cfg: "answer", Events: 0x1fff, Sync: "error"},
		{Name: "s", Idx: "10", Reg: "now", Cfg: "answer", Events: 0x1001, Sync: "short"},
		{Name: "s", Idx: "10", Reg: "short", Cfg: "short", Events: 0, Sync: "short"},
		{Name: "", Idx: "10", Reg: "short", Cfg: "answer", Events: 0, Sync: "answer", Retry: true},
		{Name: "s", Idx: "1", Reg: "late", Cfg: "answer", Events: 0, Sync: "answer"},
		{Name: "s", Idx: "10", Reg: "now", Cfg: "never", Events: 0x2000, Sync: "answer"},
	}
	for _, s := range stalls {
		mk([]PlugIn{s})
	}
	// 2b. turn-taking: every way a connection can end × a successor whose registration is
	//     scripted relative to the moment the runtime turns to it (early enough / too late)
	preds := []PlugIn{
		goodPlug(r, 0x1fff),
		{Name: "", Idx: "10", Reg: "now", Cfg: "answer", Sync: "answer"},
		{Name: "s", Idx: "10", Reg: "never", Cfg: "answer", Sync: "answer"},
		{Name: "s", Idx: "10", Reg: "now", Close: "early", Cfg: "answer", Sync: "answer"},
		{Name: "s", Idx: "10", Reg: "now", Cfg: "never", Sync: "answer"},
		{Name: "s", Idx: "10", Reg: "now", Cfg: "late", Sync: "answer"},
		{Name: "s", Idx: "10", Reg: "now", Cfg: "answer", Events: 0x4000, Sync: "answer"},
		{Name: "s", Idx: "10", Reg: "now", Cfg: "answer", Events: 1, Sync: "never"},
		{Name: "s", Idx: "10", Reg: "late", Cfg: "answer", Sync: "answer"},
	}
	for _, pd := range preds {
		for _, when := range []string{"short", "late"} {
			mk([]PlugIn{pd, {Name: "t", Idx: "20", Reg: when, Cfg: "answer", Events: randMask(r) & 0x1fff, Sync: "answer"}})
		}
	}
	// 3. several bad plugins of random kinds ahead of a good one, good ones in between
	for i := 0; i < stallChains; i++ {
		n := 2 + r.Intn(3)
		if o.Thorough() {
			n = 2 + r.Intn(7)
		}
		var ps []PlugIn
		for j := 0; j < n; j++ {
			switch r.Intn(6) {
			case 0:
				ps = append(ps, goodPlug(r, randMask(r)&0x1fff))
			case 1:
				ps = append(ps, PlugIn{Name: nameShapes[r.Intn(len(nameShapes))], Idx: randIdx(r), Reg: "now", Cfg: "answer", Events: randMask(r), Sync: "answer", Retry: r.Intn(2) == 0})
			default:
				s := stalls[r.Intn(len(stalls))]
				s.Events = randMask(r)
				ps = append(ps, s)
			}
		}
		mk(ps)
	}
	return out
}

func genDirs(r *rand.Rand, thorough bool) []DirIn {
	var out []DirIn
	umasks := []uint32{0o000, 0o002, 0o022, 0o027, 0o077, 0o777, 0o007, 0o070, 0o700, 0o277, 0o133}
	for _, u := range umasks {
		out = append(out, DirIn{Kind: "dir", Umask: u, Existing: []uint32{}, Missing: 1 + r.Intn(3)})
	}
	// part of the path exists already, with modes NRI must leave alone
	for _, m := range []uint32{0o755, 0o777, 0o700, 0o750, 0o1777, 0o2775} {
		out = append(out, DirIn{Kind: "dir", Umask: umasks[r.Intn(5)], Existing: []uint32{m}, Missing: r.Intn(3)})
		out = append(out, DirIn{Kind: "dir", Umask: 0o022, Existing: []uint32{0o755, m}, Missing: 0})
	}
	// listening disabled: nothing appears
	for _, u := range []uint32{0o022, 0o000} {
		for _, ord := range []string{"", "first", "mid", "twice"} {
			out = append(out, DirIn{Kind: "dir", Umask: u, Existing: []uint32{}, Missing: 2, Disabled: true, Order: ord})
			out = append(out, DirIn{Kind: "dir", Umask: u, Existing: []uint32{0o755}, Missing: 0, Disabled: true, Order: ord})
		}
	}
	n := 6
	if thorough {
		n = 120
	}
	for i := 0; i < n; i++ {
		d := DirIn{Kind: "dir", Umask: uint32(r.Intn(0o1000)), Existing: []uint32{}, Missing: r.Intn(4), Disabled: r.Intn(8) == 0}
		if d.Disabled {
			d.Order = []string{"", "first", "mid", "twice"}[r.Intn(4)]
		}
		for j := r.Intn(3); j > 0; j-- {
			d.Existing = append(d.Existing, uint32(r.Intn(0o1000))|0o700)
		}
		if len(d.Existing)+d.Missing == 0 {
			d.Missing = 1
		}
		out = append(out, d)
	}
	return out
}

// ---------------------------------------------------------------- Run

func Run(o *hx.Opts, w *lineio.Writer) error {
	switch o.Tier {
	case "worker:chain":
		return workerChain(o, w)
	case "worker:dir":
		return workerDir(o, w)
	}
	var idxJobs []IndexIn
	var idxIDs []string
	chainJobs := map[[2]int][]job{}
	var dirJobs []job
	var order []string
	results := map[string]lineio.Case{}

	addChain := func(id string, in ChainIn) {
		b, _ := json.Marshal(in)
		k := [2]int{in.RegToMs, in.ReqToMs}
		chainJobs[k] = append(chainJobs[k], job{id, b})
		order = append(order, id)
	}
	addDir := func(id string, in DirIn) {
		if in.Existing == nil {
			in.Existing = []uint32{}
		}
		b, _ := json.Marshal(in)
		dirJobs = append(dirJobs, job{id, b})
		order = append(order, id)
	}
	if o.Replay != "" {
		cases, err := hx.ReplayCases(o.Replay)
		if err != nil {
			return err
		}
		for _, c := range cases {
			var k struct {
				Kind string `json:"kind"`
			}
			if err := json.Unmarshal(c.In, &k); err != nil {
				return err
			}
			switch k.Kind {
			case "index":
				var in IndexIn
				if err := json.Unmarshal(c.In, &in); err != nil {
					return err
				}
				idxJobs = append(idxJobs, in)
				idxIDs = append(idxIDs, c.ID)
				order = append(order, c.ID)
			case "chain":
				var in ChainIn
				if err := json.Unmarshal(c.In, &in); err != nil {
					return err
				}
				addChain(c.ID, in)
			case "dir":
				var in DirIn
				if err := json.Unmarshal(c.In, &in); err != nil {
					return err
				}
				addDir(c.ID, in)
			default:
				return fmt.Errorf("unknown case kind %q", k.Kind)
			}
		}
	} else {
		r := o.Rand(17)
		for i, s := range idxShapes {
			idxJobs = append(idxJobs, IndexIn{"index", s})
			idxIDs = append(idxIDs, fmt.Sprintf("idx-shape-%d", i))
		}
		for a := 0x2e; a <= 0x3b; a++ { // every pair around the digit range
			for b := 0x2e; b <= 0x3b; b++ {
				idxJobs = append(idxJobs, IndexIn{"index", string([]rune{rune(a), rune(b)})})
				idxIDs = append(idxIDs, fmt.Sprintf("idx-pair-%x-%x", a, b))
			}
		}
		for i := 0; i < o.N(2000, 100000); i++ {
			idxJobs = append(idxJobs, IndexIn{"index", randIdx(r)})
			idxIDs = append(idxIDs, fmt.Sprintf("idx-rand-%d", i))
		}
		order = append(order, idxIDs...)
		n := 0
		for _, c := range genChains(o, r, 500, 500, o.N(8, 500), o.N(60, 400)) {
			addChain(fmt.Sprintf("chain-%d", n), c)
			n++
		}
		// a second pair of timeouts: short registration timeout, long request timeout
		for _, c := range genChains(o, r, 300, 800, 0, o.N(16, 120)) {
			addChain(fmt.Sprintf("chain-%d", n), c)
			n++
		}
		if o.Thorough() {
			// long registration timeout, short request timeout
			for _, c := range genChains(o, r, 800, 300, 10, 120) {
				addChain(fmt.Sprintf("chain-%d", n), c)
				n++
			}
		}
		for i, d := range genDirs(r, o.Thorough()) {
			addDir(fmt.Sprintf("dir-%d", i), d)
		}
	}
	for i, in := range idxJobs {
		results[idxIDs[i]] = lineio.Case{ID: idxIDs[i], In: in, Obs: runIndex(in)}
	}
	// workers: one per timeout pair, and the directory cases one process each, a few at a time
	var mu sync.Mutex
	var wg sync.WaitGroup
	var firstErr error
	fail := func(err error) {
		mu.Lock()
		if firstErr == nil {
			firstErr = err
		}
		mu.Unlock()
	}
	wn := 0
	for k, jobs := range chainJobs {
		wn++
		wg.Add(1)
		go func(k [2]int, jobs []job, wn int) {
			defer wg.Done()
			to := 15 * time.Minute
			if o.Thorough() {
				to = 40 * time.Minute
			}
			res, err := spawn("chain", jobs, filepath.Join(o.Scratch, fmt.Sprintf("wc%d", wn)), to)
			mu.Lock()
			for _, c := range res {
				results[c.ID] = c
			}
			mu.Unlock()
			if err != nil {
				// cases without a result are observed as a dead worker
				for _, j := range jobs {
					mu.Lock()
					if _, ok := results[j.ID]; !ok {
						results[j.ID] = lineio.Case{ID: j.ID, In: j.In, Obs: ChainObs{Done: "crashed: " + err.Error(), Plugins: []PlugObs{}, RelayErr: []string{}}}
					}
					mu.Unlock()
				}
			}
		}(k, jobs, wn)
	}
	sem := make(chan struct{}, 4)
	for i, j := range dirJobs {
		wg.Add(1)
		sem <- struct{}{}
		go func(i int, j job) {
			defer wg.Done()
			defer func() { <-sem }()
			res, err := spawn("dir", []job{j}, filepath.Join(o.Scratch, fmt.Sprintf("wd%d", i)), 2*time.Minute)
			if err != nil && len(res) == 0 {
				fail(err)
				return
			}
			mu.Lock()
			for _, c := range res {
				results[c.ID] = c
			}
			mu.Unlock()
		}(i, j)
	}
	wg.Wait()
	if firstErr != nil {
		return firstErr
	}
	for _, id := range order {
		c, ok := results[id]
		if !ok {
			return fmt.Errorf("no result for case %s", id)
		}
		w.Put(&c)
	}
	return nil
}
