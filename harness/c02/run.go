// Package c02 is the correspondence harness for property C02 (placeholder).
package c02

import (
	"errors"

	"verifh/internal/hx"
	"verifh/internal/lineio"
)

func Run(o *hx.Opts, w *lineio.Writer) error {
	return errors.New("C02 harness not implemented")
}
