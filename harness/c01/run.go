// Package c01 is the correspondence harness for property C01 (placeholder).
package c01

import (
	"errors"

	"verifh/internal/hx"
	"verifh/internal/lineio"
)

func Run(o *hx.Opts, w *lineio.Writer) error {
	return errors.New("C01 harness not implemented")
}
