// Package c01 is the correspondence harness for property C01; the machinery is shared
// with the other response-merging properties (package merge).
package c01

import (
	"verifh/internal/hx"
	"verifh/internal/lineio"
	"verifh/merge"
)

func Run(o *hx.Opts, w *lineio.Writer) error { return merge.Run(o, w, 1) }
