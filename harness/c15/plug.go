package c15

// Worker side of the C15 harness. This file is compiled twice: into verifh (unused there
// except for the shared types) and into the worker binary that run.go generates, builds and
// starts at run time. The generated main package declares one struct type per handler subset
// by embedding the one-method structs below and hands WorkerMain a constructor per type.

import (
	"bufio"
	"context"
	"encoding/base64"
	"encoding/json"
	"fmt"
	"io"
	stdnet "net"
	"os"
	"regexp"
	"runtime"
	"strconv"
	"strings"
	"sync"
	"time"

	"github.com/containerd/nri/pkg/api"
	nrinet "github.com/containerd/nri/pkg/net"
	"github.com/containerd/nri/pkg/net/multiplex"
	"github.com/containerd/nri/pkg/stub"
	"github.com/containerd/ttrpc"
	"github.com/sirupsen/logrus"
	"google.golang.org/grpc/status"
	"google.golang.org/protobuf/proto"
)

// ---------------------------------------------------------------- line protocol types

// SessionIn is one case: a plugin type, how it is configured, and the requests sent to it.
type SessionIn struct {
	Kind string  `json:"kind"` // "session"
	Type uint32  `json:"type"` // bit e-1 (e=1..13): handler of event e; bit 13 Configure, 14 Synchronize, 15 Shutdown
	Name string  `json:"name"`
	Idx  string  `json:"idx"`
	Cfg  CfgIn   `json:"cfg"`
	Reqs []ReqIn `json:"reqs"`
	// kind "restart": the sessions played one after the other on the same stub (Cfg/Reqs unused)
	Sessions []SessIn `json:"sessions"`
}

// SessIn is one session of a restart case.
type SessIn struct {
	Cfg  CfgIn   `json:"cfg"`
	Reqs []ReqIn `json:"reqs"`
	End  string  `json:"end"` // stop | close (the runtime end hangs up first)
}

type CfgIn struct {
	Config string `json:"config"`
	RName  string `json:"rname"`
	RVer   string `json:"rver"`
	RegTo  int64  `json:"regto"` // milliseconds, as in ConfigureRequest
	ReqTo  int64  `json:"reqto"`
	// what the plugin's Configure method returns (if the type has one)
	Events uint32 `json:"events"`
	Err    string `json:"err"`
	// CancelCtx: the context handed to Start is cancelled as soon as Start has returned (the usual
	// `ctx, cancel := context.WithTimeout(…); defer cancel(); stub.Start(ctx)` of a plugin's main):
	// it bounds the start-up, it must not affect the session that follows
	CancelCtx bool `json:"cancel_ctx"`
}

type ReqIn struct {
	Op    string   `json:"op"` // CreateContainer UpdateContainer StopContainer UpdatePodSandbox StateChange Synchronize Shutdown
	Event int32    `json:"event"`
	Pod   *string  `json:"pod"` // canonical (base64 of deterministic protobuf) or null = nil
	Ctr   *string  `json:"ctr"`
	Res   *string  `json:"res"`
	Ovh   *string  `json:"ovh"`
	Pods  []string `json:"pods"` // Synchronize
	Ctrs  []string `json:"ctrs"`
	More  bool     `json:"more"`
	// what whichever plugin method gets invoked during this request returns
	Adjust  *string  `json:"adjust"`
	Updates []string `json:"updates"`
	Err     string   `json:"err"`
}

type CallObs struct {
	M    string    `json:"m"`    // Go method name
	K    string    `json:"k"`    // argument shape: config sync none pod podCtr podCtrRes podOvhRes
	A    []*string `json:"a"`    // the optional sub-messages, canonical
	S    []string  `json:"s"`    // config: [config, runtime, version]
	Pods []string  `json:"pods"` // sync
	Ctrs []string  `json:"ctrs"`
}

type ErrObs struct {
	Set   bool   `json:"set"`
	Kind  string `json:"kind"`  // handler | unhandled | transport | deadline
	Msg   string `json:"msg"`   // status message (handler errors: the handler's own text)
	Extra int64  `json:"extra"` // unhandled: the offending bits parsed from the message, -1 if absent
}

type ReqObs struct {
	Calls   []CallObs `json:"calls"`
	Err     ErrObs    `json:"err"`
	Adjust  *string   `json:"adjust"`
	Updates []string  `json:"updates"`
	More    bool      `json:"more"`
}

type SessionObs struct {
	Create    string    `json:"create"` // ok | nohandlers | error
	CreateMsg string    `json:"createmsg"`
	RegName   string    `json:"regname"`
	RegIdx    string    `json:"regidx"`
	Start     string    `json:"start"` // ok | error | blocked | none
	CfgCalls  []CallObs `json:"cfgcalls"`
	CfgErr    ErrObs    `json:"cfgerr"`
	CfgEvents uint32    `json:"cfgevents"`
	RegToNs   int64     `json:"regtons"`
	ReqToNs   int64     `json:"reqtons"`
	Reqs      []ReqObs  `json:"reqs"`
	Extra     []CallObs `json:"extra"` // invocations seen after the last reply (must be none)
	Note      string    `json:"note"`
	// kind "restart": one observation per session played
	Sessions []SessionObs `json:"sessions"`
}

type workerJob struct {
	ID string    `json:"id"`
	In SessionIn `json:"in"`
}

type workerRes struct {
	ID  string     `json:"id"`
	Obs SessionObs `json:"obs"`
}

// ---------------------------------------------------------------- canonical payloads

// Canon is the canonical form of a protobuf message: base64 of its deterministic encoding;
// nil stays nil.
func Canon(m proto.Message) *string {
	if m == nil || !m.ProtoReflect().IsValid() {
		return nil
	}
	b, err := proto.MarshalOptions{Deterministic: true}.Marshal(m)
	if err != nil {
		s := "!marshal:" + err.Error()
		return &s
	}
	s := base64.RawStdEncoding.EncodeToString(b)
	return &s
}

func canonS(m proto.Message) string {
	p := Canon(m)
	if p == nil {
		return "!nil"
	}
	return *p
}

func decode(s *string, m proto.Message) bool {
	if s == nil {
		return false
	}
	b, err := base64.RawStdEncoding.DecodeString(*s)
	if err != nil {
		panic("bad canonical payload: " + err.Error())
	}
	if err := proto.Unmarshal(b, m); err != nil {
		panic("bad canonical payload: " + err.Error())
	}
	return true
}

func decPod(s *string) *api.PodSandbox {
	m := &api.PodSandbox{}
	if !decode(s, m) {
		return nil
	}
	return m
}
func decCtr(s *string) *api.Container {
	m := &api.Container{}
	if !decode(s, m) {
		return nil
	}
	return m
}
func decRes(s *string) *api.LinuxResources {
	m := &api.LinuxResources{}
	if !decode(s, m) {
		return nil
	}
	return m
}
func decAdj(s *string) *api.ContainerAdjustment {
	m := &api.ContainerAdjustment{}
	if !decode(s, m) {
		return nil
	}
	return m
}
func decUpds(ss []string) []*api.ContainerUpdate {
	var out []*api.ContainerUpdate
	for i := range ss {
		m := &api.ContainerUpdate{}
		decode(&ss[i], m)
		out = append(out, m)
	}
	return out
}

// ---------------------------------------------------------------- the instrumented plugin

type script struct {
	events  api.EventMask
	adjust  *api.ContainerAdjustment
	updates []*api.ContainerUpdate
	err     error
}

// Rec records every invocation of a plugin method and supplies what the method returns.
type Rec struct {
	mu    sync.Mutex
	calls []CallObs
	cur   script
}

func (r *Rec) set(s script) {
	r.mu.Lock()
	r.cur = s
	r.mu.Unlock()
}

func (r *Rec) take() []CallObs {
	r.mu.Lock()
	defer r.mu.Unlock()
	c := r.calls
	r.calls = nil
	if c == nil {
		c = []CallObs{}
	}
	return c
}

func (r *Rec) rec(c CallObs) script {
	if c.A == nil {
		c.A = []*string{}
	}
	if c.S == nil {
		c.S = []string{}
	}
	if c.Pods == nil {
		c.Pods = []string{}
	}
	if c.Ctrs == nil {
		c.Ctrs = []string{}
	}
	r.mu.Lock()
	defer r.mu.Unlock()
	r.calls = append(r.calls, c)
	return r.cur
}

func cPod(p *api.PodSandbox) *string {
	if p == nil {
		return nil
	}
	return Canon(p)
}
func cCtr(p *api.Container) *string {
	if p == nil {
		return nil
	}
	return Canon(p)
}
func cRes(p *api.LinuxResources) *string {
	if p == nil {
		return nil
	}
	return Canon(p)
}

// The sixteen one-method structs. A generated plugin type embeds a subset of them.

type HConfigure struct{ R *Rec }

func (h HConfigure) Configure(_ context.Context, config, runtime, version string) (api.EventMask, error) {
	s := h.R.rec(CallObs{M: "Configure", K: "config", S: []string{config, runtime, version}})
	return s.events, s.err
}

type HSynchronize struct{ R *Rec }

func (h HSynchronize) Synchronize(_ context.Context, pods []*api.PodSandbox, ctrs []*api.Container) ([]*api.ContainerUpdate, error) {
	c := CallObs{M: "Synchronize", K: "sync"}
	for _, p := range pods {
		c.Pods = append(c.Pods, canonS(p))
	}
	for _, p := range ctrs {
		c.Ctrs = append(c.Ctrs, canonS(p))
	}
	s := h.R.rec(c)
	return s.updates, s.err
}

type HShutdown struct{ R *Rec }

func (h HShutdown) Shutdown(_ context.Context) {
	h.R.rec(CallObs{M: "Shutdown", K: "none"})
}

type HRunPodSandbox struct{ R *Rec }

func (h HRunPodSandbox) RunPodSandbox(_ context.Context, pod *api.PodSandbox) error {
	return h.R.rec(CallObs{M: "RunPodSandbox", K: "pod", A: []*string{cPod(pod)}}).err
}

type HUpdatePodSandbox struct{ R *Rec }

func (h HUpdatePodSandbox) UpdatePodSandbox(_ context.Context, pod *api.PodSandbox, ovh, res *api.LinuxResources) error {
	return h.R.rec(CallObs{M: "UpdatePodSandbox", K: "podOvhRes", A: []*string{cPod(pod), cRes(ovh), cRes(res)}}).err
}

type HStopPodSandbox struct{ R *Rec }

func (h HStopPodSandbox) StopPodSandbox(_ context.Context, pod *api.PodSandbox) error {
	return h.R.rec(CallObs{M: "StopPodSandbox", K: "pod", A: []*string{cPod(pod)}}).err
}

type HRemovePodSandbox struct{ R *Rec }

func (h HRemovePodSandbox) RemovePodSandbox(_ context.Context, pod *api.PodSandbox) error {
	return h.R.rec(CallObs{M: "RemovePodSandbox", K: "pod", A: []*string{cPod(pod)}}).err
}

type HPostUpdatePodSandbox struct{ R *Rec }

func (h HPostUpdatePodSandbox) PostUpdatePodSandbox(_ context.Context, pod *api.PodSandbox) error {
	return h.R.rec(CallObs{M: "PostUpdatePodSandbox", K: "pod", A: []*string{cPod(pod)}}).err
}

type HCreateContainer struct{ R *Rec }

func (h HCreateContainer) CreateContainer(_ context.Context, pod *api.PodSandbox, ctr *api.Container) (*api.ContainerAdjustment, []*api.ContainerUpdate, error) {
	s := h.R.rec(CallObs{M: "CreateContainer", K: "podCtr", A: []*string{cPod(pod), cCtr(ctr)}})
	return s.adjust, s.updates, s.err
}

type HStartContainer struct{ R *Rec }

func (h HStartContainer) StartContainer(_ context.Context, pod *api.PodSandbox, ctr *api.Container) error {
	return h.R.rec(CallObs{M: "StartContainer", K: "podCtr", A: []*string{cPod(pod), cCtr(ctr)}}).err
}

type HUpdateContainer struct{ R *Rec }

func (h HUpdateContainer) UpdateContainer(_ context.Context, pod *api.PodSandbox, ctr *api.Container, res *api.LinuxResources) ([]*api.ContainerUpdate, error) {
	s := h.R.rec(CallObs{M: "UpdateContainer", K: "podCtrRes", A: []*string{cPod(pod), cCtr(ctr), cRes(res)}})
	return s.updates, s.err
}

type HStopContainer struct{ R *Rec }

func (h HStopContainer) StopContainer(_ context.Context, pod *api.PodSandbox, ctr *api.Container) ([]*api.ContainerUpdate, error) {
	s := h.R.rec(CallObs{M: "StopContainer", K: "podCtr", A: []*string{cPod(pod), cCtr(ctr)}})
	return s.updates, s.err
}

type HRemoveContainer struct{ R *Rec }

func (h HRemoveContainer) RemoveContainer(_ context.Context, pod *api.PodSandbox, ctr *api.Container) error {
	return h.R.rec(CallObs{M: "RemoveContainer", K: "podCtr", A: []*string{cPod(pod), cCtr(ctr)}}).err
}

type HPostCreateContainer struct{ R *Rec }

func (h HPostCreateContainer) PostCreateContainer(_ context.Context, pod *api.PodSandbox, ctr *api.Container) error {
	return h.R.rec(CallObs{M: "PostCreateContainer", K: "podCtr", A: []*string{cPod(pod), cCtr(ctr)}}).err
}

type HPostStartContainer struct{ R *Rec }

func (h HPostStartContainer) PostStartContainer(_ context.Context, pod *api.PodSandbox, ctr *api.Container) error {
	return h.R.rec(CallObs{M: "PostStartContainer", K: "podCtr", A: []*string{cPod(pod), cCtr(ctr)}}).err
}

type HPostUpdateContainer struct{ R *Rec }

func (h HPostUpdateContainer) PostUpdateContainer(_ context.Context, pod *api.PodSandbox, ctr *api.Container) error {
	return h.R.rec(CallObs{M: "PostUpdateContainer", K: "podCtr", A: []*string{cPod(pod), cCtr(ctr)}}).err
}

// HandlerStructs names the embedded struct for each bit of a type id (bit 0 = event 1 …).
var HandlerStructs = [16]string{
	"HRunPodSandbox", "HStopPodSandbox", "HRemovePodSandbox", "HCreateContainer",
	"HPostCreateContainer", "HStartContainer", "HPostStartContainer", "HUpdateContainer",
	"HPostUpdateContainer", "HStopContainer", "HRemoveContainer", "HUpdatePodSandbox",
	"HPostUpdatePodSandbox", "HConfigure", "HSynchronize", "HShutdown",
}

// ---------------------------------------------------------------- scripted runtime end

type rtEnd struct {
	regC chan [2]string
}

func (r *rtEnd) RegisterPlugin(_ context.Context, req *api.RegisterPluginRequest) (*api.Empty, error) {
	select {
	case r.regC <- [2]string{req.PluginName, req.PluginIdx}:
	default:
	}
	return &api.Empty{}, nil
}

func (r *rtEnd) UpdateContainers(_ context.Context, _ *api.UpdateContainersRequest) (*api.UpdateContainersResponse, error) {
	return &api.UpdateContainersResponse{}, nil
}

var unhandledRe = regexp.MustCompile(`\(0x([0-9a-f]+)\)\s*$`)

func errObs(err error) ErrObs {
	if err == nil {
		return ErrObs{Extra: -1}
	}
	o := ErrObs{Set: true, Extra: -1}
	if st, ok := status.FromError(err); ok {
		o.Msg = st.Message()
		o.Kind = "handler"
		if strings.HasPrefix(o.Msg, "internal error: unhandled events") {
			o.Kind = "unhandled"
			if m := unhandledRe.FindStringSubmatch(o.Msg); m != nil {
				if v, e := strconv.ParseUint(m[1], 16, 64); e == nil {
					o.Extra = int64(v)
				}
			}
		}
		return o
	}
	o.Kind = "transport"
	if err == context.DeadlineExceeded || strings.Contains(err.Error(), "deadline") {
		o.Kind = "deadline"
	}
	o.Msg = err.Error()
	return o
}

func mkScript(adj *string, upd []string, e string) script {
	s := script{adjust: decAdj(adj), updates: decUpds(upd)}
	if e != "" {
		s.err = fmt.Errorf("%s", e)
	}
	return s
}

func updObs(us []*api.ContainerUpdate) []string {
	out := []string{}
	for _, u := range us {
		out = append(out, canonS(u))
	}
	return out
}

const stepDeadline = 20 * time.Second

// rig is one real stub around an instance of a generated plugin type. Every Start dials a
// fresh socket pair through stub.WithDialer, so the same stub can be started again after a
// Stop or a lost connection.
type rig struct {
	rec    *Rec
	st     stub.Stub
	connC  chan stdnet.Conn // runtime ends of the pairs the stub dialled
	closed chan struct{}    // onClose notifications
}

func newRig(mk func(*Rec) interface{}, name, idx string) (*rig, error) {
	g := &rig{rec: &Rec{}, connC: make(chan stdnet.Conn, 4), closed: make(chan struct{}, 16)}
	plugin := mk(g.rec)
	st, err := stub.New(plugin,
		stub.WithPluginName(name), stub.WithPluginIdx(idx),
		stub.WithDialer(func(string) (stdnet.Conn, error) {
			sp, err := nrinet.NewSocketPair()
			if err != nil {
				return nil, err
			}
			l, err := sp.LocalConn()
			if err != nil {
				sp.Close()
				return nil, err
			}
			p, err := sp.PeerConn()
			if err != nil {
				l.Close()
				sp.Close()
				return nil, err
			}
			g.connC <- l
			return p, nil
		}),
		stub.WithOnClose(func() {
			select {
			case g.closed <- struct{}{}:
			default:
			}
		}))
	if err != nil {
		return nil, err
	}
	g.st = st
	return g, nil
}

func emptyObs() SessionObs {
	return SessionObs{Start: "none", CfgCalls: []CallObs{}, Reqs: []ReqObs{}, Extra: []CallObs{}, CfgErr: ErrObs{Extra: -1}}
}

// play runs one session of the stub against a scripted runtime end, wired as pkg/adaptation
// does it: Start, registration, Configure, the requests, then the session is ended by
// Stop() ("stop") or by the runtime end hanging up ("close").
func (g *rig) play(cfg *CfgIn, reqs []ReqIn, end string, obs *SessionObs) {
	rec, st := g.rec, g.st
	for len(g.closed) > 0 { // notifications of earlier sessions
		<-g.closed
	}
	rec.set(script{events: api.EventMask(int32(cfg.Events)), err: func() error {
		if cfg.Err != "" {
			return fmt.Errorf("%s", cfg.Err)
		}
		return nil
	}()})
	startC := make(chan error, 1)
	startCtx, cancelStart := context.WithCancel(context.Background())
	defer cancelStart() // at the latest when the session is over
	go func() { startC <- st.Start(startCtx) }()
	var lconn stdnet.Conn
	select {
	case lconn = <-g.connC:
	case err := <-startC:
		obs.Start = "error"
		obs.Note = "harness: start returned before connecting: " + fmt.Sprint(err)
		return
	case <-time.After(stepDeadline):
		obs.Start = "blocked"
		obs.Note = "no connection"
		return
	}
	defer lconn.Close()
	rt := &rtEnd{regC: make(chan [2]string, 1)}
	mux := multiplex.Multiplex(lconn, multiplex.WithBlockedRead())
	defer mux.Close()
	pc, err := mux.Open(multiplex.PluginServiceConn)
	if err != nil {
		obs.Note = "harness: " + err.Error()
		return
	}
	rpcc := ttrpc.NewClient(pc)
	defer rpcc.Close()
	rpcs, err := ttrpc.NewServer()
	if err != nil {
		obs.Note = "harness: " + err.Error()
		return
	}
	defer rpcs.Close()
	rpcl, err := mux.Listen(multiplex.RuntimeServiceConn)
	if err != nil {
		obs.Note = "harness: " + err.Error()
		return
	}
	api.RegisterRuntimeService(rpcs, rt)
	go rpcs.Serve(context.Background(), rpcl)
	mux.Unblock()
	client := api.NewPluginClient(rpcc)

	select {
	case r := <-rt.regC:
		obs.RegName, obs.RegIdx = r[0], r[1]
	case err := <-startC:
		obs.Start = "error"
		obs.Note = "start returned before registering: " + fmt.Sprint(err)
		return
	case <-time.After(stepDeadline):
		obs.Start = "blocked"
		obs.Note = "no registration"
		return
	}

	ctx, cancel := context.WithTimeout(context.Background(), stepDeadline)
	rpl, cerr := client.Configure(ctx, &api.ConfigureRequest{
		Config: cfg.Config, RuntimeName: cfg.RName, RuntimeVersion: cfg.RVer,
		RegistrationTimeout: cfg.RegTo, RequestTimeout: cfg.ReqTo,
	})
	cancel()
	obs.CfgErr = errObs(cerr)
	if rpl != nil {
		obs.CfgEvents = uint32(rpl.Events)
	}
	select {
	case err := <-startC:
		if err == nil {
			obs.Start = "ok"
		} else {
			obs.Start = "error"
		}
	case <-time.After(stepDeadline):
		obs.Start = "blocked"
	}
	if cfg.CancelCtx {
		cancelStart()
	}
	obs.CfgCalls = rec.take()
	obs.RegToNs = int64(st.RegistrationTimeout())
	obs.ReqToNs = int64(st.RequestTimeout())
	if obs.Start != "ok" {
		if obs.Start == "error" {
			// the failed Start tears its connection down; let that settle before a next session
			mux.Close()
			select {
			case <-g.closed:
			case <-time.After(2 * time.Second):
			}
		}
		return
	}

	for i := range reqs {
		rq := &reqs[i]
		rec.set(mkScript(rq.Adjust, rq.Updates, rq.Err))
		ro := ReqObs{Updates: []string{}}
		ctx, cancel := context.WithTimeout(context.Background(), stepDeadline)
		var err error
		switch rq.Op {
		case "CreateContainer":
			var r *api.CreateContainerResponse
			r, err = client.CreateContainer(ctx, &api.CreateContainerRequest{Pod: decPod(rq.Pod), Container: decCtr(rq.Ctr)})
			if r != nil {
				if r.Adjust != nil {
					ro.Adjust = Canon(r.Adjust)
				}
				ro.Updates = updObs(r.Update)
			}
		case "UpdateContainer":
			var r *api.UpdateContainerResponse
			r, err = client.UpdateContainer(ctx, &api.UpdateContainerRequest{Pod: decPod(rq.Pod), Container: decCtr(rq.Ctr), LinuxResources: decRes(rq.Res)})
			if r != nil {
				ro.Updates = updObs(r.Update)
			}
		case "StopContainer":
			var r *api.StopContainerResponse
			r, err = client.StopContainer(ctx, &api.StopContainerRequest{Pod: decPod(rq.Pod), Container: decCtr(rq.Ctr)})
			if r != nil {
				ro.Updates = updObs(r.Update)
			}
		case "UpdatePodSandbox":
			_, err = client.UpdatePodSandbox(ctx, &api.UpdatePodSandboxRequest{Pod: decPod(rq.Pod), OverheadLinuxResources: decRes(rq.Ovh), LinuxResources: decRes(rq.Res)})
		case "StateChange":
			_, err = client.StateChange(ctx, &api.StateChangeEvent{Event: api.Event(rq.Event), Pod: decPod(rq.Pod), Container: decCtr(rq.Ctr)})
		case "Synchronize":
			req := &api.SynchronizeRequest{More: rq.More}
			for j := range rq.Pods {
				req.Pods = append(req.Pods, decPod(&rq.Pods[j]))
			}
			for j := range rq.Ctrs {
				req.Containers = append(req.Containers, decCtr(&rq.Ctrs[j]))
			}
			var r *api.SynchronizeResponse
			r, err = client.Synchronize(ctx, req)
			if r != nil {
				ro.Updates = updObs(r.Update)
				ro.More = r.More
			}
		case "Shutdown":
			_, err = client.Shutdown(ctx, &api.Empty{})
		default:
			cancel()
			panic("unknown op " + rq.Op)
		}
		cancel()
		ro.Err = errObs(err)
		ro.Calls = rec.take()
		obs.Reqs = append(obs.Reqs, ro)
		if ro.Err.Kind == "transport" || ro.Err.Kind == "deadline" {
			break
		}
	}
	// anything still arriving after the last reply would be a duplicate or stray delivery
	time.Sleep(2 * time.Millisecond)
	runtime.Gosched()
	obs.Extra = rec.take()

	if end == "close" {
		// the runtime goes away; the stub notices, closes its side and tells the plugin
		rpcc.Close()
		mux.Close()
		lconn.Close()
		select {
		case <-g.closed:
		case <-time.After(stepDeadline):
			obs.Note = "blocked: no onClose after the runtime hung up"
		}
	}
	stopped := make(chan struct{})
	go func() { st.Stop(); close(stopped) }()
	select {
	case <-stopped:
	case <-time.After(stepDeadline):
		obs.Note = "stop blocked"
	}
	if end != "close" {
		// Stop closes the connection; its close notification belongs to this session
		select {
		case <-g.closed:
		case <-time.After(2 * time.Second):
		}
	}
}

func createObs(err error, obs *SessionObs) {
	obs.CreateMsg = err.Error()
	if strings.Contains(err.Error(), "does not implement any NRI request handlers") {
		obs.Create = "nohandlers"
	} else {
		obs.Create = "error"
	}
}

// RunSession drives one real stub, built around an instance of the generated plugin type,
// from a scripted runtime end over a real socket pair.
func RunSession(mk func(*Rec) interface{}, in *SessionIn) (obs SessionObs) {
	obs = emptyObs()
	defer func() {
		if p := recover(); p != nil {
			obs.Note = "crashed: " + strings.SplitN(fmt.Sprint(p), "\n", 2)[0]
		}
	}()
	g, err := newRig(mk, in.Name, in.Idx)
	if err != nil {
		createObs(err, &obs)
		return
	}
	obs.Create = "ok"
	g.play(&in.Cfg, in.Reqs, "stop", &obs)
	return
}

// RunRestart reuses ONE stub for several sessions: Start, configuration, requests, Stop or
// connection loss, Start again on a fresh connection.
func RunRestart(mk func(*Rec) interface{}, in *SessionIn) (obs SessionObs) {
	obs = emptyObs()
	obs.Sessions = []SessionObs{}
	defer func() {
		if p := recover(); p != nil {
			obs.Note = "crashed: " + strings.SplitN(fmt.Sprint(p), "\n", 2)[0]
		}
	}()
	g, err := newRig(mk, in.Name, in.Idx)
	if err != nil {
		createObs(err, &obs)
		return
	}
	obs.Create = "ok"
	for i := range in.Sessions {
		so := emptyObs()
		so.Create = "ok"
		g.play(&in.Sessions[i].Cfg, in.Sessions[i].Reqs, in.Sessions[i].End, &so)
		obs.Sessions = append(obs.Sessions, so)
		if so.Start == "blocked" || strings.HasPrefix(so.Note, "harness") || strings.Contains(so.Note, "blocked") {
			break // a hung stub cannot be driven any further
		}
	}
	return
}

// WorkerMain is the main function of the generated worker binary: jobs on stdin (one JSON
// object per line), results on stdout, in any order.
func WorkerMain(types map[uint32]func(*Rec) interface{}) {
	logrus.SetOutput(io.Discard)
	logrus.SetLevel(logrus.PanicLevel)
	par := runtime.NumCPU()
	if par > 6 {
		par = 6
	}
	if v, err := strconv.Atoi(os.Getenv("C15_PAR")); err == nil && v > 0 {
		par = v
	}
	jobs := make(chan workerJob, 64)
	out := bufio.NewWriterSize(os.Stdout, 1<<20)
	var omu sync.Mutex
	var wg sync.WaitGroup
	for i := 0; i < par; i++ {
		wg.Add(1)
		go func() {
			defer wg.Done()
			for j := range jobs {
				var obs SessionObs
				mk, ok := types[j.In.Type]
				if !ok {
					obs = SessionObs{Note: fmt.Sprintf("harness: type %#x not generated", j.In.Type)}
				} else if j.In.Kind == "restart" {
					obs = RunRestart(mk, &j.In)
				} else {
					obs = RunSession(mk, &j.In)
				}
				b, err := json.Marshal(workerRes{ID: j.ID, Obs: obs})
				if err != nil {
					b, _ = json.Marshal(workerRes{ID: j.ID, Obs: SessionObs{Note: "harness: " + err.Error()}})
				}
				omu.Lock()
				out.Write(b)
				out.WriteByte('\n')
				omu.Unlock()
			}
		}()
	}
	sc := bufio.NewScanner(os.Stdin)
	sc.Buffer(make([]byte, 1<<20), 1<<28)
	for sc.Scan() {
		if len(sc.Bytes()) == 0 {
			continue
		}
		var j workerJob
		if err := json.Unmarshal(sc.Bytes(), &j); err != nil {
			fmt.Fprintln(os.Stderr, "worker: bad job:", err)
			os.Exit(2)
		}
		jobs <- j
	}
	close(jobs)
	wg.Wait()
	out.Flush()
}

var _ stdnet.Conn // keep the import for documentation of the connection type used
