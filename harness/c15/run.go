// Package c15 is the correspondence harness for property C15 (placeholder).
package c15

import (
	"errors"

	"verifh/internal/hx"
	"verifh/internal/lineio"
)

func Run(o *hx.Opts, w *lineio.Writer) error {
	return errors.New("C15 harness not implemented")
}
