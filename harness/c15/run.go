// Package c15 is the correspondence harness for property C15: the stub subscribes exactly
// the implemented events and dispatches faithfully.
//
// Go cannot build types at run time, so the harness generates Go source — one struct type per
// handler subset, embedding the one-method handler structs of plug.go — into a git-ignored
// subdirectory of the harness module, compiles it together with plug.go into a worker binary
// (same go.mod, hence the same `replace github.com/containerd/nri => $VERIF_REPO`), and lets
// that worker drive a real stub.New/Start per case from a scripted runtime end (real ttrpc
// over the real multiplexer, wired as pkg/adaptation does). Observation per case: creation
// result, name/index registered, configuration reply, the stub's timeouts, and per request the
// plugin methods invoked with canonical arguments and the reply or error the runtime end got.
package c15

import (
	"bufio"
	"bytes"
	"encoding/json"
	"fmt"
	"math/rand"
	"os"
	"os/exec"
	"path/filepath"
	"sort"
	"strings"
	"time"

	"github.com/containerd/nri/pkg/api"

	"verifh/internal/hx"
	"verifh/internal/lineio"
)

const allEv = uint32(0x1fff)

// ---------------------------------------------------------------- payload generators

func rstr(r *rand.Rand, n int) string {
	const al = "abcdefghijklmnopqrstuvwxyz0123456789-_./=, éß☃"
	rs := []rune(al)
	b := make([]rune, 1+r.Intn(n))
	for i := range b {
		b[i] = rs[r.Intn(len(rs))]
	}
	return string(b)
}

func rmap(r *rand.Rand) map[string]string {
	if r.Intn(3) == 0 {
		return nil
	}
	m := map[string]string{}
	for i := r.Intn(4); i > 0; i-- {
		m[rstr(r, 8)] = rstr(r, 12)
	}
	return m
}

func genRes(r *rand.Rand) *api.LinuxResources {
	res := &api.LinuxResources{}
	if r.Intn(2) == 0 {
		res.Memory = &api.LinuxMemory{}
		if r.Intn(2) == 0 {
			res.Memory.Limit = api.Int64(int64(r.Intn(1 << 30)))
		}
		if r.Intn(3) == 0 {
			res.Memory.Swap = api.Int64(0) // set to zero ≠ unset
		}
	}
	if r.Intn(2) == 0 {
		res.Cpu = &api.LinuxCPU{Cpus: fmt.Sprintf("0-%d", r.Intn(8))}
		if r.Intn(2) == 0 {
			res.Cpu.Shares = api.UInt64(uint64(r.Intn(4096)))
		}
		if r.Intn(2) == 0 {
			res.Cpu.Quota = api.Int64(int64(r.Intn(100000)) - 1)
		}
	}
	if r.Intn(4) == 0 {
		res.Unified = map[string]string{"memory.high": fmt.Sprint(r.Intn(1 << 20))}
	}
	if r.Intn(5) == 0 {
		res.HugepageLimits = []*api.HugepageLimit{{PageSize: "2MB", Limit: uint64(r.Intn(64))}}
	}
	return res
}

func genPod(r *rand.Rand, rich bool) *api.PodSandbox {
	p := &api.PodSandbox{Id: "p" + rstr(r, 6)}
	if r.Intn(12) == 0 {
		return &api.PodSandbox{} // present but empty ≠ nil
	}
	if rich {
		p.Name, p.Uid, p.Namespace = rstr(r, 10), rstr(r, 8), rstr(r, 6)
		p.Labels, p.Annotations = rmap(r), rmap(r)
		p.Pid = uint32(r.Intn(1 << 16))
		if r.Intn(2) == 0 {
			p.Linux = &api.LinuxPodSandbox{CgroupParent: "/" + rstr(r, 8), PodOverhead: genRes(r)}
		}
		if r.Intn(3) == 0 {
			p.Ips = []string{"10.0.0." + fmt.Sprint(r.Intn(255))}
		}
	}
	return p
}

func genCtr(r *rand.Rand, rich bool) *api.Container {
	c := &api.Container{Id: "c" + rstr(r, 6), PodSandboxId: "p" + rstr(r, 4)}
	if r.Intn(12) == 0 {
		return &api.Container{}
	}
	if rich {
		c.Name = rstr(r, 10)
		c.State = api.ContainerState(r.Intn(5))
		c.Labels, c.Annotations = rmap(r), rmap(r)
		c.Args = []string{rstr(r, 5), rstr(r, 5)}
		c.Env = []string{"A=" + rstr(r, 4)}
		if r.Intn(2) == 0 {
			c.Mounts = []*api.Mount{{Destination: "/" + rstr(r, 6), Source: "/" + rstr(r, 6), Type: "bind", Options: []string{"ro"}}}
		}
		if r.Intn(2) == 0 {
			c.Linux = &api.LinuxContainer{Resources: genRes(r), CgroupsPath: "/" + rstr(r, 6)}
		}
		c.Pid = uint32(r.Intn(1 << 16))
		c.CreatedAt = r.Int63n(1 << 40)
	}
	return c
}

func genAdjust(r *rand.Rand) *api.ContainerAdjustment {
	a := &api.ContainerAdjustment{}
	switch r.Intn(5) {
	case 0: // present but empty
	case 1:
		a.Annotations = map[string]string{rstr(r, 6): rstr(r, 6), "-" + rstr(r, 4): ""}
	case 2:
		a.Env = []*api.KeyValue{{Key: rstr(r, 4), Value: rstr(r, 6)}}
		a.Args = []string{"", rstr(r, 4)}
	case 3:
		a.Mounts = []*api.Mount{{Destination: "/" + rstr(r, 5), Source: "/" + rstr(r, 5), Type: "bind"}}
		a.Linux = &api.LinuxContainerAdjustment{Resources: genRes(r), CgroupsPath: rstr(r, 5)}
	case 4:
		a.Linux = &api.LinuxContainerAdjustment{OomScoreAdj: &api.OptionalInt{Value: int64(r.Intn(2000) - 1000)}}
		a.Rlimits = []*api.POSIXRlimit{{Type: "RLIMIT_NOFILE", Hard: uint64(r.Intn(4096)), Soft: uint64(r.Intn(1024))}}
	}
	return a
}

func genUpdates(r *rand.Rand) []string {
	out := []string{}
	n := 0
	switch r.Intn(4) {
	case 1:
		n = 1
	case 2:
		n = 2
	case 3:
		n = 1 + r.Intn(4)
	}
	for i := 0; i < n; i++ {
		u := &api.ContainerUpdate{ContainerId: "c" + rstr(r, 5), IgnoreFailure: r.Intn(3) == 0}
		if r.Intn(4) != 0 {
			u.Linux = &api.LinuxContainerUpdate{Resources: genRes(r)}
		}
		out = append(out, canonS(u))
	}
	return out
}

func optPod(r *rand.Rand, rich bool) *string {
	if r.Intn(10) == 0 {
		return nil
	}
	return Canon(genPod(r, rich))
}
func optCtr(r *rand.Rand, rich bool) *string {
	if r.Intn(10) == 0 {
		return nil
	}
	return Canon(genCtr(r, rich))
}
func optRes(r *rand.Rand) *string {
	if r.Intn(6) == 0 {
		return nil
	}
	return Canon(genRes(r))
}

func errText(r *rand.Rand) string {
	if r.Intn(4) != 0 {
		return ""
	}
	return "E:" + rstr(r, 16)
}

// requestFor builds the request the runtime sends for lifecycle event e.
func requestFor(r *rand.Rand, e int32, rich bool) ReqIn {
	q := ReqIn{Event: e, Pods: []string{}, Ctrs: []string{}, Updates: []string{}}
	switch e {
	case 4:
		q.Op = "CreateContainer"
	case 8:
		q.Op = "UpdateContainer"
	case 10:
		q.Op = "StopContainer"
	case 12:
		q.Op = "UpdatePodSandbox"
	default:
		q.Op = "StateChange"
	}
	q.Pod = optPod(r, rich)
	if e != 12 {
		q.Ctr = optCtr(r, rich)
	}
	if e == 8 || e == 12 {
		q.Res = optRes(r)
	}
	if e == 12 {
		q.Ovh = optRes(r)
	}
	// the script is always fully populated: a handler that can return a field returns it
	if r.Intn(4) != 0 {
		q.Adjust = Canon(genAdjust(r))
	}
	q.Updates = genUpdates(r)
	q.Err = errText(r)
	return q
}

func foreign(r *rand.Rand, e int32) ReqIn {
	q := requestFor(r, e, false)
	q.Op = "StateChange"
	q.Res, q.Ovh = nil, nil
	if q.Ctr == nil {
		q.Ctr = optCtr(r, false)
	}
	return q
}

func syncReq(r *rand.Rand, more bool, rich bool) ReqIn {
	q := ReqIn{Op: "Synchronize", More: more, Pods: []string{}, Ctrs: []string{}, Updates: genUpdates(r), Err: ""}
	for i := r.Intn(4); i > 0; i-- {
		q.Pods = append(q.Pods, canonS(genPod(r, rich)))
	}
	for i := r.Intn(5); i > 0; i-- {
		q.Ctrs = append(q.Ctrs, canonS(genCtr(r, rich)))
	}
	if !more {
		q.Err = errText(r)
	}
	return q
}

// fullReqs: every lifecycle event once (shuffled), two repeats, StateChange notifications
// carrying events that have no StateChange handler, a split synchronisation, a second
// synchronisation, a dangling More chunk, and Shutdown last.
func fullReqs(r *rand.Rand, rich bool) []ReqIn {
	var qs []ReqIn
	for e := int32(1); e <= 13; e++ {
		qs = append(qs, requestFor(r, e, rich))
	}
	for i := 0; i < 2; i++ {
		qs = append(qs, requestFor(r, int32(1+r.Intn(13)), rich))
	}
	for _, e := range []int32{0, 4, 8, 10, 12, 14, int32(15 + r.Intn(40))} {
		qs = append(qs, foreign(r, e))
	}
	r.Shuffle(len(qs), func(i, j int) { qs[i], qs[j] = qs[j], qs[i] })
	// synchronisations are spliced in keeping their relative order
	var ss []ReqIn
	for i := r.Intn(4); i > 0; i-- {
		ss = append(ss, syncReq(r, true, rich))
	}
	ss = append(ss, syncReq(r, false, rich))
	ss = append(ss, syncReq(r, false, rich))
	if r.Intn(2) == 0 {
		ss = append(ss, syncReq(r, true, rich))
	}
	pos := make([]int, len(ss))
	for i := range pos {
		pos[i] = r.Intn(len(qs) + 1)
	}
	sort.Ints(pos)
	var out []ReqIn
	k := 0
	for i := 0; i <= len(qs); i++ {
		for k < len(ss) && pos[k] == i {
			out = append(out, ss[k])
			k++
		}
		if i < len(qs) {
			out = append(out, qs[i])
		}
	}
	out = append(out, ReqIn{Op: "Shutdown", Pods: []string{}, Ctrs: []string{}, Updates: []string{}})
	return out
}

func shortReqs(r *rand.Rand, n int) []ReqIn {
	var qs []ReqIn
	for i := 0; i < n; i++ {
		qs = append(qs, requestFor(r, int32(1+r.Intn(13)), r.Intn(3) == 0))
	}
	return qs
}

func randSubsetOf(r *rand.Rand, set uint32, nonEmpty bool) uint32 {
	var m uint32
	for b := uint32(0); b < 32; b++ {
		if set&(1<<b) != 0 && r.Intn(2) == 0 {
			m |= 1 << b
		}
	}
	if m == 0 && nonEmpty && set != 0 {
		for {
			b := uint32(r.Intn(32))
			if set&(1<<b) != 0 {
				return 1 << b
			}
		}
	}
	return m
}

// genTimeout: milliseconds as a runtime would pass them — a quarter of the time none at all
// (zero: older runtimes), rarely a negative value, otherwise 2 s … 100 s (the stub registers
// again under the registration timeout it was given: a few milliseconds would make a restart
// fail for honest reasons on a busy machine).
func genTimeout(r *rand.Rand) int64 {
	switch k := r.Intn(20); {
	case k < 5:
		return 0
	case k == 5:
		return -int64(r.Intn(1000)) - 1
	}
	return int64(2000 + r.Intn(98000))
}

func cfgIn(r *rand.Rand, events uint32, err string) CfgIn {
	return CfgIn{Config: rstr(r, 20), RName: rstr(r, 8), RVer: "v" + rstr(r, 5),
		RegTo: genTimeout(r), ReqTo: genTimeout(r), Events: events, Err: err, CancelCtx: r.Intn(3) == 0}
}

// sessionsFor produces the cases for one set of implemented events.
func sessionsFor(r *rand.Rand, ev uint32, thoroughBulk bool) []SessionIn {
	var out []SessionIn
	aux := func(cfg bool) uint32 {
		t := ev
		if cfg {
			t |= 1 << 13
		}
		t |= uint32(r.Intn(4)) << 14
		return t
	}
	name := func() (string, string) { return "p" + rstr(r, 6), fmt.Sprintf("%02d", r.Intn(100)) }
	mk := func(t uint32, c CfgIn, reqs []ReqIn) {
		n, i := name()
		out = append(out, SessionIn{Kind: "session", Type: t, Name: n, Idx: i, Cfg: c, Reqs: reqs})
	}
	// no Configure method: the stub answers with its own mask (scripted events are never read)
	mk(aux(false), cfgIn(r, r.Uint32(), ""), fullReqs(r, !thoroughBulk || r.Intn(4) == 0))
	if ev == 0 {
		return out
	}
	tc := aux(true)
	rest := func() []ReqIn {
		if thoroughBulk {
			return shortReqs(r, 3)
		}
		return fullReqs(r, r.Intn(2) == 0)
	}
	outside := allEv &^ ev
	// 0: everything implemented
	mk(tc, cfgIn(r, 0, ""), rest())
	// a subset (proper if possible)
	mk(tc, cfgIn(r, randSubsetOf(r, ev, true), ""), rest())
	// exactly the implemented set
	mk(tc, cfgIn(r, ev, ""), shortReqs(r, 2))
	// superset and disjoint: within the thirteen if there is room, else beyond them
	extra := randSubsetOf(r, outside, true)
	if extra == 0 {
		extra = 1 << uint(13+r.Intn(19))
	}
	mk(tc, cfgIn(r, ev|extra, ""), nil)
	mk(tc, cfgIn(r, extra, ""), nil)
	// a bit beyond the defined events / the sign bit
	if r.Intn(2) == 0 {
		mk(tc, cfgIn(r, randSubsetOf(r, ev, false)|1<<uint(13+r.Intn(19)), ""), nil)
	}
	// Configure fails
	mk(tc, cfgIn(r, randSubsetOf(r, allEv, false), "E:"+rstr(r, 12)), nil)
	return out
}

// restartsFor: ONE stub of a type with a Configure method, played through 2–4 sessions whose
// Configure answers form the given pattern. Every session is judged by the same
// history-independent predicates as a single session.
//
//	z = 0 (all implemented)   s = a non-empty proper subset (fresh each time)   x = exactly the implemented set
//	n = a subset NOT contained in the previous subset   u = superset (rejected)   d = disjoint (rejected)
//	e = Configure returns an error
func restartsFor(r *rand.Rand, ev uint32, patterns []string) []SessionIn {
	var out []SessionIn
	outside := allEv &^ ev
	for _, pat := range patterns {
		t := ev | 1<<13 | uint32(r.Intn(4))<<14
		in := SessionIn{Kind: "restart", Type: t, Name: "r" + rstr(r, 5), Idx: fmt.Sprintf("%02d", r.Intn(100)), Reqs: []ReqIn{}}
		var prev uint32
		for _, c := range pat {
			var m uint32
			e := ""
			switch c {
			case 'z':
				m = 0
			case 's':
				m = randSubsetOf(r, ev, true)
				if m == ev && ev&(ev-1) != 0 { // make it proper when there is room
					m &^= 1 << uint(bitsOf(ev)[r.Intn(len(bitsOf(ev)))])
				}
				prev = m
			case 'x':
				m = ev
			case 'n':
				rest := ev &^ prev
				if rest == 0 {
					m = ev
				} else {
					m = randSubsetOf(r, rest, true) | randSubsetOf(r, prev, false)
				}
				prev = m
			case 'u':
				x := randSubsetOf(r, outside, true)
				if x == 0 {
					x = 1 << uint(13+r.Intn(19))
				}
				m = ev | x
			case 'd':
				m = randSubsetOf(r, outside, true)
				if m == 0 {
					m = 1 << uint(13+r.Intn(19))
				}
			case 'e':
				m = randSubsetOf(r, allEv, false)
				e = "E:" + rstr(r, 10)
			}
			end := "stop"
			if r.Intn(3) == 0 {
				end = "close"
			}
			var reqs []ReqIn
			// a few lifecycle events incl. ones outside the asked mask, sometimes a dangling More chunk
			for _, b := range bitsOf(ev) {
				if r.Intn(3) == 0 || len(reqs) == 0 {
					reqs = append(reqs, requestFor(r, int32(b+1), false))
				}
			}
			reqs = append(reqs, requestFor(r, int32(1+r.Intn(13)), false))
			if len(reqs) > 5 {
				r.Shuffle(len(reqs), func(i, j int) { reqs[i], reqs[j] = reqs[j], reqs[i] })
				reqs = reqs[:5]
			}
			if r.Intn(3) == 0 {
				reqs = append(reqs, syncReq(r, true, false))
			}
			if r.Intn(3) == 0 {
				reqs = append(reqs, syncReq(r, false, false))
			}
			// the runtime announces its shutdown - last thing of the session or in its middle; the
			// connection then goes away (or the plugin stops) and the SAME stub is started again:
			// nothing of the announcement may stick to the next session
			switch r.Intn(4) {
			case 0:
				reqs = append(reqs, ReqIn{Op: "Shutdown", Pods: []string{}, Ctrs: []string{}, Updates: []string{}})
			case 1:
				k := r.Intn(len(reqs) + 1)
				reqs = append(reqs[:k], append([]ReqIn{{Op: "Shutdown", Pods: []string{}, Ctrs: []string{}, Updates: []string{}}}, reqs[k:]...)...)
			}
			in.Sessions = append(in.Sessions, SessIn{Cfg: cfgIn(r, m, e), Reqs: reqs, End: end})
		}
		// a fixed share of the restart cases starts with a runtime that passes no registration
		// timeout (resp. no request timeout): later sessions must still register and be configured
		switch len(out) % 3 {
		case 0:
			in.Sessions[0].Cfg.RegTo = 0
		case 1:
			in.Sessions[0].Cfg.ReqTo = 0
		}
		out = append(out, in)
	}
	return out
}

func bitsOf(m uint32) []int {
	var bs []int
	for b := 0; b < 32; b++ {
		if m&(1<<uint(b)) != 0 {
			bs = append(bs, b)
		}
	}
	return bs
}

var restartPatterns = []string{"sz", "sn", "zs", "uz", "sxz", "dzs", "sez", "snz", "zsns", "sus", "ssz", "xsz", "ezs"}

func genSessions(o *hx.Opts) []SessionIn {
	r := o.Rand(15)
	var out []SessionIn
	seen := map[uint32]bool{}
	var evs []uint32
	add := func(ev uint32) {
		if !seen[ev] {
			seen[ev] = true
			evs = append(evs, ev)
		}
	}
	if o.Thorough() {
		for ev := uint32(0); ev <= allEv; ev++ {
			add(ev)
		}
	} else {
		add(0)
		add(allEv)
		for b := uint(0); b < 13; b++ {
			add(1 << b)
		}
		for len(evs) < 15+o.N(160, 160) {
			add(r.Uint32() & allEv)
		}
	}
	for i, ev := range evs {
		bulk := o.Thorough() && i%16 != 0 && ev != allEv && ev&(ev-1) != 0
		out = append(out, sessionsFor(r, ev, bulk)...)
	}
	// restart stream: the same stub through several sessions
	rr := o.Rand(1515)
	for i, ev := range evs {
		if ev == 0 {
			continue
		}
		var pats []string
		switch {
		case ev == allEv || !o.Thorough() && i < 15:
			pats = restartPatterns
		case o.Thorough() && i%16 != 0:
			pats = []string{restartPatterns[i%len(restartPatterns)], restartPatterns[(i/13+5)%len(restartPatterns)]}
		default:
			for k := 0; k < 4; k++ {
				pats = append(pats, restartPatterns[rr.Intn(len(restartPatterns))])
			}
		}
		out = append(out, restartsFor(rr, ev, pats)...)
	}
	// a type without a Configure method restarted: the answer is the implemented set each time
	for k := 0; k < 8; k++ {
		ev := rr.Uint32()&allEv | 1<<uint(rr.Intn(13))
		in := SessionIn{Kind: "restart", Type: ev | uint32(rr.Intn(4))<<14, Name: "nocfg", Idx: "04", Reqs: []ReqIn{}}
		for j := 0; j < 3; j++ {
			in.Sessions = append(in.Sessions, SessIn{Cfg: cfgIn(rr, rr.Uint32(), ""), Reqs: shortReqs(rr, 2), End: []string{"stop", "close"}[rr.Intn(2)]})
		}
		out = append(out, in)
	}
	// the empty handler set with every combination of the event-less handlers
	for a := uint32(0); a < 8; a++ {
		out = append(out, SessionIn{Kind: "session", Type: a << 13, Name: "none", Idx: "00", Cfg: cfgIn(r, 0, ""), Reqs: shortReqs(r, 1)})
	}
	// the full handler set asked for each single event, and for each single missing event
	for b := uint(0); b < 13; b++ {
		out = append(out, SessionIn{Kind: "session", Type: allEv | 1<<13, Name: "one", Idx: "01", Cfg: cfgIn(r, 1<<b, ""), Reqs: shortReqs(r, 2)})
		out = append(out, SessionIn{Kind: "session", Type: (allEv &^ (1 << b)) | 1<<13, Name: "miss", Idx: "02", Cfg: cfgIn(r, 1<<b, ""), Reqs: nil})
		out = append(out, SessionIn{Kind: "session", Type: (allEv &^ (1 << b)) | 1<<13 | uint32(r.Intn(4))<<14, Name: "allbut", Idx: "03", Cfg: cfgIn(r, 0, ""), Reqs: fullReqs(r, false)})
	}
	for i := range out {
		if out[i].Reqs == nil {
			out[i].Reqs = []ReqIn{}
		}
		if out[i].Sessions == nil {
			out[i].Sessions = []SessIn{}
		}
		for j := range out[i].Sessions {
			if out[i].Sessions[j].Reqs == nil {
				out[i].Sessions[j].Reqs = []ReqIn{}
			}
		}
	}
	return out
}

// ---------------------------------------------------------------- generated worker

func genSource(types []uint32) []byte {
	var b bytes.Buffer
	b.WriteString("// Code generated by verifh C15 at run time. DO NOT EDIT.\npackage main\n\nimport c15 \"verifh/c15\"\n\n")
	for _, t := range types {
		fmt.Fprintf(&b, "type T%04x struct {\n", t)
		for bit := 0; bit < 16; bit++ {
			if t&(1<<uint(bit)) != 0 {
				fmt.Fprintf(&b, "\tc15.%s\n", HandlerStructs[bit])
			}
		}
		b.WriteString("}\n")
	}
	b.WriteString("\nfunc main() {\n\tc15.WorkerMain(map[uint32]func(*c15.Rec) interface{}{\n")
	for _, t := range types {
		fmt.Fprintf(&b, "\t\t0x%04x: func(r *c15.Rec) interface{} { return &T%04x{", t, t)
		first := true
		for bit := 0; bit < 16; bit++ {
			if t&(1<<uint(bit)) != 0 {
				if !first {
					b.WriteString(", ")
				}
				first = false
				fmt.Fprintf(&b, "c15.%s{R: r}", HandlerStructs[bit])
			}
		}
		b.WriteString("} },\n")
	}
	b.WriteString("\t})\n}\n")
	return b.Bytes()
}

// buildWorker writes the generated main package into harness/c15/gen_<pid>/ (git-ignored),
// builds it with the harness module's go.mod (or the redirected copy bin/check made for a
// scratch repository) and removes the directory again.
func buildWorker(o *hx.Opts, types []uint32) (string, error) {
	verif := os.Getenv("VERIF_DIR")
	if verif == "" {
		if exe, err := os.Executable(); err == nil {
			// .build/verifh or a private copy: fall back to the working directory
			_ = exe
		}
		wd, _ := os.Getwd()
		verif = wd
	}
	harness := filepath.Join(verif, "harness")
	if _, err := os.Stat(filepath.Join(harness, "go.mod")); err != nil {
		return "", fmt.Errorf("cannot find the harness module (VERIF_DIR=%q): %w", verif, err)
	}
	dirName := fmt.Sprintf("gen_%d_%d", os.Getpid(), time.Now().UnixNano()%1000000)
	dir := filepath.Join(harness, "c15", dirName)
	if err := os.MkdirAll(dir, 0o755); err != nil {
		return "", err
	}
	defer os.RemoveAll(dir)
	if err := os.WriteFile(filepath.Join(dir, "main.go"), genSource(types), 0o644); err != nil {
		return "", err
	}
	bin := filepath.Join(o.Scratch, "c15worker")
	args := []string{"build", "-tags", "verif", "-o", bin}
	repo := os.Getenv("VERIF_REPO")
	if repo != "" {
		if rp, err := filepath.EvalSymlinks(repo); err == nil && rp != "/repo" {
			alt := filepath.Join(os.Getenv("VERIF_BUILD"), "alt.mod")
			if _, err := os.Stat(alt); err != nil {
				return "", fmt.Errorf("VERIF_REPO=%s but %s is missing", repo, alt)
			}
			args = append(args, "-modfile", alt)
		}
	}
	args = append(args, "./c15/"+dirName)
	cmd := exec.Command("go", args...)
	cmd.Dir = harness
	cmd.Env = append(os.Environ(), "GOFLAGS=-mod=mod", "GOPROXY=off", "GOSUMDB=off", "GOTOOLCHAIN=local", "CGO_ENABLED=0")
	outb, err := cmd.CombinedOutput()
	if err != nil {
		return "", fmt.Errorf("building the generated worker failed: %v\n%s", err, tail(string(outb), 3000))
	}
	return bin, nil
}

func tail(s string, n int) string {
	if len(s) > n {
		return s[len(s)-n:]
	}
	return s
}

func runWorker(bin string, ids []string, ins []SessionIn, timeout time.Duration) (map[string]SessionObs, error) {
	cmd := exec.Command(bin)
	stdin, err := cmd.StdinPipe()
	if err != nil {
		return nil, err
	}
	stdout, err := cmd.StdoutPipe()
	if err != nil {
		return nil, err
	}
	var stderr bytes.Buffer
	cmd.Stderr = &stderr
	if err := cmd.Start(); err != nil {
		return nil, err
	}
	timer := time.AfterFunc(timeout, func() { cmd.Process.Kill() })
	defer timer.Stop()
	go func() {
		w := bufio.NewWriterSize(stdin, 1<<20)
		enc := json.NewEncoder(w)
		for i := range ins {
			enc.Encode(workerJob{ID: ids[i], In: ins[i]})
		}
		w.Flush()
		stdin.Close()
	}()
	res := map[string]SessionObs{}
	sc := bufio.NewScanner(stdout)
	sc.Buffer(make([]byte, 1<<20), 1<<28)
	for sc.Scan() {
		var wr workerRes
		if err := json.Unmarshal(sc.Bytes(), &wr); err != nil {
			cmd.Process.Kill()
			cmd.Wait()
			return nil, fmt.Errorf("bad worker output: %v", err)
		}
		res[wr.ID] = wr.Obs
	}
	werr := cmd.Wait()
	if werr != nil && len(res) < len(ins) {
		// the worker died (a crash inside the stub's own goroutines cannot be recovered):
		// every case without a result is observed as crashed
		first := strings.SplitN(strings.TrimSpace(stderr.String()), "\n", 2)[0]
		for _, id := range ids {
			if _, ok := res[id]; !ok {
				res[id] = SessionObs{Start: "none", CfgCalls: []CallObs{}, Reqs: []ReqObs{}, Extra: []CallObs{},
					CfgErr: ErrObs{Extra: -1}, Note: "crashed: worker died (" + werr.Error() + "): " + first}
			}
		}
	}
	return res, nil
}

func Run(o *hx.Opts, w *lineio.Writer) error {
	var ins []SessionIn
	var ids []string
	if o.Replay != "" {
		cases, err := hx.ReplayCases(o.Replay)
		if err != nil {
			return err
		}
		for _, c := range cases {
			var in SessionIn
			if err := json.Unmarshal(c.In, &in); err != nil {
				return err
			}
			if in.Kind != "session" && in.Kind != "restart" {
				return fmt.Errorf("unknown case kind %q", in.Kind)
			}
			if in.Reqs == nil {
				in.Reqs = []ReqIn{}
			}
			if in.Sessions == nil {
				in.Sessions = []SessIn{}
			}
			for j := range in.Sessions {
				if in.Sessions[j].Reqs == nil {
					in.Sessions[j].Reqs = []ReqIn{}
				}
			}
			ins = append(ins, in)
			ids = append(ids, c.ID)
		}
	} else {
		ins = genSessions(o)
		for i, in := range ins {
			ids = append(ids, fmt.Sprintf("%s%05d-t%04x", in.Kind[:1], i, in.Type))
		}
	}
	if len(ins) == 0 {
		return nil
	}
	tset := map[uint32]bool{}
	for _, in := range ins {
		if in.Type > 0xffff {
			return fmt.Errorf("type id %#x out of range", in.Type)
		}
		tset[in.Type] = true
	}
	var types []uint32
	for t := range tset {
		types = append(types, t)
	}
	sort.Slice(types, func(i, j int) bool { return types[i] < types[j] })
	bin, err := buildWorker(o, types)
	if err != nil {
		return err
	}
	to := 10 * time.Minute
	if o.Thorough() {
		to = 40 * time.Minute
	}
	res, err := runWorker(bin, ids, ins, to)
	if err != nil {
		return err
	}
	for i := range ins {
		obs, ok := res[ids[i]]
		if !ok {
			obs = SessionObs{Start: "none", CfgCalls: []CallObs{}, Reqs: []ReqObs{}, Extra: []CallObs{},
				CfgErr: ErrObs{Extra: -1}, Note: "blocked: no result from the worker"}
		}
		w.Put(&lineio.Case{ID: ids[i], In: ins[i], Obs: obs})
	}
	return nil
}
