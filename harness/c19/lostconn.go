package c19

// The lostconn stream: the caller of an unsolicited update goes away while the runtime's
// callback is still running for it, and — while the callback is STILL running — the runtime
// issues requests and/or other plugins send their own unsolicited updates.
//
// Plugin 0 ("A") makes the call marked `gone`. Its UpdateFn invocation stamps its entry, then
// waits until the harness has gone through both steps of the case —
//
//	fault:  A's connection is lost / A stops waiting
//	        stop     – Stub.Stop()
//	        kill     – the net.Conn under the stub is closed abruptly (custom dialer)
//	        deadline – A is a hand-written plugin end (real ttrpc over the real multiplexer); its
//	                   call carries a context whose deadline expires while the callback runs
//	                   (ttrpc hands the time-out to the server, which cancels the handler context)
//	        cancel   – same plugin end, the context is cancelled (nothing reaches the runtime: a
//	                   control — the caller is gone, the runtime cannot know)
//	probes: G goroutines issue runtime requests, plugins 1.. send one update each
//
// in the order given by the plan (fault-probe / probe-fault) — then waits until it has seen its own
// context cancelled (that is how the runtime side notices that the caller is gone; at most 1.5 s),
// then dwells hold_ms more, and only then stamps its exit and returns. The steps are gated on
// each other, not raced against sleeps, so a slow machine stretches a case but cannot make a
// probe miss the callback. On a tree that keeps the adaptation mutex for the whole callback the
// probes simply wait; if the mutex is released when the caller goes away, a handler stamp or the
// second callback's stamps fall inside the first callback's interval.
//
// A run in which a step did not happen in time (callback never entered, probes not issued
// before the callback's exit, …) is not "effective": the plan is run again (3 attempts); what is
// emitted is the first effective run or the last one, with the marks that show it.

import (
	"context"
	"errors"
	"fmt"
	"net"
	"runtime"
	"sort"
	"sync"
	"sync/atomic"
	"time"

	"github.com/containerd/nri/pkg/adaptation"
	"github.com/containerd/nri/pkg/api"
	"github.com/containerd/nri/pkg/net/multiplex"
	"github.com/containerd/nri/pkg/stub"
	"github.com/containerd/ttrpc"

	"verifh/c08/rt"
	"verifh/internal/hx"
)

// ---- a hand-written plugin end (exported API only): needed because Stub.UpdateContainers takes
// no context

type rawPlug struct {
	conn net.Conn
	mux  multiplex.Mux
	srv  *ttrpc.Server
	cli  *ttrpc.Client
	once sync.Once
}

func (r *rawPlug) Configure(context.Context, *api.ConfigureRequest) (*api.ConfigureResponse, error) {
	// subscribe to one event the harness never generates: this plugin only sends updates
	return &api.ConfigureResponse{Events: int32(api.MustParseEventMask("RemovePodSandbox"))}, nil
}
func (r *rawPlug) Synchronize(context.Context, *api.SynchronizeRequest) (*api.SynchronizeResponse, error) {
	return &api.SynchronizeResponse{}, nil
}
func (r *rawPlug) Shutdown(context.Context, *api.Empty) (*api.Empty, error) { return &api.Empty{}, nil }
func (r *rawPlug) CreateContainer(context.Context, *api.CreateContainerRequest) (*api.CreateContainerResponse, error) {
	return &api.CreateContainerResponse{}, nil
}
func (r *rawPlug) UpdateContainer(context.Context, *api.UpdateContainerRequest) (*api.UpdateContainerResponse, error) {
	return &api.UpdateContainerResponse{}, nil
}
func (r *rawPlug) StopContainer(context.Context, *api.StopContainerRequest) (*api.StopContainerResponse, error) {
	return &api.StopContainerResponse{}, nil
}
func (r *rawPlug) UpdatePodSandbox(context.Context, *api.UpdatePodSandboxRequest) (*api.UpdatePodSandboxResponse, error) {
	return &api.UpdatePodSandboxResponse{}, nil
}
func (r *rawPlug) StateChange(context.Context, *api.StateChangeEvent) (*api.Empty, error) {
	return &api.Empty{}, nil
}

func startRaw(sock, idx, name string) (*rawPlug, error) {
	conn, err := net.Dial("unix", sock)
	if err != nil {
		return nil, err
	}
	r := &rawPlug{conn: conn}
	r.mux = multiplex.Multiplex(conn)
	l, err := r.mux.Listen(multiplex.PluginServiceConn)
	if err != nil {
		r.stop()
		return nil, err
	}
	if r.srv, err = ttrpc.NewServer(); err != nil {
		r.stop()
		return nil, err
	}
	api.RegisterPluginService(r.srv, r)
	cc, err := r.mux.Open(multiplex.RuntimeServiceConn)
	if err != nil {
		r.stop()
		return nil, err
	}
	r.cli = ttrpc.NewClient(cc)
	go r.srv.Serve(context.Background(), l)
	ctx, cancel := context.WithTimeout(context.Background(), 30*time.Second)
	defer cancel()
	if _, err = api.NewRuntimeClient(r.cli).RegisterPlugin(ctx, &api.RegisterPluginRequest{PluginName: name, PluginIdx: idx}); err != nil {
		r.stop()
		return nil, err
	}
	return r, nil
}

func (r *rawPlug) update(ctx context.Context, list []*api.ContainerUpdate) ([]*api.ContainerUpdate, error) {
	rpl, err := api.NewRuntimeClient(r.cli).UpdateContainers(ctx, &api.UpdateContainersRequest{Update: list})
	if rpl != nil {
		return rpl.Failed, err
	}
	return nil, err
}

func (r *rawPlug) stop() {
	r.once.Do(func() {
		if r.srv != nil {
			r.srv.Close()
		}
		if r.cli != nil {
			r.cli.Close()
		}
		if r.mux != nil {
			r.mux.Close()
		}
		r.conn.Close()
	})
}

// killDialer: a dialer whose connection the harness can close under the stub.
func killDialer() (func(string) (net.Conn, error), func()) {
	var mu sync.Mutex
	var last net.Conn
	dial := func(path string) (net.Conn, error) {
		c, err := net.Dial("unix", path)
		if err != nil {
			return nil, err
		}
		mu.Lock()
		last = c
		mu.Unlock()
		return c, nil
	}
	return dial, func() {
		mu.Lock()
		c := last
		mu.Unlock()
		if c != nil {
			c.Close()
		}
	}
}

func waitFor(ch <-chan struct{}, d time.Duration) bool {
	select {
	case <-ch:
		return true
	case <-time.After(d):
		return false
	}
}

// effective: every step happened where the plan wants it — the fault and the probes while the
// callback of the gone call was running, and (for the faults that reach the runtime) the
// callback saw its context cancelled before its final dwell.
func effective(in In, obs Obs) bool {
	if obs.Status != "ok" {
		return false
	}
	var out int64
	for _, f := range obs.Fn {
		if f.In == obs.Marks.Entered {
			out = f.Out
		}
	}
	m := obs.Marks
	if m.Entered == 0 || out == 0 || m.Fault == 0 || m.Probes == 0 || m.Hold == 0 {
		return false
	}
	if !(m.Entered < m.Fault && m.Fault < m.Hold && m.Entered < m.Probes && m.Probes < m.Hold && m.Hold < out) {
		return false
	}
	if in.Fault != "cancel" && (m.CtxDone == 0 || m.CtxDone > m.Hold) {
		return false
	}
	return true
}

func runLostRetry(in In, dir string) Obs {
	var obs Obs
	for a := 1; a <= 3; a++ {
		obs = runLost(in, fmt.Sprintf("%s-%d", dir, a))
		obs.Marks.Attempts = a
		if effective(in, obs) || (obs.Status != "ok" && obs.Status != "skipped") {
			break // effective; or an error / a blocked run, which repeating would not explain
		}
	}
	return obs
}

func runLost(in In, dir string) (obs Obs) {
	t0 := time.Now()
	obs.Status = "ok"
	defer func() {
		if r := recover(); r != nil {
			obs.Status, obs.Note = "error", fmt.Sprintf("panic: %v", r)
		}
		obs.WallMs = time.Since(t0).Milliseconds()
	}()
	if in.Procs > 0 {
		prev := runtime.GOMAXPROCS(in.Procs)
		defer runtime.GOMAXPROCS(prev)
	}
	byU := map[int]*CallIn{}
	goneU := -1
	for i := range in.Calls {
		c := &in.Calls[i]
		byU[c.U] = c
		if c.Gone {
			goneU = c.U
		}
	}
	if goneU < 0 || len(byU[goneU].List) == 0 || byU[goneU].P != 0 {
		obs.Status, obs.Note = "error", "lostconn plan without a gone call of plugin 0 with a non-empty list"
		return
	}
	var (
		logMu     sync.Mutex
		fnLog     []FnObs
		hLog      []HObs
		marks     MarksObs
		live      atomic.Bool
		syncDone  atomic.Int64
		entered   = make(chan struct{})
		stepsDone = make(chan struct{})
		enterOnce sync.Once
	)
	mark := func(p *int64) {
		s := rt.Stamp()
		logMu.Lock()
		if *p == 0 {
			*p = s
		}
		logMu.Unlock()
	}
	syncFn := func(ctx context.Context, cb adaptation.SyncCB) error {
		_, err := cb(ctx, nil, nil)
		if live.Load() {
			syncDone.Add(1)
		}
		return err
	}
	updateFn := func(ctx context.Context, us []*api.ContainerUpdate) ([]*api.ContainerUpdate, error) {
		sIn := rt.Stamp() // Adaptation.updateContainers holds the mutex
		list := encAll(us)
		tk := token(us)
		if tk == goneU {
			first := false
			enterOnce.Do(func() { first = true })
			if first {
				logMu.Lock()
				marks.Entered = sIn
				logMu.Unlock()
				close(entered)
				waitFor(stepsDone, 20*time.Second)
				if in.Fault != "cancel" {
					// the runtime side learns that the caller is gone through the handler context
					if waitFor(ctx.Done(), 1500*time.Millisecond) {
						mark(&marks.CtxDone)
					}
				}
				mark(&marks.Hold)
				time.Sleep(time.Duration(in.HoldMs) * time.Millisecond)
			}
		} else {
			spin(in.DwellUs)
			time.Sleep(time.Duration(in.SlowMs) * time.Millisecond)
		}
		script := byU[tk]
		var failed []*api.ContainerUpdate
		var err error
		if tk < 0 || script == nil {
			tk = -2
			err = errors.New("verif: UpdateFn received a list no plugin sent")
		} else {
			failed, err = decAll(script.Failed)
			if err == nil {
				err = mkErr(script.Err)
			}
		}
		sOut := rt.Stamp()
		logMu.Lock()
		fnLog = append(fnLog, FnObs{In: sIn, Out: sOut, Token: tk, List: list})
		logMu.Unlock()
		return failed, err
	}
	r, err := rt.NewRuntime(dir, syncFn, updateFn)
	if err != nil {
		obs.Status, obs.Note = "error", "runtime: "+err.Error()
		return
	}
	live.Store(true)
	defer r.Stop()

	// plugin 0 = A (the one that goes away); plugins 1.. are bystanders with stamping handlers
	var (
		raw   *rawPlug
		kill  func()
		plugs = make([]*rt.Plugin, in.P)
	)
	name := func(i int) (string, string) { return fmt.Sprintf("%02d", (i*7+3)%100), fmt.Sprintf("p%d", i) }
	for i := 0; i < in.P; i++ {
		i := i
		idx, nm := name(i)
		if i == 0 && (in.Fault == "deadline" || in.Fault == "cancel") {
			continue // connected below, by hand
		}
		stampH := func(id string) {
			sIn := rt.Stamp()
			spin(in.HDwellUs)
			time.Sleep(time.Duration(in.HSlowMs) * time.Millisecond)
			sOut := rt.Stamp()
			logMu.Lock()
			hLog = append(hLog, HObs{R: rid(id), P: i, In: sIn, Out: sOut})
			logMu.Unlock()
		}
		h := func(_ *api.PodSandbox, c *api.Container) { stampH(c.GetId()) }
		var extra []stub.Option
		if i == 0 && in.Fault == "kill" {
			var dial func(string) (net.Conn, error)
			dial, kill = killDialer()
			extra = append(extra, stub.WithDialer(dial))
		}
		p, err := rt.NewPlugin(r.Sock, idx, nm,
			rt.Hooks{Create: h, Update: h, Stop: h, Start: h, Pod: func(pd *api.PodSandbox) { stampH(pd.GetId()) }}, extra...)
		if err != nil {
			obs.Status, obs.Note = "error", "plugin: "+err.Error()
			return
		}
		plugs[i] = p
	}
	defer func() {
		for _, p := range plugs {
			if p != nil {
				p.Stop()
			}
		}
		if raw != nil {
			raw.stop()
		}
	}()
	startErr := make([]error, in.P)
	var wgS sync.WaitGroup
	for i := range plugs {
		i := i
		wgS.Add(1)
		go func() {
			defer wgS.Done()
			if plugs[i] == nil {
				idx, nm := name(i)
				raw, startErr[i] = startRaw(r.Sock, idx, nm)
				return
			}
			startErr[i] = plugs[i].Start()
		}()
	}
	wgS.Wait()
	for i, e := range startErr {
		if e != nil {
			obs.Status, obs.Note = "error", fmt.Sprintf("plugin %d Start: %v", i, e)
			return
		}
	}
	// every plugin active before anything starts
	t := time.Now()
	for syncDone.Load() < int64(in.P) && time.Since(t) < 30*time.Second {
		time.Sleep(200 * time.Microsecond)
	}
	if syncDone.Load() < int64(in.P) {
		obs.Status, obs.Note = "error", "plugins not synchronised within 30s"
		return
	}
	b := r.A.BlockPluginSync()
	b.Unblock()

	cobs := make([]CallObs, len(in.Calls))
	idxOf := map[int]int{}
	for i, c := range in.Calls {
		idxOf[c.U] = i
		cobs[i] = CallObs{U: c.U, Failed: []string{}}
	}
	var cmu sync.Mutex
	var wgProbe sync.WaitGroup
	goneDone := make(chan struct{})
	doCall := func(c *CallIn, issued func(), call func([]*api.ContainerUpdate) ([]*api.ContainerUpdate, error)) {
		list, err := decAll(c.List)
		if err != nil {
			issued()
			return
		}
		s1 := rt.Stamp()
		cmu.Lock()
		cobs[idxOf[c.U]].S1 = s1
		cmu.Unlock()
		issued()
		t := time.Now()
		failed, err := call(list)
		wait := time.Since(t).Milliseconds()
		s2 := rt.Stamp()
		cmu.Lock()
		co := &cobs[idxOf[c.U]]
		co.S2, co.Done, co.Failed, co.Err, co.WaitMs = s2, true, encAll(failed), obsErr(err), wait
		cmu.Unlock()
	}

	// A's call
	actx, acancel := context.Background(), func() {}
	switch in.Fault {
	case "deadline":
		actx, acancel = context.WithTimeout(context.Background(), time.Duration(in.DeadlineMs)*time.Millisecond)
	case "cancel":
		actx, acancel = context.WithCancel(context.Background())
	}
	defer acancel()
	go func() {
		defer close(goneDone)
		doCall(byU[goneU], func() {}, func(list []*api.ContainerUpdate) ([]*api.ContainerUpdate, error) {
			if raw != nil {
				return raw.update(actx, list)
			}
			return plugs[0].Stub.UpdateContainers(list)
		})
	}()
	if !waitFor(entered, 20*time.Second) {
		obs.Status, obs.Note = "skipped", "the callback was not entered within 20s"
		close(stepsDone)
		return
	}

	fault := func() {
		switch in.Fault {
		case "stop":
			done := make(chan struct{})
			go func() { plugs[0].Stop(); close(done) }()
			waitFor(done, 20*time.Second)
		case "kill":
			kill()
		case "deadline":
			<-actx.Done()
		case "cancel":
			acancel()
		}
		mark(&marks.Fault)
	}
	pod := rt.Pod("pod0")
	var nextR atomic.Int64
	probes := func() {
		var issued sync.WaitGroup
		for g := range in.ReqKinds {
			kinds := in.ReqKinds[g]
			if len(kinds) == 0 {
				continue
			}
			issued.Add(1)
			wgProbe.Add(1)
			go func() {
				defer wgProbe.Done()
				ctx := context.Background()
				for k, kind := range kinds {
					id := nextR.Add(1) - 1
					c := rt.Ctr(fmt.Sprintf("r%d", id), "pod0")
					pd := rt.Pod(fmt.Sprintf("r%d", id))
					if k == 0 {
						issued.Done()
					}
					switch kind {
					case 4:
						r.A.RunPodSandbox(ctx, &api.StateChangeEvent{Pod: pd})
					case 5:
						r.A.UpdatePodSandbox(ctx, &api.UpdatePodSandboxRequest{Pod: pd, LinuxResources: &api.LinuxResources{}})
					case 6:
						r.A.StopPodSandbox(ctx, &api.StateChangeEvent{Pod: pd})
					case 0:
						r.A.CreateContainer(ctx, &api.CreateContainerRequest{Pod: pod, Container: c})
					case 1:
						r.A.UpdateContainer(ctx, &api.UpdateContainerRequest{Pod: pod, Container: c, LinuxResources: &api.LinuxResources{}})
					case 2:
						r.A.StopContainer(ctx, &api.StopContainerRequest{Pod: pod, Container: c})
					default:
						r.A.StartContainer(ctx, &api.StateChangeEvent{Pod: pod, Container: c})
					}
				}
			}()
		}
		for i := range in.Calls {
			c := &in.Calls[i]
			if c.Gone || c.P <= 0 || c.P >= in.P {
				continue
			}
			issued.Add(1)
			wgProbe.Add(1)
			go func() {
				defer wgProbe.Done()
				doCall(c, issued.Done, plugs[c.P].Stub.UpdateContainers)
			}()
		}
		issued.Wait()
		mark(&marks.Probes)
	}
	time.Sleep(time.Duration(in.FaultAfterMs) * time.Millisecond)
	if in.Order == "probe-fault" {
		probes()
		time.Sleep(time.Duration(in.ProbeAfterMs) * time.Millisecond)
		fault()
	} else {
		fault()
		time.Sleep(time.Duration(in.ProbeAfterMs) * time.Millisecond)
		probes()
	}
	close(stepsDone)

	done := make(chan struct{})
	go func() { wgProbe.Wait(); close(done) }()
	if !waitFor(done, 60*time.Second) {
		obs.Status, obs.Note = "blocked", "update calls or requests still pending 60s after the caller went away"
		buf := make([]byte, 1<<20)
		obs.Stacks = relevantStacks(string(buf[:runtime.Stack(buf, true)]))
	} else {
		// the caller that went away: its call normally ends with the transport's error at once;
		// the callback itself must be over before the log is read
		waitFor(goneDone, 5*time.Second)
		t := time.Now()
		for time.Since(t) < 10*time.Second {
			logMu.Lock()
			n := len(fnLog)
			logMu.Unlock()
			want := 0
			for _, c := range in.Calls {
				if c.Gone || (c.P > 0 && c.P < in.P) {
					want++
				}
			}
			if n >= want {
				break
			}
			time.Sleep(time.Millisecond)
		}
	}
	logMu.Lock()
	obs.Fn = append([]FnObs{}, fnLog...)
	obs.H = append([]HObs{}, hLog...)
	obs.Marks = marks
	logMu.Unlock()
	cmu.Lock()
	obs.Calls = append([]CallObs{}, cobs...)
	cmu.Unlock()
	sort.Slice(obs.Fn, func(i, j int) bool { return obs.Fn[i].In < obs.Fn[j].In })
	sort.Slice(obs.H, func(i, j int) bool { return obs.H[i].In < obs.H[j].In })
	for i := range obs.Fn {
		if obs.Fn[i].List == nil {
			obs.Fn[i].List = []string{}
		}
	}
	return
}

// ---- generation

func genLost(o *hx.Opts, idx *int) []In {
	r := o.Rand(1919)
	n := o.N(12, 240)
	faults := []string{"stop", "kill", "deadline", "stop", "kill", "deadline", "stop", "kill", "deadline", "stop", "kill", "cancel"}
	var out []In
	for k := 0; k < n; k++ {
		in := In{Kind: "lostconn", Idx: *idx, Seed: r.Int63(), U: 1}
		*idx++
		in.Fault = faults[k%len(faults)]
		in.Order = []string{"fault-probe", "probe-fault"}[(k/3)%2]
		in.P = 2 + r.Intn(3) // A + 1..3 bystanders
		if o.Thorough() {
			in.Procs = []int{1, 2, 3, 4, 8, 16, 32}[k%7]
			in.FaultAfterMs = []int{0, 1, 5, 20, 50, 120}[r.Intn(6)]
			in.ProbeAfterMs = []int{0, 1, 5, 20, 50, 150, 400}[r.Intn(7)]
			in.HoldMs = []int{30, 60, 100, 200, 300, 500}[r.Intn(6)]
			in.DeadlineMs = []int{5, 20, 50, 100, 250}[r.Intn(5)]
			in.SlowMs = []int{0, 0, 1, 5, 20}[r.Intn(5)]
			in.HSlowMs = []int{0, 0, 1, 5, 20}[r.Intn(5)]
		} else {
			in.Procs = []int{2, 4, 8, 16}[k%4]
			in.FaultAfterMs = []int{0, 5, 20}[r.Intn(3)]
			in.ProbeAfterMs = []int{1, 10, 40}[r.Intn(3)]
			in.HoldMs = 100 + 50*r.Intn(5) // 100..300
			in.DeadlineMs = []int{10, 40}[r.Intn(2)]
			in.SlowMs = []int{0, 2}[r.Intn(2)]
			in.HSlowMs = []int{0, 2}[r.Intn(2)]
		}
		in.DwellUs = []int{0, 20, 200}[r.Intn(3)]
		in.HDwellUs = []int{0, 5, 50}[r.Intn(3)]
		// the calls: call 0 = A's (gone); then 0..P-1 updates of the bystanders
		genCalls(r, &in, 1)       // one call per plugin, u = plugin
		for i := range in.Calls { // non-empty lists only: the token identifies the call
			if len(in.Calls[i].List) == 0 {
				up := genUpdate(r, fmt.Sprintf("u%d-0", in.Calls[i].U))
				in.Calls[i].List = []string{enc(up)}
				in.Calls[i].Failed = []string{}
				in.Calls[i].Err = nil
			}
		}
		in.Calls[0].Gone = true
		// which probes: requests only / updates only / both
		mode := (k + k/3) % 3 // decoupled from the fault kind (k%12) and the order ((k/3)%2)
		nUpd := 0
		if mode != 0 {
			nUpd = 1 + r.Intn(in.P-1)
		}
		in.Calls = in.Calls[:1+nUpd] // bystanders 1..nUpd send an update
		in.ReqKinds = [][]int{}
		if mode != 1 {
			for g := 1 + r.Intn(3); g > 0; g-- {
				ks := []int{}
				for j := 1 + r.Intn(3); j > 0; j-- {
					ks = append(ks, r.Intn(7))
				}
				in.ReqKinds = append(in.ReqKinds, ks)
			}
		}
		in.G = len(in.ReqKinds)
		out = append(out, in)
	}
	return out
}
