// Package c19 is the correspondence harness for property C19: plugins connected through the
// real stub call Stub.UpdateContainers with generated update lists concurrently with each other
// and with runtime requests on a real Adaptation; the runtime's UpdateFn stamps entry/exit and
// returns a scripted (failed, err); plugin request handlers stamp entry/exit. The Lean driver
// validates the history against the adaptation-mutex model and evaluates pass-through,
// exactly-once and mutual exclusion directly on the log. A never-started stub is called under
// a deadline.
package c19

import (
	"context"
	"encoding/hex"
	"encoding/json"
	"errors"
	"fmt"
	"math/rand"
	"net"
	"os"
	"path/filepath"
	"runtime"
	"sort"
	"strconv"
	"strings"
	"sync"
	"sync/atomic"
	"time"

	"github.com/containerd/nri/pkg/adaptation"
	"github.com/containerd/nri/pkg/api"
	"github.com/containerd/nri/pkg/stub"
	"google.golang.org/grpc/codes"
	"google.golang.org/grpc/status"
	"google.golang.org/protobuf/proto"

	"verifh/c08/rt"
	"verifh/internal/hx"
	"verifh/internal/lineio"
)

type ErrIn struct {
	Plain bool   `json:"plain"` // errors.New(msg) (travels as status Unknown) vs status.Error(code, msg)
	Code  int    `json:"code"`
	Msg   string `json:"msg"`
}

type CallIn struct {
	U      int      `json:"u"`      // call id
	P      int      `json:"p"`      // calling plugin
	G      int      `json:"g"`      // calling goroutine of that plugin
	List   []string `json:"list"`   // the updates sent: hex of the deterministic wire encoding of each
	Failed []string `json:"failed"` // scripted result of UpdateFn: failed list …
	Err    *ErrIn   `json:"err"`    // … and error (null = success)
	Gone   bool     `json:"gone"`   // kind lostconn: the caller of this call goes away while the callback runs
}

type In struct {
	Kind     string `json:"kind"` // upd | cfgupd | lostconn | unstarted | stopped | starting-dial | starting-mute
	Idx      int    `json:"idx"`
	P        int    `json:"P"`         // plugins
	U        int    `json:"U"`         // updating goroutines per plugin
	G        int    `json:"G"`         // runtime request goroutines
	R        int    `json:"R"`         // requests per request goroutine
	Procs    int    `json:"procs"`     // GOMAXPROCS
	DwellUs  int    `json:"dwell_us"`  // UpdateFn dwell
	HDwellUs int    `json:"hdwell_us"` // plugin handler dwell
	Early    bool   `json:"early"`     // plugins start updating as soon as their own Start returned
	Listen   bool   `json:"listen"`    // kind unstarted: is a runtime listening on the socket?
	// the slow stream: a SHORT plugin request time-out (process-global in the repository, so it
	// is set for the duration of the case; cases of one worker run one after the other) and a
	// SLOW callback / slow handlers, so that calls queue for longer than the time-out
	ReqTimeoutMs int      `json:"req_timeout_ms"` // 0 = the harness default (2 min)
	SlowMs       int      `json:"slow_ms"`        // UpdateFn sleeps this long holding the adaptation mutex
	HSlowMs      int      `json:"hslow_ms"`       // plugin request handlers sleep this long
	Calls        []CallIn `json:"calls"`
	Seed         int64    `json:"seed"`
	// GiveUp goroutines issue runtime requests no plugin is subscribed to (RemoveContainer) under a
	// context that is cancelled a moment later - a caller that gives up while it waits for the
	// adaptation lock. Giving up must not disturb whoever holds the lock.
	GiveUp int `json:"giveup"`
	// the lostconn stream (lostconn.go): the caller of the call marked `gone` (plugin 0) goes away
	// while the callback is running for it; the other plugins' updates and the runtime's requests
	// are issued while the callback is STILL running
	Fault        string  `json:"fault"`          // stop | kill | deadline | cancel
	Order        string  `json:"order"`          // fault-probe | probe-fault
	FaultAfterMs int     `json:"fault_after_ms"` // callback entry -> first step
	ProbeAfterMs int     `json:"probe_after_ms"` // first step -> second step
	HoldMs       int     `json:"hold_ms"`        // the callback keeps running this long after both steps
	DeadlineMs   int     `json:"deadline_ms"`    // fault deadline: the caller's context expires this long after the call
	ReqKinds     [][]int `json:"req_kinds"`      // per request goroutine: the kinds of its requests (0..6 as in runUpd)
}

type ErrObs struct {
	Code int    `json:"code"` // status code as seen by the plugin; -1 = not a status error
	Msg  string `json:"msg"`
}

type FnObs struct {
	In    int64    `json:"in"`
	Out   int64    `json:"out"`
	Token int      `json:"token"` // call id read off the list; -1 empty list; -2 unrecognised
	List  []string `json:"list"`
}

type CallObs struct {
	U      int      `json:"u"`
	S1     int64    `json:"s1"` // before the stub call
	S2     int64    `json:"s2"` // after it returned (0 = never returned)
	Done   bool     `json:"done"`
	WaitMs int64    `json:"wait_ms"` // wall time the stub call took
	Failed []string `json:"failed"`
	Err    *ErrObs  `json:"err"`
}

type HObs struct {
	R   int   `json:"r"`
	P   int   `json:"p"`
	In  int64 `json:"in"`
	Out int64 `json:"out"`
}

type Obs struct {
	Status string    `json:"status"` // ok | blocked | error
	Note   string    `json:"note"`
	Fn     []FnObs   `json:"fn"`
	Calls  []CallObs `json:"calls"`
	H      []HObs    `json:"h"`
	Stacks string    `json:"stacks,omitempty"` // on "blocked": the goroutines inside the repository's packages
	Result string    `json:"result"`           // kinds unstarted/stopped: noservice | error | ok | blocked
	WallMs int64     `json:"wall_ms"`
	Marks  MarksObs  `json:"marks"` // kind lostconn
}

// MarksObs: where, on the global sequence counter, the steps of a lostconn case happened
// (0 = did not happen).
type MarksObs struct {
	Entered  int64 `json:"entered"`  // the callback of the gone call was entered (= its fn "in" stamp)
	Fault    int64 `json:"fault"`    // the fault had been injected (Stop returned / socket closed / context cancelled or expired)
	Probes   int64 `json:"probes"`   // every probe (request goroutine, other plugin's update) had been issued
	CtxDone  int64 `json:"ctx_done"` // the callback saw its own context cancelled (the runtime noticed the caller was gone)
	Hold     int64 `json:"hold"`     // the callback started its final dwell (hold_ms)
	Attempts int   `json:"attempts"` // runs of this plan until one was effective (max 3)
}

var detMarshal = proto.MarshalOptions{Deterministic: true}

func enc(u *api.ContainerUpdate) string {
	b, err := detMarshal.Marshal(u)
	if err != nil {
		return "!" + err.Error()
	}
	return hex.EncodeToString(b)
}

func encAll(us []*api.ContainerUpdate) []string {
	out := make([]string, 0, len(us))
	for _, u := range us {
		out = append(out, enc(u))
	}
	return out
}

func dec(h string) (*api.ContainerUpdate, error) {
	b, err := hex.DecodeString(h)
	if err != nil {
		return nil, err
	}
	u := &api.ContainerUpdate{}
	if err := proto.Unmarshal(b, u); err != nil {
		return nil, err
	}
	return u, nil
}

func decAll(hs []string) ([]*api.ContainerUpdate, error) {
	out := make([]*api.ContainerUpdate, 0, len(hs))
	for _, h := range hs {
		u, err := dec(h)
		if err != nil {
			return nil, err
		}
		out = append(out, u)
	}
	return out, nil
}

func spin(us int) {
	if us <= 0 {
		return
	}
	t := time.Now()
	for time.Since(t) < time.Duration(us)*time.Microsecond {
	}
}

func token(us []*api.ContainerUpdate) int {
	if len(us) == 0 {
		return -1
	}
	id := us[0].GetContainerId()
	if !strings.HasPrefix(id, "u") {
		return -2
	}
	i := strings.IndexByte(id, '-')
	if i < 0 {
		return -2
	}
	n, err := strconv.Atoi(id[1:i])
	if err != nil {
		return -2
	}
	return n
}

func mkErr(e *ErrIn) error {
	if e == nil {
		return nil
	}
	if e.Plain {
		return errors.New(e.Msg)
	}
	return status.Error(codes.Code(e.Code), e.Msg)
}

func obsErr(err error) *ErrObs {
	if err == nil {
		return nil
	}
	if st, ok := status.FromError(err); ok {
		return &ErrObs{Code: int(st.Code()), Msg: st.Message()}
	}
	return &ErrObs{Code: -1, Msg: err.Error()}
}

// relevantStacks keeps the goroutines of a dump that are inside the adaptation, stub, ttrpc or
// multiplex packages (what a human needs to see where a blocked run is stuck).
func relevantStacks(dump string) string {
	var out []string
	for _, g := range strings.Split(dump, "\n\n") {
		if strings.Contains(g, "nri/pkg/adaptation.") || strings.Contains(g, "nri/pkg/stub.") ||
			strings.Contains(g, "nri/pkg/net/multiplex.") {
			out = append(out, g)
		}
	}
	s := strings.Join(out, "\n\n")
	if len(s) > 60000 {
		s = s[:60000]
	}
	return s
}

func rid(s string) int {
	n, err := strconv.Atoi(strings.TrimPrefix(s, "r"))
	if err != nil {
		return -1
	}
	return n
}

func runUpd(in In, dir string) (obs Obs) {
	t0 := time.Now()
	obs.Status = "ok"
	defer func() {
		if r := recover(); r != nil {
			obs.Status, obs.Note = "error", fmt.Sprintf("panic: %v", r)
		}
		obs.WallMs = time.Since(t0).Milliseconds()
	}()
	if in.Procs > 0 {
		prev := runtime.GOMAXPROCS(in.Procs)
		defer runtime.GOMAXPROCS(prev)
	}
	if in.ReqTimeoutMs > 0 {
		adaptation.SetPluginRequestTimeout(time.Duration(in.ReqTimeoutMs) * time.Millisecond)
		defer adaptation.SetPluginRequestTimeout(2 * time.Minute)
	}
	byU := map[int]*CallIn{}
	var emptyScript *CallIn
	for i := range in.Calls {
		c := &in.Calls[i]
		byU[c.U] = c
		if len(c.List) == 0 && emptyScript == nil {
			emptyScript = c
		}
	}
	var (
		logMu    sync.Mutex
		fnLog    []FnObs
		hLog     []HObs
		live     atomic.Bool
		syncDone atomic.Int64
	)
	syncFn := func(ctx context.Context, cb adaptation.SyncCB) error {
		_, err := cb(ctx, nil, nil)
		if live.Load() {
			syncDone.Add(1)
		}
		return err
	}
	updateFn := func(_ context.Context, us []*api.ContainerUpdate) ([]*api.ContainerUpdate, error) {
		sIn := rt.Stamp() // Adaptation.updateContainers holds the mutex
		list := encAll(us)
		tk := token(us)
		spin(in.DwellUs)
		time.Sleep(time.Duration(in.SlowMs) * time.Millisecond)
		var script *CallIn
		switch {
		case tk >= 0:
			script = byU[tk]
		case tk == -1:
			script = emptyScript
		}
		var failed []*api.ContainerUpdate
		var err error
		if script == nil {
			tk = -2
			err = errors.New("verif: UpdateFn received a list no plugin sent")
		} else {
			failed, err = decAll(script.Failed)
			if err == nil {
				err = mkErr(script.Err)
			}
		}
		sOut := rt.Stamp()
		logMu.Lock()
		fnLog = append(fnLog, FnObs{In: sIn, Out: sOut, Token: tk, List: list})
		logMu.Unlock()
		return failed, err
	}
	r, err := rt.NewRuntime(dir, syncFn, updateFn)
	if err != nil {
		obs.Status, obs.Note = "error", "runtime: "+err.Error()
		return
	}
	live.Store(true)
	defer r.Stop()

	plugs := make([]*rt.Plugin, in.P)
	for i := 0; i < in.P; i++ {
		i := i
		h := func(_ *api.PodSandbox, c *api.Container) {
			sIn := rt.Stamp()
			spin(in.HDwellUs)
			time.Sleep(time.Duration(in.HSlowMs) * time.Millisecond)
			sOut := rt.Stamp()
			logMu.Lock()
			hLog = append(hLog, HObs{R: rid(c.GetId()), P: i, In: sIn, Out: sOut})
			logMu.Unlock()
		}
		p, err := rt.NewPlugin(r.Sock, fmt.Sprintf("%02d", (i*7+3)%100), fmt.Sprintf("p%d", i),
			rt.Hooks{Create: h, Update: h, Stop: h, Start: h, Pod: func(pd *api.PodSandbox) {
				sIn := rt.Stamp()
				spin(in.HDwellUs)
				time.Sleep(time.Duration(in.HSlowMs) * time.Millisecond)
				sOut := rt.Stamp()
				logMu.Lock()
				hLog = append(hLog, HObs{R: rid(pd.GetId()), P: i, In: sIn, Out: sOut})
				logMu.Unlock()
			}})
		if err != nil {
			obs.Status, obs.Note = "error", "plugin: "+err.Error()
			return
		}
		plugs[i] = p
	}
	defer func() {
		for _, p := range plugs {
			p.Stop()
		}
	}()

	// per plugin, per goroutine: the calls in order
	type key struct{ p, g int }
	plan := map[key][]*CallIn{}
	for i := range in.Calls {
		c := &in.Calls[i]
		plan[key{c.P, c.G}] = append(plan[key{c.P, c.G}], c)
	}
	cobs := make([]CallObs, len(in.Calls))
	idxOf := map[int]int{}
	for i, c := range in.Calls {
		idxOf[c.U] = i
		cobs[i] = CallObs{U: c.U, Failed: []string{}}
	}
	var cmu sync.Mutex
	var wgU, wgR, wgS sync.WaitGroup
	startUpdaters := func(p int) {
		for g := 0; g < in.U; g++ {
			calls := plan[key{p, g}]
			if len(calls) == 0 {
				continue
			}
			wgU.Add(1)
			go func() {
				defer wgU.Done()
				for _, c := range calls {
					list, err := decAll(c.List)
					if err != nil {
						continue
					}
					s1 := rt.Stamp()
					cmu.Lock()
					cobs[idxOf[c.U]].S1 = s1
					cmu.Unlock()
					t := time.Now()
					failed, err := plugs[p].Stub.UpdateContainers(list)
					wait := time.Since(t).Milliseconds()
					s2 := rt.Stamp()
					cmu.Lock()
					co := &cobs[idxOf[c.U]]
					co.S2, co.Done, co.Failed, co.Err, co.WaitMs = s2, true, encAll(failed), obsErr(err), wait
					cmu.Unlock()
				}
			}()
		}
	}
	startErr := make([]error, in.P)
	for i := range plugs {
		i := i
		wgS.Add(1)
		go func() {
			defer wgS.Done()
			if err := plugs[i].Start(); err != nil {
				startErr[i] = err
				return
			}
			if in.Early {
				startUpdaters(i)
			}
		}()
	}
	wgS.Wait()
	for i, e := range startErr {
		if e != nil {
			obs.Status, obs.Note = "error", fmt.Sprintf("plugin %d Start: %v", i, e)
			return
		}
	}
	if !in.Early {
		// every plugin active before anything starts: wait for the synchronisations and
		// for the last exclusive section to be left
		t := time.Now()
		for syncDone.Load() < int64(in.P) && time.Since(t) < 20*time.Second {
			time.Sleep(200 * time.Microsecond)
		}
		b := r.A.BlockPluginSync()
		b.Unblock()
		if in.ReqTimeoutMs > 0 {
			// every stub has received the short time-out in its Configure request (that is the
			// value stub.requestTimeout keeps). The runtime reads its own copy at call time:
			// put it back, so that on a loaded machine no runtime->plugin call times out and
			// drags the run into the plugin-dropping paths (C07's subject, not C19's).
			adaptation.SetPluginRequestTimeout(2 * time.Minute)
		}
		for i := range plugs {
			startUpdaters(i)
		}
	}
	pod := rt.Pod("pod0")
	var nextR atomic.Int64
	for g := 0; g < in.G; g++ {
		g := g
		wgR.Add(1)
		go func() {
			defer wgR.Done()
			rnd := rand.New(rand.NewSource(in.Seed*31 + int64(g)))
			ctx := context.Background()
			for k := 0; k < in.R; k++ {
				id := nextR.Add(1) - 1
				c := rt.Ctr(fmt.Sprintf("r%d", id), "pod0")
				pd := rt.Pod(fmt.Sprintf("r%d", id))
				switch rnd.Intn(7) {
				case 4:
					r.A.RunPodSandbox(ctx, &api.StateChangeEvent{Pod: pd})
				case 5:
					r.A.UpdatePodSandbox(ctx, &api.UpdatePodSandboxRequest{Pod: pd, LinuxResources: &api.LinuxResources{}})
				case 6:
					r.A.StopPodSandbox(ctx, &api.StateChangeEvent{Pod: pd})
				case 0:
					r.A.CreateContainer(ctx, &api.CreateContainerRequest{Pod: pod, Container: c})
				case 1:
					r.A.UpdateContainer(ctx, &api.UpdateContainerRequest{Pod: pod, Container: c, LinuxResources: &api.LinuxResources{}})
				case 2:
					r.A.StopContainer(ctx, &api.StopContainerRequest{Pod: pod, Container: c})
				default:
					r.A.StartContainer(ctx, &api.StateChangeEvent{Pod: pod, Container: c})
				}
			}
		}()
	}
	for g := 0; g < in.GiveUp; g++ {
		g := g
		wgR.Add(1)
		go func() {
			defer wgR.Done()
			rnd := rand.New(rand.NewSource(in.Seed*37 + int64(g)))
			for k := 0; k < 4*in.R; k++ {
				ctx, cancel := context.WithCancel(context.Background())
				t := time.AfterFunc(time.Duration(20+rnd.Intn(1500))*time.Microsecond, cancel)
				r.A.RemoveContainer(ctx, &api.StateChangeEvent{Pod: pod, Container: rt.Ctr(fmt.Sprintf("gone%d-%d", g, k), "pod0")})
				t.Stop()
				cancel()
			}
		}()
	}
	done := make(chan struct{})
	go func() { wgU.Wait(); wgR.Wait(); close(done) }()
	select {
	case <-done:
	case <-time.After(90 * time.Second):
		obs.Status, obs.Note = "blocked", "update calls or requests still pending after 90s"
		buf := make([]byte, 1<<20)
		obs.Stacks = relevantStacks(string(buf[:runtime.Stack(buf, true)]))
	}
	logMu.Lock()
	obs.Fn = append([]FnObs{}, fnLog...)
	obs.H = append([]HObs{}, hLog...)
	logMu.Unlock()
	cmu.Lock()
	obs.Calls = append([]CallObs{}, cobs...)
	cmu.Unlock()
	sort.Slice(obs.Fn, func(i, j int) bool { return obs.Fn[i].In < obs.Fn[j].In })
	sort.Slice(obs.H, func(i, j int) bool { return obs.H[i].In < obs.H[j].In })
	for i := range obs.Fn {
		if obs.Fn[i].List == nil {
			obs.Fn[i].List = []string{}
		}
	}
	return
}

// runLone: UpdateContainers on a stub that was never started (or was started and stopped),
// under a deadline.
func runLone(in In, dir string) (obs Obs) {
	obs.Status = "ok"
	defer func() {
		if r := recover(); r != nil {
			obs.Status, obs.Note = "error", fmt.Sprintf("panic: %v", r)
		}
	}()
	sock := filepath.Join(dir, "nri.sock")
	os.MkdirAll(dir, 0o755)
	var r *rt.Runtime
	if in.Listen || in.Kind == "stopped" {
		var err error
		r, err = rt.NewRuntime(dir,
			func(ctx context.Context, cb adaptation.SyncCB) error { _, err := cb(ctx, nil, nil); return err },
			func(context.Context, []*api.ContainerUpdate) ([]*api.ContainerUpdate, error) { return nil, nil })
		if err != nil {
			obs.Status, obs.Note = "error", err.Error()
			return
		}
		defer r.Stop()
	}
	var extra []stub.Option
	release := make(chan struct{})
	dialed := make(chan struct{})
	var relOnce sync.Once
	releaseNow := func() { relOnce.Do(func() { close(release) }) }
	defer releaseNow()
	switch in.Kind {
	case "starting-dial":
		// Start() is in progress: the dialer hangs until the case is over
		extra = append(extra, stub.WithDialer(func(string) (net.Conn, error) {
			close(dialed)
			<-release
			return nil, errors.New("verif: dialer released")
		}))
	case "starting-mute":
		// Start() is in progress: a runtime end that accepts and never answers RegisterPlugin
		l, err := net.Listen("unix", sock)
		if err != nil {
			obs.Status, obs.Note = "error", err.Error()
			return
		}
		defer l.Close()
		go func() {
			c, err := l.Accept()
			if err != nil {
				return
			}
			close(dialed)
			<-release
			c.Close()
		}()
	}
	p, err := rt.NewPlugin(sock, "07", "lone", rt.Hooks{}, extra...)
	if err != nil {
		obs.Status, obs.Note = "error", err.Error()
		return
	}
	deadline := 5 * time.Second
	if in.Kind == "starting-dial" || in.Kind == "starting-mute" {
		startDone := make(chan error, 1)
		go func() { startDone <- p.Start() }()
		select {
		case <-dialed:
		case <-time.After(5 * time.Second):
			obs.Status, obs.Note = "error", "Start never reached the connection"
			return
		}
		if in.Kind == "starting-mute" {
			time.Sleep(20 * time.Millisecond) // let Start get as far as RegisterPlugin
			deadline = 8 * time.Second        // the stub's own registration time-out is 5 s
		} else {
			deadline = 3 * time.Second
		}
		defer func() {
			releaseNow()
			select {
			case <-startDone:
			case <-time.After(10 * time.Second):
				obs.Note += " (Start still running at the end of the case)"
			}
		}()
	}
	if in.Kind == "stopped" {
		if err := p.Start(); err != nil {
			obs.Status, obs.Note = "error", err.Error()
			return
		}
		b := r.A.BlockPluginSync()
		b.Unblock()
		p.Stop()
	}
	var list []*api.ContainerUpdate
	if len(in.Calls) > 0 {
		list, _ = decAll(in.Calls[0].List)
	}
	type res struct {
		failed []*api.ContainerUpdate
		err    error
	}
	ch := make(chan res, 1)
	go func() {
		f, e := p.Stub.UpdateContainers(list)
		ch <- res{f, e}
	}()
	select {
	case x := <-ch:
		switch {
		case errors.Is(x.err, stub.ErrNoService):
			obs.Result = "noservice"
		case x.err != nil:
			obs.Result = "error"
			obs.Note = x.err.Error()
		default:
			obs.Result = "ok"
		}
		if len(x.failed) != 0 {
			obs.Note += " (non-empty failed list)"
			obs.Result += "+failed"
		}
	case <-time.After(deadline):
		obs.Result = "blocked"
	}
	return
}

// runCfg: every plugin sends its update from inside its Configure handler, i.e. while its
// stub.Start() is still in progress, against a real runtime. Start must return, the update must
// reach UpdateFn exactly once, unchanged, and the scripted result must come back unchanged.
func runCfg(in In, dir string) (obs Obs) {
	t0 := time.Now()
	obs.Status = "ok"
	defer func() {
		if r := recover(); r != nil {
			obs.Status, obs.Note = "error", fmt.Sprintf("panic: %v", r)
		}
		obs.WallMs = time.Since(t0).Milliseconds()
	}()
	byU := map[int]*CallIn{}
	for i := range in.Calls {
		byU[in.Calls[i].U] = &in.Calls[i]
	}
	var logMu sync.Mutex
	var fnLog []FnObs
	syncFn := func(ctx context.Context, cb adaptation.SyncCB) error { _, err := cb(ctx, nil, nil); return err }
	updateFn := func(_ context.Context, us []*api.ContainerUpdate) ([]*api.ContainerUpdate, error) {
		sIn := rt.Stamp()
		list := encAll(us)
		tk := token(us)
		spin(in.DwellUs)
		var failed []*api.ContainerUpdate
		var err error
		if script := byU[tk]; script == nil {
			tk = -2
			err = errors.New("verif: UpdateFn received a list no plugin sent")
		} else {
			failed, err = decAll(script.Failed)
			if err == nil {
				err = mkErr(script.Err)
			}
		}
		sOut := rt.Stamp()
		logMu.Lock()
		fnLog = append(fnLog, FnObs{In: sIn, Out: sOut, Token: tk, List: list})
		logMu.Unlock()
		return failed, err
	}
	r, err := rt.NewRuntime(dir, syncFn, updateFn)
	if err != nil {
		obs.Status, obs.Note = "error", "runtime: "+err.Error()
		return
	}
	defer r.Stop()
	cobs := make([]CallObs, len(in.Calls))
	var cmu sync.Mutex
	plugs := make([]*rt.Plugin, len(in.Calls))
	started := make([]chan error, len(in.Calls))
	for i := range in.Calls {
		i := i
		c := &in.Calls[i]
		cobs[i] = CallObs{U: c.U, Failed: []string{}}
		p, err := rt.NewPlugin(r.Sock, fmt.Sprintf("%02d", (i*7+3)%100), fmt.Sprintf("p%d", i), rt.Hooks{})
		if err != nil {
			obs.Status, obs.Note = "error", "plugin: "+err.Error()
			return
		}
		p.H.Configure = func() {
			list, err := decAll(c.List)
			if err != nil {
				return
			}
			s1 := rt.Stamp()
			cmu.Lock()
			cobs[i].S1 = s1
			cmu.Unlock()
			failed, err := p.Stub.UpdateContainers(list)
			s2 := rt.Stamp()
			cmu.Lock()
			cobs[i].S2, cobs[i].Done, cobs[i].Failed, cobs[i].Err = s2, true, encAll(failed), obsErr(err)
			cmu.Unlock()
		}
		plugs[i] = p
		started[i] = make(chan error, 1)
		go func() { started[i] <- p.Start() }()
	}
	limit := time.After(10 * time.Second)
	stuck := map[int]bool{}
	for i := range plugs {
		select {
		case err := <-started[i]:
			if err != nil {
				obs.Status, obs.Note = "blocked", fmt.Sprintf("plugin %d: Start failed: %v", i, err)
			}
		case <-limit:
			stuck[i] = true
			obs.Status, obs.Note = "blocked", fmt.Sprintf("plugin %d: Start did not return within 10s of sending an update from Configure", i)
		}
	}
	for i, p := range plugs {
		if !stuck[i] { // Stop() of a stuck stub would wait for the same lock: leak it
			p.Stop()
		}
	}
	logMu.Lock()
	obs.Fn = append([]FnObs{}, fnLog...)
	logMu.Unlock()
	cmu.Lock()
	obs.Calls = append([]CallObs{}, cobs...)
	cmu.Unlock()
	sort.Slice(obs.Fn, func(i, j int) bool { return obs.Fn[i].In < obs.Fn[j].In })
	for i := range obs.Fn {
		if obs.Fn[i].List == nil {
			obs.Fn[i].List = []string{}
		}
	}
	return
}

// ---- generation

func genUpdate(r *rand.Rand, id string) *api.ContainerUpdate {
	u := &api.ContainerUpdate{ContainerId: id}
	if r.Intn(4) == 0 {
		u.IgnoreFailure = true
	}
	if r.Intn(6) == 0 {
		return u
	}
	res := &api.LinuxResources{}
	u.Linux = &api.LinuxContainerUpdate{Resources: res}
	if r.Intn(2) == 0 {
		m := &api.LinuxMemory{}
		if r.Intn(2) == 0 {
			m.Limit = api.Int64(r.Int63n(1 << 40))
		}
		if r.Intn(3) == 0 {
			m.Reservation = api.Int64(int64(r.Intn(3)) - 1) // -1, 0, 1: zero must survive as "set"
		}
		if r.Intn(3) == 0 {
			m.Swap = api.Int64(r.Int63())
		}
		if r.Intn(4) == 0 {
			m.Swappiness = api.UInt64(uint64(r.Intn(101)))
		}
		if r.Intn(4) == 0 {
			m.DisableOomKiller = api.Bool(r.Intn(2) == 0)
		}
		res.Memory = m
	}
	if r.Intn(2) == 0 {
		c := &api.LinuxCPU{}
		if r.Intn(2) == 0 {
			c.Shares = api.UInt64(uint64(r.Intn(4096)))
		}
		if r.Intn(2) == 0 {
			c.Quota = api.Int64(int64(r.Intn(200000)) - 1)
		}
		if r.Intn(3) == 0 {
			c.Period = api.UInt64(uint64(r.Intn(100000)))
		}
		if r.Intn(3) == 0 {
			c.Cpus = []string{"0", "0-3", "1,3,5", "", "0-63"}[r.Intn(5)]
		}
		if r.Intn(4) == 0 {
			c.Mems = []string{"0", "0-1"}[r.Intn(2)]
		}
		res.Cpu = c
	}
	for k := r.Intn(3); k > 0; k-- {
		res.HugepageLimits = append(res.HugepageLimits, &api.HugepageLimit{
			PageSize: []string{"2MB", "1GB", "64KB"}[r.Intn(3)], Limit: uint64(r.Intn(1 << 20))})
	}
	if r.Intn(4) == 0 {
		res.BlockioClass = api.String([]string{"", "fast", "slöw"}[r.Intn(3)])
	}
	if r.Intn(4) == 0 {
		res.RdtClass = api.String([]string{"", "gold", "银"}[r.Intn(3)])
	}
	if r.Intn(3) == 0 {
		res.Unified = map[string]string{}
		for k := 1 + r.Intn(4); k > 0; k-- {
			res.Unified[[]string{"memory.high", "cpu.weight", "io.max", "pids.max", "a", ""}[r.Intn(6)]] =
				[]string{"max", "100", "", "8:0 rbps=1048576", "\x00\xff"[0:1]}[r.Intn(5)]
		}
	}
	if r.Intn(5) == 0 {
		res.Pids = &api.LinuxPids{Limit: int64(r.Intn(3000)) - 1}
	}
	return u
}

var msgs = []string{"boom", "", "update failed: no such container", "ünïcode ✓", "a\nb", "rpc error: code = Unknown desc = nested",
	"x: %v %s", strings.Repeat("long ", 200)}

func genCalls(r *rand.Rand, in *In, perG int) {
	u := 0
	emptyFailed := []string{}
	var emptyErr *ErrIn
	if r.Intn(2) == 0 {
		emptyErr = &ErrIn{Plain: r.Intn(2) == 0, Code: int(codes.NotFound), Msg: "empty list refused"}
	} else if r.Intn(2) == 0 {
		emptyFailed = []string{enc(genUpdate(r, "foreign-0"))}
	}
	for p := 0; p < in.P; p++ {
		for g := 0; g < in.U; g++ {
			for k := 0; k < perG; k++ {
				c := CallIn{U: u, P: p, G: g, List: []string{}, Failed: []string{}}
				n := 0
				switch r.Intn(8) {
				case 0:
					n = 0
				case 1:
					n = 5 + r.Intn(20)
				default:
					n = 1 + r.Intn(4)
				}
				var ups []*api.ContainerUpdate
				for i := 0; i < n; i++ {
					up := genUpdate(r, fmt.Sprintf("u%d-%d", u, i))
					ups = append(ups, up)
					c.List = append(c.List, enc(up))
				}
				if n == 0 {
					c.Failed = emptyFailed
					c.Err = emptyErr
				} else {
					switch r.Intn(6) {
					case 0: // error (with a failed list that must NOT come through)
						c.Err = &ErrIn{Plain: true, Msg: msgs[r.Intn(len(msgs))]}
						if r.Intn(2) == 0 {
							c.Failed = []string{c.List[0]}
						}
					case 1:
						code := []codes.Code{codes.NotFound, codes.Unknown, codes.Internal, codes.FailedPrecondition,
							codes.InvalidArgument, codes.Unavailable, codes.Code(77)}[r.Intn(7)]
						c.Err = &ErrIn{Plain: false, Code: int(code), Msg: msgs[r.Intn(len(msgs))]}
					case 2: // a subset failed, in a different order
						for i := len(c.List) - 1; i >= 0; i-- {
							if r.Intn(2) == 0 {
								c.Failed = append(c.Failed, c.List[i])
							}
						}
					case 3: // failed list with an update the plugin never sent, and a duplicate
						c.Failed = append(c.Failed, enc(genUpdate(r, "foreign-1")), c.List[0], c.List[0])
					case 4: // everything failed
						c.Failed = append(c.Failed, c.List...)
					}
				}
				in.Calls = append(in.Calls, c)
				u++
			}
		}
	}
}

func generate(o *hx.Opts) []In {
	r := o.Rand(19)
	n := o.N(150, 8000)
	procsQuick := []int{2, 4, 8, 16}
	procsAll := []int{1, 2, 3, 4, 8, 16, 32}
	var out []In
	// the lone-stub cases: every list shape, runtime listening or not
	idx := 0
	for _, listen := range []bool{false, true} {
		for _, nl := range []int{0, 1, 3} {
			in := In{Kind: "unstarted", Idx: idx, Listen: listen, Seed: r.Int63(), Calls: []CallIn{{List: []string{}, Failed: []string{}}}}
			for i := 0; i < nl; i++ {
				in.Calls[0].List = append(in.Calls[0].List, enc(genUpdate(r, fmt.Sprintf("u0-%d", i))))
			}
			out = append(out, in)
			idx++
		}
	}
	in := In{Kind: "stopped", Idx: idx, Listen: true, Seed: r.Int63(), Calls: []CallIn{{List: []string{enc(genUpdate(r, "u0-0"))}, Failed: []string{}}}}
	out = append(out, in)
	idx++
	// Start() in progress: hanging dialer (list of 0/1/3), and one mute runtime end
	for _, nl := range []int{0, 1, 3} {
		in := In{Kind: "starting-dial", Idx: idx, Seed: r.Int63(), Calls: []CallIn{{List: []string{}, Failed: []string{}}}}
		for i := 0; i < nl; i++ {
			in.Calls[0].List = append(in.Calls[0].List, enc(genUpdate(r, fmt.Sprintf("u0-%d", i))))
		}
		out = append(out, in)
		idx++
	}
	out = append(out, In{Kind: "starting-mute", Idx: idx, Seed: r.Int63(), Calls: []CallIn{{List: []string{enc(genUpdate(r, "u0-0"))}, Failed: []string{}}}})
	idx++
	// updates sent from inside the Configure handler (Start in progress, runtime client exists)
	for k := 0; k < o.N(12, 200); k++ {
		in := In{Kind: "cfgupd", Idx: idx, Seed: r.Int63(), U: 1}
		idx++
		in.P = 1 + r.Intn(3)
		in.DwellUs = []int{0, 20, 200}[r.Intn(3)]
		genCalls(r, &in, 1)
		for i := range in.Calls { // non-empty lists only: the token identifies the call
			if len(in.Calls[i].List) == 0 {
				up := genUpdate(r, fmt.Sprintf("u%d-0", in.Calls[i].U))
				in.Calls[i].List = []string{enc(up)}
				in.Calls[i].Failed = []string{}
				in.Calls[i].Err = nil
			}
		}
		out = append(out, in)
	}
	// the slow stream: short request time-out, slow callback (and, every other case, slow
	// handlers of concurrent runtime requests): the queue behind the adaptation mutex is longer
	// than the time-out, and every call must still get the callback's own result
	for k := 0; k < o.N(6, 60); k++ {
		in := In{Kind: "upd", Idx: idx, Seed: r.Int63()}
		idx++
		in.P = 4 + r.Intn(3)
		in.U = 3 // three goroutines per plugin, one call each: all calls are issued at once
		in.Procs = 8
		in.ReqTimeoutMs = 600 + 100*r.Intn(4)
		in.SlowMs = 150 + 50*r.Intn(4)
		if k%2 == 1 {
			in.G = 2
			in.R = 3
			in.HSlowMs = 80 + 20*r.Intn(4)
		}
		genCalls(r, &in, 1)
		out = append(out, in)
	}
	out = append(out, genLost(o, &idx)...)
	for i := 0; i < n; i++ {
		in := In{Kind: "upd", Idx: idx, Seed: r.Int63()}
		idx++
		in.P = 1 + r.Intn(5)
		in.U = 1 + r.Intn(3)
		in.G = r.Intn(5)
		if i%4 == 0 {
			in.P, in.G = 4, 4
		}
		in.R = 5 + r.Intn(20)
		if o.Thorough() {
			in.Procs = procsAll[i%len(procsAll)]
		} else {
			in.Procs = procsQuick[i%len(procsQuick)]
		}
		in.DwellUs = []int{0, 5, 20, 50, 200}[r.Intn(5)]
		in.HDwellUs = []int{0, 5, 20, 50}[r.Intn(4)]
		in.Early = r.Intn(4) == 0
		if i%3 == 1 {
			in.GiveUp = 1 + r.Intn(2)
			if in.DwellUs < 50 {
				in.DwellUs = 200 // the lock must be held for a while for a waiter to give up
			}
			if in.R == 0 || in.G == 0 {
				in.G, in.R = 1, 5
			}
		}
		per := 3 + r.Intn(8)
		if i%4 == 0 {
			per = 20 / in.U
			if per < 1 {
				per = 1
			}
		}
		genCalls(r, &in, per)
		out = append(out, in)
	}
	return out
}

func workers() int {
	if v := os.Getenv("VERIFH_WORKERS"); v != "" {
		if n, err := strconv.Atoi(v); err == nil && n >= 1 {
			return n
		}
	}
	return 4
}

func Run(o *hx.Opts, w *lineio.Writer) error {
	var cases []In
	if o.Replay != "" {
		rc, err := hx.ReplayCases(o.Replay)
		if err != nil {
			return err
		}
		for _, c := range rc {
			var in In
			if err := json.Unmarshal(c.In, &in); err != nil {
				return err
			}
			if in.Kind == "worker" {
				continue
			}
			// schedule-dependent: a replayed plan is re-run several times, every run judged
			reps := 10
			if in.Kind == "lostconn" {
				reps = 3 // the steps are gated on each other, not raced: a few runs suffice
			} else if in.Kind != "upd" {
				reps = 1
			} else if in.ReqTimeoutMs > 0 {
				reps = 3 // a slow case takes seconds, and it is its queueing, not a rare schedule, that matters
			}
			for k := 0; k < reps; k++ {
				cases = append(cases, in)
			}
		}
	} else {
		cases = generate(o)
	}
	return rt.Sharded(o, w, "C19", len(cases), workers(), func(i int) interface{} { return cases[i] }, func(i int) *lineio.Case {
		in := cases[i]
		dir := filepath.Join(o.Scratch, fmt.Sprintf("r%d", i))
		var obs Obs
		switch in.Kind {
		case "upd":
			obs = runUpd(in, dir)
		case "cfgupd":
			obs = runCfg(in, dir)
		case "lostconn":
			obs = runLostRetry(in, dir)
		case "unstarted", "stopped", "starting-dial", "starting-mute":
			obs = runLone(in, dir)
		default:
			obs = Obs{Status: "error", Note: "unknown kind " + in.Kind}
		}
		if obs.Fn == nil {
			obs.Fn = []FnObs{}
		}
		if obs.Calls == nil {
			obs.Calls = []CallObs{}
		}
		if obs.H == nil {
			obs.H = []HObs{}
		}
		os.RemoveAll(dir)
		return &lineio.Case{ID: fmt.Sprintf("c19-%s-%d#%d", in.Kind, in.Idx, i), In: in, Obs: obs}
	}, func(c rt.Crashed) *lineio.Case {
		// the worker process (which hosts the real Adaptation) died while running case c.At: the
		// case itself is the record, so that it replays
		in := cases[c.At]
		return &lineio.Case{ID: fmt.Sprintf("c19-%s-%d#%d-crashed", in.Kind, in.Idx, c.At), In: in,
			Obs: Obs{Status: "crashed", Note: c.Note, Fn: []FnObs{}, Calls: []CallObs{}, H: []HObs{}}}
	})
}
