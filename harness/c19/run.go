// Package c19 is the correspondence harness for property C19 (placeholder).
package c19

import (
	"errors"

	"verifh/internal/hx"
	"verifh/internal/lineio"
)

func Run(o *hx.Opts, w *lineio.Writer) error {
	return errors.New("C19 harness not implemented")
}
