// Package c11 is the correspondence harness for property C11 (the multiplexer fails stop).
package c11

import (
	"encoding/json"
	"math/rand"
	"os"
	"path/filepath"
	"time"

	"verifh/c10"
	"verifh/internal/hx"
	"verifh/internal/lineio"
)

func Run(o *hx.Opts, w *lineio.Writer) error {
	if c10.IsWorker() {
		return c10.Worker(o, w, RunOne)
	}
	if o.Replay != "" {
		jobs, err := c10.ReplayJobs(o.Replay)
		if err != nil {
			return err
		}
		return c10.RunIsolated("C11", o, w, jobs, 1, 60*time.Second)
	}
	mp := c10.MaxPayloadOrDocumented()
	if dir := os.Getenv("VERIFH_DUMP_CORPUS"); dir != "" {
		// maintenance: regenerate the hand-picked corpus files from the generators
		return dumpCorpus(dir, mp)
	}
	var jobs []c10.Job
	sizes := [3]int{5, 0, 3}
	if o.Thorough() {
		sizes = [3]int{40, 0, 50}
	}
	jobs = append(jobs, c10.TruncationSweep(mp, sizes)...)
	jobs = append(jobs, c10.OverflowSweep(mp, []int{1, 2, 3, 4, 7})...)
	jobs = append(jobs, c10.ListenerScripts(mp)...)
	jobs = append(jobs, c10.ReopenScripts(mp)...)
	jobs = append(jobs, c10.TearSweep(mp)...)
	jobs = append(jobs, c10.TearPayloadSweep(mp)...)
	r := o.Rand(11)
	for i := 0; i < o.N(500, 12000); i++ {
		jobs = append(jobs, c10.RandomScript(r, mp, i))
	}
	if err := c10.RunIsolated("C11", o, w, jobs, 12, 20*time.Second); err != nil {
		return err
	}
	var chaos []c10.Job
	for i := 0; i < o.N(240, 4000); i++ {
		chaos = append(chaos, RandomChaos(r, mp, i))
	}
	for i := 0; i < o.N(24, 200); i++ {
		chaos = append(chaos, StuckWrite(r, mp, i))
	}
	for i := 0; i < o.N(8, 40); i++ {
		chaos = append(chaos, CloseRace(r, mp, i, o.N(2500, 10000)))
	}
	return c10.RunIsolated("C11", o, w, chaos, 10, 60*time.Second)
}

func dumpCorpus(dir string, mp int) error {
	dump := func(prop, name string, jobs []c10.Job) error {
		if err := os.MkdirAll(filepath.Join(dir, prop), 0o755); err != nil {
			return err
		}
		f, err := os.Create(filepath.Join(dir, prop, name))
		if err != nil {
			return err
		}
		defer f.Close()
		for _, j := range jobs {
			b, err := json.Marshal(map[string]interface{}{"id": j.ID, "in": j.In})
			if err != nil {
				return err
			}
			f.Write(append(b, '\n'))
		}
		return nil
	}
	if err := dump("C11", "open-after-close.jsonl", c10.OpenAfterClose(mp)); err != nil {
		return err
	}
	if err := dump("C10", "excluded-points.jsonl", c10.ExcludedScripts(mp)); err != nil {
		return err
	}
	var pick []c10.Job
	for _, j := range c10.TruncationSweep(mp, [3]int{5, 0, 3}) {
		switch j.ID {
		case "trunc-d0-k0", "trunc-d0-k3", "trunc-d0-k8", "trunc-d0-k10", "trunc-d0-k13", "trunc-d1-k21", "trunc-d0-k32":
			pick = append(pick, j)
		}
	}
	if err := dump("C11", "truncation-edges.jsonl", pick); err != nil {
		return err
	}
	if err := dump("C11", "overflow-q1.jsonl", c10.OverflowSweep(mp, []int{1})[:2]); err != nil {
		return err
	}
	if err := dump("C11", "listener.jsonl", c10.ListenerScripts(mp)); err != nil {
		return err
	}
	// seeded breakages C11-s1 / s2 / s4 (stale close after re-open, torn header, Close vs a
	// Write stuck on the trunk)
	var re []c10.Job
	for _, j := range c10.ReopenScripts(mp) {
		switch j.ID {
		case "reopen-d0-s1-f0", "reopen-d1-s2-f1", "reopen-d0-s2-f2":
			re = append(re, j)
		}
	}
	if err := dump("C11", "reopen-stale-close.jsonl", re); err != nil {
		return err
	}
	var te []c10.Job
	for _, j := range c10.TearSweep(mp) {
		switch j.ID {
		case "tear-d0-k0", "tear-d0-k2", "tear-d1-k4", "tear-d0-k7":
			te = append(te, j)
		}
	}
	if err := dump("C11", "torn-header.jsonl", te); err != nil {
		return err
	}
	r := rand.New(rand.NewSource(4))
	return dump("C11", "stuck-write.jsonl", []c10.Job{StuckWrite(r, mp, 0), StuckWrite(r, mp, 1), StuckWrite(r, mp, 2)})
}
