// Package c11 is the correspondence harness for property C11 (the multiplexer fails stop).
package c11

import (
	"time"

	"verifh/c10"
	"verifh/internal/hx"
	"verifh/internal/lineio"
)

func Run(o *hx.Opts, w *lineio.Writer) error {
	if c10.IsWorker() {
		return c10.Worker(o, w, RunOne)
	}
	if o.Replay != "" {
		jobs, err := c10.ReplayJobs(o.Replay)
		if err != nil {
			return err
		}
		return c10.RunIsolated("C11", o, w, jobs, 1, 60*time.Second)
	}
	mp := c10.MaxPayloadOrDocumented()
	var jobs []c10.Job
	sizes := [3]int{5, 0, 3}
	if o.Thorough() {
		sizes = [3]int{40, 0, 50}
	}
	jobs = append(jobs, c10.TruncationSweep(mp, sizes)...)
	jobs = append(jobs, c10.OverflowSweep(mp, []int{1, 2, 3, 4, 7})...)
	jobs = append(jobs, c10.ListenerScripts(mp)...)
	r := o.Rand(11)
	for i := 0; i < o.N(150, 3000); i++ {
		jobs = append(jobs, c10.RandomScript(r, mp, i))
	}
	if err := c10.RunIsolated("C11", o, w, jobs, 40, 20*time.Second); err != nil {
		return err
	}
	var chaos []c10.Job
	for i := 0; i < o.N(60, 800); i++ {
		chaos = append(chaos, RandomChaos(r, mp, i))
	}
	return c10.RunIsolated("C11", o, w, chaos, 10, 30*time.Second)
}
