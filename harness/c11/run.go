// Package c11 is the correspondence harness for property C11 (placeholder).
package c11

import (
	"errors"

	"verifh/internal/hx"
	"verifh/internal/lineio"
)

func Run(o *hx.Opts, w *lineio.Writer) error {
	return errors.New("C11 harness not implemented")
}
