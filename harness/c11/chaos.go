package c11

import (
	"encoding/json"
	"fmt"
	"math/rand"
	"net"
	"strconv"
	"sync"
	"sync/atomic"
	"time"

	mux "github.com/containerd/nri/pkg/net/multiplex"

	"verifh/c10"
)

// A chaos case: concurrent traffic (one writer and one reader goroutine per connection and
// end) into which a failure is injected at a random moment — 1–16 goroutines closing the
// muxes / connections / listeners of one or both ends at once, the trunk cut after a
// random number of further bytes, or stalled readers so that a queue overflows. After the
// failure every goroutine keeps calling Read / Write a few more times, then everything is
// closed twice, concurrently. Every call runs under a deadline: a call that does not
// return is the observation "blocked".
type ChaosIn struct {
	Kind     string `json:"kind"` // "chaos"
	Note     string `json:"note"`
	Mp       int    `json:"mp"`
	Qlen     int    `json:"qlen"`
	Nids     int    `json:"nids"`
	Mode     string `json:"mode"`    // close-a close-b close-both cut overflow connstorm rdeadline
	Closers  int    `json:"closers"` // concurrent closers at the failure
	FaultAt  int    `json:"fault_at"`
	CutExtra int    `json:"cut_extra"`
	Writes   int    `json:"writes"` // writes per writer
	MaxLen   int    `json:"max_len"`
	Seed     int64  `json:"seed"`
	WaitMs   int    `json:"wait_ms"`
}

type ConnLog struct {
	End     int      `json:"end"`
	ID      uint32   `json:"id"`
	Written []string `json:"written"` // payloads of the Writes that returned success, in order (hex)
	WTail   []string `json:"wtail"`   // results of the Writes from the first failure on
	Reads   []string `json:"reads"`   // in order: "d:<hex>" or "e:<kind>" or "blocked"
}

type ChaosObs struct {
	Conns   []ConnLog `json:"conns"`
	Final   []string  `json:"final"` // results of the closing phase that are not "ok"
	TrunkAB string    `json:"trunk_ab"`
	TrunkBA string    `json:"trunk_ba"`
	Blocked []string  `json:"blocked"`
	Crashed string    `json:"crashed"`
}

func RunOne(raw json.RawMessage) (interface{}, interface{}, error) {
	var k struct {
		Kind string `json:"kind"`
	}
	if err := json.Unmarshal(raw, &k); err != nil {
		return nil, nil, err
	}
	if k.Kind != "chaos" {
		return nil, nil, fmt.Errorf("unknown case kind %q", k.Kind)
	}
	var in ChaosIn
	if err := json.Unmarshal(raw, &in); err != nil {
		return nil, nil, err
	}
	return in, RunChaos(in), nil
}

// call runs f under the deadline; ok=false means it did not return.
func call(wait time.Duration, f func()) bool {
	ch := make(chan struct{})
	go func() { f(); close(ch) }()
	select {
	case <-ch:
		return true
	case <-time.After(wait):
		return false
	}
}

func RunChaos(in ChaosIn) ChaosObs {
	if in.Mode == "stuck-write" {
		return runStuckWrite(in)
	}
	if in.Mode == "close-race" {
		return runCloseRace(in)
	}
	obs := ChaosObs{Final: []string{}, Blocked: []string{}}
	ca, cb, err := c10.Pair()
	if err != nil {
		obs.Crashed = "harness: " + err.Error()
		return obs
	}
	wait := time.Duration(in.WaitMs) * time.Millisecond
	taps := [2]*c10.Tap{c10.NewTap(ca), c10.NewTap(cb)}
	ms := [2]mux.Mux{}
	if in.Mode == "rdeadline" {
		// trunk writes go out in two halves, so the peer's reader is usually inside a frame
		taps[0].Dribble, taps[1].Dribble = 300*time.Microsecond, 300*time.Microsecond
	}
	for e := 0; e < 2; e++ {
		ms[e] = mux.Multiplex(taps[e], mux.WithReadQueueLength(in.Qlen), mux.WithBlockedRead())
	}
	type cs struct {
		c   net.Conn
		l   net.Listener
		log *ConnLog
		cr  chan struct{} // credits granted by the peer's reader
	}
	conns := [2][]*cs{}
	for e := 0; e < 2; e++ {
		for i := 0; i < in.Nids; i++ {
			id := uint32(1 + i)
			x := &cs{log: &ConnLog{End: e, ID: id, Written: []string{}, WTail: []string{}, Reads: []string{}}}
			if (i+e)%3 == 2 {
				l, err := ms[e].Listen(mux.ConnID(id))
				if err != nil {
					obs.Crashed = "harness: listen: " + err.Error()
					return obs
				}
				x.l = l
				x.c, err = l.Accept()
				if err != nil {
					obs.Crashed = "harness: accept: " + err.Error()
					return obs
				}
			} else {
				x.c, err = ms[e].Open(mux.ConnID(id))
				if err != nil {
					obs.Crashed = "harness: open: " + err.Error()
					return obs
				}
			}
			x.cr = make(chan struct{}, in.Qlen)
			for k := 0; k < in.Qlen; k++ {
				x.cr <- struct{}{}
			}
			conns[e] = append(conns[e], x)
		}
	}
	ms[0].Unblock()
	ms[1].Unblock()
	var bmu sync.Mutex
	blocked := func(s string) { bmu.Lock(); obs.Blocked = append(obs.Blocked, s); bmu.Unlock() }
	var issued int64
	failed := make(chan struct{}) // closed when the failure has been injected
	overflow := in.Mode == "overflow"
	var wg, wwg sync.WaitGroup
	for e := 0; e < 2; e++ {
		for i, x := range conns[e] {
			peer := conns[1-e][i]
			// writer
			wg.Add(1)
			wwg.Add(1)
			go func(e, i int, x, peer *cs) {
				defer wg.Done()
				defer wwg.Done()
				r := rand.New(rand.NewSource(in.Seed*977 + int64(e*100+i)))
				tail := 0
				for k := 0; k < in.Writes && tail < 3; k++ {
					if !overflow && tail == 0 {
						select {
						case <-x.cr:
						case <-failed:
						case <-time.After(wait):
							blocked(fmt.Sprintf("credit end=%d id=%d", e, x.log.ID))
							return
						}
					}
					n := r.Intn(in.MaxLen + 1)
					p := c10.Payload(n, (k*31+i*7+e)%256, 1+k%9)
					var wn int
					var werr error
					if !call(wait, func() { wn, werr = x.c.Write(p) }) {
						x.log.WTail = append(x.log.WTail, "blocked")
						blocked(fmt.Sprintf("write end=%d id=%d", e, x.log.ID))
						return
					}
					atomic.AddInt64(&issued, 1)
					if werr == nil && wn == len(p) && tail == 0 {
						x.log.Written = append(x.log.Written, c10.Hex(p))
						continue
					}
					tail++
					if werr == nil {
						x.log.WTail = append(x.log.WTail, fmt.Sprintf("ok:%d/%d", wn, len(p)))
					} else {
						x.log.WTail = append(x.log.WTail, "e:"+c10.Classify(werr))
					}
				}
			}(e, i, x, peer)
			// reader
			wg.Add(1)
			go func(e, i int, x, peer *cs) {
				defer wg.Done()
				r := rand.New(rand.NewSource(in.Seed*1291 + int64(e*100+i)))
				buf := make([]byte, in.MaxLen+64)
				after := -1 // reads still to do after the first error
				for after != 0 {
					if overflow && after < 0 {
						time.Sleep(time.Duration(r.Intn(3000)) * time.Microsecond)
					}
					var n int
					var rerr error
					if !call(wait, func() { n, rerr = x.c.Read(buf) }) {
						x.log.Reads = append(x.log.Reads, "blocked")
						blocked(fmt.Sprintf("read end=%d id=%d", e, x.log.ID))
						return
					}
					if rerr != nil {
						x.log.Reads = append(x.log.Reads, "e:"+c10.Classify(rerr))
						if after < 0 {
							after = in.Qlen + 3
							if after > 12 {
								after = 12
							}
						}
					} else {
						x.log.Reads = append(x.log.Reads, "d:"+c10.Hex(buf[:n]))
						select {
						case peer.cr <- struct{}{}:
						default:
						}
					}
					if after > 0 {
						after--
					}
				}
			}(e, i, x, peer)
		}
	}
	// the failure
	go func() {
		t0 := time.Now()
		for atomic.LoadInt64(&issued) < int64(in.FaultAt) && time.Since(t0) < wait {
			time.Sleep(50 * time.Microsecond)
		}
		switch in.Mode {
		case "cut":
			t := taps[int(in.Seed)&1]
			t.CutAfter(in.CutExtra)
			// if the writers finish before that many bytes were written, cut where the
			// stream stands (otherwise nothing would ever fail and the readers wait for ever)
			go func() { wwg.Wait(); t.CutAfter(0) }()
		case "rdeadline":
			// a TRANSIENT trunk fault: the read deadline of one end's trunk expires (a few times)
			// and is cleared again, while frames are in flight — usually half way through a frame
			// (see Dribble). Whatever the mux makes of it (the pinned code fails stop), what the
			// readers get must stay a prefix of what was sent. The exchange then ends with an
			// orderly close once the writers are done.
			raw := []net.Conn{ca, cb}[int(in.Seed)&1]
			br := rand.New(rand.NewSource(in.Seed*31 + 7))
			for b := 0; b < 1+in.Closers%4; b++ {
				raw.SetReadDeadline(time.Now().Add(-time.Second))
				time.Sleep(time.Duration(200+br.Intn(1500)) * time.Microsecond)
				raw.SetReadDeadline(time.Time{})
				time.Sleep(time.Duration(br.Intn(1500)) * time.Microsecond)
			}
			go func() { wwg.Wait(); time.Sleep(20 * time.Millisecond); ms[0].Close() }()
		case "overflow":
			// readers are slow, writers have no credits. Should no queue have overflowed by the
			// time all writers are done, end the exchange with an orderly close.
			go func() { wwg.Wait(); time.Sleep(20 * time.Millisecond); ms[0].Close() }()
		default:
			ends := []int{0}
			if in.Mode == "close-b" {
				ends = []int{1}
			} else if in.Mode == "close-both" || in.Mode == "connstorm" {
				ends = []int{0, 1}
			}
			start := make(chan struct{})
			var cwg sync.WaitGroup
			for c := 0; c < in.Closers; c++ {
				cwg.Add(1)
				go func(c int) {
					defer cwg.Done()
					e := ends[c%len(ends)]
					<-start
					ok := true
					what := "mux"
					switch {
					case in.Mode == "connstorm" || c%4 == 1:
						x := conns[e][c%in.Nids]
						what = "conn"
						ok = call(wait, func() { x.c.Close() })
					case c%4 == 3 && conns[e][c%in.Nids].l != nil:
						what = "listener"
						ok = call(wait, func() { conns[e][c%in.Nids].l.Close() })
					default:
						ok = call(wait, func() { ms[e].Close() })
					}
					if !ok {
						blocked(fmt.Sprintf("close %s end=%d", what, e))
					}
				}(c)
			}
			close(start)
			cwg.Wait()
			if in.Mode == "connstorm" {
				// single connections were closed; the muxes follow so that everything ends
				ms[0].Close()
			}
		}
		close(failed)
	}()
	if !call(wait+wait, wg.Wait) {
		blocked("goroutines still running")
	}
	// closing phase: everything twice, concurrently
	var fmu sync.Mutex
	var fwg sync.WaitGroup
	for rep := 0; rep < 2; rep++ {
		for e := 0; e < 2; e++ {
			for _, x := range conns[e] {
				fwg.Add(1)
				go func(e int, x *cs) {
					defer fwg.Done()
					if x.l != nil {
						if !call(wait, func() { x.l.Close() }) {
							blocked(fmt.Sprintf("final listener close end=%d id=%d", e, x.log.ID))
						}
					}
					var cerr error
					if !call(wait, func() { cerr = x.c.Close() }) {
						blocked(fmt.Sprintf("final conn close end=%d id=%d", e, x.log.ID))
					} else if cerr != nil {
						fmu.Lock()
						obs.Final = append(obs.Final, "conn close: "+c10.Classify(cerr))
						fmu.Unlock()
					}
				}(e, x)
			}
			fwg.Add(1)
			go func(e int) {
				defer fwg.Done()
				var cerr error
				if !call(wait, func() { cerr = ms[e].Close() }) {
					blocked(fmt.Sprintf("final mux close end=%d", e))
				} else if cerr != nil {
					fmu.Lock()
					obs.Final = append(obs.Final, "mux close: "+c10.Classify(cerr))
					fmu.Unlock()
				}
			}(e)
		}
	}
	call(wait+wait, fwg.Wait)
	// after everything is closed every Read and Write must fail at once
	for e := 0; e < 2; e++ {
		for _, x := range conns[e] {
			var rerr, werr error
			var rn int
			if !call(wait, func() { rn, rerr = x.c.Read(make([]byte, in.MaxLen+64)) }) {
				blocked(fmt.Sprintf("final read end=%d id=%d", e, x.log.ID))
			} else if rerr == nil {
				// still queued data is legitimate (Go select); note it
				x.log.Reads = append(x.log.Reads, "d:late:"+strconv.Itoa(rn))
			}
			if !call(wait, func() { _, werr = x.c.Write([]byte{1}) }) {
				blocked(fmt.Sprintf("final write end=%d id=%d", e, x.log.ID))
			} else if werr == nil {
				fmu.Lock()
				obs.Final = append(obs.Final, fmt.Sprintf("write succeeded after close end=%d id=%d", e, x.log.ID))
				fmu.Unlock()
			}
		}
	}
	for e := 0; e < 2; e++ {
		for _, x := range conns[e] {
			obs.Conns = append(obs.Conns, *x.log)
		}
	}
	obs.TrunkAB = c10.Hex(taps[0].Bytes())
	obs.TrunkBA = c10.Hex(taps[1].Bytes())
	taps[0].Conn.Close()
	taps[1].Conn.Close()
	return obs
}

func RandomChaos(r *rand.Rand, mp int, i int) c10.Job {
	modes := []string{"close-a", "close-b", "close-both", "cut", "overflow", "connstorm", "rdeadline"}
	in := ChaosIn{Kind: "chaos", Mp: mp, Mode: modes[i%len(modes)],
		Qlen: []int{1, 2, 4, 16, 256}[r.Intn(5)], Nids: 1 + r.Intn(8), Closers: 1 + r.Intn(16),
		Writes: 40 + r.Intn(200), MaxLen: 40, Seed: r.Int63n(1 << 30), WaitMs: 8000}
	in.Note = in.Mode
	in.FaultAt = r.Intn(in.Writes * in.Nids)
	in.CutExtra = r.Intn(200)
	if in.Mode == "overflow" && in.Qlen > 16 {
		in.Qlen = 16
	}
	if in.Mode == "rdeadline" {
		// fewer, larger writes: the fault should meet a frame half way through its payload
		in.Writes = 20 + r.Intn(40)
		in.MaxLen = 2000
		if in.Nids > 4 {
			in.Nids = 1 + in.Nids%4
		}
		in.FaultAt = r.Intn(in.Writes*in.Nids/2 + 1)
	}
	return c10.Job{ID: fmt.Sprintf("chaos-%d-%s", i, in.Mode), In: in}
}

// runStuckWrite: the peer's mux was created WithBlockedRead and is never unblocked (as
// pkg/adaptation does while a plugin is being set up), so nothing drains the trunk: Writes of
// payloads larger than the socket buffer block inside trunk.Write. Then 1-8 goroutines Close
// the writing mux (some also its connections). Close must return, the stuck Writes must
// return an error, and every later call must return.
func runStuckWrite(in ChaosIn) ChaosObs {
	obs := ChaosObs{Conns: []ConnLog{}, Final: []string{}, Blocked: []string{}}
	ca, cb, err := c10.Pair()
	if err != nil {
		obs.Crashed = "harness: " + err.Error()
		return obs
	}
	wait := time.Duration(in.WaitMs) * time.Millisecond
	ta, tb := c10.NewTap(ca), c10.NewTap(cb)
	ta.NoSave, tb.NoSave = true, true
	ma := mux.Multiplex(ta, mux.WithReadQueueLength(in.Qlen))
	mb := mux.Multiplex(tb, mux.WithReadQueueLength(in.Qlen), mux.WithBlockedRead())
	var conns []net.Conn
	for i := 0; i < in.Nids; i++ {
		c, err := ma.Open(mux.ConnID(1 + i))
		if err != nil {
			obs.Crashed = "harness: open: " + err.Error()
			return obs
		}
		mb.Open(mux.ConnID(1 + i))
		conns = append(conns, c)
	}
	var bmu sync.Mutex
	blocked := func(s string) { bmu.Lock(); obs.Blocked = append(obs.Blocked, s); bmu.Unlock() }
	note := func(s string) { bmu.Lock(); obs.Final = append(obs.Final, s); bmu.Unlock() }
	var wg sync.WaitGroup
	var stuckOK int64
	for i, c := range conns {
		wg.Add(1)
		go func(i int, c net.Conn) {
			defer wg.Done()
			p := c10.Payload(in.MaxLen, i, 1)
			var werr error
			if !call(wait, func() { _, werr = c.Write(p) }) {
				blocked(fmt.Sprintf("write stuck on the trunk not released by Close: id=%d", i+1))
				return
			}
			if werr == nil {
				atomic.AddInt64(&stuckOK, 1)
			}
			// later Writes and Reads return as well
			if !call(wait, func() { c.Write([]byte{1}) }) {
				blocked(fmt.Sprintf("write after close: id=%d", i+1))
			}
			if !call(wait, func() { c.Read(make([]byte, 16)) }) {
				blocked(fmt.Sprintf("read after close: id=%d", i+1))
			}
		}(i, c)
	}
	time.Sleep(time.Duration(in.FaultAt) * time.Millisecond)
	start := make(chan struct{})
	var cwg sync.WaitGroup
	for k := 0; k < in.Closers; k++ {
		cwg.Add(1)
		go func(k int) {
			defer cwg.Done()
			<-start
			if k%3 == 2 {
				if !call(wait, func() { conns[k%len(conns)].Close() }) {
					blocked("conn close while a write is stuck")
				}
				return
			}
			if !call(wait, func() { ma.Close() }) {
				blocked("mux close while a write is stuck")
			}
		}(k)
	}
	close(start)
	cwg.Wait()
	if !call(wait, func() { ma.Close() }) {
		blocked("final mux close")
	}
	if !call(wait+wait, wg.Wait) {
		blocked("writers still running")
	}
	if n := atomic.LoadInt64(&stuckOK); n > 0 {
		note(fmt.Sprintf("%d of %d writes completed before the close", n, len(conns)))
	}
	if !call(wait, func() { mb.Close() }) {
		blocked("peer mux close")
	}
	ta.Conn.Close()
	tb.Conn.Close()
	return obs
}

func StuckWrite(r *rand.Rand, mp int, i int) c10.Job {
	in := ChaosIn{Kind: "chaos", Note: "stuck-write", Mp: mp, Mode: "stuck-write", Qlen: 4,
		Nids: 1 + r.Intn(4), Closers: 1 + r.Intn(8), FaultAt: 5 + r.Intn(40),
		MaxLen: (600 + r.Intn(1500)) << 10, Seed: r.Int63n(1 << 30), WaitMs: 5000}
	return c10.Job{ID: fmt.Sprintf("chaos-stuck-%d", i), In: in}
}

// runCloseRace: "closing repeatedly or concurrently never panics and never blocks", raced hard:
// in every round a fresh pair of muxes, one listener (an Accept parked on it), one connection (a
// Read parked on it); then in.Closers goroutines released by one barrier all close the SAME
// object - the listener, then the connection, then the mux - and each closes it a second time.
// A panic in any of them is recovered and reported as the observation "crashed"; a call that
// does not return as "blocked". in.Writes = number of rounds.
func runCloseRace(in ChaosIn) ChaosObs {
	obs := ChaosObs{Conns: []ConnLog{}, Final: []string{}, Blocked: []string{}}
	wait := time.Duration(in.WaitMs) * time.Millisecond
	var mu sync.Mutex
	blocked := func(s string) { mu.Lock(); obs.Blocked = append(obs.Blocked, s); mu.Unlock() }
	crashed := func(what string, r interface{}) {
		mu.Lock()
		if obs.Crashed == "" {
			obs.Crashed = fmt.Sprintf("panicked in concurrent Close of one %s: %v", what, r)
		}
		mu.Unlock()
	}
	race := func(what string, closeFn func() error) {
		start := make(chan struct{})
		var wg sync.WaitGroup
		for k := 0; k < in.Closers; k++ {
			wg.Add(1)
			go func() {
				defer wg.Done()
				defer func() {
					if r := recover(); r != nil {
						crashed(what, r)
					}
				}()
				<-start
				closeFn()
				closeFn()
			}()
		}
		close(start)
		if !call(wait, wg.Wait) {
			blocked("concurrent close of one " + what)
		}
	}
	for round := 0; round < in.Writes; round++ {
		mu.Lock()
		stop := obs.Crashed != "" || len(obs.Blocked) > 0
		mu.Unlock()
		if stop {
			break
		}
		ca, cb, err := c10.Pair()
		if err != nil {
			obs.Crashed = "harness: " + err.Error()
			return obs
		}
		ma := mux.Multiplex(ca, mux.WithReadQueueLength(in.Qlen))
		mb := mux.Multiplex(cb, mux.WithReadQueueLength(in.Qlen))
		l, err := ma.Listen(mux.ConnID(7))
		if err != nil {
			obs.Crashed = "harness: listen: " + err.Error()
			return obs
		}
		c, err := ma.Open(mux.ConnID(8))
		if err != nil {
			obs.Crashed = "harness: open: " + err.Error()
			return obs
		}
		var parked sync.WaitGroup
		parked.Add(2)
		go func() {
			defer parked.Done()
			if x, err := l.Accept(); err == nil { // the first Accept hands the connection out
				defer x.Close()
				l.Accept() // the second one parks until the listener is closed
			}
		}()
		go func() { defer parked.Done(); c.Read(make([]byte, 16)) }()
		if round%2 == 1 {
			time.Sleep(50 * time.Microsecond) // let them park
		}
		race("listener", l.Close)
		race("connection", c.Close)
		// openers: goroutines opening FRESH ids while the mux is being closed. Whatever Open hands
		// out around that moment must be a connection of a closed mux: its Read returns.
		var opened []net.Conn
		var omu sync.Mutex
		var owg sync.WaitGroup
		var stopOpen atomic.Bool
		for k := 0; k < 4; k++ {
			owg.Add(1)
			go func(k int) {
				defer owg.Done()
				for n := 0; n < 60 && !stopOpen.Load(); n++ {
					x, err := ma.Open(mux.ConnID(1000 + k*100 + n))
					if err != nil {
						return
					}
					omu.Lock()
					opened = append(opened, x)
					omu.Unlock()
				}
			}(k)
		}
		if round%3 == 2 {
			time.Sleep(time.Duration(20+round%200) * time.Microsecond)
		}
		race("mux", ma.Close)
		stopOpen.Store(true)
		owg.Wait()
		if !call(wait, parked.Wait) {
			blocked("Accept/Read parked on objects that were closed")
		}
		var rwg sync.WaitGroup
		for _, x := range opened {
			rwg.Add(1)
			go func(x net.Conn) { defer rwg.Done(); x.Read(make([]byte, 16)) }(x)
		}
		if !call(wait, rwg.Wait) {
			blocked(fmt.Sprintf("Read on a connection handed out by Open while the mux was being closed (%d opened in this round)", len(opened)))
		}
		mb.Close()
		ca.Close()
		cb.Close()
	}
	mu.Lock()
	obs.Final = append(obs.Final, "close-race rounds completed")
	mu.Unlock()
	return obs
}

func CloseRace(r *rand.Rand, mp int, i int, rounds int) c10.Job {
	in := ChaosIn{Kind: "chaos", Note: "close-race", Mp: mp, Mode: "close-race", Qlen: 4, Nids: 2,
		Closers: 3 + r.Intn(6), Writes: rounds, Seed: r.Int63n(1 << 30), WaitMs: 5000}
	return c10.Job{ID: fmt.Sprintf("chaos-closerace-%d", i), In: in}
}
