package c10

import (
	"net"
	"time"

	mux "github.com/containerd/nri/pkg/net/multiplex"
)

// A script is a sequential exchange between two real muxes (end 0 and end 1) joined by a
// unix socket pair, every trunk write going through a Tap. One goroutine issues the ops
// in order; each op runs under a deadline, and an op that does not return is the
// observation "blocked" (its goroutine is left behind and its eventual result, if any, is
// reported under "late"). The Lean driver replays the same ops on the model (two `MuxSt`
// joined by wires) and accepts or rejects every single result.
type Op struct {
	Op   string `json:"op"` // open dial listen accept acceptbg lclose write read readbg join closeconn closemux cut tear
	End  int    `json:"end"`
	H    int    `json:"h"`  // conn handle (index of the conn object at that end) / listener index
	ID   uint32 `json:"id"` // open/dial/listen
	Len  int    `json:"len"`
	Seed int    `json:"seed"`
	Step int    `json:"step"`
	Blen int    `json:"blen"` // read buffer len
	Bcap int    `json:"bcap"` // read buffer cap
	K    int    `json:"k"`    // cut: bytes still forwarded
}

type Res struct {
	R    string `json:"r"` // ok conn lst data err eof blocked pending
	Err  string `json:"err"`
	N    int    `json:"n"`
	Data string `json:"data"`
	H    int    `json:"h"`
}

type Late struct {
	Op  int `json:"op"`
	Res Res `json:"res"`
}

type ScriptIn struct {
	Kind   string `json:"kind"` // "script"
	Note   string `json:"note"` // which generator stream produced it
	Mp     int    `json:"mp"`
	Qlen   int    `json:"qlen"`
	Guard  bool   `json:"guard"`  // false: excluded point (short reader buffers / late open)
	Ops    []Op   `json:"ops"`
	WaitMs int    `json:"wait_ms"` // deadline per op
}

type ScriptObs struct {
	Res     []Res  `json:"res"`
	Late    []Late `json:"late"`
	TrunkAB string `json:"trunk_ab"`
	TrunkBA string `json:"trunk_ba"`
	Crashed string `json:"crashed"`
	// what Open does on an already closed mux, measured on the code this observation comes
	// from (ProbeLateOpen); a parameter of the model
	LateClosed bool `json:"late_closed"`
}

type endState struct {
	m     mux.Mux
	tap   *Tap
	conns []net.Conn
	lsts  []net.Listener
}

func (e *endState) handle(c net.Conn) int {
	for i, x := range e.conns {
		if x == c {
			return i
		}
	}
	e.conns = append(e.conns, c)
	return len(e.conns) - 1
}

func RunScript(in ScriptIn) ScriptObs {
	obs := ScriptObs{LateClosed: ProbeLateOpen(), Res: make([]Res, len(in.Ops)), Late: []Late{}}
	ca, cb, err := Pair()
	if err != nil {
		obs.Crashed = "harness: " + err.Error()
		return obs
	}
	ends := [2]*endState{{tap: NewTap(ca)}, {tap: NewTap(cb)}}
	for _, e := range ends {
		e.m = mux.Multiplex(e.tap, mux.WithReadQueueLength(in.Qlen))
	}
	wait := time.Duration(in.WaitMs) * time.Millisecond
	if wait <= 0 {
		wait = 3 * time.Second
	}
	type pend struct {
		op int
		ch chan Res
	}
	var pending []pend
	nblocked := 0
	for i, op := range in.Ops {
		if nblocked >= 3 {
			// three calls hung already (each cost its full deadline): the rest of the script
			// would tell nothing new
			obs.Res[i] = Res{R: "skipped"}
			continue
		}
		if op.End < 0 || op.End > 1 {
			obs.Res[i] = Res{R: "err", Err: "badop"}
			continue
		}
		e := ends[op.End]
		var f func() Res
		bg := false
		switch op.Op {
		case "open", "dial":
			// handle numbering is done on the issuing goroutine, after the call returned
			var c net.Conn
			var err error
			if op.Op == "open" {
				c, err = e.m.Open(mux.ConnID(op.ID))
			} else {
				c, err = e.m.Dialer(mux.ConnID(op.ID))("", "")
			}
			if err != nil {
				obs.Res[i] = Res{R: "err", Err: Classify(err)}
			} else {
				obs.Res[i] = Res{R: "conn", H: e.handle(c)}
			}
			continue
		case "listen":
			// Listen = Open + listener wrapper; the conn object is numbered now (the model does
			// the same), the listener gets its own index
			c, err := e.m.Open(mux.ConnID(op.ID))
			if err != nil {
				obs.Res[i] = Res{R: "err", Err: Classify(err)}
				continue
			}
			e.handle(c)
			l, err := e.m.Listen(mux.ConnID(op.ID))
			if err != nil {
				obs.Res[i] = Res{R: "err", Err: Classify(err)}
				continue
			}
			e.lsts = append(e.lsts, l)
			obs.Res[i] = Res{R: "lst", H: len(e.lsts) - 1}
			continue
		case "accept", "acceptbg":
			if op.H < 0 || op.H >= len(e.lsts) {
				obs.Res[i] = Res{R: "err", Err: "badop"}
				continue
			}
			l := e.lsts[op.H]
			bg = op.Op == "acceptbg"
			f = func() Res {
				c, err := l.Accept()
				if err != nil {
					if Classify(err) == "eof" {
						return Res{R: "eof"}
					}
					return Res{R: "err", Err: Classify(err)}
				}
				// identity is resolved by the issuing goroutine (see below): carry the conn
				return Res{R: "conn", H: -1, Data: "", N: connKey(c)}
			}
		case "lclose":
			if op.H < 0 || op.H >= len(e.lsts) {
				obs.Res[i] = Res{R: "err", Err: "badop"}
				continue
			}
			l := e.lsts[op.H]
			f = func() Res {
				if err := l.Close(); err != nil {
					return Res{R: "err", Err: Classify(err)}
				}
				return Res{R: "ok"}
			}
		case "write":
			if op.H < 0 || op.H >= len(e.conns) {
				obs.Res[i] = Res{R: "err", Err: "badop"}
				continue
			}
			c := e.conns[op.H]
			p := Payload(op.Len, op.Seed, op.Step)
			f = func() Res {
				n, err := c.Write(p)
				if err != nil {
					return Res{R: "err", Err: Classify(err), N: n}
				}
				return Res{R: "ok", N: n}
			}
		case "read", "readbg":
			if op.H < 0 || op.H >= len(e.conns) || op.Blen > op.Bcap {
				obs.Res[i] = Res{R: "err", Err: "badop"}
				continue
			}
			c := e.conns[op.H]
			buf := make([]byte, op.Blen, op.Bcap)
			bg = op.Op == "readbg"
			f = func() Res {
				n, err := c.Read(buf)
				if err != nil {
					return Res{R: "err", Err: Classify(err), N: n}
				}
				k := n
				if k > len(buf) {
					k = len(buf)
				}
				return Res{R: "data", N: n, Data: Hex(buf[:k])}
			}
		case "closeconn":
			if op.H < 0 || op.H >= len(e.conns) {
				obs.Res[i] = Res{R: "err", Err: "badop"}
				continue
			}
			c := e.conns[op.H]
			f = func() Res {
				if err := c.Close(); err != nil {
					return Res{R: "err", Err: Classify(err)}
				}
				return Res{R: "ok"}
			}
		case "closemux":
			f = func() Res {
				if err := e.m.Close(); err != nil {
					return Res{R: "err", Err: Classify(err)}
				}
				return Res{R: "ok"}
			}
		case "cut":
			e.tap.CutAfter(op.K)
			obs.Res[i] = Res{R: "ok"}
			continue
		case "tear":
			e.tap.Tear(op.K)
			obs.Res[i] = Res{R: "ok"}
			continue
		case "join":
			// wait for the background op issued as op number K
			found := -1
			for pi, p := range pending {
				if p.op == op.K {
					found = pi
				}
			}
			if found < 0 {
				obs.Res[i] = Res{R: "err", Err: "badop"}
				continue
			}
			select {
			case r := <-pending[found].ch:
				if r.R == "conn" && r.H == -1 {
					r.H = e.handleByKey(r.N)
					r.N = 0
				}
				obs.Res[i] = r
				pending = append(pending[:found], pending[found+1:]...)
			case <-time.After(wait):
				obs.Res[i] = Res{R: "blocked"}
			}
			continue
		default:
			obs.Res[i] = Res{R: "err", Err: "badop"}
			continue
		}
		ch := make(chan Res, 1)
		go func() { ch <- f() }()
		fix := func(r Res) Res {
			if r.R == "conn" && r.H == -1 {
				r.H = e.handleByKey(r.N)
				r.N = 0
			}
			return r
		}
		if bg {
			obs.Res[i] = Res{R: "pending"}
			pending = append(pending, pend{i, ch})
			continue
		}
		select {
		case r := <-ch:
			obs.Res[i] = fix(r)
		case <-time.After(wait):
			obs.Res[i] = Res{R: "blocked"}
			pending = append(pending, pend{i, ch})
			nblocked++
		}
	}
	// let everything that can still finish do so: both muxes are closed at the end of the
	// script by its own last ops if the generator wanted that; here we only collect.
	deadline := time.After(wait)
	for _, p := range pending {
		select {
		case r := <-p.ch:
			if r.R == "conn" && r.H == -1 {
				r.H = ends[in.Ops[p.op].End].handleByKey(r.N)
				r.N = 0
			}
			obs.Late = append(obs.Late, Late{p.op, r})
		case <-deadline:
			obs.Late = append(obs.Late, Late{p.op, Res{R: "blocked"}})
			deadline = time.After(50 * time.Millisecond)
		}
	}
	obs.TrunkAB = Hex(ends[0].tap.Bytes())
	obs.TrunkBA = Hex(ends[1].tap.Bytes())
	// tidy up (not part of the observation; a Close that hangs must not hang the harness)
	tidy := make(chan struct{})
	go func() {
		for _, e := range ends {
			e.tap.Conn.Close()
			e.m.Close()
		}
		close(tidy)
	}()
	select {
	case <-tidy:
	case <-time.After(time.Second):
	}
	return obs
}

// conn identity across goroutines: Accept runs in a helper goroutine, the handle table is
// owned by the issuing goroutine, so the helper passes a key.
var connKeys = struct {
	m map[int]net.Conn
	n int
}{m: map[int]net.Conn{}}
var connKeyMu = make(chan struct{}, 1)

func connKey(c net.Conn) int {
	connKeyMu <- struct{}{}
	defer func() { <-connKeyMu }()
	connKeys.n++
	connKeys.m[connKeys.n] = c
	return connKeys.n
}

func (e *endState) handleByKey(k int) int {
	connKeyMu <- struct{}{}
	c := connKeys.m[k]
	delete(connKeys.m, k)
	<-connKeyMu
	return e.handle(c)
}
