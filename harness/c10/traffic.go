package c10

import (
	"fmt"
	"math/rand"
	"net"
	"sort"
	"strconv"
	"sync"
	"time"

	mux "github.com/containerd/nri/pkg/net/multiplex"
)

// A traffic case: two real muxes over a socket pair, 1–8 connection ids, 1–8 writer
// goroutines per end racing for the trunk, one reader goroutine per connection and end.
// Writers respect the receiver's queue length ("as long as the receiver keeps up"): at most
// qlen frames per connection are outstanding (credits returned by the reader after each
// Read). When all writers of an end are done a sentinel is written on every connection;
// readers stop at the sentinel.
type WriteSpec struct {
	Conn uint32 `json:"conn"`
	Len  int    `json:"len"`
	Seed int    `json:"seed"`
	Step int    `json:"step"`
}

const SentinelLen = 13

type TrafficIn struct {
	Kind   string        `json:"kind"` // "traffic"
	Note   string        `json:"note"`
	Mp     int           `json:"mp"`
	Qlen   int           `json:"qlen"`
	Ids    []uint32      `json:"ids"`
	How    []string      `json:"how"` // per id: how the ends obtain the conn (open|dial|listen)
	A      [][]WriteSpec `json:"a"`   // programs of the writers at end A (they send to B)
	B      [][]WriteSpec `json:"b"`
	Buf    int           `json:"buf"` // reader buffer size (>= every frame: the guard)
	WaitMs int           `json:"wait_ms"`
	SlowMs int           `json:"slow_ms"` // trunk Write calls > 1 MiB are delayed by this much
}

type TrafficObs struct {
	Status  string              `json:"status"`
	TrunkAB string              `json:"trunk_ab"`
	TrunkBA string              `json:"trunk_ba"`
	ReadsA  map[string][]string `json:"reads_a"` // what A's readers got, per id, frame by frame
	ReadsB  map[string][]string `json:"reads_b"`
	Errs    []string            `json:"errs"`
	Crashed string              `json:"crashed"`
}

type credit struct {
	mu  sync.Mutex
	tok chan struct{}
}

func newCredit(n int) *credit {
	c := &credit{tok: make(chan struct{}, n)}
	for i := 0; i < n; i++ {
		c.tok <- struct{}{}
	}
	return c
}

func (c *credit) acquire(n int, stop <-chan struct{}) bool {
	c.mu.Lock()
	defer c.mu.Unlock()
	for i := 0; i < n; i++ {
		select {
		case <-c.tok:
		case <-stop:
			return false
		}
	}
	return true
}

func (c *credit) release() {
	select {
	case c.tok <- struct{}{}:
	default:
	}
}

func framesOf(n, mp int) int {
	if n == 0 {
		return 1
	}
	return (n + mp - 1) / mp
}

func isSentinel(b []byte) bool {
	if len(b) != SentinelLen {
		return false
	}
	for _, x := range b {
		if x != 0xff {
			return false
		}
	}
	return true
}

func obtain(m mux.Mux, id uint32, how string) (net.Conn, error) {
	switch how {
	case "dial":
		return m.Dialer(mux.ConnID(id))("", "")
	case "listen":
		l, err := m.Listen(mux.ConnID(id))
		if err != nil {
			return nil, err
		}
		return l.Accept()
	}
	return m.Open(mux.ConnID(id))
}

// obtainRacing: how = "race" — several goroutines ask for the same id at the same moment (Open,
// Dialer and Open again, as a server and a client side sharing one mux may). Whatever they are
// handed must BE the connection for that id: the writers use the first handle, a reader sits on
// every distinct handle. A handle that is not fed (an orphan created by a lost race) shows as a
// reader that never sees the sentinel; a stream split over two objects as a wrong stream.
func obtainRacing(m mux.Mux, id uint32) ([]net.Conn, error) {
	const racers = 4
	got := make([]net.Conn, racers)
	errs := make([]error, racers)
	start := make(chan struct{})
	var wg sync.WaitGroup
	for i := 0; i < racers; i++ {
		wg.Add(1)
		go func(i int) {
			defer wg.Done()
			<-start
			if i%2 == 1 {
				got[i], errs[i] = m.Dialer(mux.ConnID(id))("", "")
			} else {
				got[i], errs[i] = m.Open(mux.ConnID(id))
			}
		}(i)
	}
	close(start)
	wg.Wait()
	var distinct []net.Conn
	for i := 0; i < racers; i++ {
		if errs[i] != nil {
			return nil, errs[i]
		}
		dup := false
		for _, d := range distinct {
			if d == got[i] {
				dup = true
			}
		}
		if !dup {
			distinct = append(distinct, got[i])
		}
	}
	return distinct, nil
}

func RunTraffic(in TrafficIn) TrafficObs {
	obs := TrafficObs{ReadsA: map[string][]string{}, ReadsB: map[string][]string{}, Errs: []string{}}
	ca, cb, err := Pair()
	if err != nil {
		obs.Crashed = "harness: " + err.Error()
		return obs
	}
	taps := [2]*Tap{NewTap(ca), NewTap(cb)}
	ms := [2]mux.Mux{}
	for e := 0; e < 2; e++ {
		taps[e].SlowBig = time.Duration(in.SlowMs) * time.Millisecond
		ms[e] = mux.Multiplex(taps[e], mux.WithReadQueueLength(in.Qlen), mux.WithBlockedRead())
	}
	conns := [2]map[uint32]net.Conn{{}, {}}
	handles := [2]map[uint32][]net.Conn{{}, {}} // every distinct handle obtained for the id (readers)
	var emu sync.Mutex
	addErr := func(s string) { emu.Lock(); obs.Errs = append(obs.Errs, s); emu.Unlock() }
	for e := 0; e < 2; e++ {
		for i, id := range in.Ids {
			if in.How[i] == "race" {
				hs, err := obtainRacing(ms[e], id)
				if err != nil {
					obs.Crashed = "harness: open: " + err.Error()
					return obs
				}
				conns[e][id] = hs[0]
				handles[e][id] = hs
				continue
			}
			c, err := obtain(ms[e], id, in.How[i])
			if err != nil {
				obs.Crashed = "harness: open: " + err.Error()
				return obs
			}
			conns[e][id] = c
			handles[e][id] = []net.Conn{c}
		}
	}
	ms[0].Unblock()
	ms[1].Unblock()
	stop := make(chan struct{})
	// credits[dir][id]: dir 0 = A→B
	credits := [2]map[uint32]*credit{{}, {}}
	for d := 0; d < 2; d++ {
		for _, id := range in.Ids {
			credits[d][id] = newCredit(in.Qlen)
		}
	}
	reads := [2]map[uint32][][]byte{{}, {}}
	var rmu sync.Mutex
	var rwg, wwg [2]sync.WaitGroup
	for e := 0; e < 2; e++ {
		for _, id := range in.Ids {
			for _, hc := range handles[e][id] {
				rwg[e].Add(1)
				go func(e int, id uint32, c net.Conn) {
					defer rwg[e].Done()
					buf := make([]byte, in.Buf)
					for {
						n, err := c.Read(buf)
						if err != nil {
							addErr(fmt.Sprintf("read end=%d id=%d: %s", e, id, Classify(err)))
							return
						}
						if n > len(buf) {
							addErr(fmt.Sprintf("read end=%d id=%d: n=%d > len(buf)", e, id, n))
							return
						}
						fr := append([]byte(nil), buf[:n]...)
						rmu.Lock()
						reads[e][id] = append(reads[e][id], fr)
						rmu.Unlock()
						credits[1-e][id].release()
						if isSentinel(fr) {
							return
						}
					}
				}(e, id, hc)
			}
		}
	}
	progs := [2][][]WriteSpec{in.A, in.B}
	// payloads are generated before any writer starts, and all writers start together
	startW := make(chan struct{})
	for e := 0; e < 2; e++ {
		for wi, prog := range progs[e] {
			wwg[e].Add(1)
			pls := make([][]byte, len(prog))
			for k, ws := range prog {
				pls[k] = Payload(ws.Len, ws.Seed, ws.Step)
			}
			go func(e, wi int, prog []WriteSpec, pls [][]byte) {
				defer wwg[e].Done()
				<-startW
				for k, ws := range prog {
					if !credits[e][ws.Conn].acquire(framesOf(ws.Len, in.Mp), stop) {
						return
					}
					p := pls[k]
					n, err := conns[e][ws.Conn].Write(p)
					if err != nil || n != len(p) {
						addErr(fmt.Sprintf("write end=%d writer=%d #%d: n=%d of %d err=%s", e, wi, k, n, len(p), Classify(err)))
						if err != nil {
							return
						}
					}
				}
			}(e, wi, prog, pls)
		}
	}
	close(startW)
	wait := time.Duration(in.WaitMs) * time.Millisecond
	deadline := time.After(wait)
	waitFor := func(f func()) bool {
		ch := make(chan struct{})
		go func() { f(); close(ch) }()
		select {
		case <-ch:
			return true
		case <-deadline:
			return false
		}
	}
	status := "ok"
	for e := 0; e < 2 && status == "ok"; e++ {
		e := e
		if !waitFor(wwg[e].Wait) {
			status = fmt.Sprintf("blocked:writers-%d", e)
			break
		}
	}
	if status == "ok" {
		// sentinels, one goroutine per end
		var swg sync.WaitGroup
		for e := 0; e < 2; e++ {
			swg.Add(1)
			go func(e int) {
				defer swg.Done()
				for _, id := range in.Ids {
					if !credits[e][id].acquire(1, stop) {
						return
					}
					if n, err := conns[e][id].Write(Payload(SentinelLen, 255, 0)); err != nil || n != SentinelLen {
						addErr(fmt.Sprintf("write end=%d sentinel id=%d: n=%d err=%s", e, id, n, Classify(err)))
					}
				}
			}(e)
		}
		if !waitFor(swg.Wait) {
			status = "blocked:sentinel"
		}
	}
	if status == "ok" {
		for e := 0; e < 2; e++ {
			e := e
			if !waitFor(rwg[e].Wait) {
				status = fmt.Sprintf("blocked:readers-%d", e)
				break
			}
		}
	}
	close(stop)
	closed := make(chan struct{})
	go func() { ms[0].Close(); ms[1].Close(); close(closed) }()
	select {
	case <-closed:
	case <-time.After(5 * time.Second):
		if status == "ok" {
			status = "blocked:close"
		}
	}
	// give the goroutines a moment to notice, then snapshot
	fin := make(chan struct{})
	go func() { rwg[0].Wait(); rwg[1].Wait(); wwg[0].Wait(); wwg[1].Wait(); close(fin) }()
	select {
	case <-fin:
	case <-time.After(2 * time.Second):
	}
	rmu.Lock()
	for e := 0; e < 2; e++ {
		dst := obs.ReadsA
		if e == 1 {
			dst = obs.ReadsB
		}
		for _, id := range in.Ids {
			fr := []string{}
			for _, f := range reads[e][id] {
				fr = append(fr, Hex(f))
			}
			dst[strconv.Itoa(int(id))] = fr
		}
	}
	rmu.Unlock()
	emu.Lock()
	sort.Strings(obs.Errs)
	if status == "ok" && len(obs.Errs) > 0 {
		status = "error"
	}
	emu.Unlock()
	obs.Status = status
	obs.TrunkAB = Hex(taps[0].Bytes())
	obs.TrunkBA = Hex(taps[1].Bytes())
	taps[0].Conn.Close()
	taps[1].Conn.Close()
	return obs
}

// ---- generators ----------------------------------------------------------------------

func pickLen(r *rand.Rand, mp int, big bool) int {
	var n int
	switch x := r.Intn(100); {
	case x < 12:
		n = 0
	case x < 22:
		n = 1
	case x < 70:
		n = 2 + r.Intn(200)
	case x < 88:
		n = 200 + r.Intn(4000)
	case x < 97:
		n = 4096 + r.Intn(8192)
	default:
		n = 65536 + r.Intn(1000)
	}
	if n%mp == SentinelLen {
		n++
	}
	return n
}

func RandomTraffic(r *rand.Rand, mp int, i int) Job {
	nids := 1 + r.Intn(8)
	qlen := []int{1, 4, 256, 2 + r.Intn(15)}[r.Intn(4)]
	in := TrafficIn{Kind: "traffic", Note: "random", Mp: mp, Qlen: qlen, WaitMs: 15000}
	for c := 0; c < nids; c++ {
		in.Ids = append(in.Ids, uint32(1+c+r.Intn(2)*1000*c))
		in.How = append(in.How, []string{"open", "dial", "listen", "race"}[r.Intn(4)])
	}
	maxLen := 0
	seq := 0
	mk := func() [][]WriteSpec {
		nw := 1 + r.Intn(8)
		var ps [][]WriteSpec
		for w := 0; w < nw; w++ {
			var p []WriteSpec
			for k := 1 + r.Intn(10); k > 0; k-- {
				seq++
				n := pickLen(r, mp, false)
				if n > maxLen {
					maxLen = n
				}
				p = append(p, WriteSpec{Conn: in.Ids[r.Intn(nids)], Len: n, Seed: (seq * 53) % 256, Step: 1 + seq%11})
			}
			ps = append(ps, p)
		}
		return ps
	}
	in.A, in.B = mk(), mk()
	if r.Intn(5) == 0 {
		in.B = [][]WriteSpec{} // one-directional
	}
	in.Buf = maxLen + 16
	if in.Buf < 64 {
		in.Buf = 64
	}
	if in.Buf > mp {
		in.Buf = mp
	}
	return Job{fmt.Sprintf("traffic-%d", i), in}
}

// BigTraffic: payloads around and above the maximum frame payload, racing with small
// writers on the same and on other connections.
func BigTraffic(r *rand.Rand, mp int, variant int, i int) Job {
	in := TrafficIn{Kind: "traffic", Note: fmt.Sprintf("big%d", variant), Mp: mp, Qlen: 8, WaitMs: 60000,
		Ids: []uint32{1, 2, 7}, How: []string{"open", "listen", "dial"}, Buf: mp}
	small := func(n int, base int) []WriteSpec {
		var p []WriteSpec
		for k := 0; k < n; k++ {
			p = append(p, WriteSpec{Conn: in.Ids[r.Intn(3)], Len: []int{0, 1, 5, 100, 3000}[r.Intn(5)], Seed: (base + k*29) % 256, Step: 1 + k%5})
		}
		return p
	}
	switch variant {
	case 0: // maxPayload-1, maxPayload, maxPayload+1 by three writers
		in.A = [][]WriteSpec{
			{{Conn: 1, Len: mp - 1, Seed: 3, Step: 1}},
			{{Conn: 2, Len: mp, Seed: 5, Step: 3}},
			{{Conn: 1, Len: mp + 1, Seed: 7, Step: 5}},
			small(25, 11), small(25, 13),
		}
		in.B = [][]WriteSpec{small(10, 17)}
	default:
		// two writers on the SAME connection, each with a payload of two frames and a bit
		// (distinguishable contents), against small writers on that and other connections;
		// the tap delays every large trunk write a little so that whoever waits for the
		// trunk gets it as soon as it is released: if the lock were dropped between the
		// frames of one Write, the frames of the two payloads would interleave
		e1 := 1 + r.Intn(5000)
		e2 := 1 + r.Intn(5000)
		for (2*mp+e1)%mp == SentinelLen {
			e1++
		}
		for (2*mp+e2)%mp == SentinelLen || e2 == e1 {
			e2++
		}
		in.SlowMs = 5
		in.A = [][]WriteSpec{
			{{Conn: 7, Len: 2*mp + e1, Seed: 9, Step: 7}},
			{{Conn: 7, Len: 2*mp + e2, Seed: 130, Step: 3}},
			small(20, 19), small(20, 23),
		}
		in.B = [][]WriteSpec{small(10, 37), small(10, 41)}
	}
	return Job{fmt.Sprintf("traffic-big%d-%d", variant, i), in}
}
