package c10

import (
	"fmt"
	"math/rand"
)

// CtrlID is the connection both ends of every script open first (handle 0): a one-byte
// "ping" written on it and read at the other end flushes the trunk in that direction,
// and a Read on it returns an error exactly when that end's mux has closed.
const CtrlID = 0x7ffffff0

type gen struct {
	ops   []Op
	mp    int
	qlen  int
	r     *rand.Rand
	nconn [2]int          // conn objects created per end
	idOf  [2][]uint32     // id of each handle
	open  [2]map[uint32]int // id -> handle currently registered
	pend  [2][]int        // frames queued and unread, per handle (as far as the generator can tell)
	bg    [2][]int        // background reads outstanding per handle
	bgOp  [2][]int        // op index of the outstanding background read per handle
	dead  bool            // some failure/close happened: both ends are (about to be) closed
	cdead [2][]bool       // conn closed individually
	seq   int
}

func newGen(r *rand.Rand, mp, qlen int) *gen {
	g := &gen{mp: mp, qlen: qlen, r: r}
	g.open[0], g.open[1] = map[uint32]int{}, map[uint32]int{}
	g.openConn(0, CtrlID, "open")
	g.openConn(1, CtrlID, "open")
	return g
}

func (g *gen) openConn(end int, id uint32, how string) int {
	g.ops = append(g.ops, Op{Op: how, End: end, ID: id})
	if id == 0 {
		return -1
	}
	if h, ok := g.open[end][id]; ok {
		return h
	}
	h := g.nconn[end]
	g.nconn[end]++
	g.idOf[end] = append(g.idOf[end], id)
	g.pend[end] = append(g.pend[end], 0)
	g.bg[end] = append(g.bg[end], 0)
	g.bgOp[end] = append(g.bgOp[end], -1)
	g.cdead[end] = append(g.cdead[end], false)
	g.open[end][id] = h
	return h
}

func (g *gen) frames(n int) int {
	if n == 0 {
		return 1
	}
	return (n + g.mp - 1) / g.mp
}

// write issues a Write on handle h of end x and accounts for what the peer will queue.
func (g *gen) write(x, h, n int) {
	g.seq++
	g.ops = append(g.ops, Op{Op: "write", End: x, H: h, Len: n, Seed: (g.seq*37 + h*11 + x) % 256, Step: 1 + g.seq%7})
	if g.dead || g.cdead[x][h] {
		return
	}
	y := 1 - x
	id := g.idOf[x][h]
	if hy, ok := g.open[y][id]; ok {
		joinOp := -1
		for f := g.frames(n); f > 0; f-- {
			if g.bg[y][hy] > 0 {
				g.bg[y][hy]--
				joinOp = g.bgOp[y][hy]
			} else {
				g.pend[y][hy]++
				if g.pend[y][hy] > g.qlen {
					g.dead = true
				}
			}
		}
		if joinOp >= 0 {
			// a background Read is waiting for this frame: flush, then wait for it, so that
			// it does not matter whether it was already parked when the frame arrived
			g.sync(x)
			g.ops = append(g.ops, Op{Op: "join", End: y, K: joinOp})
		}
	}
}

func (g *gen) read(y, h, blen, bcap int) {
	g.ops = append(g.ops, Op{Op: "read", End: y, H: h, Blen: blen, Bcap: bcap})
	if g.pend[y][h] > 0 {
		g.pend[y][h]--
	}
}

func (g *gen) readbg(y, h, blen int) {
	g.ops = append(g.ops, Op{Op: "readbg", End: y, H: h, Blen: blen, Bcap: blen})
	g.bg[y][h]++
	g.bgOp[y][h] = len(g.ops) - 1
}

// sync flushes both directions over the control connection (see CtrlID).
func (g *gen) sync(x int) {
	y := 1 - x
	g.ops = append(g.ops,
		Op{Op: "write", End: x, H: 0, Len: 1, Seed: 0x50},
		Op{Op: "read", End: y, H: 0, Blen: 16, Bcap: 16},
		Op{Op: "write", End: y, H: 0, Len: 1, Seed: 0x51},
		Op{Op: "read", End: x, H: 0, Blen: 16, Bcap: 16})
}

func (g *gen) closeMux(x int) {
	g.ops = append(g.ops, Op{Op: "closemux", End: x})
	g.dead = true
}

func (g *gen) closeConn(x, h int) {
	g.ops = append(g.ops, Op{Op: "closeconn", End: x, H: h})
	if !g.cdead[x][h] {
		g.cdead[x][h] = true
		if g.open[x][g.idOf[x][h]] == h {
			delete(g.open[x], g.idOf[x][h])
		}
	}
}

func (g *gen) cut(x, k int) {
	g.ops = append(g.ops, Op{Op: "cut", End: x, K: k})
}

// aftermath: once something has failed or closed, every operation on every connection of
// both ends must return: a few Reads (queued data or the latched error), Writes, Closes,
// twice, then the muxes themselves, twice.
func (g *gen) aftermath(reads int) {
	for rep := 0; rep < 2; rep++ {
		for e := 0; e < 2; e++ {
			for h := 0; h < g.nconn[e]; h++ {
				for i := 0; i < reads; i++ {
					g.ops = append(g.ops, Op{Op: "read", End: e, H: h, Blen: 256, Bcap: 256})
				}
				g.ops = append(g.ops, Op{Op: "write", End: e, H: h, Len: 3, Seed: 9, Step: 1})
			}
		}
		for e := 0; e < 2; e++ {
			for h := 1; h < g.nconn[e]; h++ {
				g.ops = append(g.ops, Op{Op: "closeconn", End: e, H: h})
			}
			g.ops = append(g.ops, Op{Op: "closemux", End: e})
		}
		reads = 1
	}
}

func (g *gen) script(note string, guard bool) ScriptIn {
	return ScriptIn{Kind: "script", Note: note, Mp: g.mp, Qlen: g.qlen, Guard: guard, Ops: g.ops, WaitMs: 3000}
}

// TruncationSweep: a fixed exchange of three writes on two connections, the trunk cut
// after k bytes for EVERY k from 0 to the length of the exchange, in either direction.
func TruncationSweep(mp int, sizes [3]int) []Job {
	total := 0
	for _, s := range sizes {
		total += 8 + s
	}
	var jobs []Job
	for dir := 0; dir < 2; dir++ {
		for k := 0; k <= total; k++ {
			g := newGen(rand.New(rand.NewSource(1)), mp, 4)
			x, y := dir, 1-dir
			h1 := g.openConn(x, 1, "open")
			h2 := g.openConn(x, 2, "dial")
			g.openConn(y, 1, "dial")
			g.openConn(y, 2, "open")
			g.cut(x, k)
			g.write(x, h1, sizes[0])
			g.write(x, h2, sizes[1])
			g.write(x, h1, sizes[2])
			g.dead = true
			g.sync(x)
			g.aftermath(4)
			jobs = append(jobs, Job{fmt.Sprintf("trunc-d%d-k%d", dir, k), g.script("trunc", true)})
		}
	}
	return jobs
}

// OverflowSweep: for every queue length q in qs and every number r of frames the receiver
// reads before it stalls, the sender writes until the queue must overflow.
func OverflowSweep(mp int, qs []int) []Job {
	var jobs []Job
	for _, q := range qs {
		for r := 0; r <= 2; r++ {
			for dir := 0; dir < 2; dir++ {
				g := newGen(rand.New(rand.NewSource(1)), mp, q)
				x, y := dir, 1-dir
				hx := g.openConn(x, 5, "open")
				hy := g.openConn(y, 5, "open")
				ho := g.openConn(y, 6, "open") // an unrelated connection of the receiver
				g.openConn(x, 6, "open")
				for i := 0; i < r; i++ {
					g.write(x, hx, 4+i)
					g.sync(x)
					g.read(y, hy, 64, 64)
				}
				g.readbg(y, ho, 64) // a reader blocked on the unrelated connection must wake up
				for i := 0; i < q+1; i++ {
					g.write(x, hx, 1+i%3)
				}
				g.sync(x)
				// traffic after the overflow: must fail, and must not reach the reader past a gap
				g.read(y, hy, 64, 64)
				g.write(x, hx, 5)
				g.write(x, hx, 6)
				g.sync(x)
				for i := 0; i < q+1; i++ {
					g.read(y, hy, 64, 64)
				}
				g.aftermath(2)
				jobs = append(jobs, Job{fmt.Sprintf("overflow-q%d-r%d-d%d", q, r, dir), g.script("overflow", true)})
			}
		}
	}
	return jobs
}

// RandomScript: random traffic on 1–4 connections with reads that keep up, then one
// failure (close of either mux, a cut at a random byte, an overflow, or single-connection
// closes and re-opens), then the aftermath.
func RandomScript(r *rand.Rand, mp int, i int) Job {
	qlen := []int{1, 2, 4, 8, 256}[r.Intn(5)]
	g := newGen(r, mp, qlen)
	nids := 1 + r.Intn(4)
	hs := [2][]int{}
	for e := 0; e < 2; e++ {
		for c := 0; c < nids; c++ {
			how := []string{"open", "dial", "open"}[r.Intn(3)]
			hs[e] = append(hs[e], g.openConn(e, uint32(10+c), how))
		}
	}
	if r.Intn(6) == 0 {
		g.openConn(r.Intn(2), 0, "open") // reserved id
	}
	sizes := []int{0, 1, 2, 7, 30, 100}
	steps := 4 + r.Intn(12)
	for s := 0; s < steps; s++ {
		x := r.Intn(2)
		y := 1 - x
		c := r.Intn(nids)
		switch r.Intn(10) {
		case 0, 1, 2, 3, 4:
			if g.pend[y][hs[y][c]] < qlen {
				g.write(x, hs[x][c], sizes[r.Intn(len(sizes))])
				g.sync(x)
			}
		case 5, 6, 7:
			if g.pend[y][hs[y][c]] > 0 {
				g.read(y, hs[y][c], 256, 256)
			}
		case 8:
			if g.pend[y][hs[y][c]] == 0 && g.bg[y][hs[y][c]] == 0 {
				g.readbg(y, hs[y][c], 256)
			}
		case 9:
			// close one connection and open the id again: a new object
			h := hs[x][c]
			if h != 0 && g.bg[x][h] == 0 {
				g.closeConn(x, h)
				g.read(x, h, 256, 256)
				g.sync(x)
				hs[x][c] = g.openConn(x, uint32(10+c), "open")
				// a stale handle closed again (deferred / duplicate Close of the old session)
				// must not touch the connection that now owns the id
				for n := r.Intn(3); n > 0; n-- {
					g.closeConn(x, h)
				}
			}
		}
	}
	x := r.Intn(2)
	switch r.Intn(4) {
	case 0:
		g.closeMux(x)
	case 1:
		k := r.Intn(40)
		g.cut(x, k)
		// write until the cut has certainly been reached
		for left := k; left >= 0; {
			n := sizes[r.Intn(len(sizes))]
			c := r.Intn(nids)
			if hy := hs[1-x][c]; g.pend[1-x][hy] >= qlen && !g.cdead[1-x][hy] {
				g.read(1-x, hy, 256, 256) // make room: this failure is to be the cut, not an overflow
			}
			g.write(x, hs[x][c], n)
			left -= 8 + n
		}
		g.dead = true
	case 2:
		c := r.Intn(nids)
		if qlen <= 16 {
			for j := 0; !g.dead && j < 64; j++ {
				g.write(x, hs[x][c], 1+j%5)
			}
		}
		if !g.dead {
			g.closeMux(1 - x)
		}
	case 3:
		g.closeMux(x)
		g.closeMux(x)
		g.closeMux(1 - x)
	}
	g.sync(x)
	g.aftermath(3)
	return Job{fmt.Sprintf("rand-%d", i), g.script("random", true)}
}

// ListenerScripts: the listener wrapper — Accept hands the connection out once, a second
// Accept blocks until Close and then returns EOF, Close is idempotent and closes the conn.
func ListenerScripts(mp int) []Job {
	var jobs []Job
	for variant := 0; variant < 4; variant++ {
		g := newGen(rand.New(rand.NewSource(1)), mp, 4)
		g.ops = append(g.ops, Op{Op: "listen", End: 0, ID: 3})
		g.nconn[0]++
		g.idOf[0] = append(g.idOf[0], 3)
		g.pend[0] = append(g.pend[0], 0)
		g.bg[0] = append(g.bg[0], 0)
		g.bgOp[0] = append(g.bgOp[0], -1)
		g.cdead[0] = append(g.cdead[0], false)
		g.open[0][3] = 1
		hb := g.openConn(1, 3, "dial")
		switch variant {
		case 0: // accept, traffic, second accept in the background, close listener
			g.ops = append(g.ops, Op{Op: "accept", End: 0, H: 0})
			g.write(1, hb, 5)
			g.sync(1)
			g.read(0, 1, 64, 64)
			g.ops = append(g.ops, Op{Op: "acceptbg", End: 0, H: 0})
			g.ops = append(g.ops, Op{Op: "lclose", End: 0, H: 0}, Op{Op: "lclose", End: 0, H: 0})
			g.ops = append(g.ops, Op{Op: "accept", End: 0, H: 0})
			g.cdead[0][1] = true
			g.ops = append(g.ops, Op{Op: "read", End: 0, H: 1, Blen: 8, Bcap: 8})
		case 1: // close before the first accept: the buffered conn is still handed out, then EOF
			g.ops = append(g.ops, Op{Op: "lclose", End: 0, H: 0})
			g.ops = append(g.ops, Op{Op: "accept", End: 0, H: 0}, Op{Op: "accept", End: 0, H: 0})
			g.cdead[0][1] = true
		case 2: // mux closes while an Accept is blocked: only closing the listener releases it
			g.ops = append(g.ops, Op{Op: "accept", End: 0, H: 0})
			g.ops = append(g.ops, Op{Op: "acceptbg", End: 0, H: 0})
			g.closeMux(0)
			g.sync(0)
			g.ops = append(g.ops, Op{Op: "lclose", End: 0, H: 0})
		case 3: // two listeners for the same id share the conn object
			g.ops = append(g.ops, Op{Op: "listen", End: 0, ID: 3})
			g.ops = append(g.ops, Op{Op: "accept", End: 0, H: 0}, Op{Op: "accept", End: 0, H: 1})
			g.ops = append(g.ops, Op{Op: "lclose", End: 0, H: 1})
			g.cdead[0][1] = true
			g.ops = append(g.ops, Op{Op: "accept", End: 0, H: 1})
			g.ops = append(g.ops, Op{Op: "lclose", End: 0, H: 0})
		}
		g.dead = true
		g.closeMux(1)
		g.sync(1)
		g.aftermath(2)
		jobs = append(jobs, Job{fmt.Sprintf("listener-%d", variant), g.script("listener", true)})
	}
	return jobs
}

// ExcludedScripts: the points outside the stated domain — reader buffers shorter than a
// frame (DESIGN §6 #12), and frames sent to an id the receiver has not opened yet.
func ExcludedScripts(mp int) []Job {
	var jobs []Job
	for variant := 0; variant < 4; variant++ {
		g := newGen(rand.New(rand.NewSource(1)), mp, 8)
		ha := g.openConn(0, 4, "open")
		var hb int
		if variant != 3 {
			hb = g.openConn(1, 4, "open")
		}
		g.write(0, ha, 11)
		g.write(0, ha, 6)
		g.write(0, ha, 4)
		g.sync(0)
		switch variant {
		case 0: // cap < frame: ENOMEM, frame dropped
			g.read(1, hb, 3, 3)
			g.read(1, hb, 64, 64)
			g.read(1, hb, 64, 64)
		case 1: // len < frame <= cap: n > len(buf)
			g.read(1, hb, 3, 64)
			g.read(1, hb, 64, 64)
			g.read(1, hb, 64, 64)
		case 2: // exactly fitting buffers (inside the domain, boundary)
			g.read(1, hb, 11, 11)
			g.read(1, hb, 6, 6)
			g.read(1, hb, 4, 4)
		case 3: // late open: the three frames were dropped; only what is written later arrives
			hb = g.openConn(1, 4, "open")
			g.write(0, ha, 2)
			g.sync(0)
			g.read(1, hb, 64, 64)
		}
		g.closeMux(0)
		g.sync(0)
		g.aftermath(1)
		jobs = append(jobs, Job{fmt.Sprintf("excluded-%d", variant), g.script("excluded", variant == 2)})
	}
	return jobs
}

// OpenAfterClose: a connection opened after the mux has closed (finding C11:open-after-close).
func OpenAfterClose(mp int) []Job {
	var jobs []Job
	for variant := 0; variant < 2; variant++ {
		g := newGen(rand.New(rand.NewSource(1)), mp, 4)
		g.openConn(0, 4, "open")
		g.openConn(1, 4, "open")
		g.closeMux(variant) // variant 0: closed locally; 1: closed by the peer
		g.sync(variant)
		h := g.openConn(0, 9, "open")
		g.ops = append(g.ops, Op{Op: "write", End: 0, H: h, Len: 2, Seed: 1, Step: 1})
		g.ops = append(g.ops, Op{Op: "read", End: 0, H: h, Blen: 16, Bcap: 16})
		s := g.script("open-after-close", true)
		s.WaitMs = 1500
		jobs = append(jobs, Job{fmt.Sprintf("open-after-close-%d", variant), s})
	}
	return jobs
}

// ReopenScripts: Open(id), Close, Open(id) again (a new object), the stale handle closed
// again — then traffic for the id must reach the new object, and when the mux closes (locally,
// by the peer, or by a cut) a Read on it must return.
func ReopenScripts(mp int) []Job {
	var jobs []Job
	for dir := 0; dir < 2; dir++ {
		for stale := 0; stale <= 2; stale++ {
			for fail := 0; fail < 3; fail++ {
				g := newGen(rand.New(rand.NewSource(1)), mp, 4)
				x, y := dir, 1-dir
				hy := g.openConn(y, 5, "open")
				h1 := g.openConn(x, 5, "open")
				g.write(y, hy, 3)
				g.sync(y)
				g.read(x, h1, 64, 64)
				g.closeConn(x, h1)
				g.sync(x)
				h2 := g.openConn(x, 5, []string{"open", "dial"}[stale%2])
				for n := 0; n < stale; n++ {
					g.closeConn(x, h1)
				}
				g.write(y, hy, 4)
				g.sync(y)
				g.read(x, h2, 64, 64)
				g.write(x, h2, 2)
				g.sync(x)
				g.read(y, hy, 64, 64)
				switch fail {
				case 0:
					g.closeMux(x)
				case 1:
					g.closeMux(y)
				case 2:
					g.cut(y, 3)
					g.write(y, hy, 6)
					g.dead = true
				}
				g.sync(y)
				g.read(x, h2, 64, 64)
				g.read(x, h2, 64, 64)
				g.aftermath(2)
				jobs = append(jobs, Job{fmt.Sprintf("reopen-d%d-s%d-f%d", dir, stale, fail), g.script("reopen", true)})
			}
		}
	}
	return jobs
}

// TearSweep: the trunk Write of a frame HEADER sends only k of its 8 bytes and fails with a
// transient error (k = 0..7), the trunk itself keeps working. For k >= 1 the sender must be
// dead from then on (later writes fail) and the peer must see the frames sent before, then an
// error — never a frame glued together from two headers. For k = 0 nothing went out: the
// write fails and the mux lives on.
func TearSweep(mp int) []Job {
	var jobs []Job
	for dir := 0; dir < 2; dir++ {
		for k := 0; k < 8; k++ {
			g := newGen(rand.New(rand.NewSource(1)), mp, 4)
			x, y := dir, 1-dir
			hx := g.openConn(x, 5, "open")
			hy := g.openConn(y, 5, "open")
			hx2 := g.openConn(x, 6, "open")
			hy2 := g.openConn(y, 6, "open")
			g.write(x, hx, 3)
			g.sync(x)
			g.read(y, hy, 64, 64)
			g.ops = append(g.ops, Op{Op: "tear", End: x, K: k})
			// the torn write (not accounted as delivered)
			g.ops = append(g.ops, Op{Op: "write", End: x, H: hx, Len: 4, Seed: 77, Step: 1})
			if k > 0 {
				g.dead = true
			}
			g.write(x, hx, 5)
			g.write(x, hx2, 2)
			g.write(x, hx, 1)
			g.sync(x)
			if k == 0 {
				g.read(y, hy, 64, 64)
				g.read(y, hy2, 64, 64)
				g.read(y, hy, 64, 64)
				g.closeMux(x)
				g.sync(x)
			} else {
				g.read(y, hy, 64, 64)
				g.read(y, hy2, 64, 64)
			}
			g.aftermath(2)
			jobs = append(jobs, Job{fmt.Sprintf("tear-d%d-k%d", dir, k), g.script("tear", true)})
		}
	}
	return jobs
}

// TearPayloadSweep: the HEADER of a frame goes out whole and the trunk Write of its PAYLOAD sends
// only k of its n bytes (k = 0..n-1) and fails with a transient error; the trunk itself keeps
// working. The stream now ends in an orphan header (plus k payload bytes): the sender must be dead
// from then on - a later Write on any connection would be read by the peer as the rest of the torn
// frame - and the peer must see the frames sent before, then an error.
func TearPayloadSweep(mp int) []Job {
	var jobs []Job
	for dir := 0; dir < 2; dir++ {
		for _, n := range []int{1, 4, 9} {
			for k := 0; k < n; k++ {
				if n == 9 && k > 1 && k < 8 {
					continue
				}
				g := newGen(rand.New(rand.NewSource(1)), mp, 4)
				x, y := dir, 1-dir
				hx := g.openConn(x, 5, "open")
				hy := g.openConn(y, 5, "open")
				hx2 := g.openConn(x, 6, "open")
				hy2 := g.openConn(y, 6, "open")
				g.write(x, hx, 3)
				g.sync(x)
				g.read(y, hy, 64, 64)
				g.ops = append(g.ops, Op{Op: "tear", End: x, K: 8 + k})
				// the torn write (not accounted as delivered)
				g.ops = append(g.ops, Op{Op: "write", End: x, H: hx, Len: n, Seed: 77, Step: 1})
				g.dead = true
				g.write(x, hx2, 8)
				g.write(x, hx, 5)
				g.write(x, hx2, 2)
				g.sync(x)
				g.read(y, hy, 64, 64)
				g.read(y, hy2, 64, 64)
				g.aftermath(2)
				jobs = append(jobs, Job{fmt.Sprintf("tearp-d%d-n%d-k%d", dir, n, k), g.script("tear-payload", true)})
			}
		}
	}
	return jobs
}

// IsolationScripts: frames for an id the receiver never opened are dropped — and must not
// disturb the connections it has opened (the reader has to consume their payload).
func IsolationScripts(mp int) []Job {
	var jobs []Job
	for dir := 0; dir < 2; dir++ {
		for _, n := range []int{0, 1, 5, 300} {
			g := newGen(rand.New(rand.NewSource(1)), mp, 4)
			x, y := dir, 1-dir
			hx := g.openConn(x, 5, "open")
			hy := g.openConn(y, 5, "open")
			hu := g.openConn(x, 9, "open") // never opened by y
			g.write(x, hx, 3)
			g.write(x, hu, n)
			g.write(x, hx, 4)
			g.write(x, hu, n+1)
			g.sync(x)
			g.read(y, hy, 64, 64)
			g.read(y, hy, 64, 64)
			g.write(y, hy, 2)
			g.sync(y)
			g.read(x, hx, 64, 64)
			g.closeMux(x)
			g.sync(x)
			g.aftermath(1)
			jobs = append(jobs, Job{fmt.Sprintf("unopened-d%d-n%d", dir, n), g.script("unopened-id", true)})
		}
	}
	return jobs
}
