// Package c10 is the correspondence harness for property C10 (multiplexed connections
// deliver each stream complete, in order and isolated). It also holds what C11 shares:
// the trunk tap / fault point, error classification, payload generation, the sequential
// script engine and the crash-isolating worker runner.
package c10

import (
	"bufio"
	"encoding/binary"
	"encoding/hex"
	"encoding/json"
	"errors"
	"fmt"
	"io"
	"net"
	"os"
	"os/exec"
	"path/filepath"
	"strings"
	"sync"
	"syscall"
	"time"

	nrinet "github.com/containerd/nri/pkg/net"
	mux "github.com/containerd/nri/pkg/net/multiplex"

	"verifh/internal/hx"
	"verifh/internal/lineio"
)

// Tap wraps the trunk connection handed to multiplex.Multiplex. It records every byte the
// mux writes to the trunk, in the order of the Write calls, and is the fault point: after
// `limit` more bytes it half-closes the socket (the peer reads EOF exactly there) and
// swallows everything written afterwards.
type Tap struct {
	net.Conn
	mu     sync.Mutex
	rec    []byte
	limit  int64 // <0: no cut armed
	cut    bool
	calls  int
	NoSave bool
	// tear >= 0: the next Write call forwards only that many bytes and fails with a
	// transient error (as an expiring write deadline does); the trunk keeps working
	tear int
	// tearSkip: trunk Write calls that still pass before the armed tear applies (1 = the frame
	// header goes out whole and the PAYLOAD write is the torn one)
	tearSkip int
	// SlowBig > 0: Write calls of more than 1 MiB are delayed by this much (the mux holds its
	// write lock meanwhile, so writers racing for the trunk reliably queue up behind it)
	SlowBig time.Duration
	// Dribble > 0: every Write call of two bytes or more goes out in two halves, this far apart
	Dribble time.Duration
}

func NewTap(c net.Conn) *Tap { return &Tap{Conn: c, limit: -1, tear: -1} }

// Tear arms a one-shot short write: see Tap.tear. k counts bytes of the next FRAME: k < 8 tears
// its header write after k bytes; k >= 8 lets the header out and tears the payload write after
// k-8 bytes.
func (t *Tap) Tear(k int) {
	t.mu.Lock()
	if k >= 8 {
		t.tear, t.tearSkip = k-8, 1
	} else {
		t.tear, t.tearSkip = k, 0
	}
	t.mu.Unlock()
}

func (t *Tap) Write(p []byte) (int, error) {
	t.mu.Lock()
	defer t.mu.Unlock()
	t.calls++
	if t.cut {
		return len(p), nil
	}
	if t.tear >= 0 && t.tearSkip > 0 {
		t.tearSkip--
	} else if t.tear >= 0 {
		k := t.tear
		t.tear = -1
		if k < len(p) {
			n := 0
			if k > 0 {
				var err error
				n, err = t.Conn.Write(p[:k])
				if !t.NoSave {
					t.rec = append(t.rec, p[:n]...)
				}
				if err != nil {
					return n, err
				}
			}
			return n, fmt.Errorf("short write: %w", os.ErrDeadlineExceeded)
		}
	}
	if t.SlowBig > 0 && len(p) > 1<<20 {
		time.Sleep(t.SlowBig)
	}
	q := p
	if t.limit >= 0 && int64(len(q)) > t.limit {
		q = q[:t.limit]
	}
	if t.Dribble > 0 && t.limit < 0 && len(q) > 1 {
		// forward the call in two halves with a pause in between, so that the peer's reader
		// spends most of its time INSIDE a frame (used with transient read faults)
		h := len(q) / 2
		n, err := t.Conn.Write(q[:h])
		if !t.NoSave {
			t.rec = append(t.rec, q[:n]...)
		}
		if err != nil {
			return n, err
		}
		time.Sleep(t.Dribble)
		q = q[h:]
		n, err = t.Conn.Write(q)
		if !t.NoSave {
			t.rec = append(t.rec, q[:n]...)
		}
		if err != nil {
			return h + n, err
		}
		return len(p), nil
	}
	n, err := t.Conn.Write(q)
	if !t.NoSave {
		t.rec = append(t.rec, q[:n]...)
	}
	if err != nil {
		return n, err
	}
	if t.limit >= 0 {
		t.limit -= int64(n)
		if t.limit == 0 {
			t.doCut()
		}
	}
	return len(p), nil
}

func (t *Tap) doCut() {
	t.cut = true
	if u, ok := t.Conn.(*net.UnixConn); ok {
		u.CloseWrite()
	}
}

// CutAfter arms the fault point: forward k more bytes, then half-close.
func (t *Tap) CutAfter(k int) {
	t.mu.Lock()
	defer t.mu.Unlock()
	if t.cut {
		return
	}
	t.limit = int64(k)
	if k == 0 {
		t.doCut()
	}
}

func (t *Tap) Bytes() []byte {
	t.mu.Lock()
	defer t.mu.Unlock()
	return append([]byte(nil), t.rec...)
}

// Pair returns the two ends of a fresh unix socket pair.
func Pair() (net.Conn, net.Conn, error) {
	sp, err := nrinet.NewSocketPair()
	if err != nil {
		return nil, nil, err
	}
	a, err := sp.LocalConn()
	if err != nil {
		return nil, nil, err
	}
	b, err := sp.PeerConn()
	if err != nil {
		a.Close()
		return nil, nil, err
	}
	return a, b, nil
}

// Classify maps an error of the mux API to the small enum the Lean model uses.
func Classify(err error) string {
	if err == nil {
		return ""
	}
	msg := err.Error()
	if os.Getenv("VERIFH_DEBUG") != "" {
		fmt.Fprintln(os.Stderr, "error:", msg)
	}
	switch {
	case errors.Is(err, syscall.ENOMEM):
		return "enomem"
	case errors.Is(err, io.EOF):
		return "eof"
	case strings.Contains(msg, "failed to queue payload"):
		return "overflow"
	case strings.Contains(msg, "failed to read header"), strings.Contains(msg, "failed to read payload"):
		if errors.Is(err, syscall.ECONNRESET) {
			return "reset"
		}
		if strings.Contains(msg, "failed to read header") {
			return "hdr"
		}
		return "payload"
	case strings.Contains(msg, "failed to write"):
		return "wfail"
	case strings.Contains(msg, "is reserved"):
		return "reserved"
	}
	return "other"
}

// Payload is the deterministic content of a write: byte j = seed + j*step (mod 256). The
// Lean driver regenerates it from (len, seed, step).
func Payload(n, seed, step int) []byte {
	b := make([]byte, n)
	v := byte(seed)
	s := byte(step)
	for i := range b {
		b[i] = v
		v += s
	}
	return b
}

func Hex(b []byte) string { return hex.EncodeToString(b) }

// MeasureMaxPayload writes an oversized payload through a real mux and reads the length
// field of the first frame off the trunk: that is maxPayloadSize of the code under test.
func MeasureMaxPayload() (int, error) {
	for size := 5 << 20; size <= 80<<20; size *= 2 {
		a, b, err := Pair()
		if err != nil {
			return 0, err
		}
		m := mux.Multiplex(a)
		c, err := m.Open(mux.LowestConnID)
		if err != nil {
			return 0, err
		}
		hdr := make([]byte, 8)
		done := make(chan error, 1)
		go func() {
			_, err := io.ReadFull(b, hdr)
			done <- err
			io.Copy(io.Discard, b)
		}()
		go c.Write(make([]byte, size))
		select {
		case err := <-done:
			if err != nil {
				return 0, err
			}
		case <-time.After(20 * time.Second):
			return 0, errors.New("measuring maxPayloadSize: no frame header within 20s")
		}
		n := int(binary.BigEndian.Uint32(hdr[4:8]))
		m.Close()
		b.Close()
		if n < size {
			return n, nil
		}
	}
	return 0, errors.New("measuring maxPayloadSize: payloads up to 80 MiB are not split")
}

// DocumentedMaxPayload is ttrpc's message header plus maximum message length; used only
// when the measurement fails (then the cases themselves will show what is wrong).
const DocumentedMaxPayload = 10 + 4<<20

func MaxPayloadOrDocumented() int {
	mp, err := MeasureMaxPayload()
	if err != nil || mp <= 0 {
		fmt.Fprintf(os.Stderr, "verifh: %v; continuing with the documented value %d\n", err, DocumentedMaxPayload)
		return DocumentedMaxPayload
	}
	return mp
}

// ProbeLateOpen measures what Open does on a mux that is already closed: a Write on the
// connection it returns fails with EOF iff the connection is handed out closed (repaired
// behaviour); on the pinned code the Write reaches the closed trunk and fails there.
func ProbeLateOpen() bool {
	a, b, err := Pair()
	if err != nil {
		return false
	}
	defer b.Close()
	m := mux.Multiplex(a)
	m.Close()
	c, err := m.Open(mux.LowestConnID + 7)
	if err != nil || c == nil {
		return false
	}
	_, werr := c.Write([]byte{1})
	return Classify(werr) == "eof"
}

// ---- crash isolation -------------------------------------------------------------------

const workerEnv = "VERIFH_MUX_WORKER"

func IsWorker() bool { return os.Getenv(workerEnv) == "1" }

type Job struct {
	ID string
	In interface{}
}

// RunIsolated executes the jobs in re-exec'd worker processes (a panic inside the mux's own
// goroutines cannot be recovered in-process) and appends their case lines to w in order. A
// batch whose worker dies is re-run one job per process; the job that kills its own worker
// is reported with the observation {"crashed": first panic line}.
func RunIsolated(prop string, o *hx.Opts, w *lineio.Writer, jobs []Job, batch int, perJob time.Duration) error {
	seq := 0
	full := batch
	batch = 4 // start small: a broken implementation shows in the first few cases
	for i := 0; i < len(jobs); {
		if i >= 4 {
			batch = full
		}
		if badSeen >= maxBad {
			// the implementation is evidently broken (cases hang or crash, each costing its
			// full deadline): what has been recorded suffices as failing input
			fmt.Fprintf(os.Stderr, "verifh %s: %d cases hung or crashed; skipping the remaining %d\n", prop, badSeen, len(jobs)-i)
			return nil
		}
		j := i + batch
		if j > len(jobs) {
			j = len(jobs)
		}
		seq++
		lines, _, err := runWorker(prop, o, jobs[i:j], seq, perJob)
		if err == nil && len(lines) == j-i {
			for _, l := range lines {
				if err := putRaw(w, l); err != nil {
					return err
				}
			}
			i = j
			continue
		}
		for k := i; k < j; k++ {
			seq++
			lines, out, err := runWorker(prop, o, jobs[k:k+1], seq, perJob)
			if err == nil && len(lines) == 1 {
				if err := putRaw(w, lines[0]); err != nil {
					return err
				}
				continue
			}
			what := "crashed: " + firstPanicLine(out)
			if err != nil && strings.Contains(err.Error(), "timeout") {
				what = "blocked: worker did not finish"
			}
			badSeen++
			w.Put(&lineio.Case{ID: jobs[k].ID, In: jobs[k].In, Obs: map[string]interface{}{"crashed": what}})
		}
		i = j
	}
	return nil
}

// circuit breaker: number of cases so far whose observation is a hang or a crash
var badSeen int

const maxBad = 4

func putRaw(w *lineio.Writer, line []byte) error {
	var c struct {
		ID  string          `json:"id"`
		In  json.RawMessage `json:"in"`
		Obs json.RawMessage `json:"obs"`
	}
	if err := json.Unmarshal(line, &c); err != nil {
		return err
	}
	var st struct {
		Status  string   `json:"status"`
		Crashed string   `json:"crashed"`
		Blocked []string `json:"blocked"`
		Res     []struct {
			R string `json:"r"`
		} `json:"res"`
	}
	if json.Unmarshal(c.Obs, &st) == nil {
		nb := 0
		for _, r := range st.Res {
			if r.R == "blocked" {
				nb++
			}
		}
		if st.Crashed != "" || strings.HasPrefix(st.Status, "blocked") || len(st.Blocked) > 0 || nb >= 3 {
			badSeen++
		}
	}
	return w.Put(&lineio.Case{ID: c.ID, In: c.In, Obs: c.Obs})
}

func firstPanicLine(out string) string {
	for _, l := range strings.Split(out, "\n") {
		if strings.HasPrefix(l, "panic:") || strings.HasPrefix(l, "fatal error:") {
			if len(l) > 200 {
				l = l[:200]
			}
			return l
		}
	}
	out = strings.TrimSpace(out)
	if len(out) > 200 {
		out = out[len(out)-200:]
	}
	return out
}

func runWorker(prop string, o *hx.Opts, jobs []Job, seq int, perJob time.Duration) ([][]byte, string, error) {
	dir := filepath.Join(o.Scratch, fmt.Sprintf("w%d", seq))
	if err := os.MkdirAll(dir, 0o755); err != nil {
		return nil, "", err
	}
	defer os.RemoveAll(dir)
	jf := filepath.Join(dir, "jobs.jsonl")
	f, err := os.Create(jf)
	if err != nil {
		return nil, "", err
	}
	bw := bufio.NewWriter(f)
	for _, j := range jobs {
		b, err := json.Marshal(map[string]interface{}{"id": j.ID, "in": j.In})
		if err != nil {
			return nil, "", err
		}
		bw.Write(b)
		bw.WriteByte('\n')
	}
	bw.Flush()
	f.Close()
	cmd := exec.Command(os.Args[0], prop, "-tier", o.Tier, "-seed", fmt.Sprint(o.Seed), "-out", dir, "-replay", jf)
	cmd.Env = append(os.Environ(), workerEnv+"=1", "GOMEMLIMIT=3GiB")
	var sb strings.Builder
	cmd.Stdout = &sb
	cmd.Stderr = &sb
	if err := cmd.Start(); err != nil {
		return nil, "", err
	}
	done := make(chan error, 1)
	go func() { done <- cmd.Wait() }()
	to := perJob*time.Duration(len(jobs)) + 20*time.Second
	var werr error
	select {
	case werr = <-done:
	case <-time.After(to):
		cmd.Process.Kill()
		<-done
		werr = errors.New("timeout")
	}
	var lines [][]byte
	if cf, err := os.Open(filepath.Join(dir, "cases.jsonl")); err == nil {
		sc := bufio.NewScanner(cf)
		sc.Buffer(make([]byte, 1<<20), 1<<30)
		for sc.Scan() {
			if len(sc.Bytes()) > 0 {
				lines = append(lines, append([]byte(nil), sc.Bytes()...))
			}
		}
		cf.Close()
	}
	return lines, sb.String(), werr
}
