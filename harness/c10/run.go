package c10

import (
	"encoding/json"
	"fmt"
	"time"

	"verifh/internal/hx"
	"verifh/internal/lineio"
)

// RunOne executes one decoded case in this process.
func RunOne(raw json.RawMessage) (interface{}, interface{}, error) {
	var k struct {
		Kind string `json:"kind"`
	}
	if err := json.Unmarshal(raw, &k); err != nil {
		return nil, nil, err
	}
	switch k.Kind {
	case "traffic":
		var in TrafficIn
		if err := json.Unmarshal(raw, &in); err != nil {
			return nil, nil, err
		}
		return in, RunTraffic(in), nil
	case "script":
		var in ScriptIn
		if err := json.Unmarshal(raw, &in); err != nil {
			return nil, nil, err
		}
		return in, RunScript(in), nil
	}
	return nil, nil, fmt.Errorf("unknown case kind %q", k.Kind)
}

// Worker is the body of a re-exec'd worker: run the jobs of the file in-process.
func Worker(o *hx.Opts, w *lineio.Writer, extra func(json.RawMessage) (interface{}, interface{}, error)) error {
	cases, err := hx.ReplayCases(o.Replay)
	if err != nil {
		return err
	}
	for _, c := range cases {
		in, obs, err := RunOne(c.In)
		if err != nil && extra != nil {
			in, obs, err = extra(c.In)
		}
		if err != nil {
			return err
		}
		w.Put(&lineio.Case{ID: c.ID, In: in, Obs: obs})
	}
	return nil
}

// ReplayJobs turns a replay file into jobs (re-executed against the current code).
func ReplayJobs(path string) ([]Job, error) {
	cases, err := hx.ReplayCases(path)
	if err != nil {
		return nil, err
	}
	var jobs []Job
	for _, c := range cases {
		jobs = append(jobs, Job{c.ID, c.In})
	}
	return jobs, nil
}

func Run(o *hx.Opts, w *lineio.Writer) error {
	if IsWorker() {
		return Worker(o, w, nil)
	}
	if o.Replay != "" {
		jobs, err := ReplayJobs(o.Replay)
		if err != nil {
			return err
		}
		return RunIsolated("C10", o, w, jobs, 1, 150*time.Second)
	}
	mp := MaxPayloadOrDocumented()
	var jobs []Job
	r := o.Rand(10)
	for i := 0; i < o.N(220, 2500); i++ {
		jobs = append(jobs, RandomTraffic(r, mp, i))
	}
	// sequential scripts on the same model: receive side in detail, boundary and excluded points
	jobs = append(jobs, ExcludedScripts(mp)...)
	jobs = append(jobs, IsolationScripts(mp)...)
	for i := 0; i < o.N(40, 400); i++ {
		jobs = append(jobs, RandomScript(r, mp, i))
	}
	if err := RunIsolated("C10", o, w, jobs, 25, 40*time.Second); err != nil {
		return err
	}
	// payloads around and above maxPayloadSize: a few, each in its own worker
	var big []Job
	nb := 1
	if o.Thorough() {
		nb = 3
	}
	if o.Budget > 1 {
		nb = 1
	}
	for i := 0; i < nb; i++ {
		big = append(big, BigTraffic(r, mp, 0, i), BigTraffic(r, mp, 1, i))
	}
	return RunIsolated("C10", o, w, big, 1, 150*time.Second)
}
