// Package c10 is the correspondence harness for property C10 (placeholder).
package c10

import (
	"errors"

	"verifh/internal/hx"
	"verifh/internal/lineio"
)

func Run(o *hx.Opts, w *lineio.Writer) error {
	return errors.New("C10 harness not implemented")
}
