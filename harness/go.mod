module verifh

go 1.22.0

require (
	github.com/containerd/nri v0.6.1
	github.com/containerd/ttrpc v1.2.7
	github.com/opencontainers/runtime-spec v1.1.0
	github.com/opencontainers/runtime-tools v0.9.0
	github.com/sirupsen/logrus v1.9.3
	google.golang.org/grpc v1.57.1
	google.golang.org/protobuf v1.34.1
	sigs.k8s.io/yaml v1.3.0
)

require (
	github.com/containerd/log v0.1.0 // indirect
	github.com/golang/protobuf v1.5.3 // indirect
	github.com/knqyf263/go-plugin v0.8.1-0.20240827022226-114c6257e441 // indirect
	github.com/moby/sys/mountinfo v0.6.2 // indirect
	github.com/syndtr/gocapability v0.0.0-20200815063812-42c35b437635 // indirect
	github.com/tetratelabs/wazero v1.9.0 // indirect
	golang.org/x/sys v0.21.0 // indirect
	google.golang.org/genproto/googleapis/rpc v0.0.0-20230731190214-cbb8c96f2d6d // indirect
	gopkg.in/yaml.v2 v2.4.0 // indirect
)

replace github.com/containerd/nri => /repo

replace github.com/opencontainers/runtime-tools v0.9.0 => github.com/opencontainers/runtime-tools v0.0.0-20221026201742-946c877fa809
