// Package c06 is the correspondence harness for property C06 (placeholder).
package c06

import (
	"errors"

	"verifh/internal/hx"
	"verifh/internal/lineio"
)

func Run(o *hx.Opts, w *lineio.Writer) error {
	return errors.New("C06 harness not implemented")
}
