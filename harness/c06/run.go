// Package c06 is the correspondence harness for property C06: subscribed plugins get each
// event once, in index order, in one common order.
//
// Three streams, all against a real Adaptation with real stub-connected plugins (package rt):
//
//	masks  – EXHAUSTIVE: every mask 0..8191 configured on a plugin (batches of 100 with
//	         distinct two-digit indices in shuffled registration order; the 0 mask both through
//	         the stub and as a literal 0 in the Configure reply), one request of each of the 13
//	         kinds per batch;
//	random – 1..8 plugins, indices drawn WITH duplicates, random masks, vetoing and clashing
//	         plugins, random interleaving of registrations, disconnects and the 13 calls;
//	conc   – 2..16 caller goroutines issuing mixed requests while late plugins register; every
//	         handler stamps (seq, plugin, request, event) from one atomic counter.
package c06

import (
	"encoding/json"
	"errors"
	"fmt"
	"math/rand"
	"os"
	"path/filepath"
	"runtime"
	"sync"
	"sync/atomic"
	"time"

	"verifh/c06/rt"
	"verifh/internal/hx"
	"verifh/internal/lineio"
)

// ---------------------------------------------------------------------------------------
// case formats

// Op is one step of a sequential case.
type Op struct {
	Op     string   `json:"op"` // reg | req | stop
	Plugin *rt.Spec `json:"plugin"`
	Ev     int      `json:"ev"`
	ID     string   `json:"id"`
	Name   string   `json:"name"`
}

type SeqIn struct {
	Kind   string `json:"kind"` // "seq"
	Stream string `json:"stream"`
	Ops    []Op   `json:"ops"`
}

type Inv struct {
	P string `json:"p"`
	R string `json:"r"`
	E int    `json:"e"`
}

type OpObs struct {
	Op  string     `json:"op"`
	OK  bool       `json:"ok"`
	Log []Inv      `json:"log"`
	Res *rt.Result `json:"res"`
}

type SeqObs struct {
	Ops  []OpObs `json:"ops"`
	Fail string  `json:"fail"` // harness-level failure (registration refused, timeout): "" normally
}

type Req struct {
	Ev int    `json:"ev"`
	ID string `json:"id"`
}

// Leave: an early plugin that disconnects when its handler is invoked for the After-th time.
type Leave struct {
	Name  string `json:"name"`
	After int    `json:"after"`
}

type ConcIn struct {
	Kind    string    `json:"kind"` // "conc"
	Plugins []rt.Spec `json:"plugins"`
	Late    []rt.Spec `json:"late"`
	Leaving []Leave   `json:"leaving"`
	Callers [][]Req   `json:"callers"`
	Procs   int       `json:"procs"`
}

type ConcObs struct {
	Hist    []rt.Stamp    `json:"hist"`
	Results [][]rt.Result `json:"results"`
	Fail    string        `json:"fail"`
}

// ---------------------------------------------------------------------------------------
// execution

func invs(st []rt.Stamp) []Inv {
	out := make([]Inv, 0, len(st))
	for _, s := range st {
		out = append(out, Inv{s.Plugin, s.Req, s.Ev})
	}
	return out
}

func runSeq(dir string, in *SeqIn) (obs SeqObs) {
	obs.Ops = []OpObs{}
	r, err := rt.NewRuntime(dir, nil)
	if err != nil {
		obs.Fail = "runtime: " + err.Error()
		return
	}
	defer r.Close()
	byName := map[string]*rt.Plugin{}
	degraded := false
	for _, op := range in.Ops {
		o := OpObs{Op: op.Op, Log: []Inv{}}
		switch op.Op {
		case "reg":
			p, err := r.Connect(*op.Plugin, rt.ConnectOpts{NoWait: degraded, Wait: 3 * time.Second})
			o.OK = err == nil
			switch {
			case errors.Is(err, rt.ErrNotActivated):
				// registered and synchronised, yet no probe of any subscribed kind reaches it: go on
				// without waiting; the requests that follow show what is (not) delivered
				degraded = true
				byName[p.Name] = p
			case err != nil:
				obs.Fail = "reg: " + err.Error()
				return
			default:
				byName[p.Name] = p
			}
			if degraded {
				time.Sleep(3 * time.Millisecond)
			}
			r.Rec.Take()
		case "stop":
			if p := byName[op.Name]; p != nil {
				p.Stop()
				o.OK = true
			}
		case "req":
			res := r.Do(op.Ev, op.ID)
			o.Res = &res
			o.OK = true
			o.Log = invs(r.Rec.Take())
		}
		obs.Ops = append(obs.Ops, o)
	}
	return
}

func runConc(dir string, in *ConcIn) (obs ConcObs) {
	obs.Hist = []rt.Stamp{}
	obs.Results = make([][]rt.Result, len(in.Callers))
	if in.Procs > 0 {
		defer runtime.GOMAXPROCS(runtime.GOMAXPROCS(in.Procs))
	}
	r, err := rt.NewRuntime(dir, nil)
	if err != nil {
		obs.Fail = "runtime: " + err.Error()
		return
	}
	defer r.Close()
	yield := func(*rt.Plugin, int, string) error { runtime.Gosched(); return nil }
	// A leaving plugin disconnects by itself, from inside its handler, when it is invoked for
	// the After-th time (stamp already taken; its reply is lost with the connection). Disconnecting from outside while a request is on its way would
	// let the handler start after the runtime has given up on it: a stamp that says nothing
	// about when the relay took place.
	for _, s := range in.Plugins {
		hook := yield
		for _, l := range in.Leaving {
			if l.Name == s.Name {
				var n atomic.Int64
				after := int64(l.After)
				if after < 1 {
					after = 1
				}
				hook = func(p *rt.Plugin, ev int, req string) error {
					runtime.Gosched()
					if n.Add(1) == after {
						// synchronously: when this returns the connection is gone, the reply cannot be
						// sent, and (the runtime being inside this very call) nothing else is on its way
						p.Stop()
					}
					return nil
				}
			}
		}
		if _, err := r.Connect(s, rt.ConnectOpts{Hook: hook}); err != nil {
			obs.Fail = "reg: " + err.Error()
			return
		}
	}
	r.Rec.Take()
	var wg sync.WaitGroup
	start := make(chan struct{})
	for i, reqs := range in.Callers {
		obs.Results[i] = make([]rt.Result, len(reqs))
		wg.Add(1)
		go func(i int, reqs []Req) {
			defer wg.Done()
			<-start
			for j, q := range reqs {
				t0 := r.Rec.Tick()
				res := r.Do(q.Ev, q.ID)
				res.T0, res.T1 = t0, r.Rec.Tick()
				obs.Results[i][j] = res
			}
		}(i, reqs)
	}
	var lateErr error
	wg.Add(1)
	go func() {
		defer wg.Done()
		<-start
		for _, s := range in.Late {
			// the probes WaitActive sends are requests like any other, concurrent with the callers'
			if _, err := r.Connect(s, rt.ConnectOpts{Hook: yield}); err != nil {
				lateErr = err
				return
			}
		}
	}()
	close(start)
	done := make(chan struct{})
	go func() { wg.Wait(); close(done) }()
	select {
	case <-done:
	case <-time.After(60 * time.Second):
		obs.Fail = "blocked"
		return
	}
	if lateErr != nil {
		obs.Fail = "reg: " + lateErr.Error()
	}
	obs.Hist = r.Rec.Take()
	return
}

// ---------------------------------------------------------------------------------------
// generators

const allEv = rt.NumEvents

func idx2(n int) string { return fmt.Sprintf("%02d", n%100) }

func genMasks(o *hx.Opts) []*SeqIn {
	rnd := o.Rand(601)
	var cases []*SeqIn
	const B = 100
	masks := make([]uint32, 0, 8192+8)
	for m := uint32(0); m <= rt.ValidMask; m++ {
		masks = append(masks, m)
	}
	type ent struct {
		m   uint32
		raw bool
	}
	ents := make([]ent, 0, len(masks)+B)
	for _, m := range masks {
		ents = append(ents, ent{m, false})
	}
	// the literal-0 reply and a seeded sample of other masks through the raw plugin service
	ents = append(ents, ent{0, true})
	for pad := (B - len(ents)%B) % B; pad > 0; pad-- {
		ents = append(ents, ent{uint32(rnd.Intn(int(rt.ValidMask) + 1)), true})
	}
	for b := 0; b*B < len(ents); b++ {
		chunk := ents[b*B : min(len(ents), (b+1)*B)]
		in := &SeqIn{Kind: "seq", Stream: "masks"}
		idxs := rnd.Perm(100)
		order := rnd.Perm(len(chunk))
		for _, k := range order {
			e := chunk[k]
			in.Ops = append(in.Ops, Op{Op: "reg", Plugin: &rt.Spec{Idx: idx2(idxs[k]),
				Name: fmt.Sprintf("m%d%s", e.m, map[bool]string{true: "r", false: ""}[e.raw]), Mask: e.m, Raw: e.raw}})
		}
		for _, ev := range rnd.Perm(allEv) {
			in.Ops = append(in.Ops, Op{Op: "req", Ev: ev + 1, ID: fmt.Sprintf("b%d-e%d", b, ev+1)})
		}
		cases = append(cases, in)
	}
	return cases
}

func randMask(rnd *rand.Rand) uint32 {
	switch rnd.Intn(6) {
	case 0:
		return 0
	case 1:
		return rt.ValidMask
	case 2:
		return 1 << uint(rnd.Intn(allEv))
	case 3:
		return uint32(rnd.Intn(int(rt.ValidMask))+1) & uint32(rnd.Intn(int(rt.ValidMask))+1)
	default:
		return uint32(rnd.Intn(int(rt.ValidMask) + 1))
	}
}

var idxPool = []string{"00", "00", "05", "10", "10", "10", "50", "99", "99", "09", "90"}

func randIdx(rnd *rand.Rand) string {
	if rnd.Intn(3) == 0 {
		return idx2(rnd.Intn(100))
	}
	return idxPool[rnd.Intn(len(idxPool))]
}

func randSpec(rnd *rand.Rand, n int, faulty bool) *rt.Spec {
	s := &rt.Spec{Idx: randIdx(rnd), Name: fmt.Sprintf("p%d", n), Mask: randMask(rnd), Raw: rnd.Intn(5) == 0}
	if faulty {
		switch rnd.Intn(8) {
		case 0:
			s.Veto = 1 << uint(rnd.Intn(allEv))
		case 1:
			s.Veto = uint32(rnd.Intn(int(rt.ValidMask) + 1))
		case 2:
			s.Clash = 1<<(rt.EvCreate-1) | 1<<(rt.EvUpdate-1) | 1<<(rt.EvStop-1)
		}
	}
	return s
}

func genRandom(o *hx.Opts, i int) *SeqIn {
	rnd := o.Rand(60200000 + int64(i))
	in := &SeqIn{Kind: "seq", Stream: "random"}
	n := 0
	var live []string
	reg := func() {
		s := randSpec(rnd, n, true)
		n++
		in.Ops = append(in.Ops, Op{Op: "reg", Plugin: s})
		live = append(live, s.Name)
	}
	for k := 1 + rnd.Intn(4); k > 0; k-- {
		reg()
	}
	steps := 8 + rnd.Intn(30)
	if rnd.Intn(4) == 0 {
		// a whole lifecycle, in order
		for _, ev := range []int{rt.EvRunPod, rt.EvCreate, rt.EvPostCreate, rt.EvStart, rt.EvPostStart, rt.EvUpdate,
			rt.EvPostUpdate, rt.EvUpdatePod, rt.EvPostUpdatePod, rt.EvStop, rt.EvRemove, rt.EvStopPod, rt.EvRemovePod} {
			in.Ops = append(in.Ops, Op{Op: "req", Ev: ev, ID: fmt.Sprintf("r%d-l%d", i, ev)})
		}
	}
	for k := 0; k < steps; k++ {
		switch x := rnd.Intn(20); {
		case x == 0 && n < 8:
			reg()
		case x == 1 && len(live) > 1:
			j := rnd.Intn(len(live))
			in.Ops = append(in.Ops, Op{Op: "stop", Name: live[j]})
			live = append(live[:j], live[j+1:]...)
		default:
			in.Ops = append(in.Ops, Op{Op: "req", Ev: 1 + rnd.Intn(allEv), ID: fmt.Sprintf("r%d-%d", i, k)})
		}
	}
	return in
}

func genConc(o *hx.Opts, i int) *ConcIn {
	rnd := o.Rand(60300000 + int64(i))
	in := &ConcIn{Kind: "conc", Plugins: []rt.Spec{}, Late: []rt.Spec{}}
	n := 0
	for k := 1 + rnd.Intn(6); k > 0; k-- {
		s := randSpec(rnd, n, rnd.Intn(4) == 0)
		// keep most plugins widely subscribed so that requests meet at several plugins
		if rnd.Intn(3) != 0 {
			s.Mask = 0
		}
		in.Plugins = append(in.Plugins, *s)
		n++
	}
	for k := rnd.Intn(3); k > 0; k-- {
		s := randSpec(rnd, n, false)
		in.Late = append(in.Late, *s)
		n++
	}
	callers := 2 + rnd.Intn(15)
	sharedIDs := i%3 == 2
	for c := 0; c < callers; c++ {
		var reqs []Req
		for k := 3 + rnd.Intn(8); k > 0; k-- {
			ev := 1 + rnd.Intn(allEv)
			if rnd.Intn(2) == 0 {
				ev = []int{rt.EvCreate, rt.EvUpdate, rt.EvStop}[rnd.Intn(3)]
			}
			id := fmt.Sprintf("c%d-%d", c, len(reqs))
			if sharedIDs {
				// the callers talk about the SAME few pods/containers at the same time; the requests
				// stay distinguishable for the plugins (tag after '#', see rt.pod / rt.ctr)
				id = fmt.Sprintf("s%d#%s", rnd.Intn(2), id)
			}
			reqs = append(reqs, Req{Ev: ev, ID: id})
		}
		in.Callers = append(in.Callers, reqs)
	}
	in.Procs = []int{0, 0, 1, 2, 4}[rnd.Intn(5)]
	in.Leaving = []Leave{}
	if len(in.Plugins) > 1 && rnd.Intn(3) == 0 {
		for k := 1 + rnd.Intn(2); k > 0; k-- {
			p := in.Plugins[rnd.Intn(len(in.Plugins))]
			dup := false
			for _, l := range in.Leaving {
				dup = dup || l.Name == p.Name
			}
			// vetoing plugins stay: a vanished veto would make later requests succeed either way
			if !dup && p.Veto == 0 && p.Clash == 0 {
				in.Leaving = append(in.Leaving, Leave{Name: p.Name, After: 1 + rnd.Intn(25)})
			}
		}
	}
	return in
}

// ---------------------------------------------------------------------------------------

func execCase(dir string, in interface{}) interface{} {
	d, err := os.MkdirTemp(dir, "c")
	if err != nil {
		return SeqObs{Fail: err.Error()}
	}
	defer os.RemoveAll(d)
	switch in := in.(type) {
	case *SeqIn:
		return runSeq(d, in)
	case *ConcIn:
		return runConc(d, in)
	}
	return SeqObs{Fail: "unknown input"}
}

func decode(raw json.RawMessage) (interface{}, error) {
	var k struct {
		Kind string `json:"kind"`
	}
	if err := json.Unmarshal(raw, &k); err != nil {
		return nil, err
	}
	switch k.Kind {
	case "seq":
		in := &SeqIn{}
		return in, json.Unmarshal(raw, in)
	case "conc":
		in := &ConcIn{}
		return in, json.Unmarshal(raw, in)
	}
	return nil, fmt.Errorf("unknown case kind %q", k.Kind)
}

// emit writes the cases in order; a worker that died or hung on a case is that case's
// observation.
func emit(w *lineio.Writer, jobs []*rt.Job) {
	for _, j := range jobs {
		if j.Skipped {
			continue
		}
		var obs interface{} = j.Obs
		switch {
		case j.Crashed:
			obs = map[string]interface{}{"fail": "crashed", "panic": j.Panic}
		case j.Blocked:
			obs = map[string]interface{}{"fail": "blocked", "panic": ""}
		case j.Obs == nil:
			obs = map[string]interface{}{"fail": "not run", "panic": ""}
		}
		w.Put(&lineio.Case{ID: j.ID, In: j.In, Obs: obs})
	}
}

func Run(o *hx.Opts, w *lineio.Writer) error {
	rt.Quiet()
	if len(filepath.Join(o.Scratch, "w123456", "scratch", "c0123456789", "n123456.sock")) > 100 {
		// unix socket paths are limited; fall back to a short private directory
		d, err := os.MkdirTemp("", "c06-")
		if err != nil {
			return err
		}
		defer os.RemoveAll(d)
		o.Scratch = d
	}
	if rt.IsWorker(func(_ string, _ string, raw json.RawMessage) interface{} {
		in, err := decode(raw)
		if err != nil {
			return SeqObs{Fail: err.Error()}
		}
		return execCase(o.Scratch, in)
	}) {
		return nil
	}
	if o.Replay != "" {
		cases, err := hx.ReplayCases(o.Replay)
		if err != nil {
			return err
		}
		var jobs []*rt.Job
		for _, c := range cases {
			if _, err := decode(c.In); err != nil {
				return err
			}
			jobs = append(jobs, &rt.Job{ID: c.ID, In: c.In})
		}
		err = rt.Dispatch(o.Scratch, "C06", "", jobs, 8, 4, 90*time.Second)
		emit(w, jobs)
		return err
	}
	var seq, conc []*rt.Job
	if o.Budget <= 1 {
		for i, in := range genMasks(o) {
			seq = append(seq, &rt.Job{ID: fmt.Sprintf("masks-%d", i), In: in})
		}
	}
	for i := 0; i < o.N(600, 15000); i++ {
		seq = append(seq, &rt.Job{ID: fmt.Sprintf("random-%d", i), In: genRandom(o, i)})
	}
	for i := 0; i < o.N(150, 6000); i++ {
		conc = append(conc, &rt.Job{ID: fmt.Sprintf("conc-%d", i), In: genConc(o, i)})
	}
	err := rt.Dispatch(o.Scratch, "C06", "", seq, 10, 6, 40*time.Second)
	emit(w, seq)
	// concurrent cases: each worker sets GOMAXPROCS for itself; fewer at a time so that the
	// callers really run in parallel
	err2 := rt.Dispatch(o.Scratch, "C06", "", conc, 10, 3, 90*time.Second)
	emit(w, conc)
	if err == nil {
		err = err2
	}
	return err
}
