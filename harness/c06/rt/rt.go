// Package rt is the shared test bed of the C06 and C07 harnesses: a real
// adaptation.Adaptation listening on a real unix socket, N in-process plugins connected
// through the real stub (or through a minimal hand-rolled ttRPC plugin service when the
// Configure reply must carry a literal 0 mask), a mock runtime (sync and update callbacks),
// and one global recorder whose atomic counter orders every handler invocation.
//
// Only the public API of nri is used: adaptation.New/Start/Stop and the request methods,
// stub.New/Start/Stop, api.RegisterPluginService/NewRuntimeClient, multiplex.Multiplex.
package rt

import (
	"context"
	"errors"
	"fmt"
	"io"
	"net"
	"os"
	"path/filepath"
	"sort"
	"strings"
	"sync"
	"sync/atomic"
	"time"

	"github.com/containerd/nri/pkg/adaptation"
	"github.com/containerd/nri/pkg/api"
	nrilog "github.com/containerd/nri/pkg/log"
	"github.com/containerd/nri/pkg/net/multiplex"
	"github.com/containerd/nri/pkg/stub"
	"github.com/containerd/ttrpc"
	"github.com/sirupsen/logrus"
	"google.golang.org/grpc/status"
	"google.golang.org/protobuf/proto"
)

// ---------------------------------------------------------------------------------------
// logging off (nri logs every registration and request at info level)

type nopLogger struct{}

func (nopLogger) Debugf(context.Context, string, ...interface{}) {}
func (nopLogger) Infof(context.Context, string, ...interface{})  {}
func (nopLogger) Warnf(context.Context, string, ...interface{})  {}
func (nopLogger) Errorf(context.Context, string, ...interface{}) {}

var quietOnce sync.Once

// Quiet silences nri's and ttrpc's loggers (both end up in logrus).
func Quiet() {
	quietOnce.Do(func() {
		nrilog.Set(nopLogger{})
		logrus.SetOutput(io.Discard)
		logrus.SetLevel(logrus.PanicLevel)
	})
}

// ---------------------------------------------------------------------------------------
// events

// Event numbers as in api.proto (1..13).
const (
	EvRunPod = 1 + iota
	EvStopPod
	EvRemovePod
	EvCreate
	EvPostCreate
	EvStart
	EvPostStart
	EvUpdate
	EvPostUpdate
	EvStop
	EvRemove
	EvUpdatePod
	EvPostUpdatePod
)

const NumEvents = 13
const ValidMask = uint32(1<<NumEvents - 1)

// ---------------------------------------------------------------------------------------
// recorder

// Stamp is one handler invocation.
type Stamp struct {
	Seq    int64  `json:"seq"`
	Plugin string `json:"plugin"`
	Req    string `json:"req"`
	Ev     int    `json:"ev"`
}

// Recorder orders handler invocations of every plugin by ONE atomic counter, taken at
// handler entry.
type Recorder struct {
	seq atomic.Int64
	mu  sync.Mutex
	log []Stamp
}

func (r *Recorder) stamp(plugin, req string, ev int) {
	s := Stamp{Seq: r.seq.Add(1), Plugin: plugin, Req: req, Ev: ev}
	r.mu.Lock()
	r.log = append(r.log, s)
	r.mu.Unlock()
}

// Tick draws the next number of the same counter (callers bracket their requests with it).
func (r *Recorder) Tick() int64 { return r.seq.Add(1) }

// Count is the number of stamps recorded and not yet taken.
func (r *Recorder) Count() int {
	r.mu.Lock()
	defer r.mu.Unlock()
	return len(r.log)
}

// Take returns the stamps recorded so far, ordered by sequence number, and clears them.
func (r *Recorder) Take() []Stamp {
	r.mu.Lock()
	l := r.log
	r.log = nil
	r.mu.Unlock()
	sort.Slice(l, func(i, j int) bool { return l[i].Seq < l[j].Seq })
	return l
}

// ---------------------------------------------------------------------------------------
// plugins

// Spec is the static description of one plugin (part of the generated input).
type Spec struct {
	Idx  string `json:"idx"`
	Name string `json:"name"`
	// Mask is what the plugin answers to Configure (0 = "everything").
	Mask uint32 `json:"mask"`
	// Raw: connect with a hand-rolled ttRPC plugin service instead of the stub, so that a 0
	// mask reaches the runtime as a literal 0 (the stub replaces 0 by its handler set).
	Raw bool `json:"raw"`
	// Veto: events (bit e-1) on which the handler returns an error.
	Veto uint32 `json:"veto"`
	// Clash: events on which the plugin additionally contributes the key "shared"
	// (two such plugins in one create request make result collection fail).
	Clash uint32 `json:"clash"`
}

// Hook lets a harness inject behaviour into a handler after the invocation was stamped.
// A non-nil error is returned from the handler.
type Hook func(p *Plugin, ev int, req string) error

type Plugin struct {
	Spec
	rec      *Recorder
	hook     Hook
	hsHook   func(p *Plugin, stage string) error
	probes   atomic.Int64
	synced   atomic.Int64
	closedC  chan struct{}
	closed1  sync.Once
	st       stub.Stub
	raw      *rawPlugin
	dial     func(string) (net.Conn, error)
	VetoText string
}

// UpdateContainers issues an unsolicited update through the plugin's stub (nothing for a raw plugin).
func (p *Plugin) UpdateContainers(u []*api.ContainerUpdate) ([]*api.ContainerUpdate, error) {
	if p.st == nil {
		return nil, nil
	}
	return p.st.UpdateContainers(u)
}

// Closed reports whether the plugin side noticed the loss of its connection.
func (p *Plugin) Closed() bool {
	select {
	case <-p.closedC:
		return true
	default:
		return false
	}
}

func (p *Plugin) onClose() { p.closed1.Do(func() { close(p.closedC) }) }

func bit(ev int) uint32 { return 1 << uint(ev-1) }

const probePrefix = "probe"

// handle is the common body of all thirteen handlers.
func (p *Plugin) handle(ev int, req string) error {
	if strings.HasPrefix(req, probePrefix) {
		p.probes.Add(1)
		return nil
	}
	p.rec.stamp(p.Name, req, ev)
	if p.hook != nil {
		if err := p.hook(p, ev, req); err != nil {
			return err
		}
	}
	if p.Veto&bit(ev) != 0 {
		return errors.New(p.vetoText(ev, req))
	}
	return nil
}

func (p *Plugin) vetoText(ev int, req string) string {
	return fmt.Sprintf("veto:%s:%s:%d", p.Name, req, ev)
}

// reqAnnotation carries the full request id when it differs from the pod/container id
// (request ids of the form "cid#tag": several requests about the SAME pod/container, which
// the plugins must still be able to tell apart).
const reqAnnotation = "verif/req"

func podID(pod *api.PodSandbox) string {
	if pod == nil {
		return ""
	}
	if v, ok := pod.GetAnnotations()[reqAnnotation]; ok {
		return v
	}
	return pod.Id
}
func ctrID(c *api.Container) string {
	if c == nil {
		return ""
	}
	if v, ok := c.GetAnnotations()[reqAnnotation]; ok {
		return v
	}
	return c.Id
}

// MemFor is the request- and plugin-specific number a plugin puts into its update.
func MemFor(name, req string) int64 {
	var h int64 = 1469598103
	for _, c := range []byte(name + "|" + req) {
		h = (h*1099511 + int64(c)) % 1000000007
	}
	// always the same number of digits and of varint bytes, so that exchanges have a fixed length
	return 1<<28 + h%(1<<27)
}

func (p *Plugin) updatesFor(ev int, req string) []*api.ContainerUpdate {
	u := &api.ContainerUpdate{}
	u.SetContainerId(req + "/" + p.Name)
	u.SetLinuxMemoryLimit(MemFor(p.Name, req))
	us := []*api.ContainerUpdate{u}
	if p.Clash&bit(ev) != 0 {
		s := &api.ContainerUpdate{}
		s.SetContainerId(req + "/shared")
		s.SetLinuxMemoryLimit(MemFor(p.Name, req))
		us = append(us, s)
	}
	return us
}

func (p *Plugin) Configure(_ context.Context, _, _, _ string) (api.EventMask, error) {
	if p.hsHook != nil {
		if err := p.hsHook(p, "configure"); err != nil {
			return 0, err
		}
	}
	return api.EventMask(int32(p.Mask)), nil
}
func (p *Plugin) Synchronize(context.Context, []*api.PodSandbox, []*api.Container) ([]*api.ContainerUpdate, error) {
	p.synced.Add(1)
	if p.hsHook != nil {
		if err := p.hsHook(p, "synchronize"); err != nil {
			return nil, err
		}
	}
	return nil, nil
}
func (p *Plugin) RunPodSandbox(_ context.Context, pod *api.PodSandbox) error {
	return p.handle(EvRunPod, podID(pod))
}
func (p *Plugin) StopPodSandbox(_ context.Context, pod *api.PodSandbox) error {
	return p.handle(EvStopPod, podID(pod))
}
func (p *Plugin) RemovePodSandbox(_ context.Context, pod *api.PodSandbox) error {
	return p.handle(EvRemovePod, podID(pod))
}
func (p *Plugin) UpdatePodSandbox(_ context.Context, pod *api.PodSandbox, _, _ *api.LinuxResources) error {
	return p.handle(EvUpdatePod, podID(pod))
}
func (p *Plugin) PostUpdatePodSandbox(_ context.Context, pod *api.PodSandbox) error {
	return p.handle(EvPostUpdatePod, podID(pod))
}
func (p *Plugin) CreateContainer(_ context.Context, _ *api.PodSandbox, c *api.Container) (*api.ContainerAdjustment, []*api.ContainerUpdate, error) {
	req := ctrID(c)
	if err := p.handle(EvCreate, req); err != nil {
		return nil, nil, err
	}
	if strings.HasPrefix(req, probePrefix) {
		return nil, nil, nil
	}
	a := &api.ContainerAdjustment{}
	a.AddAnnotation(p.Name, req)
	if p.Clash&bit(EvCreate) != 0 {
		a.AddAnnotation("shared", p.Name)
	}
	return a, nil, nil
}
func (p *Plugin) PostCreateContainer(_ context.Context, _ *api.PodSandbox, c *api.Container) error {
	return p.handle(EvPostCreate, ctrID(c))
}
func (p *Plugin) StartContainer(_ context.Context, _ *api.PodSandbox, c *api.Container) error {
	return p.handle(EvStart, ctrID(c))
}
func (p *Plugin) PostStartContainer(_ context.Context, _ *api.PodSandbox, c *api.Container) error {
	return p.handle(EvPostStart, ctrID(c))
}
func (p *Plugin) UpdateContainer(_ context.Context, _ *api.PodSandbox, c *api.Container, _ *api.LinuxResources) ([]*api.ContainerUpdate, error) {
	req := ctrID(c)
	if err := p.handle(EvUpdate, req); err != nil {
		return nil, err
	}
	if strings.HasPrefix(req, probePrefix) {
		return nil, nil
	}
	return p.updatesFor(EvUpdate, req), nil
}
func (p *Plugin) PostUpdateContainer(_ context.Context, _ *api.PodSandbox, c *api.Container) error {
	return p.handle(EvPostUpdate, ctrID(c))
}
func (p *Plugin) StopContainer(_ context.Context, _ *api.PodSandbox, c *api.Container) ([]*api.ContainerUpdate, error) {
	req := ctrID(c)
	if err := p.handle(EvStop, req); err != nil {
		return nil, err
	}
	if strings.HasPrefix(req, probePrefix) {
		return nil, nil
	}
	return p.updatesFor(EvStop, req), nil
}
func (p *Plugin) RemoveContainer(_ context.Context, _ *api.PodSandbox, c *api.Container) error {
	return p.handle(EvRemove, ctrID(c))
}

// ---------------------------------------------------------------------------------------
// raw plugin: the plugin side of the protocol without the stub

type rawPlugin struct {
	p    *Plugin
	mux  multiplex.Mux
	srv  *ttrpc.Server
	cli  *ttrpc.Client
	once sync.Once
}

func (r *rawPlugin) Configure(context.Context, *api.ConfigureRequest) (*api.ConfigureResponse, error) {
	return &api.ConfigureResponse{Events: int32(r.p.Mask)}, nil
}
func (r *rawPlugin) Synchronize(_ context.Context, req *api.SynchronizeRequest) (*api.SynchronizeResponse, error) {
	r.p.synced.Add(1)
	return &api.SynchronizeResponse{More: req.More}, nil
}
func (r *rawPlugin) Shutdown(context.Context, *api.Empty) (*api.Empty, error) {
	return &api.Empty{}, nil
}
func (r *rawPlugin) CreateContainer(ctx context.Context, req *api.CreateContainerRequest) (*api.CreateContainerResponse, error) {
	a, u, err := r.p.CreateContainer(ctx, req.Pod, req.Container)
	return &api.CreateContainerResponse{Adjust: a, Update: u}, err
}
func (r *rawPlugin) UpdateContainer(ctx context.Context, req *api.UpdateContainerRequest) (*api.UpdateContainerResponse, error) {
	u, err := r.p.UpdateContainer(ctx, req.Pod, req.Container, req.LinuxResources)
	return &api.UpdateContainerResponse{Update: u}, err
}
func (r *rawPlugin) StopContainer(ctx context.Context, req *api.StopContainerRequest) (*api.StopContainerResponse, error) {
	u, err := r.p.StopContainer(ctx, req.Pod, req.Container)
	return &api.StopContainerResponse{Update: u}, err
}
func (r *rawPlugin) UpdatePodSandbox(ctx context.Context, req *api.UpdatePodSandboxRequest) (*api.UpdatePodSandboxResponse, error) {
	return &api.UpdatePodSandboxResponse{}, r.p.UpdatePodSandbox(ctx, req.Pod, req.OverheadLinuxResources, req.LinuxResources)
}
func (r *rawPlugin) StateChange(ctx context.Context, evt *api.StateChangeEvent) (*api.Empty, error) {
	var err error
	switch int(evt.Event) {
	case EvRunPod:
		err = r.p.RunPodSandbox(ctx, evt.Pod)
	case EvStopPod:
		err = r.p.StopPodSandbox(ctx, evt.Pod)
	case EvRemovePod:
		err = r.p.RemovePodSandbox(ctx, evt.Pod)
	case EvPostUpdatePod:
		err = r.p.PostUpdatePodSandbox(ctx, evt.Pod)
	case EvPostCreate:
		err = r.p.PostCreateContainer(ctx, evt.Pod, evt.Container)
	case EvStart:
		err = r.p.StartContainer(ctx, evt.Pod, evt.Container)
	case EvPostStart:
		err = r.p.PostStartContainer(ctx, evt.Pod, evt.Container)
	case EvPostUpdate:
		err = r.p.PostUpdateContainer(ctx, evt.Pod, evt.Container)
	case EvRemove:
		err = r.p.RemoveContainer(ctx, evt.Pod, evt.Container)
	default:
		// an event the StateChange path never carries: record it so a misrouted request shows
		err = r.p.handle(int(evt.Event), podID(evt.Pod)+"|"+ctrID(evt.Container))
	}
	return &api.Empty{}, err
}

func (r *rawPlugin) start(conn net.Conn) error {
	r.mux = multiplex.Multiplex(conn)
	l, err := r.mux.Listen(multiplex.PluginServiceConn)
	if err != nil {
		return err
	}
	r.srv, err = ttrpc.NewServer()
	if err != nil {
		return err
	}
	api.RegisterPluginService(r.srv, r)
	cc, err := r.mux.Open(multiplex.RuntimeServiceConn)
	if err != nil {
		return err
	}
	r.cli = ttrpc.NewClient(cc, ttrpc.WithOnClose(r.p.onClose))
	go r.srv.Serve(context.Background(), l)
	ctx, cancel := context.WithTimeout(context.Background(), 5*time.Second)
	defer cancel()
	_, err = api.NewRuntimeClient(r.cli).RegisterPlugin(ctx, &api.RegisterPluginRequest{
		PluginName: r.p.Name, PluginIdx: r.p.Idx})
	return err
}

func (r *rawPlugin) stop() {
	r.once.Do(func() {
		if r.srv != nil {
			r.srv.Close()
		}
		if r.cli != nil {
			r.cli.Close()
		}
		if r.mux != nil {
			r.mux.Close()
		}
	})
}

// ---------------------------------------------------------------------------------------
// runtime

// Runtime is a real Adaptation plus mock runtime callbacks.
type Runtime struct {
	A       *adaptation.Adaptation
	Rec     *Recorder
	Sock    string
	plugins []*Plugin
	mu      sync.Mutex
	probeN  atomic.Int64
	updates atomic.Int64
}

var sockN atomic.Int64

// NewRuntime starts an Adaptation on a fresh socket under dir.
func NewRuntime(dir string, rec *Recorder) (*Runtime, error) {
	Quiet()
	if rec == nil {
		rec = &Recorder{}
	}
	r := &Runtime{Rec: rec}
	r.Sock = filepath.Join(dir, fmt.Sprintf("n%d.sock", sockN.Add(1)))
	if len(r.Sock) > 100 {
		return nil, fmt.Errorf("socket path too long: %s", r.Sock)
	}
	syncFn := func(ctx context.Context, cb adaptation.SyncCB) error {
		_, err := cb(ctx, nil, nil)
		return err
	}
	updateFn := func(context.Context, []*adaptation.ContainerUpdate) ([]*adaptation.ContainerUpdate, error) {
		r.updates.Add(1)
		return nil, nil
	}
	a, err := adaptation.New("verif", "0.0.1", syncFn, updateFn,
		adaptation.WithPluginPath(filepath.Join(dir, "no-plugins")),
		adaptation.WithPluginConfigPath(filepath.Join(dir, "no-conf")),
		adaptation.WithSocketPath(r.Sock))
	if err != nil {
		return nil, err
	}
	if err := a.Start(); err != nil {
		return nil, err
	}
	r.A = a
	return r, nil
}

// Options for connecting one plugin.
type ConnectOpts struct {
	Hook Hook
	// HsHook runs inside the plugin's Configure and Synchronize handlers (stage "configure" /
	// "synchronize"); a non-nil error is the handler's answer (stub plugins only).
	HsHook func(p *Plugin, stage string) error
	// Dial replaces the default unix dialer (C07 wraps the connection).
	Dial func(path string) (net.Conn, error)
	// NoWait: do not wait until the runtime has activated the plugin.
	NoWait bool
	// Wait: how long to wait for activation (default 10 s).
	Wait time.Duration
}

// Connect registers one plugin and (unless NoWait) returns once the runtime relays
// requests to it.
func (r *Runtime) Connect(s Spec, o ConnectOpts) (*Plugin, error) {
	p := &Plugin{Spec: s, rec: r.Rec, hook: o.Hook, hsHook: o.HsHook, closedC: make(chan struct{}), dial: o.Dial}
	if p.dial == nil {
		p.dial = func(path string) (net.Conn, error) { return net.Dial("unix", path) }
	}
	if s.Raw {
		conn, err := p.dial(r.Sock)
		if err != nil {
			return nil, err
		}
		p.raw = &rawPlugin{p: p}
		if err := p.raw.start(conn); err != nil {
			p.raw.stop()
			return nil, fmt.Errorf("raw plugin %s-%s: %w", s.Idx, s.Name, err)
		}
	} else {
		st, err := stub.New(p, stub.WithPluginName(s.Name), stub.WithPluginIdx(s.Idx),
			stub.WithSocketPath(r.Sock), stub.WithDialer(p.dial), stub.WithOnClose(p.onClose))
		if err != nil {
			return nil, err
		}
		p.st = st
		if err := st.Start(context.Background()); err != nil {
			return nil, fmt.Errorf("stub %s-%s: %w", s.Idx, s.Name, err)
		}
	}
	r.mu.Lock()
	r.plugins = append(r.plugins, p)
	r.mu.Unlock()
	if !o.NoWait {
		w := o.Wait
		if w == 0 {
			w = 10 * time.Second
		}
		if err := r.WaitActive(p, w); err != nil {
			return p, err
		}
	}
	return p, nil
}

// EffMask is the subscription the runtime should end up with for a Configure reply m.
func EffMask(m uint32) uint32 {
	if m == 0 {
		return ValidMask
	}
	return m
}

// WaitActive sends probe requests (ignored and not recorded by every handler) of an event
// the plugin subscribes to until the plugin has seen one: from then on it is in the
// runtime's plugin list.
func (r *Runtime) WaitActive(p *Plugin, d time.Duration) error {
	var evs []int
	for e := 1; e <= NumEvents; e++ {
		if EffMask(p.Mask)&bit(e) != 0 {
			evs = append(evs, e)
		}
	}
	if len(evs) == 0 {
		return fmt.Errorf("plugin %s subscribes to nothing", p.Name)
	}
	deadline := time.Now().Add(d)
	for n := 0; ; n++ {
		if p.probes.Load() > 0 {
			return nil
		}
		if time.Now().After(deadline) {
			return fmt.Errorf("%w: %s-%s within %v", ErrNotActivated, p.Idx, p.Name, d)
		}
		// wait for the synchronisation request first: before it the plugin cannot be active
		if p.synced.Load() == 0 {
			time.Sleep(50 * time.Microsecond)
			continue
		}
		r.Do(evs[n%len(evs)], fmt.Sprintf("%s-%d", probePrefix, r.probeN.Add(1)))
		if p.probes.Load() == 0 {
			time.Sleep(50 * time.Microsecond)
		}
	}
}

// ErrNotActivated: the plugin registered and was synchronised, but no request of a kind it
// subscribes to ever reached it.
var ErrNotActivated = errors.New("plugin never received a request it subscribes to")

// StopPlugin closes the plugin's side of the connection.
func (p *Plugin) Stop() {
	if p.raw != nil {
		p.raw.stop()
		return
	}
	if p.st != nil {
		p.st.Stop()
	}
}

// Close stops every plugin and the adaptation, and removes the socket.
func (r *Runtime) Close() {
	r.mu.Lock()
	ps := r.plugins
	r.plugins = nil
	r.mu.Unlock()
	for _, p := range ps {
		p.Stop()
	}
	r.A.Stop()
	os.Remove(r.Sock)
}

// ---------------------------------------------------------------------------------------
// requests and results

// Result is the canonical observation of one request as its caller saw it.
type Result struct {
	// Err: "" | "veto" (an rpc status error, as a handler error arrives) | "conflict" (result
	// collection refused the combination) | "closed" | "protocol" | "timeout" | "undecodable"
	// (a protobuf decoding error) | "trunk" | "canceled" | "other"
	Err string `json:"err"`
	// ErrText is kept for the `why` line only; never compared.
	ErrText string `json:"errtext"`
	// VetoBy is the plugin name carried by a veto text produced by Plugin.handle ("" else).
	VetoBy string `json:"vetoby"`
	// VetoReq is the request id carried by the veto text.
	VetoReq string `json:"vetoreq"`
	// Items: sorted "key=value" contributions found in the reply (annotations of the
	// adjustment for create; "target=memlimit" for every container update).
	Items []string `json:"items"`
	// Nil: the reply object was nil (always so for state changes).
	Nil bool `json:"nil"`
	// T0, T1: recorder ticks drawn by the caller just before the call and just after the return
	// (0 when the harness does not bracket).
	T0 int64 `json:"t0"`
	T1 int64 `json:"t1"`
}

// ErrKind maps an error returned by a request method to the small enum.
func ErrKind(err error) string {
	switch {
	case err == nil:
		return ""
	case errors.Is(err, ttrpc.ErrClosed), errors.Is(err, ttrpc.ErrServerClosed):
		return "closed"
	case errors.Is(err, ttrpc.ErrProtocol):
		return "protocol"
	case errors.Is(err, context.DeadlineExceeded):
		return "timeout"
	}
	if _, ok := status.FromError(err); ok {
		return "veto"
	}
	if errors.Is(err, proto.Error) {
		// the reply (envelope or payload) did not decode
		return "undecodable"
	}
	t := err.Error()
	switch {
	case strings.Contains(t, "both tried to set"):
		return "conflict"
	case strings.Contains(t, "trunk"):
		return "trunk"
	case errors.Is(err, context.Canceled):
		return "canceled"
	}
	return "other"
}

func fillErr(res *Result, err error) {
	res.Err = ErrKind(err)
	if err == nil {
		return
	}
	res.ErrText = err.Error()
	if i := strings.Index(res.ErrText, "veto:"); i >= 0 {
		f := strings.Split(res.ErrText[i:], ":")
		if len(f) >= 4 {
			res.VetoBy, res.VetoReq = f[1], f[2]
		}
	}
}

func updItems(us []*api.ContainerUpdate) []string {
	items := []string{}
	for _, u := range us {
		if u == nil {
			continue
		}
		items = append(items, fmt.Sprintf("%s=%d", u.ContainerId, u.GetLinux().GetResources().GetMemory().GetLimit().GetValue()))
	}
	sort.Strings(items)
	return items
}

func pod(id string) *api.PodSandbox {
	cid := id
	if i := strings.IndexByte(id, '#'); i >= 0 {
		cid = id[:i]
	}
	p := &api.PodSandbox{Id: cid, Name: cid, Uid: cid, Namespace: "ns"}
	if cid != id {
		p.Annotations = map[string]string{reqAnnotation: id}
	}
	return p
}
func ctr(id string) *api.Container {
	cid := id
	if i := strings.IndexByte(id, '#'); i >= 0 {
		cid = id[:i]
	}
	c := &api.Container{Id: cid, PodSandboxId: cid, Name: cid, State: api.ContainerState_CONTAINER_CREATED}
	if cid != id {
		c.Annotations = map[string]string{reqAnnotation: id}
	}
	return c
}

// Do issues one request of kind ev (1..13) whose pod/container id is `id` through the
// matching public method of the Adaptation.
func (r *Runtime) Do(ev int, id string) Result {
	return r.DoCtx(context.Background(), ev, id)
}

func (r *Runtime) DoCtx(ctx context.Context, ev int, id string) Result {
	res := Result{Items: []string{}}
	var err error
	sc := func() *api.StateChangeEvent { return &api.StateChangeEvent{Pod: pod(id), Container: ctr(id)} }
	a := r.A
	switch ev {
	case EvRunPod:
		err, res.Nil = a.RunPodSandbox(ctx, &api.StateChangeEvent{Pod: pod(id)}), true
	case EvStopPod:
		err, res.Nil = a.StopPodSandbox(ctx, &api.StateChangeEvent{Pod: pod(id)}), true
	case EvRemovePod:
		err, res.Nil = a.RemovePodSandbox(ctx, &api.StateChangeEvent{Pod: pod(id)}), true
	case EvPostUpdatePod:
		err, res.Nil = a.PostUpdatePodSandbox(ctx, &api.StateChangeEvent{Pod: pod(id)}), true
	case EvPostCreate:
		err, res.Nil = a.PostCreateContainer(ctx, sc()), true
	case EvStart:
		err, res.Nil = a.StartContainer(ctx, sc()), true
	case EvPostStart:
		err, res.Nil = a.PostStartContainer(ctx, sc()), true
	case EvPostUpdate:
		err, res.Nil = a.PostUpdateContainer(ctx, sc()), true
	case EvRemove:
		err, res.Nil = a.RemoveContainer(ctx, sc()), true
	case EvUpdatePod:
		var rpl *api.UpdatePodSandboxResponse
		rpl, err = a.UpdatePodSandbox(ctx, &api.UpdatePodSandboxRequest{Pod: pod(id)})
		res.Nil = rpl == nil
	case EvCreate:
		var rpl *api.CreateContainerResponse
		rpl, err = a.CreateContainer(ctx, &api.CreateContainerRequest{Pod: pod(id), Container: ctr(id)})
		res.Nil = rpl == nil
		if rpl != nil {
			for k, v := range rpl.GetAdjust().GetAnnotations() {
				res.Items = append(res.Items, k+"="+v)
			}
			sort.Strings(res.Items)
			res.Items = append(res.Items, updItems(rpl.Update)...)
		}
	case EvUpdate:
		var rpl *api.UpdateContainerResponse
		rpl, err = a.UpdateContainer(ctx, &api.UpdateContainerRequest{Pod: pod(id), Container: ctr(id),
			LinuxResources: &api.LinuxResources{}})
		res.Nil = rpl == nil
		if rpl != nil {
			res.Items = updItems(rpl.Update)
		}
	case EvStop:
		var rpl *api.StopContainerResponse
		rpl, err = a.StopContainer(ctx, &api.StopContainerRequest{Pod: pod(id), Container: ctr(id)})
		res.Nil = rpl == nil
		if rpl != nil {
			res.Items = updItems(rpl.Update)
		}
	default:
		err = fmt.Errorf("harness: no such event %d", ev)
	}
	fillErr(&res, err)
	return res
}
