package rt

import (
	"io"
	"net"
	"sync"
)

// FaultConn wraps the PLUGIN side of a plugin↔runtime connection and injects transport
// faults at exact byte offsets. Directions: "r2p" = bytes the plugin reads (runtime → plugin),
// "p2r" = bytes the plugin writes (plugin → runtime). Offsets count from the last Arm/Reset.
//
//	cut     – pass exactly `off` bytes in the direction, then close the socket
//	corrupt – XOR the byte at offset `off` with 0xFF, keep going
//	stall   – pass exactly `off` bytes, then swallow everything in that direction, socket open
type FaultConn struct {
	net.Conn
	mu     sync.Mutex
	rd, wr int64
	mode   string
	dir    string
	off    int64
	fired  bool
	closed bool
}

func (c *FaultConn) Arm(mode, dir string, off int64) {
	c.mu.Lock()
	c.mode, c.dir, c.off, c.fired = mode, dir, off, false
	c.rd, c.wr = 0, 0
	c.mu.Unlock()
}

// Reset clears any armed fault and the counters.
func (c *FaultConn) Reset() { c.Arm("", "", 0) }

// Counts returns the bytes passed since the last Arm/Reset: (r2p, p2r).
func (c *FaultConn) Counts() (int64, int64) {
	c.mu.Lock()
	defer c.mu.Unlock()
	return c.rd, c.wr
}

func (c *FaultConn) Fired() bool {
	c.mu.Lock()
	defer c.mu.Unlock()
	return c.fired
}

// Kill closes the socket abruptly.
func (c *FaultConn) Kill() {
	c.mu.Lock()
	c.closed = true
	c.mu.Unlock()
	c.Conn.Close()
}

func (c *FaultConn) Read(b []byte) (int, error) {
	for {
		n, err := c.Conn.Read(b)
		c.mu.Lock()
		armed := c.dir == "r2p" && c.mode != ""
		start := c.rd
		c.rd += int64(n)
		if !armed || n == 0 {
			c.mu.Unlock()
			return n, err
		}
		switch c.mode {
		case "corrupt":
			if !c.fired && c.off >= start && c.off < start+int64(n) {
				b[c.off-start] ^= 0xFF
				c.fired = true
			}
			c.mu.Unlock()
			return n, err
		case "cut":
			if start+int64(n) >= c.off {
				keep := c.off - start
				if keep < 0 {
					keep = 0
				}
				c.fired = true
				c.closed = true
				c.rd = start + keep
				c.mu.Unlock()
				c.Conn.Close()
				if keep == 0 {
					return 0, io.ErrClosedPipe
				}
				return int(keep), nil
			}
			c.mu.Unlock()
			return n, err
		case "stall":
			if start+int64(n) > c.off {
				keep := c.off - start
				if keep < 0 {
					keep = 0
				}
				c.fired = true
				c.mu.Unlock()
				if keep > 0 {
					return int(keep), nil
				}
				if err != nil {
					return 0, err
				}
				continue // swallow and keep reading
			}
			c.mu.Unlock()
			return n, err
		}
		c.mu.Unlock()
		return n, err
	}
}

func (c *FaultConn) Write(b []byte) (int, error) {
	c.mu.Lock()
	armed := c.dir == "p2r" && c.mode != ""
	start := c.wr
	if !armed {
		c.wr += int64(len(b))
		c.mu.Unlock()
		return c.Conn.Write(b)
	}
	switch c.mode {
	case "corrupt":
		c.wr += int64(len(b))
		if !c.fired && c.off >= start && c.off < start+int64(len(b)) {
			cp := append([]byte(nil), b...)
			cp[c.off-start] ^= 0xFF
			c.fired = true
			c.mu.Unlock()
			return c.Conn.Write(cp)
		}
		c.mu.Unlock()
		return c.Conn.Write(b)
	case "cut":
		if start+int64(len(b)) > c.off {
			keep := c.off - start
			if keep < 0 {
				keep = 0
			}
			c.fired = true
			c.closed = true
			c.wr = start + keep
			c.mu.Unlock()
			if keep > 0 {
				c.Conn.Write(b[:keep])
			}
			c.Conn.Close()
			return int(keep), io.ErrClosedPipe
		}
		c.wr += int64(len(b))
		c.mu.Unlock()
		return c.Conn.Write(b)
	case "stall":
		if start+int64(len(b)) > c.off {
			keep := c.off - start
			if keep < 0 {
				keep = 0
			}
			c.fired = true
			c.wr += int64(len(b))
			c.mu.Unlock()
			if keep > 0 {
				c.Conn.Write(b[:keep])
			}
			return len(b), nil // pretend it went out
		}
		c.wr += int64(len(b))
		c.mu.Unlock()
		return c.Conn.Write(b)
	}
	c.wr += int64(len(b))
	c.mu.Unlock()
	return c.Conn.Write(b)
}

// FaultDialer returns a dialer producing FaultConns and a getter for the last one made.
func FaultDialer() (func(string) (net.Conn, error), func() *FaultConn) {
	var mu sync.Mutex
	var last *FaultConn
	dial := func(path string) (net.Conn, error) {
		c, err := net.Dial("unix", path)
		if err != nil {
			return nil, err
		}
		fc := &FaultConn{Conn: c}
		mu.Lock()
		last = fc
		mu.Unlock()
		return fc, nil
	}
	return dial, func() *FaultConn { mu.Lock(); defer mu.Unlock(); return last }
}

// ArmedDialer is FaultDialer whose connections are armed from their first byte (faults during
// the registration handshake).
func ArmedDialer(kind, dir string, off int64) (func(string) (net.Conn, error), func() *FaultConn) {
	var mu sync.Mutex
	var last *FaultConn
	dial := func(path string) (net.Conn, error) {
		c, err := net.Dial("unix", path)
		if err != nil {
			return nil, err
		}
		fc := &FaultConn{Conn: c}
		if kind != "" {
			fc.Arm(kind, dir, off)
		}
		mu.Lock()
		last = fc
		mu.Unlock()
		return fc, nil
	}
	return dial, func() *FaultConn { mu.Lock(); defer mu.Unlock(); return last }
}
